/-
  Proofs/VarsTree — lemmas about loaded role trees and runtime writes (C14). Core Lean only.
-/
import ControlModel.Model.VarsTree
import ControlModel.Proofs.Vars

namespace Vars

theorem lookup_erase (m : KV) (k k' : String) :
    lookup (erase m k) k' = if k = k' then none else lookup m k' := by
  induction m with
  | nil => simp [erase, lookup]
  | cons e rest ih =>
    obtain ⟨a, b⟩ := e
    by_cases h : a = k
    · subst h
      by_cases h' : a = k'
      · subst h'
        simpa [erase] using ih
      · simpa [erase, lookup, h'] using ih
    · by_cases h' : a = k'
      · subst h'
        have : ¬ k = a := fun e => h e.symm
        simp [erase, lookup, h, this]
      · simp [erase, lookup, h, h', ih]

theorem chainAt_updAt (f : KV → KV) (t : Forest) : ∀ (r s : Addr), r ≠ [] →
    chainAt (updAt f t r) s
      = (chainAt t s).map (fun c => if isAnc r s = true then modUser f c (r.length - 1) else c) := by
  induction t with
  | nil => intro r s _; simp [updAt, chainAt]
  | role n kids next ihk ihn =>
    intro r s hr
    match r, hr with
    | [0], _ =>
      match s with
      | [] => simp [updAt, chainAt]
      | [0] => simp [updAt, chainAt, isAnc, modUser]
      | 0 :: j :: rest => simp [updAt, chainAt, isAnc, modUser, Option.map_map, Function.comp_def]
      | (i+1) :: rest => simp [updAt, chainAt, isAnc]
    | 0 :: r1 :: rr, _ =>
      match s with
      | [] => simp [updAt, chainAt]
      | [0] => simp [updAt, chainAt, isAnc]
      | 0 :: j :: rest =>
        have ih := ihk (r1 :: rr) (j :: rest) (by simp)
        have hanc : isAnc (0 :: r1 :: rr) (0 :: j :: rest) = isAnc (r1 :: rr) (j :: rest) := by
          simp [isAnc]
        simp only [updAt, chainAt, ih, Option.map_map, hanc]
        congr 1
        funext c
        simp only [Function.comp_def, List.length_cons]
        split
        · simp [modUser]
        · rfl
      | (i+1) :: rest => simp [updAt, chainAt, isAnc]
    | (i+1) :: rr, _ =>
      match s with
      | [] => simp [updAt, chainAt]
      | [0] => simp [updAt, chainAt, isAnc]
      | 0 :: j :: rest => simp [updAt, chainAt, isAnc, Option.map_map, Function.comp_def]
      | (j+1) :: rest =>
        have ih := ihn (i :: rr) (j :: rest) (by simp)
        have hanc : isAnc ((i + 1) :: rr) ((j + 1) :: rest) = isAnc (i :: rr) (j :: rest) := by
          simp [isAnc]
        simp only [updAt, chainAt, ih, hanc, List.length_cons]

theorem updAt_nil_addr (f : KV → KV) (t : Forest) : updAt f t [] = t := by
  cases t <;> rfl

theorem chainAt_applyWrite (t : Forest) (w : Write) (s : Addr) :
    chainAt (applyWrite t w) s = (chainAt t s).map (fun c => replayWrite s c w) := by
  unfold applyWrite replayWrite
  by_cases h : w.target = []
  · simp [h, updAt_nil_addr]
  · rw [chainAt_updAt _ _ _ _ h]
    simp [h]

theorem chainAt_applyWrites (ws : List Write) : ∀ (t : Forest) (s : Addr),
    chainAt (applyWrites t ws) s = (chainAt t s).map (fun c => replay s c ws) := by
  induction ws with
  | nil => intro t s; simp [applyWrites, replay]
  | cons w ws ih =>
    intro t s
    have := ih (applyWrite t w) s
    simp only [applyWrites, List.foldl_cons] at this ⊢
    rw [this, chainAt_applyWrite, Option.map_map]
    rfl

theorem preorder_updAt (f : KV → KV) (t : Forest) : ∀ (r : Addr) (idx : Nat) (pre : Addr),
    preorder (updAt f t r) idx pre = preorder t idx pre := by
  induction t with
  | nil => intro r idx pre; simp [updAt]
  | role n kids next ihk ihn =>
    intro r idx pre
    match r with
    | [] => simp [updAt]
    | [0] => simp [updAt, preorder, Node.updUser]
    | 0 :: j :: rest => simp [updAt, preorder, ihk]
    | (i+1) :: rest => simp [updAt, preorder, ihn]

theorem preorder_applyWrites (ws : List Write) : ∀ (t : Forest) (idx : Nat) (pre : Addr),
    preorder (applyWrites t ws) idx pre = preorder t idx pre := by
  induction ws with
  | nil => intro t idx pre; rfl
  | cons w ws ih =>
    intro t idx pre
    simp only [applyWrites, List.foldl_cons]
    have := ih (applyWrite t w) idx pre
    simp only [applyWrites] at this
    rw [this]
    exact preorder_updAt _ _ _ _ _

theorem rolesAfter_eq_rolesReplayed (t : Forest) (ws : List Write) (env : Path) (tmpl : Option (KV × KV)) :
    rolesAfter t ws env tmpl = rolesReplayed t ws env tmpl := by
  simp only [rolesAfter, rolesOf, rolesReplayed, preorder_applyWrites, chainAt_applyWrites]

/-- No write of the history was made on `s` or on an ancestor of `s`. -/
def untouched (ws : List Write) (s : Addr) : Bool := ws.all fun w => !(isAnc w.target s) || w.target == []

theorem replay_untouched (s : Addr) (ws : List Write) (h : untouched ws s = true) (c : List Node) :
    replay s c ws = c := by
  induction ws generalizing c with
  | nil => rfl
  | cons w ws ih =>
    simp only [untouched, List.all_cons, Bool.and_eq_true] at h
    have hw : replayWrite s c w = c := by
      unfold replayWrite
      rcases h.1 with h1
      simp only [Bool.or_eq_true, Bool.not_eq_true', beq_iff_eq] at h1
      rcases h1 with h1 | h1
      · simp [h1]
      · simp [h1]
    simp only [replay, List.foldl_cons, hw]
    exact ih h.2 c

/-- levels of a chain (root first) as a role's path: nearest first, then the environment -/
def pathOf (c : List Node) (env : Path) : Path := c.reverse.map (·.own) ++ env

theorem roleInOf_path (env : Path) (tmpl : Option (KV × KV)) (c : List Node) (r : RoleIn)
    (h : roleInOf env tmpl c = some r) : r.path = pathOf c env := by
  unfold roleInOf at h
  split at h
  · cases h
  · rename_i me anc hc
    cases h
    simp [pathOf, hc]

theorem modUser_eq (f : KV → KV) (c : List Node) : ∀ (i : Nat) (hi : i < c.length),
    modUser f c i = c.take i ++ (c[i].updUser f) :: c.drop (i + 1) := by
  induction c with
  | nil => intro i hi; cases hi
  | cons n rest ih =>
    intro i hi
    cases i with
    | zero => simp [modUser]
    | succ i =>
      have := ih i (by simpa using hi)
      simp [modUser, this]

theorem modUser_ge (f : KV → KV) (c : List Node) : ∀ (i : Nat), c.length ≤ i → modUser f c i = c := by
  induction c with
  | nil => intro i _; rfl
  | cons n rest ih =>
    intro i hi
    cases i with
    | zero => simp at hi
    | succ i => simp [modUser, ih i (by simpa using hi)]

theorem map_modUser {β} (g : Node → β) (f : KV → KV) (hg : ∀ n, g (n.updUser f) = g n) (c : List Node) :
    ∀ i, (modUser f c i).map g = c.map g := by
  induction c with
  | nil => intro i; rfl
  | cons n rest ih =>
    intro i
    cases i with
    | zero => simp [modUser, hg]
    | succ i => simp [modUser, ih i]

/-- What a role sees after `f` was applied to the user vars of the `i`-th role of
    its chain: user vars of the roles nearer than that role, then the changed map, then
    everything as before. -/
theorem get_ranked_modUser (f : KV → KV) (c : List Node) (env : Path) (i : Nat) (hi : i < c.length) (k : String) :
    get (ranked (pathOf (modUser f c i) env)) k =
      orElse (get (uChain (pathOf (c.drop (i + 1)) [])) k)
        (orElse (lookup (f c[i].own.userVars) k)
          (orElse (get (uChain (pathOf (c.take i) env)) k)
            (orElse (get (vChain (pathOf c env)) k) (get (dChain (pathOf c env)) k)))) := by
  have hv : vChain (pathOf (modUser f c i) env) = vChain (pathOf c env) := by
    simp only [vChain, pathOf, List.map_append, List.map_map, List.map_reverse]
    rw [map_modUser _ f (fun n => rfl)]
  have hd : dChain (pathOf (modUser f c i) env) = dChain (pathOf c env) := by
    simp only [dChain, pathOf, List.map_append, List.map_map, List.map_reverse]
    rw [map_modUser _ f (fun n => rfl)]
  have hu : uChain (pathOf (modUser f c i) env) =
      uChain (pathOf (c.drop (i + 1)) []) ++ f c[i].own.userVars :: uChain (pathOf (c.take i) env) := by
    rw [modUser_eq f c i hi]
    simp [uChain, pathOf, Node.updUser]
  simp only [ranked, get_append, hv, hd, hu, get_cons, orElse_assoc]

theorem get_ranked_pathOf (c : List Node) (env : Path) (i : Nat) (hi : i < c.length) (k : String) :
    get (ranked (pathOf c env)) k =
      orElse (get (uChain (pathOf (c.drop (i + 1)) [])) k)
        (orElse (lookup c[i].own.userVars k)
          (orElse (get (uChain (pathOf (c.take i) env)) k)
            (orElse (get (vChain (pathOf c env)) k) (get (dChain (pathOf c env)) k)))) := by
  have h := get_ranked_modUser id c env i hi k
  have hid : modUser id c i = c := by
    rw [modUser_eq id c i hi]
    have : c[i].updUser id = c[i] := rfl
    rw [this]; simp
  rw [hid] at h
  exact h

/-! ## addresses -/

theorem isAnc_refl (a : Addr) : isAnc a a = true := by
  induction a with
  | nil => rfl
  | cons x rest ih => simp [isAnc, ih]

theorem isAnc_append (a b : Addr) : isAnc a (a ++ b) = true := by
  induction a with
  | nil => rfl
  | cons x rest ih => simp [isAnc, ih]

/-- Two different children of the same parent: neither is above the other's subtree. -/
theorem isAnc_sibling (pre : Addr) (i j : Nat) (rest : Addr) (h : i ≠ j) :
    isAnc (pre ++ [i]) (pre ++ j :: rest) = false := by
  induction pre with
  | nil => simp [isAnc, h]
  | cons x more ih => simp [isAnc, ih]

/-! ## iterator expansion -/

theorem instancesWith_code (var : String) (n : Node) (kids rest : Forest) (vals : List String) :
    instancesWith codeLoad var n kids rest vals = instances var n kids rest vals := by
  induction vals with
  | nil => rfl
  | cons v vs ih =>
    have h : instantiate codeLoad n var v = withIter n var v := by
      simp [instantiate, LoadCfg.publishes, codeLoad]
    simp only [instancesWith, instances, h, ih]

theorem load_code (t : TForest) : load codeLoad t = expand t := by
  induction t with
  | nil => rfl
  | role n kids next ihk ihn => simp only [load, expand, ihk, ihn]
  | iter var vals n kids next ihk ihn => simp only [load, expand, ihk, ihn, instancesWith_code]

theorem instancesWith_plain (cfg : LoadCfg) (hp : cfg.plainPublishes = true) (var : String) (n : Node) (hn : n.site = false)
    (kids rest : Forest) (vals : List String) :
    instancesWith cfg var n kids rest vals = instances var n kids rest vals := by
  induction vals with
  | nil => rfl
  | cons v vs ih =>
    have h : instantiate cfg n var v = withIter n var v := by
      simp [instantiate, LoadCfg.publishes, hn, hp]
    simp only [instancesWith, instances, h, ih]

theorem load_noIteratedSite (cfg : LoadCfg) (hp : cfg.plainPublishes = true) (t : TForest)
    (h : noIteratedSite t = true) : load cfg t = expand t := by
  induction t with
  | nil => rfl
  | role n kids next ihk ihn =>
    simp only [noIteratedSite, Bool.and_eq_true] at h
    simp only [load, expand, ihk h.1, ihn h.2]
  | iter var vals n kids next ihk ihn =>
    simp only [noIteratedSite, Bool.and_eq_true, Bool.not_eq_true'] at h
    simp only [load, expand, ihk h.1.2, ihn h.2, instancesWith_plain cfg hp var n h.1.1]

/-- The levels a chain contributes around its `i`-th role: the roles below it (nearer), the role, the
    roles above it and the environment. -/
theorem pathOf_split (c : List Node) (env : Path) (i : Nat) (hi : i < c.length) :
    pathOf c env = pathOf (c.drop (i + 1)) [] ++ c[i].own :: pathOf (c.take i) env := by
  have h1 : c.take i ++ c.drop i = c := List.take_append_drop i c
  have h2 : c.drop i = c[i] :: c.drop (i + 1) := List.drop_eq_getElem_cons hi
  calc pathOf c env = pathOf (c.take i ++ c[i] :: c.drop (i + 1)) env := by rw [← h2, h1]
    _ = _ := by
      simp only [pathOf, List.reverse_append, List.reverse_cons, List.map_append, List.map_cons,
        List.append_assoc, List.cons_append, List.nil_append, List.append_nil]

/-- Below an instance of an iterator the iteration variable is a VAR of that instance: a var of a role
    nearer than the instance still wins, nothing above the instance is consulted. -/
theorem get_vChain_withIter (c : List Node) (env : Path) (i : Nat) (hi : i < c.length) (n : Node) (var val : String)
    (hc : c[i] = withIter n var val) :
    get (vChain (pathOf c env)) var = orElse (get (vChain (pathOf (c.drop (i + 1)) [])) var) (some val) := by
  rw [pathOf_split c env i hi, hc]
  simp only [vChain, List.map_append, List.map_cons, get_append, get_cons, withIter, lookup_set, if_true]
  cases get (List.map (fun x => x.vars) (pathOf (List.drop (i + 1) c) [])) var <;> rfl

theorem chainAt_instances (var : String) (n : Node) (kids rest : Forest) (vals : List String) :
    ∀ (j : Nat) (hj : j < vals.length) (more : Addr),
      chainAt (instances var n kids rest vals) (j :: more)
        = chainAt (.role (withIter n var vals[j]) kids .nil) (0 :: more) := by
  induction vals with
  | nil => intro j hj; cases hj
  | cons v vs ih =>
    intro j hj more
    cases j with
    | zero => cases more <;> simp [instances, chainAt]
    | succ j =>
      have := ih j (by simpa using hj) more
      simp only [instances, chainAt, this, List.getElem_cons_succ]

theorem chainAt_instances_rest (var : String) (n : Node) (kids rest : Forest) (vals : List String) :
    ∀ (j : Nat) (more : Addr),
      chainAt (instances var n kids rest vals) ((vals.length + j) :: more) = chainAt rest (j :: more) := by
  induction vals with
  | nil => intro j more; simp [instances]
  | cons v vs ih =>
    intro j more
    have := ih j more
    have hidx : (v :: vs).length + j = (vs.length + j) + 1 := by simp; omega
    rw [hidx]
    simp only [instances, chainAt, this]

end Vars
