/-
  Proofs/Writer — invariants of the writer model, preserved by every step, hence
  true after every schedule.
-/
import ControlModel.Model.Writer
import ControlModel.Spec.C19

namespace Writer

/-! ## popBatch -/

section pop
variable (c : Cfg) (s : State)

@[simp] theorem popBatch_pubs : (popBatch c s).pubs = s.pubs := by unfold popBatch; split <;> rfl
@[simp] theorem popBatch_chan : (popBatch c s).chan = s.chan := by unfold popBatch; split <;> rfl
@[simp] theorem popBatch_hand : (popBatch c s).hand = s.hand := by unfold popBatch; split <;> rfl
@[simp] theorem popBatch_closed : (popBatch c s).closed = s.closed := by unfold popBatch; split <;> rfl
@[simp] theorem popBatch_bpc : (popBatch c s).bpc = s.bpc := by unfold popBatch; split <;> rfl
@[simp] theorem popBatch_doneTok : (popBatch c s).doneTok = s.doneTok := by unfold popBatch; split <;> rfl
@[simp] theorem popBatch_sawDone : (popBatch c s).sawDone = s.sawDone := by unfold popBatch; split <;> rfl
@[simp] theorem popBatch_released : (popBatch c s).released = s.released := by unfold popBatch; split <;> rfl
@[simp] theorem popBatch_closeCompleted : (popBatch c s).closeCompleted = s.closeCompleted := by
  unfold popBatch; split <;> rfl

@[simp] theorem popBatch_wStarted : (popBatch c s).wStarted = s.wStarted := by unfold popBatch; split <;> rfl
@[simp] theorem popBatch_bStarted : (popBatch c s).bStarted = s.bStarted := by unfold popBatch; split <;> rfl
@[simp] theorem popBatch_wg : (popBatch c s).wg = s.wg := by unfold popBatch; split <;> rfl

theorem popBatch_wpc : (popBatch c s).wpc = .select ∨ (popBatch c s).wpc = .writing := by
  unfold popBatch; split <;> simp

theorem popBatch_cons : delivered (popBatch c s) ++ (popBatch c s).buf = delivered s ++ s.buf := by
  unfold popBatch; split
  · rfl
  · simp [delivered, List.append_assoc]

theorem popBatch_bound (h : ∀ b ∈ s.written, 0 < b.length ∧ b.length ≤ c.batchMax) :
    ∀ b ∈ (popBatch c s).written, 0 < b.length ∧ b.length ≤ c.batchMax := by
  unfold popBatch; split
  · exact h
  · rename_i hne
    intro b hb
    simp only [List.mem_append, List.mem_singleton] at hb
    rcases hb with hb | hb
    · exact h b hb
    · subst hb
      refine ⟨?_, ?_⟩
      · cases hx : List.take c.batchMax s.buf with
        | nil => simp [hx] at hne
        | cons a l => simp
      · simp [List.length_take]; omega

end pop

/-! ## enabled = the goroutine runs ∧ the statement's guard holds -/

theorem ready_of_enabled {c : Cfg} {s : State} {st : Step} (h : enabled c s st = true) : ready c s st = true := by
  simp only [enabled, Bool.and_eq_true] at h; exact h.2

theorem started_of_enabled {c : Cfg} {s : State} {st : Step} (h : enabled c s st = true) : started s st = true := by
  simp only [enabled, Bool.and_eq_true] at h; exact h.1

theorem enabled_of {c : Cfg} {s : State} {st : Step} (h1 : started s st = true) (h2 : ready c s st = true) :
    enabled c s st = true := by
  simp only [enabled, Bool.and_eq_true]; exact ⟨h1, h2⟩

/-! ## the invariant -/

structure Inv (c : Cfg) (s : State) : Prop where
  /-- nothing is lost, duplicated or reordered between the stages -/
  cons : delivered s ++ s.buf ++ s.hand.toList ++ s.chan = s.pubs
  /-- producer `p`'s events are numbered 0,1,2,… in publication order -/
  seqs : ∀ p, seqsOf p s.pubs = List.range (nextSeq s p)
  fresh : ∀ e ∈ s.pubs, e.2 < nextSeq s e.1
  nodup : s.pubs.Nodup
  bound : ∀ b ∈ s.written, 0 < b.length ∧ b.length ≤ c.batchMax
  /-- the batching loop leaves its `range` only when the channel is closed and empty -/
  batcherGone : s.bpc ≠ .loop → s.chan = [] ∧ s.hand = none ∧ s.closed = true
  /-- the done token exists / was consumed only after that -/
  tokAfter : (s.doneTok = true ∨ s.sawDone = true ∨ s.wpc = .exited) → s.bpc ≠ .loop
  /-- with the drain repair the writing loop returns only with an empty buffer -/
  drained : c.drainOnDone = true → s.wpc = .exited → s.buf = []
  relAfter : s.bpc = .exited → s.released = true
  /-- with the sticky-release repair nobody waits once the batching loop is gone -/
  noOrphan : c.releaseSticky = true → s.wpc = .waiting → s.bpc ≠ .exited

theorem inv_init (c : Cfg) : Inv c init := by
  constructor <;> simp [init, delivered, seqsOf, nextSeq]

theorem wake_ne_waiting (w : WPc) : wake w ≠ .waiting := by
  unfold wake; split <;> simp_all

theorem wake_exited (w : WPc) : wake w = .exited ↔ w = .exited := by
  unfold wake; split <;> simp_all

private theorem countP_snoc_self (l : List Ev) (p n : Nat) :
    List.countP (fun e => e.1 == p) (l ++ [(p, n)]) = List.countP (fun e => e.1 == p) l + 1 := by
  simp [List.countP_append]

private theorem countP_snoc_other (l : List Ev) (p q n : Nat) (h : q ≠ p) :
    List.countP (fun e => e.1 == p) (l ++ [(q, n)]) = List.countP (fun e => e.1 == p) l := by
  simp [List.countP_append, h]

theorem inv_publish (c : Cfg) (s : State) (p : Nat) (h : Inv c s)
    (hen : enabled c s (.publish p) = true) : Inv c (fire c s (.publish p)) := by
  replace hen := ready_of_enabled hen
  simp only [ready, Bool.and_eq_true, Bool.not_eq_true', decide_eq_true_eq] at hen
  have hloop : s.bpc = .loop := by
    cases hb : s.bpc with
    | loop => rfl
    | signalled => have := (h.batcherGone (by simp [hb])).2.2; simp [hen.1] at this
    | exited => have := (h.batcherGone (by simp [hb])).2.2; simp [hen.1] at this
  constructor
  · simp only [fire, delivered]
    have := h.cons
    simp only [delivered] at this
    rw [← this]
    simp [List.append_assoc]
  · intro q
    simp only [fire, seqsOf, nextSeq]
    by_cases hq : p = q
    · subst hq
      rw [countP_snoc_self]
      have := h.seqs p
      simp only [seqsOf, nextSeq] at this
      simp [List.filter_append, this, List.range_succ]
    · rw [countP_snoc_other _ _ _ _ hq]
      have := h.seqs q
      simp only [seqsOf, nextSeq] at this
      simp [List.filter_append, this, hq]
  · intro e he
    simp only [fire, nextSeq] at he ⊢
    simp only [List.mem_append, List.mem_singleton] at he
    rcases he with he | he
    · have := h.fresh e he
      simp only [nextSeq] at this
      by_cases hq : p = e.1
      · rw [← hq] at this ⊢; rw [countP_snoc_self]; omega
      · rw [countP_snoc_other _ _ _ _ hq]; exact this
    · subst he
      simp only [nextSeq]
      rw [countP_snoc_self]; omega
  · simp only [fire]
    rw [List.nodup_append]
    refine ⟨h.nodup, by simp, ?_⟩
    intro a ha b hb
    simp only [List.mem_singleton] at hb
    subst hb
    intro hab
    subst hab
    have := h.fresh _ ha
    simp at this
  · exact h.bound
  · intro hb; simp [fire] at hb; exact absurd hloop hb
  · intro hx; simp only [fire] at hx ⊢; exact h.tokAfter hx
  · intro hd he; simp [fire] at *; exact h.drained hd he
  · intro hb; simp [fire] at *; exact h.relAfter hb
  · intro hs hw; simp [fire] at *; exact h.noOrphan hs hw

/-- Fields that only mention `pubs` carry over when `pubs` is untouched. -/
private theorem pubs_fields {c : Cfg} {s s' : State} (h : Inv c s) (hp : s'.pubs = s.pubs) :
    (∀ p, seqsOf p s'.pubs = List.range (nextSeq s' p)) ∧ (∀ e ∈ s'.pubs, e.2 < nextSeq s' e.1) ∧ s'.pubs.Nodup := by
  refine ⟨?_, ?_, ?_⟩
  · intro p; have := h.seqs p; simp only [nextSeq] at this ⊢; rw [hp]; exact this
  · intro e he; rw [hp] at he; have := h.fresh e he; simp only [nextSeq] at this ⊢; rw [hp]; exact this
  · rw [hp]; exact h.nodup

private theorem head_tail (l : List Ev) : l.head?.toList ++ l.tail = l := by cases l <;> simp

theorem inv_fire (c : Cfg) (s : State) (st : Step) (h : Inv c s) (hen : enabled c s st = true) :
    Inv c (fire c s st) := by
  cases st with
  | publish p => exact inv_publish c s p h hen
  | batchRecv =>
    replace hen := ready_of_enabled hen
    simp only [ready, Bool.and_eq_true, beq_iff_eq, Option.isNone_iff_eq_none, Bool.not_eq_true'] at hen
    obtain ⟨⟨hl, hh⟩, hc⟩ := hen
    have hp : (fire c s .batchRecv).pubs = s.pubs := rfl
    obtain ⟨h1, h2, h3⟩ := pubs_fields h hp
    refine ⟨?_, h1, h2, h3, h.bound, ?_, ?_, ?_, ?_, ?_⟩
    · have := h.cons; simp only [fire, delivered, hh] at this ⊢
      rw [← this]; simp [List.append_assoc, head_tail]
    · intro hb; exact absurd hl hb
    · intro hx; exact h.tokAfter hx
    · intro hd he; exact h.drained hd he
    · intro hb; exact h.relAfter hb
    · intro hs hw; exact h.noOrphan hs hw
  | batchPush =>
    replace hen := ready_of_enabled hen
    simp only [ready, Bool.and_eq_true, beq_iff_eq] at hen
    obtain ⟨hl, hh⟩ := hen
    have hp : (fire c s .batchPush).pubs = s.pubs := rfl
    obtain ⟨h1, h2, h3⟩ := pubs_fields h hp
    refine ⟨?_, h1, h2, h3, h.bound, ?_, ?_, ?_, ?_, ?_⟩
    · have := h.cons; simp only [fire, delivered] at this ⊢
      rw [← this]; simp [List.append_assoc]
    · intro hb; exact absurd hl hb
    · intro hx; simp only [fire, wake_exited] at hx; exact h.tokAfter hx
    · intro _ he; simp only [fire, wake_exited] at he; exact absurd hl (h.tokAfter (Or.inr (Or.inr he)))
    · intro hb; exact h.relAfter hb
    · intro _ hw; exact absurd hw (wake_ne_waiting _)
  | close =>
    have hp : (fire c s .close).pubs = s.pubs := rfl
    obtain ⟨h1, h2, h3⟩ := pubs_fields h hp
    refine ⟨h.cons, h1, h2, h3, h.bound, ?_, h.tokAfter, h.drained, h.relAfter, h.noOrphan⟩
    intro hb; have := h.batcherGone hb; exact ⟨this.1, this.2.1, rfl⟩
  | batchDone =>
    replace hen := ready_of_enabled hen
    simp only [ready, Bool.and_eq_true, beq_iff_eq, Option.isNone_iff_eq_none, List.isEmpty_iff] at hen
    obtain ⟨⟨⟨hl, hh⟩, hc⟩, hcl⟩ := hen
    have hp : (fire c s .batchDone).pubs = s.pubs := rfl
    obtain ⟨h1, h2, h3⟩ := pubs_fields h hp
    refine ⟨h.cons, h1, h2, h3, h.bound, ?_, ?_, h.drained, ?_, ?_⟩
    · intro _; exact ⟨hc, hh, hcl⟩
    · intro _; simp [fire]
    · intro hb; simp [fire] at hb
    · intro _ _; simp [fire]
  | broadcast =>
    replace hen := ready_of_enabled hen
    simp only [ready, beq_iff_eq] at hen
    have hp : (fire c s .broadcast).pubs = s.pubs := rfl
    obtain ⟨h1, h2, h3⟩ := pubs_fields h hp
    refine ⟨h.cons, h1, h2, h3, h.bound, ?_, ?_, ?_, ?_, ?_⟩
    · intro _; exact h.batcherGone (by rw [hen]; simp)
    · intro _; simp [fire]
    · intro hd he; simp only [fire, wake_exited] at he; exact h.drained hd he
    · intro _; rfl
    · intro _ hw; exact absurd hw (wake_ne_waiting _)
  | writerSelect =>
    replace hen := ready_of_enabled hen
    simp only [ready, beq_iff_eq] at hen
    by_cases htok : (s.doneTok || s.sawDone) = true
    · have hbl : s.bpc ≠ .loop := h.tokAfter (by
        simp only [Bool.or_eq_true] at htok; rcases htok with ht | ht
        · exact Or.inl ht
        · exact Or.inr (Or.inl ht))
      by_cases hdr : (c.drainOnDone && !s.buf.isEmpty) = true
      · have hf : fire c s .writerSelect = popBatch c { s with doneTok := false, sawDone := true } := by
          simp only [fire, htok, hdr, if_true]
        rw [hf]
        have hp : (popBatch c { s with doneTok := false, sawDone := true }).pubs = s.pubs := by simp
        obtain ⟨h1, h2, h3⟩ := pubs_fields h hp
        have hw := popBatch_wpc c { s with doneTok := false, sawDone := true }
        refine ⟨?_, h1, h2, h3, popBatch_bound c _ h.bound, ?_, ?_, ?_, ?_, ?_⟩
        · have := popBatch_cons c { s with doneTok := false, sawDone := true }
          simp only [popBatch_hand, popBatch_chan, popBatch_pubs]
          rw [this]; exact h.cons
        · intro hb; simp only [popBatch_bpc, popBatch_chan, popBatch_hand, popBatch_closed] at hb ⊢; exact h.batcherGone hb
        · intro _; simp only [popBatch_bpc]; exact hbl
        · intro _ he; rcases hw with hw | hw <;> rw [hw] at he <;> cases he
        · intro hb; simp only [popBatch_bpc, popBatch_released] at hb ⊢; exact h.relAfter hb
        · intro _ he; rcases hw with hw | hw <;> rw [hw] at he <;> cases he
      · have hf : fire c s .writerSelect = { s with doneTok := false, sawDone := true, wpc := .exited, wg := s.wg - 1 } := by
          simp only [fire, htok, hdr, if_true]; rfl
        rw [hf]
        have hp : ({ s with doneTok := false, sawDone := true, wpc := .exited, wg := s.wg - 1 } : State).pubs = s.pubs := rfl
        obtain ⟨h1, h2, h3⟩ := pubs_fields h hp
        refine ⟨h.cons, h1, h2, h3, h.bound, h.batcherGone, ?_, ?_, h.relAfter, ?_⟩
        · intro _; exact hbl
        · intro hd _
          simp only [hd, Bool.true_and, Bool.not_eq_true', Bool.not_eq_false] at hdr
          simpa [List.isEmpty_iff] using hdr
        · intro _ he; cases he
    · have hf : fire c s .writerSelect = { s with wpc := .wantPop } := by
        simp only [fire, htok]; rfl
      rw [hf]
      have hp : ({ s with wpc := .wantPop } : State).pubs = s.pubs := rfl
      obtain ⟨h1, h2, h3⟩ := pubs_fields h hp
      refine ⟨h.cons, h1, h2, h3, h.bound, h.batcherGone, ?_, ?_, h.relAfter, ?_⟩
      · intro hx
        rcases hx with hx | hx | hx
        · exact h.tokAfter (Or.inl hx)
        · exact h.tokAfter (Or.inr (Or.inl hx))
        · cases hx
      · intro _ he; cases he
      · intro _ he; cases he
  | writerPop =>
    replace hen := ready_of_enabled hen
    simp only [ready, beq_iff_eq] at hen
    by_cases hemp : s.buf.isEmpty = true
    · by_cases hst : (c.releaseSticky && s.released) = true
      · have hf : fire c s .writerPop = { s with wpc := .select } := by simp only [fire, hemp, hst, if_true]
        rw [hf]
        have hp : ({ s with wpc := .select } : State).pubs = s.pubs := rfl
        obtain ⟨h1, h2, h3⟩ := pubs_fields h hp
        refine ⟨h.cons, h1, h2, h3, h.bound, h.batcherGone, ?_, ?_, h.relAfter, ?_⟩
        · intro hx
          rcases hx with hx | hx | hx
          · exact h.tokAfter (Or.inl hx)
          · exact h.tokAfter (Or.inr (Or.inl hx))
          · cases hx
        · intro _ he; cases he
        · intro _ he; cases he
      · have hf : fire c s .writerPop = { s with wpc := .waiting } := by
          simp only [fire, hemp, hst, if_true]; rfl
        rw [hf]
        have hp : ({ s with wpc := .waiting } : State).pubs = s.pubs := rfl
        obtain ⟨h1, h2, h3⟩ := pubs_fields h hp
        refine ⟨h.cons, h1, h2, h3, h.bound, h.batcherGone, ?_, ?_, h.relAfter, ?_⟩
        · intro hx
          rcases hx with hx | hx | hx
          · exact h.tokAfter (Or.inl hx)
          · exact h.tokAfter (Or.inr (Or.inl hx))
          · cases hx
        · intro _ he; cases he
        · intro hs _ hb
          have := h.relAfter hb
          simp [hs, this] at hst
    · have hf : fire c s .writerPop = popBatch c s := by simp only [fire, hemp]; rfl
      rw [hf]
      have hp : (popBatch c s).pubs = s.pubs := by simp
      obtain ⟨h1, h2, h3⟩ := pubs_fields h hp
      have hw := popBatch_wpc c s
      refine ⟨?_, h1, h2, h3, popBatch_bound c _ h.bound, ?_, ?_, ?_, ?_, ?_⟩
      · have := popBatch_cons c s
        simp only [popBatch_hand, popBatch_chan, popBatch_pubs]
        rw [this]; exact h.cons
      · intro hb; simp only [popBatch_bpc, popBatch_chan, popBatch_hand, popBatch_closed] at hb ⊢; exact h.batcherGone hb
      · intro hx; simp only [popBatch_bpc, popBatch_doneTok, popBatch_sawDone] at hx ⊢
        rcases hx with hx | hx | hx
        · exact h.tokAfter (Or.inl hx)
        · exact h.tokAfter (Or.inr (Or.inl hx))
        · rcases hw with hw | hw <;> rw [hw] at hx <;> cases hx
      · intro _ he; rcases hw with hw | hw <;> rw [hw] at he <;> cases he
      · intro hb; simp only [popBatch_bpc, popBatch_released] at hb ⊢; exact h.relAfter hb
      · intro _ he; rcases hw with hw | hw <;> rw [hw] at he <;> cases he
  | writerWake =>
    replace hen := ready_of_enabled hen
    simp only [ready, beq_iff_eq] at hen
    by_cases hemp : s.buf.isEmpty = true
    · have hf : fire c s .writerWake = { s with wpc := .select } := by simp only [fire, hemp, if_true]
      rw [hf]
      have hp : ({ s with wpc := .select } : State).pubs = s.pubs := rfl
      obtain ⟨h1, h2, h3⟩ := pubs_fields h hp
      refine ⟨h.cons, h1, h2, h3, h.bound, h.batcherGone, ?_, ?_, h.relAfter, ?_⟩
      · intro hx
        rcases hx with hx | hx | hx
        · exact h.tokAfter (Or.inl hx)
        · exact h.tokAfter (Or.inr (Or.inl hx))
        · cases hx
      · intro _ he; cases he
      · intro _ he; cases he
    · have hf : fire c s .writerWake = popBatch c s := by simp only [fire, hemp]; rfl
      rw [hf]
      have hp : (popBatch c s).pubs = s.pubs := by simp
      obtain ⟨h1, h2, h3⟩ := pubs_fields h hp
      have hw := popBatch_wpc c s
      refine ⟨?_, h1, h2, h3, popBatch_bound c _ h.bound, ?_, ?_, ?_, ?_, ?_⟩
      · have := popBatch_cons c s
        simp only [popBatch_hand, popBatch_chan, popBatch_pubs]
        rw [this]; exact h.cons
      · intro hb; simp only [popBatch_bpc, popBatch_chan, popBatch_hand, popBatch_closed] at hb ⊢; exact h.batcherGone hb
      · intro hx; simp only [popBatch_bpc, popBatch_doneTok, popBatch_sawDone] at hx ⊢
        rcases hx with hx | hx | hx
        · exact h.tokAfter (Or.inl hx)
        · exact h.tokAfter (Or.inr (Or.inl hx))
        · rcases hw with hw | hw <;> rw [hw] at hx <;> cases hx
      · intro _ he; rcases hw with hw | hw <;> rw [hw] at he <;> cases he
      · intro hb; simp only [popBatch_bpc, popBatch_released] at hb ⊢; exact h.relAfter hb
      · intro _ he; rcases hw with hw | hw <;> rw [hw] at he <;> cases he
  | writeDone =>
    replace hen := ready_of_enabled hen
    simp only [ready, beq_iff_eq] at hen
    have hp : (fire c s .writeDone).pubs = s.pubs := rfl
    obtain ⟨h1, h2, h3⟩ := pubs_fields h hp
    refine ⟨h.cons, h1, h2, h3, h.bound, h.batcherGone, ?_, ?_, h.relAfter, ?_⟩
    · intro hx
      rcases hx with hx | hx | hx
      · exact h.tokAfter (Or.inl hx)
      · exact h.tokAfter (Or.inr (Or.inl hx))
      · cases hx
    · intro _ he; cases he
    · intro _ he; cases he
  | closeReturn =>
    have hp : (fire c s .closeReturn).pubs = s.pubs := rfl
    obtain ⟨h1, h2, h3⟩ := pubs_fields h hp
    exact ⟨h.cons, h1, h2, h3, h.bound, h.batcherGone, h.tokAfter, h.drained, h.relAfter, h.noOrphan⟩
  | writerStart =>
    have hp : (fire c s .writerStart).pubs = s.pubs := rfl
    obtain ⟨h1, h2, h3⟩ := pubs_fields h hp
    exact ⟨h.cons, h1, h2, h3, h.bound, h.batcherGone, h.tokAfter, h.drained, h.relAfter, h.noOrphan⟩
  | batchStart =>
    have hp : (fire c s .batchStart).pubs = s.pubs := rfl
    obtain ⟨h1, h2, h3⟩ := pubs_fields h hp
    exact ⟨h.cons, h1, h2, h3, h.bound, h.batcherGone, h.tokAfter, h.drained, h.relAfter, h.noOrphan⟩

theorem inv_step (c : Cfg) (s : State) (st : Step) (h : Inv c s) : Inv c (step c s st) := by
  unfold step; split
  · exact inv_fire c s st h ‹_›
  · exact h

theorem inv_run (c : Cfg) (s : State) (sched : List Step) (h : Inv c s) : Inv c (run c s sched) := by
  induction sched generalizing s with
  | nil => exact h
  | cons st rest ih => exact ih _ (inv_step c s st h)

/-- The invariant holds after every schedule from the initial state. -/
theorem inv_reach (c : Cfg) (sched : List Step) : Inv c (run c init sched) := inv_run c init sched (inv_init c)

/-! ## third invariant: the WaitGroup counts the workers that have not finished

  For the code (`selfRegister = false`): Close() adds 2 before it closes the channel, a worker
  finishes (`Done()`) only after the channel was closed, so after Close() was called the counter is
  exactly the number of workers that have not finished — started or not — and `Wait()` cannot
  return before both have; a worker that has not been scheduled yet stands at the top of its
  function.  (The counter never goes below zero: a worker that finishes finds it at ≥ 1.) -/

def liveW (w : WPc) : Nat := if w = .exited then 0 else 1
def liveB (b : BPc) : Nat := if b = .exited then 0 else 1

structure InvW (s : State) : Prop where
  counted : s.wg = if s.closed then liveW s.wpc + liveB s.bpc else 0
  completed : s.closeCompleted = true → s.closed = true ∧ s.wpc = .exited ∧ s.bpc = .exited
  wUn : s.wStarted = false → s.wpc = .select
  bUn : s.bStarted = false → s.bpc = .loop

theorem invW_init : InvW init := by constructor <;> simp [init]

theorem liveW_wake (w : WPc) : liveW (wake w) = liveW w := by
  unfold liveW wake; cases w <;> simp

theorem liveW_of_ne {w : WPc} (h : w ≠ .exited) : liveW w = 1 := by simp [liveW, h]
theorem liveB_of_ne {b : BPc} (h : b ≠ .exited) : liveB b = 1 := by simp [liveB, h]

/-- The writing loop moves between program counters other than `exited`: nothing of `InvW` changes. -/
private theorem invW_wpc {s s' : State} (hw : InvW s) (hne : s.wpc ≠ .exited) (hne' : s'.wpc ≠ .exited)
    (hst : s.wStarted = true)
    (e1 : s'.wg = s.wg) (e2 : s'.closed = s.closed) (e3 : s'.bpc = s.bpc) (e4 : s'.closeCompleted = s.closeCompleted)
    (e5 : s'.wStarted = s.wStarted) (e6 : s'.bStarted = s.bStarted) : InvW s' := by
  refine ⟨?_, ?_, ?_, ?_⟩
  · rw [e1, e2, e3, liveW_of_ne hne', hw.counted, liveW_of_ne hne]
  · intro hc; rw [e4] at hc; exact absurd (hw.completed hc).2.1 hne
  · intro h; rw [e5, hst] at h; cases h
  · intro h; rw [e6] at h; rw [e3]; exact hw.bUn h

theorem invW_fire (c : Cfg) (hsr : c.selfRegister = false) (s : State) (st : Step) (h : Inv c s) (hw : InvW s)
    (hen : enabled c s st = true) : InvW (fire c s st) := by
  have hst := started_of_enabled hen
  replace hen := ready_of_enabled hen
  -- before Close was called nobody has finished
  have hopen : s.closed = false → s.wpc ≠ .exited ∧ s.bpc ≠ .exited := by
    intro hcl
    refine ⟨?_, ?_⟩
    · intro he
      have := (h.batcherGone (h.tokAfter (Or.inr (Or.inr he)))).2.2
      rw [hcl] at this; cases this
    · intro he
      have := (h.batcherGone (by rw [he]; simp)).2.2
      rw [hcl] at this; cases this
  cases st with
  | publish p => exact ⟨hw.counted, hw.completed, hw.wUn, hw.bUn⟩
  | batchRecv => exact ⟨hw.counted, hw.completed, hw.wUn, hw.bUn⟩
  | batchPush =>
    refine ⟨?_, ?_, ?_, hw.bUn⟩
    · simp only [fire, liveW_wake]; exact hw.counted
    · intro hc; simp only [fire, wake_exited]; exact hw.completed hc
    · intro hu; simp only [fire]; rw [hw.wUn hu]; rfl
  | close =>
    simp only [ready, Bool.not_eq_true'] at hen
    obtain ⟨h1, h2⟩ := hopen hen
    refine ⟨?_, ?_, hw.wUn, hw.bUn⟩
    · have := hw.counted
      simp only [hen, Bool.false_eq_true, if_false] at this
      simp only [fire, hsr, Bool.false_eq_true, if_false, if_true, liveW_of_ne h1, liveB_of_ne h2, this]
    · intro hc; have := (hw.completed hc).1; rw [hen] at this; cases this
  | batchDone =>
    simp only [ready, Bool.and_eq_true, beq_iff_eq] at hen
    simp only [started] at hst
    obtain ⟨⟨⟨hl, _⟩, _⟩, _⟩ := hen
    refine ⟨?_, ?_, hw.wUn, ?_⟩
    · have := hw.counted
      simp only [fire]
      rw [this]; simp [liveB, hl]
    · intro hc; have := (hw.completed hc).2.2; rw [hl] at this; cases this
    · intro hu; simp only [fire] at hu; rw [hst] at hu; cases hu
  | broadcast =>
    simp only [ready, beq_iff_eq] at hen
    simp only [started] at hst
    have hcl : s.closed = true := (h.batcherGone (by rw [hen]; simp)).2.2
    refine ⟨?_, ?_, ?_, ?_⟩
    · have := hw.counted
      simp only [hcl, if_true, liveB_of_ne (show s.bpc ≠ .exited by rw [hen]; simp)] at this
      simp only [fire, hcl, if_true, liveW_wake, this, liveB]
      simp
    · intro hc; have := (hw.completed hc).2.2; rw [hen] at this; cases this
    · intro hu; simp only [fire]; rw [hw.wUn hu]; rfl
    · intro hu; simp only [fire] at hu; rw [hst] at hu; cases hu
  | writerSelect =>
    simp only [ready, beq_iff_eq] at hen
    simp only [started] at hst
    have hne : s.wpc ≠ .exited := by rw [hen]; simp
    by_cases htok : (s.doneTok || s.sawDone) = true
    · by_cases hdr : (c.drainOnDone && !s.buf.isEmpty) = true
      · have hf : fire c s .writerSelect = popBatch c { s with doneTok := false, sawDone := true } := by
          simp only [fire, htok, hdr, if_true]
        rw [hf]
        have hp := popBatch_wpc c { s with doneTok := false, sawDone := true }
        refine invW_wpc hw hne ?_ hst (by simp) (by simp) (by simp) (by simp) (by simp) (by simp)
        rcases hp with hp | hp <;> rw [hp] <;> simp
      · have hf : fire c s .writerSelect = { s with doneTok := false, sawDone := true, wpc := .exited, wg := s.wg - 1 } := by
          simp only [fire, htok, hdr, if_true]; rfl
        rw [hf]
        have hbl : s.bpc ≠ .loop := h.tokAfter (by
          simp only [Bool.or_eq_true] at htok; rcases htok with ht | ht
          · exact Or.inl ht
          · exact Or.inr (Or.inl ht))
        have hcl : s.closed = true := (h.batcherGone hbl).2.2
        refine ⟨?_, ?_, ?_, hw.bUn⟩
        · have := hw.counted
          simp only [hcl, if_true, liveW_of_ne hne] at this
          simp only [hcl, if_true, this, liveW]
          simp
        · intro hc; exact absurd (hw.completed hc).2.1 hne
        · intro hu; change s.wStarted = false at hu; rw [hst] at hu; cases hu
    · have hf : fire c s .writerSelect = { s with wpc := .wantPop } := by
        simp only [fire, htok]; rfl
      rw [hf]
      exact invW_wpc hw hne (by simp) hst rfl rfl rfl rfl rfl rfl
  | writerPop =>
    simp only [ready, beq_iff_eq] at hen
    simp only [started] at hst
    have hne : s.wpc ≠ .exited := by rw [hen]; simp
    by_cases hemp : s.buf.isEmpty = true
    · by_cases hs : (c.releaseSticky && s.released) = true
      · have hf : fire c s .writerPop = { s with wpc := .select } := by simp only [fire, hemp, hs, if_true]
        rw [hf]; exact invW_wpc hw hne (by simp) hst rfl rfl rfl rfl rfl rfl
      · have hf : fire c s .writerPop = { s with wpc := .waiting } := by
          simp only [fire, hemp, hs, if_true]; rfl
        rw [hf]; exact invW_wpc hw hne (by simp) hst rfl rfl rfl rfl rfl rfl
    · have hf : fire c s .writerPop = popBatch c s := by simp only [fire, hemp]; rfl
      rw [hf]
      have hp := popBatch_wpc c s
      refine invW_wpc hw hne ?_ hst (by simp) (by simp) (by simp) (by simp) (by simp) (by simp)
      rcases hp with hp | hp <;> rw [hp] <;> simp
  | writerWake =>
    simp only [ready, beq_iff_eq] at hen
    simp only [started] at hst
    have hne : s.wpc ≠ .exited := by rw [hen]; simp
    by_cases hemp : s.buf.isEmpty = true
    · have hf : fire c s .writerWake = { s with wpc := .select } := by simp only [fire, hemp, if_true]
      rw [hf]; exact invW_wpc hw hne (by simp) hst rfl rfl rfl rfl rfl rfl
    · have hf : fire c s .writerWake = popBatch c s := by simp only [fire, hemp]; rfl
      rw [hf]
      have hp := popBatch_wpc c s
      refine invW_wpc hw hne ?_ hst (by simp) (by simp) (by simp) (by simp) (by simp) (by simp)
      rcases hp with hp | hp <;> rw [hp] <;> simp
  | writeDone =>
    simp only [ready, beq_iff_eq] at hen
    simp only [started] at hst
    have hne : s.wpc ≠ .exited := by rw [hen]; simp
    exact invW_wpc hw hne (by simp [fire]) hst rfl rfl rfl rfl rfl rfl
  | closeReturn =>
    simp only [ready, Bool.and_eq_true, beq_iff_eq, Bool.not_eq_true'] at hen
    obtain ⟨⟨hcl, hz⟩, _⟩ := hen
    refine ⟨hw.counted, ?_, hw.wUn, hw.bUn⟩
    intro _
    have := hw.counted
    simp only [hcl, if_true, hz] at this
    have h1 : liveW s.wpc = 0 := by omega
    have h2 : liveB s.bpc = 0 := by omega
    refine ⟨hcl, ?_, ?_⟩
    · show s.wpc = .exited
      exact Decidable.byContradiction fun hne => by rw [liveW_of_ne hne] at h1; cases h1
    · show s.bpc = .exited
      exact Decidable.byContradiction fun hne => by rw [liveB_of_ne hne] at h2; cases h2
  | writerStart =>
    refine ⟨?_, hw.completed, ?_, hw.bUn⟩
    · simp only [fire, hsr, Bool.false_eq_true, if_false]; exact hw.counted
    · intro hu; simp [fire] at hu
  | batchStart =>
    refine ⟨?_, hw.completed, hw.wUn, ?_⟩
    · simp only [fire, hsr, Bool.false_eq_true, if_false]; exact hw.counted
    · intro hu; simp [fire] at hu

theorem invW_run (c : Cfg) (hsr : c.selfRegister = false) (s : State) (sched : List Step) (h : Inv c s) (hw : InvW s) :
    InvW (run c s sched) := by
  induction sched generalizing s with
  | nil => exact hw
  | cons st rest ih =>
    refine ih _ (inv_step c s st h) ?_
    unfold step; split
    · exact invW_fire c hsr s st h hw ‹_›
    · exact hw

/-- After every schedule of a configuration in which Close() counts the workers. -/
theorem invW_reach (c : Cfg) (hsr : c.selfRegister = false) (sched : List Step) : InvW (run c init sched) :=
  invW_run c hsr init sched (inv_init c) invW_init

/-- Once Close() has returned nothing at all can happen in the writer: both workers have finished
    (so they had been scheduled), the channel is closed, Close() is not called twice. -/
theorem nothing_enabled_after_return (c : Cfg) (s : State) (hw : InvW s) (hc : s.closeCompleted = true)
    (st : Step) : enabled c s st = false := by
  obtain ⟨hcl, hwp, hbp⟩ := hw.completed hc
  have hws : s.wStarted = true := by
    cases hx : s.wStarted with
    | true => rfl
    | false => have := hw.wUn hx; rw [hwp] at this; cases this
  have hbs : s.bStarted = true := by
    cases hx : s.bStarted with
    | true => rfl
    | false => have := hw.bUn hx; rw [hbp] at this; cases this
  cases st <;> simp [enabled, started, ready, hcl, hwp, hbp, hc, hws, hbs]

theorem run_after_return (c : Cfg) (s : State) (hw : InvW s) (hc : s.closeCompleted = true) (post : List Step) :
    run c s post = s := by
  induction post with
  | nil => rfl
  | cons st rest ih =>
    show run c (step c s st) rest = s
    have : step c s st = s := by simp [step, nothing_enabled_after_return c s hw hc st]
    rw [this]; exact ih

/-! ## second invariant: the release flag and the done token -/

structure Inv2 (s : State) : Prop where
  relOnly : s.released = true → s.bpc = .exited
  tokMade : s.bpc ≠ .loop → (s.doneTok = true ∨ s.sawDone = true)

theorem inv2_init : Inv2 init := by constructor <;> simp [init]

theorem inv2_fire (c : Cfg) (s : State) (st : Step) (h : Inv2 s) (hen : enabled c s st = true) :
    Inv2 (fire c s st) := by
  obtain ⟨hr, ht⟩ := h
  replace hen := ready_of_enabled hen
  cases st with
  | publish p => exact ⟨hr, ht⟩
  | batchRecv => exact ⟨hr, ht⟩
  | batchPush => exact ⟨hr, ht⟩
  | close => exact ⟨hr, ht⟩
  | batchDone =>
    simp only [ready, Bool.and_eq_true, beq_iff_eq] at hen
    refine ⟨?_, fun _ => Or.inl rfl⟩
    intro hx; have := hr hx; rw [this] at hen; simp at hen
  | broadcast =>
    simp only [ready, beq_iff_eq] at hen
    exact ⟨fun _ => rfl, fun _ => ht (by rw [hen]; simp)⟩
  | writerSelect =>
    simp only [fire]
    split
    · split
      · constructor
        · simpa using hr
        · intro _; simp
      · exact ⟨hr, fun _ => Or.inr rfl⟩
    · exact ⟨hr, ht⟩
  | writerPop =>
    simp only [fire]
    split
    · split <;> exact ⟨hr, ht⟩
    · constructor
      · simpa using hr
      · simpa using ht
  | writerWake =>
    simp only [fire]
    split
    · exact ⟨hr, ht⟩
    · constructor
      · simpa using hr
      · simpa using ht
  | writeDone => exact ⟨hr, ht⟩
  | closeReturn => exact ⟨hr, ht⟩
  | writerStart => exact ⟨hr, ht⟩
  | batchStart => exact ⟨hr, ht⟩

theorem inv2_reach (c : Cfg) (sched : List Step) : Inv2 (run c init sched) := by
  suffices ∀ s, Inv2 s → Inv2 (run c s sched) from this _ inv2_init
  induction sched with
  | nil => intro s h; exact h
  | cons st rest ih =>
    intro s h; apply ih
    unfold step; split
    · exact inv2_fire c s st h ‹_›
    · exact h

/-! ## progress after Close: a measure that every enabled step decreases -/

def wRankOf (w : WPc) (released : Bool) : Nat :=
  match w with
  | .woken => 6 | .writing => 5 | .select => 4
  | .wantPop => if released then 5 else 3
  | .waiting => 2 | .exited => 0

def bRank : BPc → Nat
  | .loop => 8 | .signalled => 7 | .exited => 0

def b2n (b : Bool) (n : Nat) : Nat := if b then n else 0

/-- Upper bound on the number of steps that can still happen once the channel is closed. -/
def rank (s : State) : Nat :=
  9 * s.chan.length + b2n s.hand.isSome 8 + 3 * s.buf.length + wRankOf s.wpc s.released + bRank s.bpc +
    b2n (!s.closeCompleted) 1 + b2n (!s.wStarted) 1 + b2n (!s.bStarted) 1

theorem popBatch_rank (c : Cfg) (s : State) (hb : 0 < c.batchMax) (hne : s.buf ≠ []) :
    (popBatch c s).wpc = .writing ∧ 3 * (popBatch c s).buf.length + 3 ≤ 3 * s.buf.length := by
  unfold popBatch
  cases hbuf : s.buf with
  | nil => exact absurd hbuf hne
  | cons a l =>
    have : (List.take c.batchMax (a :: l)).isEmpty = false := by
      cases hm : c.batchMax with
      | zero => omega
      | succ n => simp
    simp only [this, Bool.false_eq_true, if_false, List.length_drop, List.length_cons]
    refine ⟨trivial, ?_⟩
    omega

theorem rank_popBatch (c : Cfg) (hb : 0 < c.batchMax) (s : State) (hne : s.buf ≠ []) :
    rank (popBatch c s) + wRankOf s.wpc s.released + 3 ≤ rank s + 5 := by
  have := popBatch_rank c s hb hne
  have h3 := this.2
  simp only [rank, this.1, popBatch_chan, popBatch_hand, popBatch_bpc, popBatch_closeCompleted, popBatch_released, popBatch_wStarted, popBatch_bStarted]
  simp only [wRankOf]
  omega

theorem wRank_wake_le (w : WPc) (r r' : Bool) : wRankOf (wake w) r' ≤ wRankOf w r + 4 := by
  unfold wRankOf wake
  cases w <;> cases r <;> cases r' <;> simp

theorem rank_fire (c : Cfg) (hb : 0 < c.batchMax) (s : State) (h2 : Inv2 s) (hcl : s.closed = true)
    (st : Step) (hen : enabled c s st = true) : rank (fire c s st) < rank s := by
  replace hen := ready_of_enabled hen
  cases st with
  | publish p => simp [ready, hcl] at hen
  | close => simp [ready, hcl] at hen
  | batchRecv =>
    simp only [ready, Bool.and_eq_true, beq_iff_eq, Option.isNone_iff_eq_none, Bool.not_eq_true'] at hen
    obtain ⟨⟨_, hh⟩, hc⟩ := hen
    cases hch : s.chan with
    | nil => simp [hch] at hc
    | cons a l =>
      simp only [rank, fire, hch, hh, List.head?_cons, List.tail_cons, List.length_cons, Option.isSome_some,
        Option.isSome_none, b2n, if_true, Bool.false_eq_true, if_false]
      omega
  | batchPush =>
    simp only [ready, Bool.and_eq_true, beq_iff_eq] at hen
    obtain ⟨_, hh⟩ := hen
    cases hhd : s.hand with
    | none => simp [hhd] at hh
    | some e =>
      have hw := wRank_wake_le s.wpc s.released s.released
      simp only [rank, fire, hhd, Option.toList_some, List.length_append, List.length_singleton,
        Option.isSome_some, Option.isSome_none, b2n, if_true, Bool.false_eq_true, if_false]
      omega
  | batchDone =>
    simp only [ready, Bool.and_eq_true, beq_iff_eq] at hen
    obtain ⟨⟨⟨hl, _⟩, _⟩, _⟩ := hen
    simp only [rank, fire, hl, bRank]
    omega
  | broadcast =>
    simp only [ready, beq_iff_eq] at hen
    have hw := wRank_wake_le s.wpc s.released true
    simp only [rank, fire, hen, bRank]
    omega
  | writerSelect =>
    simp only [ready, beq_iff_eq] at hen
    simp only [fire]
    split
    · split
      · rename_i hdr
        simp only [Bool.and_eq_true, Bool.not_eq_true', List.isEmpty_eq_false_iff] at hdr
        have := rank_popBatch c hb { s with doneTok := false, sawDone := true } hdr.2
        have he : rank { s with doneTok := false, sawDone := true } = rank s := rfl
        rw [he] at this
        have hw : wRankOf s.wpc s.released = 4 := by rw [hen]; rfl
        change _ + wRankOf s.wpc s.released + 3 ≤ _ at this
        omega
      · simp only [rank, wRankOf, hen]; omega
    · rename_i htok
      have hrel : s.released = false := by
        cases hr : s.released with
        | false => rfl
        | true =>
          have hb' := h2.relOnly hr
          have := h2.tokMade (by rw [hb']; simp)
          simp only [Bool.or_eq_true] at htok
          exact absurd this htok
      simp only [rank, wRankOf, hen, hrel]; simp
  | writerPop =>
    simp only [ready, beq_iff_eq] at hen
    simp only [fire]
    split
    · split
      · rename_i hst
        simp only [Bool.and_eq_true] at hst
        simp only [rank, wRankOf, hen, hst.2]; simp
      · simp only [rank, wRankOf, hen]; split <;> omega
    · rename_i hne
      simp only [List.isEmpty_iff] at hne
      have := popBatch_rank c s hb hne
      have h3 := this.2
      simp only [rank, wRankOf, this.1, hen, popBatch_chan, popBatch_hand, popBatch_bpc, popBatch_closeCompleted,
        popBatch_released, popBatch_wStarted, popBatch_bStarted]
      split <;> omega
  | writerWake =>
    simp only [ready, beq_iff_eq] at hen
    simp only [fire]
    split
    · simp only [rank, wRankOf, hen]; omega
    · rename_i hne
      simp only [List.isEmpty_iff] at hne
      have := popBatch_rank c s hb hne
      have h3 := this.2
      simp only [rank, wRankOf, this.1, hen, popBatch_chan, popBatch_hand, popBatch_bpc, popBatch_closeCompleted,
        popBatch_released, popBatch_wStarted, popBatch_bStarted]
      omega
  | writeDone =>
    simp only [ready, beq_iff_eq] at hen
    simp only [rank, fire, wRankOf, hen]; omega
  | closeReturn =>
    simp only [ready, Bool.and_eq_true, beq_iff_eq, Bool.not_eq_true'] at hen
    obtain ⟨_, hcc⟩ := hen
    simp only [rank, fire, hcc, Bool.not_false, Bool.not_true]
    have e1 : b2n true 1 = 1 := rfl
    have e0 : b2n false 1 = 0 := rfl
    omega
  | writerStart =>
    simp only [ready, Bool.not_eq_true'] at hen
    simp only [rank, fire, hen, Bool.not_false, Bool.not_true]
    have e1 : b2n true 1 = 1 := rfl
    have e0 : b2n false 1 = 0 := rfl
    omega
  | batchStart =>
    simp only [ready, Bool.not_eq_true'] at hen
    simp only [rank, fire, hen, Bool.not_false, Bool.not_true]
    have e1 : b2n true 1 = 1 := rfl
    have e0 : b2n false 1 = 0 := rfl
    omega

/-! ## deadlock analysis -/

/-- In ANY state in which Close has been called and has not returned, some step
    other than a publication is enabled — except when the writing loop waits on
    the condition variable and the batching loop is gone. -/
theorem stuck_is_lostWakeup (c : Cfg) (s : State) (hcl : s.closed = true) (hnc : s.closeCompleted = false)
    (hwg : s.wpc = .exited → s.bpc = .exited → s.wg = 0)
    (hnp : canProgress c s = false) : lostWakeup s = true := by
  simp only [canProgress, Step.internal, List.any_cons, List.any_nil, Bool.or_false, Bool.or_eq_false_iff] at hnp
  obtain ⟨h1, h2, _, h4, h5, h6, h7, h8, h9, h10, h11, h12⟩ := hnp
  -- both workers have been scheduled: otherwise their start step is enabled
  have hws : s.wStarted = true := by
    cases hx : s.wStarted with
    | true => rfl
    | false => simp [enabled, started, ready, hx] at h11
  have hbs : s.bStarted = true := by
    cases hx : s.bStarted with
    | true => rfl
    | false => simp [enabled, started, ready, hx] at h12
  simp only [enabled, started, ready, hws, hbs, hcl, hnc, Bool.true_and, Bool.and_true, Bool.not_false] at h1 h2 h4 h5 h6 h7 h8 h9 h10
  simp only [lostWakeup, Bool.and_eq_true, beq_iff_eq]
  cases hb : s.bpc with
  | loop =>
    exfalso
    simp only [hb] at h1 h2 h4
    cases hh : s.hand with
    | some e => simp [hh] at h2
    | none =>
      cases hch : s.chan with
      | nil => simp [hh, hch] at h4
      | cons a l => simp [hh, hch] at h1
  | signalled => simp [hb] at h5
  | exited =>
    cases hw : s.wpc with
    | waiting => exact ⟨rfl, rfl⟩
    | select => simp [hw] at h6
    | wantPop => simp [hw] at h7
    | woken => simp [hw] at h8
    | writing => simp [hw] at h9
    | exited => simp [hwg hw hb] at h10

theorem step_closed (c : Cfg) (s : State) (st : Step) (h : s.closed = true) : (step c s st).closed = true := by
  unfold step; split
  · cases st <;> simp only [fire] <;> (try split) <;> (try split) <;> simp [h]
  · exact h

theorem inv2_step (c : Cfg) (s : State) (st : Step) (h : Inv2 s) : Inv2 (step c s st) := by
  unfold step; split
  · exact inv2_fire c s st h ‹_›
  · exact h

/-- After Close, a run made of enabled steps is no longer than the measure. -/
theorem run_bounded (c : Cfg) (hb : 0 < c.batchMax) (s : State) (more : List Step)
    (h2 : Inv2 s) (hcl : s.closed = true) (hen : allEnabled c s more = true) :
    more.length + rank (run c s more) ≤ rank s := by
  induction more generalizing s with
  | nil => simp [run]
  | cons st rest ih =>
    simp only [allEnabled, Bool.and_eq_true] at hen
    have hlt := rank_fire c hb s h2 hcl st hen.1
    have hs : step c s st = fire c s st := by simp [step, hen.1]
    have := ih (step c s st) (inv2_step c s st h2) (step_closed c s st hcl) hen.2
    simp only [run, List.length_cons]
    rw [hs] at this ⊢
    omega

/-! ## order facts -/

theorem prefix_range (l : List Nat) (n : Nat) (h : l <+: List.range n) : l = List.range l.length := by
  have := List.prefix_iff_eq_take.mp h
  rw [this, List.take_range, List.length_range]

theorem seqsOf_prefix (p : Nat) (d l : List Ev) (h : d <+: l) : seqsOf p d <+: seqsOf p l := by
  obtain ⟨t, rfl⟩ := h
  simp [seqsOf, List.filter_append]

theorem seqsOf_length (p : Nat) (d : List Ev) : (seqsOf p d).length = countOf p d := by
  simp [seqsOf, countOf, List.countP_eq_length_filter]

/-- Every prefix of a correctly numbered publication order is correctly numbered. -/
theorem orderedOnce_of_prefix (d l : List Ev) (h : d <+: l)
    (hl : ∀ p, seqsOf p l = List.range (countOf p l)) :
    (∀ p, seqsOf p d = List.range (countOf p d)) ∧ orderedOnce d = true := by
  have key : ∀ p, seqsOf p d = List.range (countOf p d) := by
    intro p
    have h1 := seqsOf_prefix p d l h
    rw [hl p] at h1
    have := prefix_range _ _ h1
    rw [seqsOf_length] at this
    exact this
  refine ⟨key, ?_⟩
  simp only [orderedOnce, List.all_eq_true, beq_iff_eq]
  intro p _
  exact key p

/-! ## the batching loop alone keeps producers from blocking -/

/-- One round "push what is in hand, receive the next message, publish". -/
def feed (p : Nat) : List Step := [.batchPush, .batchRecv, .publish p]

def feedN (p : Nat) : Nat → List Step
  | 0 => []
  | n + 1 => feed p ++ feedN p n

/-- What the rounds need and keep: channel open, batching loop running (it has been scheduled and
    ranges over the channel), channel within capacity. -/
def Feedable (c : Cfg) (s : State) : Prop :=
  s.closed = false ∧ s.bpc = .loop ∧ s.chan.length ≤ c.cap ∧ s.bStarted = true

theorem feed_round (c : Cfg) (hcap : 0 < c.cap) (s : State) (p : Nat) (h : Feedable c s) :
    let s' := run c s (feed p)
    Feedable c s' ∧ s'.pubs.length = s.pubs.length + 1 ∧ s'.written = s.written ∧
    (s'.wpc = s.wpc ∨ (s.wpc = .waiting ∧ s'.wpc = .woken)) := by
  obtain ⟨hcl, hl, hlen, hbs⟩ := h
  -- after the push the hand is empty
  have hpush : ∃ s1, step c s .batchPush = s1 ∧ s1.closed = false ∧ s1.bpc = .loop ∧ s1.chan = s.chan ∧
      s1.hand = none ∧ s1.pubs = s.pubs ∧ s1.written = s.written ∧ s1.bStarted = true ∧
      (s1.wpc = s.wpc ∨ (s.wpc = .waiting ∧ s1.wpc = .woken)) := by
    refine ⟨_, rfl, ?_⟩
    cases hh : s.hand with
    | none => simp [step, enabled, started, ready, hh, hcl, hl, hbs]
    | some e =>
      simp only [step, enabled, started, ready, hbs, hh, hl, beq_self_eq_true, Option.isSome_some, Bool.and_self, if_true, fire]
      refine ⟨hcl, trivial, trivial, trivial, trivial, trivial, trivial, ?_⟩
      unfold wake; split
      · right; exact ⟨‹_›, rfl⟩
      · left; rfl
  obtain ⟨s1, e1, hcl1, hl1, hch1, hh1, hp1, hw1, hbs1, hwpc1⟩ := hpush
  have hrecv : ∃ s2, step c s1 .batchRecv = s2 ∧ s2.closed = false ∧ s2.bpc = .loop ∧ s2.chan.length < c.cap ∧
      s2.pubs = s1.pubs ∧ s2.written = s1.written ∧ s2.wpc = s1.wpc ∧ s2.bStarted = true := by
    refine ⟨_, rfl, ?_⟩
    cases hc : s1.chan with
    | nil => simp [step, enabled, started, ready, hc, hcl1, hl1, hcap, hbs1]
    | cons a l =>
      have : l.length < c.cap := by rw [hch1] at hc; rw [hc] at hlen; simp at hlen; omega
      simp [step, enabled, started, ready, hc, hcl1, hl1, hh1, fire, this, hbs1]
  obtain ⟨s2, e2, hcl2, hl2, hlen2, hp2, hw2, hwpc2, hbs2⟩ := hrecv
  have hen : enabled c s2 (.publish p) = true := by simp [enabled, started, ready, hcl2, hlen2]
  have hr : run c s (feed p) = fire c s2 (.publish p) := by
    simp only [feed, run]; rw [e1, e2]; simp only [step, hen, if_true]
  intro s'
  have hs' : s' = fire c s2 (.publish p) := hr
  rw [hs']
  simp only [fire]
  refine ⟨⟨hcl2, hl2, ?_, hbs2⟩, ?_, ?_, ?_⟩
  · simp; omega
  · simp [hp2, hp1]
  · rw [hw2, hw1]
  · rw [hwpc2]; exact hwpc1

theorem run_append (c : Cfg) (s : State) (a b : List Step) : run c s (a ++ b) = run c (run c s a) b := by
  induction a generalizing s with
  | nil => rfl
  | cons st rest ih => exact ih _

theorem feedN_spec (c : Cfg) (hcap : 0 < c.cap) (p n : Nat) (s : State) (h : Feedable c s) :
    let s' := run c s (feedN p n)
    Feedable c s' ∧ s'.pubs.length = s.pubs.length + n ∧ s'.written = s.written ∧
    (s.wpc ≠ .waiting → s'.wpc = s.wpc) := by
  induction n generalizing s with
  | zero => exact ⟨h, rfl, rfl, fun _ => rfl⟩
  | succ n ih =>
    obtain ⟨hf, hp, hw, hwpc⟩ := feed_round c hcap s p h
    obtain ⟨hf', hp', hw', hwpc'⟩ := ih (run c s (feed p)) hf
    simp only [feedN, run_append]
    refine ⟨hf', by rw [hp', hp]; omega, by rw [hw', hw], ?_⟩
    intro hne
    rcases hwpc with e | ⟨e, _⟩
    · rw [hwpc' (by rw [e]; exact hne), e]
    · exact absurd e hne

/-! ## the hand-over: accepted ⇒ in the pipeline; a full channel blocks the producer -/

theorem chan_le_cap_fire (c : Cfg) (s : State) (st : Step) (h : s.chan.length ≤ c.cap)
    (hen : enabled c s st = true) : (fire c s st).chan.length ≤ c.cap := by
  replace hen := ready_of_enabled hen
  cases st with
  | publish p =>
    simp only [ready, Bool.and_eq_true, decide_eq_true_eq] at hen
    simp only [fire, List.length_append, List.length_singleton]
    omega
  | batchRecv => simp only [fire, List.length_tail]; omega
  | writerSelect =>
    simp only [fire]
    split
    · split
      · simpa using h
      · exact h
    · exact h
  | writerPop =>
    simp only [fire]
    split
    · split <;> exact h
    · simpa using h
  | writerWake =>
    simp only [fire]
    split
    · exact h
    · simpa using h
  | batchPush => exact h
  | close => exact h
  | batchDone => exact h
  | broadcast => exact h
  | writeDone => exact h
  | closeReturn => exact h
  | writerStart => exact h
  | batchStart => exact h

/-- The channel never holds more than its capacity, after any schedule. -/
theorem chan_le_cap_run (c : Cfg) (s : State) (sched : List Step) (h : s.chan.length ≤ c.cap) :
    (run c s sched).chan.length ≤ c.cap := by
  induction sched generalizing s with
  | nil => exact h
  | cons st rest ih =>
    apply ih
    unfold step; split
    · exact chan_le_cap_fire c s st h ‹_›
    · exact h

theorem chan_le_cap_reach (c : Cfg) (sched : List Step) : (run c init sched).chan.length ≤ c.cap :=
  chan_le_cap_run c init sched (by simp [init])

theorem countOf_append (p : Nat) (a b : List Ev) : countOf p (a ++ b) = countOf p a + countOf p b := by
  simp [countOf, List.countP_append]

theorem sum_indicator (a n : Nat) :
    ((List.range n).map fun p => if a == p then 1 else 0).sum = if a < n then 1 else 0 := by
  induction n with
  | zero => simp
  | succ n ih =>
    rw [List.range_succ, List.map_append, List.sum_append, ih]
    simp only [List.map_cons, List.map_nil, List.sum_cons, List.sum_nil, beq_iff_eq]
    split <;> split <;> split <;> omega

theorem sum_map_add (l : List Nat) (f g : Nat → Nat) :
    (l.map fun p => f p + g p).sum = (l.map f).sum + (l.map g).sum := by
  induction l with
  | nil => rfl
  | cons a l ih => simp only [List.map_cons, List.sum_cons, ih]; omega

/-- The per-producer counts of any `np` producers add up to at most the number of events. -/
theorem sum_counts_le (np : Nat) (l : List Ev) :
    ((List.range np).map fun p => countOf p l).sum ≤ l.length := by
  induction l with
  | nil =>
    have : ∀ l : List Nat, (l.map fun _ => 0).sum = 0 := by
      intro l; induction l with
      | nil => rfl
      | cons a l ih => simp [ih]
    simp [countOf, this]
  | cons e l ih =>
    have h : ((List.range np).map fun p => countOf p (e :: l)) =
        ((List.range np).map fun p => countOf p l + (if e.1 == p then 1 else 0)) := by
      apply List.map_congr_left
      intro p _
      simp only [countOf, List.countP_cons]
    rw [h, sum_map_add, sum_indicator]
    simp only [List.length_cons]
    split <;> omega

end Writer
