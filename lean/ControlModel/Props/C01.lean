/-
  Props/C01 — "Environment state changes only along the documented graph, one at a time".

  The model (Model/Env.lean) is tied to /repo by
    * `C01_fsm_is_code`: its transition table is the table obtained on this run by
      firing every event in every state on a real Environment (Gen/EnvFsm.lean);
    * the correspondence run (harness/envh): real Environment, real fsm, real
      TryTransition / TeardownEnvironment, compared step by step by the trace monitor.
-/
import ControlModel.Gen.EnvFsm
import ControlModel.Proofs.Env

open EnvM

def stIdx : St → Nat
  | .STANDBY => 0 | .DEPLOYED => 1 | .CONFIGURED => 2 | .RUNNING => 3 | .ERROR => 4 | .DONE => 5
def evIdx : Ev → Nat
  | .DEPLOY => 0 | .CONFIGURE => 1 | .RESET => 2 | .START_ACTIVITY => 3 | .STOP_ACTIVITY => 4
  | .EXIT => 5 | .GO_ERROR => 6 | .RECOVER => 7

/-- The model's table IS the transition table of the fsm.FSM the code builds:
    same names in the same order, and for each of the 48 (event, state) cells the
    same verdict and destination. -/
theorem C01_fsm_is_code :
    Gen.envStates = St.all.map St.name ∧ Gen.envEvents = Ev.all.map Ev.name ∧
    ∀ (e : Ev) (s : St),
      (dst? e s).map stIdx =
        ((Gen.envFsm.find? (fun t => t.1 == evIdx e && t.2.1 == stIdx s)).map (·.2.2)) := by
  refine ⟨by decide, by decide, ?_⟩
  intro e s; cases e <;> cases s <;> decide

/-! ## the state graph -/

theorem api_edge (e : Ev) (s d : St) (he : e.isApi = true ∨ e = .GO_ERROR) (h : dst? e s = some d) :
    docEdge s d = true ∧ d ≠ .DONE ∧ s.live = true := by
  rcases he with he | he
  · cases e <;> cases s <;> simp [dst?] at h <;> subst h <;> simp_all [docEdge, Ev.isApi, St.live] <;> decide
  · subst he; cases s <;> simp [dst?] at h <;> subst h <;> decide

theorem docEdge_refl (s : St) : docEdge s s = true := by cases s <;> decide

/-- Invariant carried along request sequences: an environment in DONE is no longer listed. -/
def DoneIsGone (env : Env) : Prop := env.st = .DONE → env.gone = true

theorem try_edge (hooks : List Hook) (env : Env) (e : Ev) (b r : Bool)
    (he : e.isApi = true ∨ e = .GO_ERROR) (hinv : DoneIsGone env) :
    docEdge env.st (tryTransition env hooks e b r).1.st = true ∧ DoneIsGone (tryTransition env hooks e b r).1 := by
  unfold tryTransition
  obtain ⟨hg, h | ⟨d, hd, hst, _⟩⟩ := fsmEvent_st env hooks e b r
  · rw [h.1]; exact ⟨docEdge_refl _, fun hD => by rw [hg]; exact hinv (h.1 ▸ hD)⟩
  · obtain ⟨h1, h2, _⟩ := api_edge e env.st d he hd
    refine hst ▸ ?_; exact ⟨h1, fun hD => absurd (hst.symm.trans hD) h2⟩

theorem control_edge (hooks : List Hook) (env : Env) (e : Ev) (b r : Bool)
    (he : e.isApi = true) (hinv : DoneIsGone env) (hng : env.gone = false) :
    docEdge env.st (controlApi env hooks e b r).1.st = true ∧ DoneIsGone (controlApi env hooks e b r).1 ∧
    ((controlApi env hooks e b r).2.2.isOk = false → (controlApi env hooks e b r).1.st = .ERROR) := by
  have hnd : env.st ≠ .DONE := fun h => by have := hinv h; simp [hng] at this
  rcases controlApi_cases hooks env e b r with ⟨hok, heq⟩ | ⟨hnok, hE, hg, _⟩
  · have := try_edge hooks env e b r (Or.inl he) hinv
    rw [heq]; exact ⟨this.1, this.2, fun h => by rw [heq] at hok; simp [hok] at h⟩
  · refine ⟨?_, (by intro hD; rw [hE] at hD; cases hD), fun _ => hE⟩
    rw [hE]; revert hnd; cases env.st <;> simp [docEdge, St.live]

/-- One in-scope request moves the reported state along a documented edge (or not at
    all) and keeps "DONE ⇒ unlisted". -/
theorem C01_step_edge (hooks : List Hook) (n : Nat) (env : Env) (q : Req)
    (hq : q.inScope = true) (hinv : DoneIsGone env) :
    docEdge env.st (step hooks n env q).1.st = true ∧ DoneIsGone (step hooks n env q).1 := by
  cases q with
  | try_ e b r =>
    simp only [Req.inScope, Bool.or_eq_true, beq_iff_eq] at hq
    exact try_edge hooks env e b r hq hinv
  | control e b r =>
    simp only [step]
    split
    · exact ⟨docEdge_refl _, hinv⟩
    · rename_i hg
      have := control_edge hooks env e b r hq hinv (by simpa using hg)
      exact ⟨this.1, this.2.1⟩
  | teardown f r1 r2 =>
    simp only [step]
    split
    · exact ⟨docEdge_refl _, hinv⟩
    · rcases teardown_st env hooks f r1 r2 n with ⟨h1, h2, _⟩ | ⟨hnd, h1, h2, _⟩
      · rw [h1]; exact ⟨docEdge_refl _, (by intro hD; rw [h2]; exact hinv (h1 ▸ hD))⟩
      · rw [h1]; exact ⟨by revert hnd; cases env.st <;> simp [docEdge], fun _ => h2⟩

/-- States reported after each request of a sequence. -/
def reported (hooks : List Hook) (n : Nat) (env : Env) (qs : List Req) : List St :=
  (runSeq hooks n env qs).map (·.2.2.st)

def chainOk : St → List St → Bool
  | _, [] => true
  | s, s' :: rest => docEdge s s' && chainOk s' rest

/-- C01, graph clause: for EVERY hook set, EVERY sequence of in-scope requests
    (API control requests, teardowns, internal GO_ERROR) of any length and with any
    combination of failing hooks, failing bodies, failing run-number acquisition and
    failing releases, consecutive reported states are joined by documented edges. -/
theorem C01_graph (hooks : List Hook) (n : Nat) (qs : List Req) (hq : qs.all Req.inScope = true)
    (env : Env) (hinv : DoneIsGone env) :
    chainOk env.st (reported hooks n env qs) = true := by
  induction qs generalizing env with
  | nil => rfl
  | cons q qs ih =>
    simp only [List.all_cons, Bool.and_eq_true] at hq
    obtain ⟨h1, h2⟩ := C01_step_edge hooks n env q hq.1 hinv
    simp only [reported, runSeq, List.map_cons, chainOk, Bool.and_eq_true]
    exact ⟨h1, ih hq.2 _ h2⟩

/-- …in particular from a freshly created environment. -/
theorem C01_graph_from_new (hooks : List Hook) (n : Nat) (qs : List Req) (hq : qs.all Req.inScope = true) :
    chainOk .STANDBY (reported hooks n {} qs) = true :=
  C01_graph hooks n qs hq {} (fun h => by cases h)

/-- DONE is terminal: once a sequence of in-scope requests has reported DONE, every later
    report is DONE (the environment is unlisted; API requests answer "not found"). -/
theorem C01_done_terminal (hooks : List Hook) (n : Nat) (qs : List Req) (hq : qs.all Req.inScope = true)
    (env : Env) (hinv : DoneIsGone env) (hd : env.st = .DONE) :
    ∀ s ∈ reported hooks n env qs, s = .DONE := by
  induction qs generalizing env with
  | nil => intro s hs; simp [reported, runSeq] at hs
  | cons q qs ih =>
    simp only [List.all_cons, Bool.and_eq_true] at hq
    obtain ⟨h1, h2⟩ := C01_step_edge hooks n env q hq.1 hinv
    have hst : (step hooks n env q).1.st = .DONE := by
      rw [hd] at h1; revert h1; cases (step hooks n env q).1.st <;> simp [docEdge, St.live, Ev.all, Ev.isApi, dst?]
    intro s hs
    simp only [reported, runSeq, List.map_cons, List.mem_cons] at hs
    rcases hs with hs | hs
    · rw [hs]; exact hst
    · exact ih hq.2 _ h2 hst s hs

/-- An illegal request is never executed: no hook starts, no body runs, nothing changes. -/
theorem C01_illegal_inert (hooks : List Hook) (env : Env) (e : Ev) (b r : Bool) (h : dst? e env.st = none) :
    tryTransition env hooks e b r = (env, [], .illegal) := by
  unfold tryTransition fsmEvent; rw [h]

/-- Through the API an illegal request contributes NO step of its own — everything that
    runs is the GO_ERROR fallback (whose no-op body is not a task command) — is answered
    with an error, and leaves the environment in ERROR. -/
theorem C01_illegal_api (hooks : List Hook) (env : Env) (e : Ev) (b r : Bool) (he : e.isApi = true)
    (h : dst? e env.st = none) (hinv : DoneIsGone env) (hng : env.gone = false) :
    (controlApi env hooks e b r).2.2 = .illegal ∧ (controlApi env hooks e b r).1.st = .ERROR ∧
    let gs := (tryTransition env hooks .GO_ERROR true false).2.1.filter (fun s => match s with | .body .. => false | _ => true)
    ((controlApi env hooks e b r).2.1 = gs ∨ (controlApi env hooks e b r).2.1 = gs ++ [Step.setState .ERROR]) := by
  have hE := (control_edge hooks env e b r he hinv hng).2.2
  have hres : (controlApi env hooks e b r).2.2 = .illegal := by
    rcases controlApi_cases hooks env e b r with ⟨_, heq⟩ | ⟨_, _, _, hr⟩
    · rw [heq, C01_illegal_inert hooks env e b r h]
    · rw [hr, C01_illegal_inert hooks env e b r h]
  refine ⟨hres, hE (by rw [hres]; rfl), ?_⟩
  unfold controlApi
  rw [C01_illegal_inert hooks env e b r h]
  simp only [show Result.illegal.isOk = false from rfl, Bool.false_eq_true, if_false, List.nil_append]
  split
  · exact Or.inl rfl
  · exact Or.inr rfl

/-- A request made through the API that does not succeed leaves the environment in ERROR. -/
theorem C01_failed_goes_error (hooks : List Hook) (env : Env) (e : Ev) (b r : Bool) (he : e.isApi = true)
    (hinv : DoneIsGone env) (hng : env.gone = false)
    (hfail : (controlApi env hooks e b r).2.2.isOk = false) :
    (controlApi env hooks e b r).1.st = .ERROR :=
  (control_edge hooks env e b r he hinv hng).2.2 hfail

/-- Non-vacuity: a concrete walk with a critical hook that fails once, through the API. -/
example :
    let hooks : List Hook := [{ id := 0, isTask := false, critical := true, trig := .before .CONFIGURE, tw := 0,
                                await := .before .CONFIGURE, aw := 0, outcomes := [true] }]
    reported hooks 1 {} [.control .DEPLOY true false, .control .CONFIGURE true false, .teardown true true true]
      = [.DEPLOYED, .ERROR, .DONE] := by decide
