/-
  Props/C01 — "Environment state changes only along the documented graph, one at a time".

  The model (Model/Env.lean) is tied to /repo by
    * `C01_fsm_is_code`: its transition table is the table obtained on this run by
      firing every event in every state on a real Environment (Gen/EnvFsm.lean);
    * `C01_glue_is_code`: the condition under which `controlApi` forces ERROR is the one
      written in RpcServer.ControlEnvironment (go/ast, Gen/EnvGlue.lean);
    * the correspondence run (harness/envh): real Environment, real fsm, real
      TryTransition / TeardownEnvironment, compared step by step by the trace monitor.
-/
import ControlModel.Gen.EnvFsm
import ControlModel.Gen.EnvLocks
import ControlModel.Gen.EnvGlue
import ControlModel.Gen.FailureFacts
import ControlModel.Proofs.Env
import ControlModel.Proofs.EnvConc
import ControlModel.Proofs.EnvPair
import ControlModel.Proofs.EnvPhase
import ControlModel.Spec.C01

open EnvM

def stIdx : St → Nat
  | .STANDBY => 0 | .DEPLOYED => 1 | .CONFIGURED => 2 | .RUNNING => 3 | .ERROR => 4 | .DONE => 5
def evIdx : Ev → Nat
  | .DEPLOY => 0 | .CONFIGURE => 1 | .RESET => 2 | .START_ACTIVITY => 3 | .STOP_ACTIVITY => 4
  | .EXIT => 5 | .GO_ERROR => 6 | .RECOVER => 7

/-- The model's table IS the transition table of the fsm.FSM the code builds:
    same names in the same order, and for each of the 48 (event, state) cells the
    same verdict and destination. -/
theorem C01_fsm_is_code :
    Gen.envStates = St.all.map St.name ∧ Gen.envEvents = Ev.all.map Ev.name ∧
    ∀ (e : Ev) (s : St),
      (dst? e s).map stIdx =
        ((Gen.envFsm.find? (fun t => t.1 == evIdx e && t.2.1 == stIdx s)).map (·.2.2)) := by
  refine ⟨by decide, by decide, ?_⟩
  intro e s; cases e <;> cases s <;> decide

/-! ## the state graph -/

theorem api_edge (e : Ev) (s d : St) (he : e.isApi = true ∨ e = .GO_ERROR) (h : dst? e s = some d) :
    docEdge s d = true ∧ d ≠ .DONE ∧ s.live = true := by
  rcases he with he | he
  · cases e <;> cases s <;> simp [dst?] at h <;> subst h <;> simp_all [docEdge, Ev.isApi, St.live] <;> decide
  · subst he; cases s <;> simp [dst?] at h <;> subst h <;> decide

theorem docEdge_refl (s : St) : docEdge s s = true := by cases s <;> decide

/-- Invariant carried along request sequences: an environment in DONE is no longer listed. -/
def DoneIsGone (env : Env) : Prop := env.st = .DONE → env.gone = true

theorem try_edge (hooks : List Hook) (env : Env) (e : Ev) (b r : Bool)
    (he : e.isApi = true ∨ e = .GO_ERROR) (hinv : DoneIsGone env) :
    docEdge env.st (tryTransition env hooks e b r).1.st = true ∧ DoneIsGone (tryTransition env hooks e b r).1 := by
  unfold tryTransition
  obtain ⟨hg, h | ⟨d, hd, hst, _⟩⟩ := fsmEvent_st env hooks e b r
  · rw [h.1]; exact ⟨docEdge_refl _, fun hD => by rw [hg]; exact hinv (h.1 ▸ hD)⟩
  · obtain ⟨h1, h2, _⟩ := api_edge e env.st d he hd
    refine hst ▸ ?_; exact ⟨h1, fun hD => absurd (hst.symm.trans hD) h2⟩

theorem try_notDone (hooks : List Hook) (env : Env) (e : Ev) (b r : Bool)
    (he : e.isApi = true ∨ e = .GO_ERROR) (hnd : env.st ≠ .DONE) : (tryTransition env hooks e b r).1.st ≠ .DONE := by
  unfold tryTransition
  obtain ⟨_, h | ⟨d, hd, hst, _⟩⟩ := fsmEvent_st env hooks e b r
  · rw [h.1]; exact hnd
  · rw [hst]; exact (api_edge e env.st d he hd).2.1

theorem control_edge (hooks : List Hook) (env : Env) (e : Ev) (b r : Bool)
    (he : e.isApi = true) (hinv : DoneIsGone env) (hng : env.gone = false) :
    docEdge env.st (controlApi env hooks e b r).1.st = true ∧ DoneIsGone (controlApi env hooks e b r).1 ∧
    ((controlApi env hooks e b r).2.2.isOk = false → (controlApi env hooks e b r).1.st = .ERROR) := by
  have hnd : env.st ≠ .DONE := fun h => by have := hinv h; simp [hng] at this
  rcases controlApi_cases hooks env e b r with ⟨hok, heq⟩ | ⟨hnok, hE, hg, _⟩ | ⟨_, _, hD, _, _⟩
  · have := try_edge hooks env e b r (Or.inl he) hinv
    rw [heq]; exact ⟨this.1, this.2, fun h => by rw [heq] at hok; simp [hok] at h⟩
  · refine ⟨?_, (by intro hD; rw [hE] at hD; cases hD), fun _ => hE⟩
    rw [hE]; revert hnd; cases env.st <;> simp [docEdge, St.live]
  · -- the glue spares DONE only: an API event never takes a live environment there
    exact absurd hD (try_notDone hooks env e b r (Or.inl he) hnd)

/-- One in-scope request moves the reported state along a documented edge (or not at
    all) and keeps "DONE ⇒ unlisted". -/
theorem C01_step_edge (hooks : List Hook) (n : Nat) (env : Env) (q : Req)
    (hq : q.inScope = true) (hinv : DoneIsGone env) :
    docEdge env.st (step hooks n env q).1.st = true ∧ DoneIsGone (step hooks n env q).1 := by
  cases q with
  | try_ e b r =>
    simp only [Req.inScope, Bool.or_eq_true, beq_iff_eq] at hq
    exact try_edge hooks env e b r hq hinv
  | control e b r =>
    simp only [step]
    split
    · exact ⟨docEdge_refl _, hinv⟩
    · rename_i hg
      have := control_edge hooks env e b r hq hinv (by simpa using hg)
      exact ⟨this.1, this.2.1⟩
  | teardown f r1 r2 =>
    simp only [step]
    split
    · exact ⟨docEdge_refl _, hinv⟩
    · rcases teardown_st env hooks f r1 r2 n with ⟨h1, h2, _⟩ | ⟨hnd, h1, h2, _⟩
      · rw [h1]; exact ⟨docEdge_refl _, (by intro hD; rw [h2]; exact hinv (h1 ▸ hD))⟩
      · rw [h1]; exact ⟨by revert hnd; cases env.st <;> simp [docEdge], fun _ => h2⟩

/-- States reported after each request of a sequence. -/
def reported (hooks : List Hook) (n : Nat) (env : Env) (qs : List Req) : List St :=
  (runSeq hooks n env qs).map (·.2.2.st)

def chainOk : St → List St → Bool
  | _, [] => true
  | s, s' :: rest => docEdge s s' && chainOk s' rest

/-- C01, graph clause: for EVERY hook set, EVERY sequence of in-scope requests
    (API control requests, teardowns, internal GO_ERROR) of any length and with any
    combination of failing hooks, failing bodies, failing run-number acquisition and
    failing releases, consecutive reported states are joined by documented edges. -/
theorem C01_graph (hooks : List Hook) (n : Nat) (qs : List Req) (hq : qs.all Req.inScope = true)
    (env : Env) (hinv : DoneIsGone env) :
    chainOk env.st (reported hooks n env qs) = true := by
  induction qs generalizing env with
  | nil => rfl
  | cons q qs ih =>
    simp only [List.all_cons, Bool.and_eq_true] at hq
    obtain ⟨h1, h2⟩ := C01_step_edge hooks n env q hq.1 hinv
    simp only [reported, runSeq, List.map_cons, chainOk, Bool.and_eq_true]
    exact ⟨h1, ih hq.2 _ h2⟩

/-- …in particular from a freshly created environment. -/
theorem C01_graph_from_new (hooks : List Hook) (n : Nat) (qs : List Req) (hq : qs.all Req.inScope = true) :
    chainOk .STANDBY (reported hooks n {} qs) = true :=
  C01_graph hooks n qs hq {} (fun h => by cases h)

/-- DONE is terminal: once a sequence of in-scope requests has reported DONE, every later
    report is DONE (the environment is unlisted; API requests answer "not found"). -/
theorem C01_done_terminal (hooks : List Hook) (n : Nat) (qs : List Req) (hq : qs.all Req.inScope = true)
    (env : Env) (hinv : DoneIsGone env) (hd : env.st = .DONE) :
    ∀ s ∈ reported hooks n env qs, s = .DONE := by
  induction qs generalizing env with
  | nil => intro s hs; simp [reported, runSeq] at hs
  | cons q qs ih =>
    simp only [List.all_cons, Bool.and_eq_true] at hq
    obtain ⟨h1, h2⟩ := C01_step_edge hooks n env q hq.1 hinv
    have hst : (step hooks n env q).1.st = .DONE := by
      rw [hd] at h1; revert h1; cases (step hooks n env q).1.st <;> simp [docEdge, St.live, Ev.all, Ev.isApi, dst?]
    intro s hs
    simp only [reported, runSeq, List.map_cons, List.mem_cons] at hs
    rcases hs with hs | hs
    · rw [hs]; exact hst
    · exact ih hq.2 _ h2 hst s hs

/-- An illegal request is never executed: no hook starts, no body runs, nothing changes. -/
theorem C01_illegal_inert (hooks : List Hook) (env : Env) (e : Ev) (b r : Bool) (h : dst? e env.st = none) :
    tryTransition env hooks e b r = (env, [], .illegal) := by
  unfold tryTransition fsmEvent; rw [h]

/-- A teardown that is not legal — the environment is DONE, or it is neither STANDBY nor
    DEPLOYED and `force` was not given — is refused and executes nothing: no hook, no release, no
    change. -/
theorem C01_illegal_teardown_inert (hooks : List Hook) (env : Env) (f r1 r2 : Bool) (n : Nat)
    (h : env.st = .DONE ∨ (env.st ≠ .STANDBY ∧ env.st ≠ .DEPLOYED ∧ f = false)) :
    teardown env hooks f r1 r2 n = (env, [], .teardownRefused) := by
  unfold teardown
  rcases h with h | ⟨h1, h2, h3⟩
  · simp [h]
  · subst h3
    by_cases hd : env.st = .DONE
    · simp [hd]
    · simp [hd, h1, h2]

/-- Through the API an illegal request contributes NO step of its own — everything that
    runs is the GO_ERROR fallback (whose no-op body is not a task command) — is answered
    with an error, and leaves the environment in ERROR. -/
theorem C01_illegal_api (hooks : List Hook) (env : Env) (e : Ev) (b r : Bool) (he : e.isApi = true)
    (h : dst? e env.st = none) (hinv : DoneIsGone env) (hng : env.gone = false) :
    (controlApi env hooks e b r).2.2 = .illegal ∧ (controlApi env hooks e b r).1.st = .ERROR ∧
    let gs := (tryTransition env hooks .GO_ERROR true false).2.1.filter (fun s => match s with | .body .. => false | _ => true)
    ((controlApi env hooks e b r).2.1 = gs ∨ (controlApi env hooks e b r).2.1 = gs ++ [Step.setState .ERROR]) := by
  have hE := (control_edge hooks env e b r he hinv hng).2.2
  have hres : (controlApi env hooks e b r).2.2 = .illegal := by
    rcases controlApi_cases hooks env e b r with ⟨_, heq⟩ | ⟨_, _, _, hr⟩ | ⟨_, _, _, _, hr⟩
    · rw [heq, C01_illegal_inert hooks env e b r h]
    · rw [hr, C01_illegal_inert hooks env e b r h]
    · rw [hr, C01_illegal_inert hooks env e b r h]
  refine ⟨hres, hE (by rw [hres]; rfl), ?_⟩
  unfold controlApi
  rw [C01_illegal_inert hooks env e b r h]
  simp only [show Result.illegal.isOk = false from rfl, Bool.false_eq_true, if_false, List.nil_append]
  split
  · exact Or.inl rfl
  · exact Or.inr rfl

/-- A request made through the API that does not succeed leaves the environment in ERROR. -/
theorem C01_failed_goes_error (hooks : List Hook) (env : Env) (e : Ev) (b r : Bool) (he : e.isApi = true)
    (hinv : DoneIsGone env) (hng : env.gone = false)
    (hfail : (controlApi env hooks e b r).2.2.isOk = false) :
    (controlApi env hooks e b r).1.st = .ERROR :=
  (control_edge hooks env e b r he hinv hng).2.2 hfail

/-- The ControlEnvironment glue of the model is the one in core/server.go (go/ast on every run): the
    state is forced — `env.Sm.SetState("ERROR")` — in exactly one statement, guarded by
    `goErr != nil && env.CurrentState() != "DONE"` where `goErr` is the result of the GO_ERROR fallback:
    `controlApi` forces ERROR iff that fallback was refused and the state is not DONE (the states spared
    are exactly [DONE]). Without the repair "ControlEnvironment does not force ERROR on an environment
    that is DONE" the condition is `goErr != nil` (`controlApiLegacy`) and this theorem is false. -/
theorem C01_glue_is_code :
    Gen.glueRecognised = true ∧ Gen.glueSpares = [St.DONE.name] ∧
    Gen.glueInit = "goErr := env.TryTransition(environment.NewGoErrorTransition(m.state.taskman))" ∧
    Gen.glueCond = "goErr != nil && env.CurrentState() != \"DONE\"" := by decide

/-- Non-vacuity: a concrete walk with a critical hook that fails once, through the API. -/
example :
    let hooks : List Hook := [{ id := 0, isTask := false, critical := true, trig := .before .CONFIGURE, tw := 0,
                                await := .before .CONFIGURE, aw := 0, outcomes := [true] }]
    reported hooks 1 {} [.control .DEPLOY true false, .control .CONFIGURE true false, .teardown true true true]
      = [.DEPLOYED, .ERROR, .DONE] := by decide

/-! ## one at a time -/

/-- What the concurrent layer (Model/EnvConc) assumes about the code, re-read from the source
    by go/ast on every run: the ONLY place that fires the environment's state machine is
    TryTransition, with transitionMutex held (deferred unlock); the only direct writes of the
    state are `DONE` at the end of TeardownEnvironment — under the mutex — and the forced
    `ERROR` of the failure paths (`setState` itself, the workflow watcher writing the ERROR it
    was notified of, auto-stop, CreateEnvironment, integrated-service events,
    CreateAutoEnvironment, ControlEnvironment), which hold no lock: `Piece.force`. A new
    unlocked writer, or a second place that fires events, makes this theorem false. -/
theorem C01_lock_sites_are_code :
    Gen.smEventSites.map (·.2) = [true] ∧
    Gen.stateWriteSites.map (·.2) =
      [("state", false), ("wfState.String()", false), ("ERROR", false), ("ERROR", false), ("DONE", true),
       ("ERROR", false), ("ERROR", false), ("ERROR", false)] := by decide

/-- How the mutex is taken, re-read from the source by go/ast on every run: the only functions that touch
    `transitionMutex` are TryTransition and TeardownEnvironment, each as
    `if !m.TryLock() { log…; m.Lock(); log… }; defer m.Unlock()` with nothing but plain calls in the
    if-body: a caller that finds the mutex busy ALWAYS queues for it — whoever holds it, a transition or a
    teardown — and is carried out afterwards. This is the `.start` / `.between .goError` move of
    Model/EnvConc (not enabled while somebody holds; nothing else the caller can do). A way out of that
    if-body (a request refused at once because "a teardown is in progress", say) makes this theorem false. -/
theorem C01_busy_mutex_is_waited_for_is_code :
    Gen.mutexAcquireSites = [("TryTransition", true), ("TeardownEnvironment", true)] := by decide

/-- The one unlocked writer whose argument is not a literal — `env.setState(wfState.String())` in
    the workflow watcher (`subscribeToWfState`) — only ever writes ERROR: the watcher reacts to
    ERROR only, arms its timer once and LEAVES its loop at once (so the value the timer's
    function later forces cannot be overwritten by a later notification), and what it forces
    when GO_ERROR is refused is that ERROR (go/ast facts shared with C03, re-read on every run).
    With `C01_lock_sites_are_code` this is why `Piece.force` writes ERROR and nothing else. -/
theorem C01_watcher_forces_error_only_is_code :
    Gen.C03.watcherOnError = true ∧ Gen.C03.watcherOneShot = true ∧ Gen.C03.forcedError = true := by decide

/-- **At most one transition or teardown of an environment is in progress at any instant**:
    for EVERY set of concurrent callers (any requests) and EVERY schedule of their moves
    (look-up, take the mutex and run, release, GO_ERROR fallback, forced write), at most one
    caller is inside the mutex. -/
theorem C01_mutex (hooks : List Hook) (n : Nat) (env : Env) (reqs : List Req) (sched : List Nat) :
    AtMostOne (runSched hooks n (initSys env reqs) sched).callers :=
  (concInv_run hooks n env _ sched (concInv_init hooks n env reqs)).mutex

/-- **Concurrent requests are executed one after the other, each one seeing the state left by
    the previous one**: under every schedule the pieces that were executed form a chain — the
    first found the initial environment, every other one found exactly what its predecessor
    left, and the environment now is what the last one left … -/
theorem C01_serial (hooks : List Hook) (n : Nat) (env : Env) (reqs : List Req) (sched : List Nat) :
    chained env (runSched hooks n (initSys env reqs) sched).log ∧
    lastEnv env (runSched hooks n (initSys env reqs) sched).log = (runSched hooks n (initSys env reqs) sched).env :=
  ⟨(concInv_run hooks n env _ sched (concInv_init hooks n env reqs)).chain,
   (concInv_run hooks n env _ sched (concInv_init hooks n env reqs)).last⟩

/-- … and every executed piece did to the environment it found exactly what that request
    does when it runs alone (`runLocked`: TryTransition / TeardownEnvironment; the GO_ERROR
    fallback; the forced ERROR): no schedule lets a caller observe or produce a half-done
    transition of another. -/
theorem C01_pieces_atomic (hooks : List Hook) (n : Nat) (env : Env) (reqs : List Req) (sched : List Nat) :
    ∀ x ∈ (runSched hooks n (initSys env reqs) sched).log, x.faithful hooks n :=
  (concInv_run hooks n env _ sched (concInv_init hooks n env reqs)).faithful

/-- Non-vacuity: three callers, the schedule lets the second arrive (and look the environment
    up) while the first is inside; all three run, in mutex order, on each other's results. -/
example :
    let s := runSched [] 1 (initSys {} [.try_ .DEPLOY true false, .control .CONFIGURE true false, .teardown false true true])
      [0, 0, 1, 2, 1, 2, 0, 1, 1, 2, 2]
    s.log.map (fun x => (x.caller, x.before.st, x.after.st)) =
      [(0, .STANDBY, .DEPLOYED), (1, .DEPLOYED, .CONFIGURED), (2, .CONFIGURED, .CONFIGURED)] := by decide

/-- What the repair does NOT close (all schedules are covered by the three theorems above, which say
    nothing about the graph): the glue's read of the state and its write of ERROR are two unlocked
    moves. Caller 0's request and its GO_ERROR fallback are both vetoed by a critical leave_STANDBY hook,
    its check reads STANDBY; caller 1's teardown runs to DONE; caller 0 then writes ERROR over DONE. The
    window is between two adjacent statements of ControlEnvironment (no hook point, not reachable by the
    harness); the overlap the finding was about — the request waiting for the mutex — is closed
    (`C01_graph_par_code`). -/
example :
    let hooks : List Hook := [{ id := 0, isTask := false, critical := true, trig := .leave .STANDBY, tw := 0,
                                await := .leave .STANDBY, aw := 0, outcomes := [true, true, true] }]
    let s := runSched hooks 1 (initSys {} [.control .DEPLOY true false, .teardown true true true]) [0, 0, 0, 0, 0, 0, 1, 1, 1, 0]
    s.log.map (fun x => (x.caller, x.before.st, x.after.st)) =
      [(0, .STANDBY, .STANDBY), (0, .STANDBY, .STANDBY), (1, .STANDBY, .DONE), (0, .DONE, .ERROR)] := by decide

/-! ### overlapping requests as the harness issues them (`PReq.par`) -/

/-- States reported after each request of a list with overlapping pairs, in mutex order. -/
def reportedPar (hooks : List Hook) (n : Nat) (env : Env) (qs : List PReq) : List St :=
  (runPar hooks n env qs).map (·.2.2.st)

/-- The same with the ControlEnvironment glue as it was before the repair (`controlApiLegacy`). -/
def reportedParLegacy (hooks : List Hook) (n : Nat) (env : Env) (qs : List PReq) : List St :=
  (runParLegacy hooks n env qs).map (·.2.2.st)

def PReq.inScope : PReq → Bool
  | .one q => q.inScope
  | .par a b => a.inScope && b.inScope

/-- The pairs that finding control_overlaps_teardown was about: an API control request that arrives
    while a teardown is in progress. -/
def PReq.noControlOverTeardown : PReq → Bool
  | .par (.teardown ..) (.control ..) => false
  | _ => true

/-- The graph clause at full strength for overlapping requests, for a given way `rep` of running a
    list: EVERY hook set, EVERY list of in-scope requests and overlapping pairs. -/
def C01_graph_par_full_of (rep : List Hook → Nat → Env → List PReq → List St) : Prop :=
  ∀ (hooks : List Hook) (n : Nat) (qs : List PReq), qs.all PReq.inScope = true →
    chainOk .STANDBY (rep hooks n {} qs) = true

/-- … for the code as it is. Proved: `C01_graph_par_code`. -/
def C01_graph_par_full : Prop := C01_graph_par_full_of reportedPar

/-- **Finding control_overlaps_teardown** (repaired by "fix: ControlEnvironment does not force ERROR on
    an environment that is DONE"; a statement about the glue AS IT WAS, `controlApiLegacy`): a
    ControlEnvironment request that looked the environment up while a teardown was in progress gets the
    mutex after it, is refused (the event is illegal in DONE), the GO_ERROR fallback is refused too, and
    the glue then forced the state: the reply reported ERROR for an environment that is DONE and
    unlisted — DONE → ERROR is not an edge of the documented graph. -/
theorem C01_finding_control_overlaps_teardown : ¬ C01_graph_par_full_of reportedParLegacy := by
  intro h
  have := h [] 1 [.par (.teardown true true true) (.control .DEPLOY true false)] (by decide)
  revert this
  decide

/-- The same pair with the code as it is: the held control request is refused and the reported state
    stays DONE. -/
example : reportedPar [] 1 {} [.par (.teardown true true true) (.control .DEPLOY true false)] = [.DONE, .DONE] ∧
    (runPar [] 1 {} [.par (.teardown true true true) (.control .DEPLOY true false)]).map (·.2.1) = [.ok, .illegal] := by
  decide

theorem dst_done (e : Ev) : dst? e .DONE = none := by cases e <;> rfl

theorem docEdge_done (s : St) (h : docEdge .DONE s = true) : s = .DONE := by
  revert h; cases s <;> simp [docEdge, St.live, Ev.all, Ev.isApi, dst?]

/-- **The glue leaves a finished environment alone**: a request that reaches the ControlEnvironment
    glue while the environment is DONE — it looked the environment up while a teardown was in
    progress — is refused as illegal and executes NOTHING: no hook, no body, no GO_ERROR callback, no
    forced state; the environment is exactly what the teardown left. For every event. -/
theorem C01_control_on_done_inert (hooks : List Hook) (env : Env) (e : Ev) (b r : Bool) (hd : env.st = .DONE) :
    controlApi env hooks e b r = (env, [], .illegal) := by
  have h1 := C01_illegal_inert hooks env e b r (by rw [hd]; exact dst_done e)
  have h2 := C01_illegal_inert hooks env .GO_ERROR true false (by rw [hd]; exact dst_done _)
  unfold controlApi
  simp [h1, h2, Result.isOk, hd]

/-- `control_edge` only needs the environment not to be DONE. -/
theorem control_edge_live (hooks : List Hook) (env : Env) (e : Ev) (b r : Bool)
    (he : e.isApi = true) (hinv : DoneIsGone env) (hnd : env.st ≠ .DONE) :
    docEdge env.st (controlApi env hooks e b r).1.st = true ∧ DoneIsGone (controlApi env hooks e b r).1 ∧
    (controlApi env hooks e b r).1.st ≠ .DONE := by
  rcases controlApi_cases hooks env e b r with ⟨hok, heq⟩ | ⟨hnok, hE, hg, _⟩ | ⟨_, _, hD, _, _⟩
  · have := try_edge hooks env e b r (Or.inl he) hinv
    rw [heq]; exact ⟨this.1, this.2, try_notDone hooks env e b r (Or.inl he) hnd⟩
  · refine ⟨?_, (by intro hD; rw [hE] at hD; cases hD), by rw [hE]; simp⟩
    rw [hE]; revert hnd; cases env.st <;> simp [docEdge, St.live]
  · exact absurd hD (try_notDone hooks env e b r (Or.inl he) hnd)

/-- One request that is not a teardown keeps a not-DONE environment not DONE. -/
theorem step_notDone (hooks : List Hook) (n : Nat) (env : Env) (q : Req) (hq : q.inScope = true)
    (hinv : DoneIsGone env) (hnd : env.st ≠ .DONE) (hnt : ∀ f a b, q ≠ .teardown f a b) :
    (step hooks n env q).1.st ≠ .DONE := by
  cases q with
  | try_ e b r =>
    simp only [Req.inScope, Bool.or_eq_true, beq_iff_eq] at hq
    exact try_notDone hooks env e b r hq hnd
  | control e b r =>
    simp only [step]
    split
    · exact hnd
    · exact (control_edge_live hooks env e b r hq hinv hnd).2.2
  | teardown f a b => exact absurd rfl (hnt f a b)

/-- A held request (its look-up saw `listed`) moves the reported state along a documented edge (or not
    at all) and keeps "DONE ⇒ unlisted" — whatever it finds when it gets the mutex, a DONE environment
    included. -/
theorem stepHeld_edge (hooks : List Hook) (n : Nat) (listed : Bool) (env : Env) (q : Req)
    (hq : q.inScope = true) (hinv : DoneIsGone env) :
    docEdge env.st (stepHeld hooks n listed env q).1.st = true ∧ DoneIsGone (stepHeld hooks n listed env q).1 := by
  cases q with
  | try_ e b r =>
    simp only [Req.inScope, Bool.or_eq_true, beq_iff_eq] at hq
    exact try_edge hooks env e b r hq hinv
  | control e b r =>
    simp only [stepHeld]
    split
    · exact ⟨docEdge_refl _, hinv⟩
    · by_cases hd : env.st = .DONE
      · rw [C01_control_on_done_inert hooks env e b r hd]; exact ⟨docEdge_refl _, hinv⟩
      · have := control_edge_live hooks env e b r hq hinv hd
        exact ⟨this.1, this.2.1⟩
  | teardown f r1 r2 =>
    simp only [stepHeld]
    split
    · exact ⟨docEdge_refl _, hinv⟩
    · rcases teardown_st env hooks f r1 r2 n with ⟨h1, h2, _⟩ | ⟨hnd, h1, h2, _⟩
      · rw [h1]; exact ⟨docEdge_refl _, (by intro hD; rw [h2]; exact hinv (h1 ▸ hD))⟩
      · rw [h1]; exact ⟨by revert hnd; cases env.st <;> simp [docEdge], fun _ => h2⟩

/-- **The graph clause for overlapping requests**: for EVERY hook set and EVERY list of in-scope
    requests and overlapping pairs — the second of a pair having looked the environment up before the
    first finished — consecutive reported states are joined by documented edges. No pair is excluded. -/
theorem C01_graph_par (hooks : List Hook) (n : Nat) (qs : List PReq)
    (hq : qs.all PReq.inScope = true) (env : Env) (hinv : DoneIsGone env) :
    chainOk env.st (reportedPar hooks n env qs) = true := by
  induction qs generalizing env with
  | nil => rfl
  | cons q qs ih =>
    simp only [List.all_cons, Bool.and_eq_true] at hq
    cases q with
    | one a =>
      obtain ⟨h1, h2⟩ := C01_step_edge hooks n env a hq.1 hinv
      simp only [reportedPar, runPar, List.map_cons, chainOk, Bool.and_eq_true]
      exact ⟨h1, ih hq.2 _ h2⟩
    | par a b =>
      simp only [PReq.inScope, Bool.and_eq_true] at hq
      obtain ⟨h1, h2⟩ := C01_step_edge hooks n env a hq.1.1 hinv
      have hb := stepHeld_edge hooks n (!env.gone) (step hooks n env a).1 b hq.1.2 h2
      simp only [reportedPar, runPar, List.map_cons, chainOk, Bool.and_eq_true]
      exact ⟨h1, hb.1, ih hq.2 _ hb.2⟩

/-- The full-strength statement holds for the code as it is (it was refuted for the glue as it was:
    `C01_finding_control_overlaps_teardown`). -/
theorem C01_graph_par_code : C01_graph_par_full :=
  fun hooks n qs hq => C01_graph_par hooks n qs hq {} (fun h => by cases h)

/-- What was provable before the repair (kept): the graph clause for lists in which no API control
    request overlaps a teardown. Now an instance of `C01_graph_par`. -/
theorem C01_graph_par_partial (hooks : List Hook) (n : Nat) (qs : List PReq)
    (hq : qs.all PReq.inScope = true) (_hp : qs.all PReq.noControlOverTeardown = true)
    (env : Env) (hinv : DoneIsGone env) :
    chainOk env.st (reportedPar hooks n env qs) = true :=
  C01_graph_par hooks n qs hq env hinv

/-- **DONE is terminal for overlapping requests too**: once DONE has been reported, every later report
    of a list of in-scope requests and overlapping pairs is DONE — also that of a control request that
    was held on the mutex while the teardown ran (it is answered with an error and changes nothing). -/
theorem C01_done_terminal_par (hooks : List Hook) (n : Nat) (qs : List PReq) (hq : qs.all PReq.inScope = true)
    (env : Env) (hinv : DoneIsGone env) (hd : env.st = .DONE) :
    ∀ s ∈ reportedPar hooks n env qs, s = .DONE := by
  induction qs generalizing env with
  | nil => intro s hs; simp [reportedPar, runPar] at hs
  | cons q qs ih =>
    simp only [List.all_cons, Bool.and_eq_true] at hq
    cases q with
    | one a =>
      obtain ⟨h1, h2⟩ := C01_step_edge hooks n env a hq.1 hinv
      have hst : (step hooks n env a).1.st = .DONE := docEdge_done _ (hd ▸ h1)
      intro s hs
      simp only [reportedPar, runPar, List.map_cons, List.mem_cons] at hs
      rcases hs with hs | hs
      · rw [hs]; exact hst
      · exact ih hq.2 _ h2 hst s hs
    | par a b =>
      simp only [PReq.inScope, Bool.and_eq_true] at hq
      obtain ⟨h1, h2⟩ := C01_step_edge hooks n env a hq.1.1 hinv
      have hst : (step hooks n env a).1.st = .DONE := docEdge_done _ (hd ▸ h1)
      have hb := stepHeld_edge hooks n (!env.gone) (step hooks n env a).1 b hq.1.2 h2
      have hst2 : (stepHeld hooks n (!env.gone) (step hooks n env a).1 b).1.st = .DONE := docEdge_done _ (hst ▸ hb.1)
      intro s hs
      simp only [reportedPar, runPar, List.map_cons, List.mem_cons] at hs
      rcases hs with hs | hs | hs
      · rw [hs]; exact hst
      · rw [hs]; exact hst2
      · exact ih hq.2 _ hb.2 hst2 s hs

/-- …and the walk that the finding was about, from a new environment: whatever follows a teardown
    that went through — here a control request held on the mutex meanwhile — reports DONE. -/
example :
    reportedPar [] 1 {} [.one (.control .DEPLOY true false), .par (.teardown false true true) (.control .CONFIGURE true false),
                         .one (.teardown true true true)] = [.DEPLOYED, .DONE, .DONE, .DONE] := by decide

/-! ### the repair changes nothing else -/

theorem stepLegacy_eq (hooks : List Hook) (n : Nat) (env : Env) (q : Req) (hq : q.inScope = true)
    (hinv : DoneIsGone env) : stepLegacy hooks n env q = step hooks n env q := by
  cases q with
  | try_ e b r => rfl
  | teardown f a b => rfl
  | control e b r =>
    simp only [stepLegacy, step]
    split
    · rfl
    · rename_i hg
      have hnd : env.st ≠ .DONE := fun h => hg (hinv h)
      exact controlApiLegacy_eq hooks env e b r (try_notDone hooks env e b r (Or.inl hq) hnd)

theorem stepHeldLegacy_eq (hooks : List Hook) (n : Nat) (listed : Bool) (env : Env) (q : Req) (hq : q.inScope = true)
    (hc : ∀ e b r, q = .control e b r → listed = true → env.st ≠ .DONE) :
    stepHeldLegacy hooks n listed env q = stepHeld hooks n listed env q := by
  cases q with
  | try_ e b r => rfl
  | teardown f a b => rfl
  | control e b r =>
    simp only [stepHeldLegacy, stepHeld]
    split
    · rfl
    · rename_i hl
      exact controlApiLegacy_eq hooks env e b r
        (try_notDone hooks env e b r (Or.inl hq) (hc e b r rfl (by simpa using hl)))

/-- **The repair touches the overlap of a control request with a teardown and nothing else**: on every
    list of in-scope requests and overlapping pairs in which no API control request overlaps a teardown,
    the glue as it was and the glue as it is produce the same steps, results and environments. -/
theorem C01_legacy_differs_only_over_teardown (hooks : List Hook) (n : Nat) (qs : List PReq)
    (hq : qs.all PReq.inScope = true) (hp : qs.all PReq.noControlOverTeardown = true)
    (env : Env) (hinv : DoneIsGone env) :
    runParLegacy hooks n env qs = runPar hooks n env qs := by
  induction qs generalizing env with
  | nil => rfl
  | cons q qs ih =>
    simp only [List.all_cons, Bool.and_eq_true] at hq hp
    cases q with
    | one a =>
      have h2 := (C01_step_edge hooks n env a hq.1 hinv).2
      simp only [runParLegacy, runPar]
      rw [stepLegacy_eq hooks n env a hq.1 hinv, ih hq.2 hp.2 _ h2]
    | par a b =>
      simp only [PReq.inScope, Bool.and_eq_true] at hq
      have h2 := (C01_step_edge hooks n env a hq.1.1 hinv).2
      have hb := stepHeld_edge hooks n (!env.gone) (step hooks n env a).1 b hq.1.2 h2
      simp only [runParLegacy, runPar]
      rw [stepLegacy_eq hooks n env a hq.1.1 hinv,
        stepHeldLegacy_eq hooks n (!env.gone) (step hooks n env a).1 b hq.1.2 (by
          intro e x r hbc hl
          -- listed: the environment was not gone, hence not DONE, before `a`; `a` is not a teardown
          have hng : env.gone = false := by simpa using hl
          have hnd : env.st ≠ .DONE := fun h => by have := hinv h; simp [hng] at this
          apply step_notDone hooks n env a hq.1.1 hinv hnd
          intro f r1 r2 hat
          subst hat; subst hbc
          simp [PReq.noControlOverTeardown] at hp),
        ih hq.2 hp.2 _ hb.2]

/-- Hence what was proved of the code as it was: its graph clause under the excluded hypothesis. -/
theorem C01_graph_par_partial_legacy (hooks : List Hook) (n : Nat) (qs : List PReq)
    (hq : qs.all PReq.inScope = true) (hp : qs.all PReq.noControlOverTeardown = true)
    (env : Env) (hinv : DoneIsGone env) :
    chainOk env.st (reportedParLegacy hooks n env qs) = true := by
  unfold reportedParLegacy
  rw [C01_legacy_differs_only_over_teardown hooks n qs hq hp env hinv]
  exact C01_graph_par hooks n qs hq env hinv

/-- In a pair, the second request runs on exactly what the first left (and the rest of the
    list on what the second left): overlapping requests are a sequence. -/
theorem C01_par_is_sequence (hooks : List Hook) (n : Nat) (env : Env) (a b : Req) (qs : List PReq) :
    runPar hooks n env (.par a b :: qs) =
      (let r1 := step hooks n env a
       let r2 := stepHeld hooks n (!env.gone) r1.1 b
       (r1.2.1, r1.2.2, r1.1) :: (r2.2.1, r2.2.2, r2.1) :: runPar hooks n r2.1 qs) := rfl

/-- A pair whose first request leaves the listing alone is the two requests issued one after the other. -/
theorem C01_par_eq_seq (hooks : List Hook) (n : Nat) (env : Env) (a b : Req)
    (hg : (step hooks n env a).1.gone = env.gone) :
    stepHeld hooks n (!env.gone) (step hooks n env a).1 b = step hooks n (step hooks n env a).1 b := by
  generalize hs : step hooks n env a = r at hg
  cases b <;> simp [stepHeld, step, hg]

/-! ### nothing is carried out while another request is in progress -/

/-- **While a caller is inside the mutex, the callers that have not been inside yet can do nothing**: for
    EVERY schedule of their moves (the holder does not move) the environment and the log stay what they
    are, the holder still holds and the others are still newcomers — none has run anything, none has
    returned. This is the model's side of the harness's overlap record: with the first request of a pair
    parked inside its critical section, the second one queues and the reported state does not move
    (`overlapItems`, Spec clause `st1 = st0`). A request that is refused at once and answered with a forced
    write, as in "teardown in progress ⇒ do not queue", is not a behaviour of this layer. -/
theorem C01_nothing_happens_while_held (hooks : List Hook) (n : Nat) (s : Sys) (j : Nat) (sched : List Nat)
    (hs : ∀ i ∈ sched, i ≠ j) (h : HeldBy s j) :
    (runSched hooks n s sched).env = s.env ∧ (runSched hooks n s sched).log = s.log ∧
      HeldBy (runSched hooks n s sched) j :=
  let r := heldBy_run hooks n s j sched hs h
  ⟨r.2.1, r.2.2, r.1⟩

/-- **The one write outside any critical section needs two critical sections of its own**: under every
    schedule of any set of callers, a forced ERROR in the log was written by a caller whose own request
    AND whose GO_ERROR fallback had both been carried out under the mutex before — and had failed. The
    write can land while somebody else (a teardown, say) is inside only in that way: never from a
    request that has just arrived. -/
theorem C01_forced_write_needs_own_sections (hooks : List Hook) (n : Nat) (env : Env) (reqs : List Req)
    (sched : List Nat) (pre post : List LogEntry) (x : LogEntry)
    (hlog : (runSched hooks n (initSys env reqs) sched).log = pre ++ x :: post) (hx : x.isForce = true) :
    wentThrough pre x.caller = true := by
  have h := (forceInv_run hooks n _ sched (forceInv_init env reqs)).just
  rw [hlog] at h
  simpa using forcedJustified_at [] pre post x h hx

/-- Non-vacuity, and the schedule in which the write does land during a teardown: caller 0's request and
    fallback are vetoed by a critical hook (two critical sections of its own), it reads the state, caller 1
    takes the mutex for its teardown, and caller 0 forces ERROR while caller 1 is still inside. -/
example :
    let hooks : List Hook := [{ id := 0, isTask := false, critical := true, trig := .leave .STANDBY, tw := 0,
                                await := .leave .STANDBY, aw := 0, outcomes := [true, true, true] }]
    let s := runSched hooks 1 (initSys {} [.control .DEPLOY true false, .teardown true true true]) [0, 1, 0, 0, 0, 0, 0, 1, 0]
    s.log.map (fun x => (x.caller, x.isForce)) = [(0, false), (0, false), (1, false), (0, true)] ∧
      (s.callers.map Caller.isHolding) = [false, true] := by decide

/-! ### the pairs the harness issues, under every schedule -/

/-- With the first request of a pair inside its critical section, every schedule that does not let it
    leave keeps the environment at what that critical section made of it, and the second caller queueing. -/
theorem C01_pair_second_waits (hooks : List Hook) (n : Nat) (env : Env) (a b : Req) (ha : a.isControl = false)
    (sched : List Nat) (hs : ∀ i ∈ sched, i ≠ 0) :
    let s := runSched hooks n (pairStart hooks n env a b) sched
    s.env = (step hooks n env a).1 ∧ s.log = (pairStart hooks n env a b).log ∧
      s.callers.map Caller.isNew = [false, true] := by
  have hp := onPath_start hooks n env a b ha
  have hh : HeldBy (pairStart hooks n env a b) 0 := by
    refine ⟨⟨_, by rw [hp.2.1]; rfl, rfl⟩, ?_⟩
    intro i ci hi hci
    rw [hp.2.1] at hci
    match i with
    | 0 => exact absurd rfl hi
    | 1 => simp at hci; subst hci; rfl
    | k + 2 => simp at hci
  have r := heldBy_run hooks n _ 0 sched hs hh
  have hon := onPath_run hooks n env a b _ sched ⟨_, hp⟩
  refine ⟨?_, r.2.2, ?_⟩
  · rw [r.2.1, hp.2.2, ← runLocked_eq_step hooks n env a ha]; rfl
  · obtain ⟨ph, _, hc, _⟩ := hon
    obtain ⟨⟨cj, hj, hhj⟩, hnew⟩ := r.1
    rw [hc] at hj hnew
    have h1 := hnew 1 _ (by decide) rfl
    simp at hj; subst hj
    rw [hc]
    simp only [List.map_cons, List.map_nil, h1]
    cases ph <;> simp_all [Caller.isHolding, Caller.isNew, Phase.pc0]

/-- **A pair is executed as `runPar` says, under EVERY schedule**: two callers, both look-ups made, the
    first (a transition through TryTransition or a teardown) inside its critical section — whatever the
    order of the moves from there, when both callers are done the environment is the one the sequential
    model of the pair ends in (`runPar`: the first request, then the second on what the first left, with
    the look-up it made before). The trace monitor's model is the outcome of all schedules of the
    concurrent layer. -/
theorem C01_pair_every_schedule (hooks : List Hook) (n : Nat) (env : Env) (a b : Req) (ha : a.isControl = false)
    (sched : List Nat) :
    let s := runSched hooks n (pairStart hooks n env a b) sched
    s.allDone = true → (runPar hooks n env [.par a b]).getLast?.map (·.2.2) = some s.env := by
  intro s hd
  obtain ⟨ph, hok, hc, he⟩ := onPath_run hooks n env a b _ sched ⟨_, onPath_start hooks n env a b ha⟩
  have hf : ph.isFinal = true := by
    have : s.callers = _ := hc
    simp only [Sys.allDone, this] at hd
    cases ph <;> simp_all [Phase.pc0, Phase.pc1, Phase.isFinal, Pc.isDone]
  have := final_env hooks n env a b ph hf hok
  rw [runLocked_eq_step hooks n env a ha] at this
  show _ = some s.env
  rw [he, this]
  rfl

example :
    let s := runSched [] 1 (pairStart [] 1 {} (.teardown true true true) (.control .DEPLOY true false)) [1, 1, 0, 1, 1, 1, 1, 1, 1, 1]
    s.allDone = true ∧ s.env.st = .DONE ∧ s.log.map (fun x => (x.caller, x.after.st)) = [(0, .DONE), (1, .DONE), (1, .DONE)] := by decide

/-! ### the task phase of a transition lies inside its critical section -/

/-- How the task-level body of a transition is run, re-read from the source by go/ast on every run: the only
    function of core/environment that calls `Transition.do` is handlerFunc (the helper of the leave_<state>
    callback, which runs inside `Sm.Event`, i.e. inside TryTransition's critical section —
    `C01_lock_sites_are_code`), and it WAITS for it for as long as the tasks take: a plain call in the
    function literal it returns, no go statement, no select, no timer or deadline anywhere in it. This is
    `codePhaseCfg` (`abandon = false`): a `.caller` move of Model/EnvPhase is not enabled while the caller's
    `do` has not returned, and there is no `.giveUp` move. A `do` run in a goroutine and waited for with a
    time limit ("the tasks get so long to answer") makes this theorem false. -/
theorem C01_task_phase_is_synchronous_is_code :
    Gen.bodyCallSites = [("handlerFunc", !codePhaseCfg.abandon)] := by decide

/-- **At most one task phase at any instant, and it lies inside its critical section**: for EVERY set of
    concurrent callers and EVERY schedule of their moves and of the tasks' answers — however late an answer
    comes — at most one command is unanswered, the transitions waiting for an answer are exactly those whose
    command is unanswered, the caller of that transition is inside the mutex (nobody else can be: `C01_mutex`
    through `C01_task_phase_schedules_are_schedules`), and so the mutex is not free while the tasks work. -/
theorem C01_task_phases_never_overlap (hooks : List Hook) (n : Nat) (env : Env) (reqs : List Req) (sched : List PMove) :
    let ps := runPhases codePhaseCfg hooks n (initPSys env reqs) sched
    ps.unanswered.length ≤ 1 ∧ ps.waiting = ps.unanswered ∧
      (∀ i ∈ ps.unanswered, isHoldingAt ps.sys i = true) ∧ (ps.unanswered ≠ [] → ps.sys.free = false) := by
  intro ps
  have h := phaseInv_run hooks n env _ sched (phaseInv_init hooks n env reqs)
  have hs : ps.waiting = ps.unanswered := h.same
  rcases h.open_ with hw | ⟨j, hw, hj⟩
  · have hu : ps.unanswered = [] := by rw [← hs]; exact hw
    refine ⟨?_, hs, ?_, fun hne => absurd hu hne⟩
    · rw [hu]; exact Nat.zero_le 1
    · intro i hi; rw [hu] at hi; cases hi
  · have hu : ps.unanswered = [j] := by rw [← hs]; exact hw
    refine ⟨?_, hs, ?_, fun _ => ?_⟩
    · rw [hu]; exact Nat.le_refl 1
    · intro i hi; rw [hu] at hi; simp only [List.mem_singleton] at hi; subst hi; exact hj
    · obtain ⟨cj, hcj, hh⟩ := (isHoldingAt_iff _ _).mp hj
      exact not_free_of_holding _ j cj hcj hh

/-- **Every answer of the tasks is received by the transition that asked**: under every schedule, each
    TasksStateChangedEvent delivered so far went to the `do` of the caller whose command it answers. -/
theorem C01_answer_goes_to_the_transition_that_asked (hooks : List Hook) (n : Nat) (env : Env) (reqs : List Req)
    (sched : List PMove) :
    ∀ p ∈ (runPhases codePhaseCfg hooks n (initPSys env reqs) sched).consumed, p.1 = p.2 :=
  (phaseInv_run hooks n env _ sched (phaseInv_init hooks n env reqs)).cons

/-- Whatever a schedule with task phases reaches, the concurrent layer of Model/EnvConc reaches by a schedule
    of its own: the task phase adds waiting, never a new behaviour … -/
theorem C01_task_phase_schedules_are_schedules (cfg : PhaseCfg) (hooks : List Hook) (n : Nat) (env : Env)
    (reqs : List Req) (sched : List PMove) :
    ∃ sched' : List Nat, (runPhases cfg hooks n (initPSys env reqs) sched).sys = runSched hooks n (initSys env reqs) sched' :=
  runPhases_sys cfg hooks n (initPSys env reqs) sched

/-- … hence **a request that runs sees the state the previous one left, bodies with their task phases
    included**: under every schedule of callers' moves and late answers, at most one caller is inside the mutex,
    the executed pieces form a chain from the initial environment to the present one, and each did what it does
    when run alone. -/
theorem C01_serial_with_task_phases (hooks : List Hook) (n : Nat) (env : Env) (reqs : List Req) (sched : List PMove) :
    let s := (runPhases codePhaseCfg hooks n (initPSys env reqs) sched).sys
    AtMostOne s.callers ∧ chained env s.log ∧ lastEnv env s.log = s.env ∧ ∀ x ∈ s.log, x.faithful hooks n := by
  intro s
  obtain ⟨sched', hs⟩ := C01_task_phase_schedules_are_schedules codePhaseCfg hooks n env reqs sched
  have hs' : s = runSched hooks n (initSys env reqs) sched' := hs
  rw [hs']
  exact ⟨C01_mutex hooks n env reqs sched', (C01_serial hooks n env reqs sched').1, (C01_serial hooks n env reqs sched').2,
    C01_pieces_atomic hooks n env reqs sched'⟩

/-- **While the tasks work on one transition, a request that arrives can do nothing**: with caller `j` in its
    task phase (however long), every move of a caller that has not been inside the mutex yet leaves the
    environment, the log and the open task phase as they are. -/
theorem C01_newcomer_waits_for_task_phase (hooks : List Hook) (n : Nat) (ps : PSys) (i j : Nat) (hij : i ≠ j)
    (hw : ps.waiting = [j]) (hh : HeldBy ps.sys j) :
    let ps' := pmove codePhaseCfg hooks n ps (.caller i)
    ps'.sys.env = ps.sys.env ∧ ps'.sys.log = ps.sys.log ∧ ps'.waiting = [j] ∧ ps'.unanswered = ps.unanswered ∧ HeldBy ps'.sys j := by
  have hm := heldBy_move hooks n ps.sys j i hij hh
  have key : pmove codePhaseCfg hooks n ps (.caller i) = { ps with sys := move hooks n ps.sys i } ∨
      pmove codePhaseCfg hooks n ps (.caller i) = ps := by
    cases hc : ps.sys.callers[i]? with
    | none => simp [pmove, hc]
    | some c =>
      simp only [pmove, hc]
      have hnew := hh.2 i c hij hc
      have hnh : c.isHolding = false := by
        revert hnew; unfold Caller.isNew Caller.isHolding; cases c.pc <;> simp
      -- the mutex is busy: the move cannot take it
      have hstill : isHoldingAt (move hooks n ps.sys i) i = false := by
        cases hx : isHoldingAt (move hooks n ps.sys i) i with
        | false => rfl
        | true =>
          exfalso
          obtain ⟨ci, hci, hhi⟩ := (isHoldingAt_iff _ _).mp hx
          obtain ⟨⟨cj, hcj, hhj⟩, hnew'⟩ := hm.1
          have := hnew' i ci hij hci
          revert this hhi; unfold Caller.isNew Caller.isHolding; cases ci.pc <;> simp
      simp [hnh, hstill]
  show (pmove codePhaseCfg hooks n ps (.caller i)).sys.env = ps.sys.env ∧ (pmove codePhaseCfg hooks n ps (.caller i)).sys.log = ps.sys.log ∧
    (pmove codePhaseCfg hooks n ps (.caller i)).waiting = [j] ∧ (pmove codePhaseCfg hooks n ps (.caller i)).unanswered = ps.unanswered ∧
    HeldBy (pmove codePhaseCfg hooks n ps (.caller i)).sys j
  rcases key with hk | hk
  · rw [hk]; exact ⟨hm.2.1, hm.2.2, hw, rfl, hm.1⟩
  · rw [hk]; exact ⟨rfl, rfl, hw, rfl, hh⟩

/-- Non-vacuity: two callers; the first takes the mutex and sends its command (task phase open), the second
    arrives and tries three times — nothing; the tasks answer; the first releases; the second runs on the
    state the first left and has a task phase of its own. -/
example :
    let ps := runPhases codePhaseCfg [] 1 (initPSys {} [.try_ .DEPLOY true false, .control .CONFIGURE true false])
      [.caller 0, .caller 0, .caller 1, .caller 1, .caller 0, .caller 1, .answer 1, .answer 0, .caller 0, .caller 1]
    ps.consumed = [(0, 0)] ∧ ps.unanswered = [1] ∧ ps.waiting = [1] ∧
      ps.sys.log.map (fun x => (x.caller, x.before.st, x.after.st)) = [(0, .STANDBY, .DEPLOYED), (1, .DEPLOYED, .CONFIGURED)] := by
  decide

/-- A body that may be abandoned — `abandonPhaseCfg`, NOT the code: handlerFunc stops waiting for a `do` that
    has not returned — breaks both statements: caller 0 gives up on its slow tasks and leaves the mutex with its
    command unanswered, caller 1 is carried out meanwhile: two task phases at once, and the answer to caller
    1's command is taken by caller 0's abandoned `do`. -/
theorem C01_abandoned_task_phase_overlaps :
    ¬ (∀ (hooks : List Hook) (n : Nat) (env : Env) (reqs : List Req) (sched : List PMove),
        (runPhases abandonPhaseCfg hooks n (initPSys env reqs) sched).unanswered.length ≤ 1) ∧
    ¬ (∀ (hooks : List Hook) (n : Nat) (env : Env) (reqs : List Req) (sched : List PMove),
        ∀ p ∈ (runPhases abandonPhaseCfg hooks n (initPSys env reqs) sched).consumed, p.1 = p.2) := by
  constructor
  · intro h
    have := h [] 1 {} [.try_ .DEPLOY true false, .try_ .CONFIGURE true false]
      [.caller 0, .caller 0, .caller 1, .giveUp 0, .caller 1]
    revert this
    decide
  · intro h
    have := h [] 1 {} [.try_ .DEPLOY true false, .try_ .CONFIGURE true false]
      [.caller 0, .caller 0, .caller 1, .giveUp 0, .caller 1, .answer 1] (1, 0)
    revert this
    decide
