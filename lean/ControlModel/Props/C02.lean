/-
  Props/C02 — "A transition succeeds iff every critical task acknowledged it".

  Model: Model/Transition.lean (task-level bodies, DEPLOY wait, ControlEnvironment incl. gRPC status) on top of
  Model/Env.lean (state machine). Tied to /repo by the whole-core simulator runs of harness/props/c02: the real core
  (child process) is driven through its gRPC API while scripted executors answer, and every request's status,
  reply state, state afterwards and set of commanded tasks is compared with `Trans.run`.

  The code departed from the property at seven corners (eight with the lost verdict of an offers round, further down).
  Repaired in /repo by `fix:` commits (notes/C02.fix-{1,2,3,5,6}.patch): the four corners of the task commands, the
  workflow without a role (deploy_empty_workflow) and one of the two mechanisms of deploy_misses_active (the dropped
  "root is ACTIVE" notification). `Cfg.code` is the code as it is (tied to the source by `C02_cfg_is_code` and by the
  differential runs), `Cfg.legacy` the code as it was. Each clause has its full-strength statement as a
  `def …_full (cfg) : Prop`; for the repaired corners it is PROVED for the code as it is (`…_code : …_full Cfg.code`),
  the former refutation `C02_finding_<id>` stays as a true statement about `Cfg.legacy`, and the `…_partial` theorem
  (corner excluded by a decidable hypothesis, any configuration) stays. Two DEPLOY corners are still open — a
  non-critical task that does not start, a TASK_RUNNING update that overtakes the roster: full statement, refutation
  on a witness (about `Cfg.code`), `…_partial`.
-/
import ControlModel.Proofs.Transition
import ControlModel.Proofs.DeployAttempts
import ControlModel.Gen.C02Facts

open EnvM Trans

/-! ## tie: the model's configuration of the code as it is, read off the source (go/ast, regenerated every run) -/

/-- `Cfg.code` has a switch on exactly where the source has the repair: the single-response branch of BOTH
    transitionTasks and configureTasks asks `isCriticalTarget` (fix-1); transitionTasks returns nil for no task and
    ConfigureTransition.do waits on stateChangedCh only if it sent the message (fix-2); ControlEnvironment keeps the
    transition's error apart from GO_ERROR's (fix-3); DeployTransition.do subscribes with a channel that has room for a
    notification and its loop reads the workflow's status itself when woken, the status being stored before the
    non-blocking notification is sent (fix-5); the loop is entered only if a task descriptor or a call role was asked to
    become active (fix-6). Reverting any of the five commits breaks this theorem. -/
theorem C02_cfg_is_code :
    Cfg.code = { singleUsesCritical := Gen.C02.singleBranchAsksCritical,
                 emptyIsSuccess := Gen.C02.transitionEmptyReturnsNil && Gen.C02.configureWaitsOnlyIfSent,
                 keepTransitionError := Gen.C02.goErrorKeepsErr,
                 deployKeepsNotification := decide (0 < Gen.C02.deployStatusChanCapacity) &&
                   Gen.C02.deployLoopRereadsStatus && Gen.C02.statusStoredBeforeNotified,
                 deployEmptyIsSuccess := Gen.C02.deployWaitsOnlyIfAwaited } := by decide

/-- The events whose body commands the tasks. -/
def commandEv (e : Ev) : Prop := e = .CONFIGURE ∨ e = .START_ACTIVITY ∨ e = .STOP_ACTIVITY ∨ e = .RESET

theorem bodyFor_ok (cfg : Cfg) (e : Ev) (he : commandEv e) (ts : List Target) (h0 : noTargets ts = false) :
    bodyFor cfg e ts = .ok ↔ classify cfg (consolidate (commit ts)) = true := by
  have hne : ts.isEmpty = false := h0
  rcases he with rfl | rfl | rfl | rfl <;>
    simp [bodyFor, configureBody, commandBody, configureTasks, transitionTasks, hne] <;>
    (split <;> simp_all)

theorem bodyFor_empty (cfg : Cfg) (e : Ev) (he : commandEv e) :
    bodyFor cfg e [] = if cfg.emptyIsSuccess then .ok else if e = .CONFIGURE then .hang else .error := by
  rcases he with rfl | rfl | rfl | rfl <;>
    cases h : cfg.emptyIsSuccess <;>
    simp [bodyFor, configureBody, commandBody, transitionTasks, h, consolidate, commit, classify]

theorem unacked_nonempty (ts : List Target) (h : allCriticalAcked ts = false) :
    noTargets ts = false ∧ singleNoncritFail ts = false := by
  match ts with
  | [] => simp [allCriticalAcked] at h
  | [t] =>
    simp only [allCriticalAcked, List.all_cons, List.all_nil, Bool.and_true] at h
    refine ⟨rfl, ?_⟩
    simp only [singleNoncritFail]
    cases ht : t.1 <;> simp_all
  | _ :: _ :: _ => exact ⟨rfl, rfl⟩

/-! ## the destination is reported iff every critical task acknowledged -/

/-- Full strength: for EVERY list of tasks and EVERY assignment of outcomes, the body of
    CONFIGURE / START_ACTIVITY / STOP_ACTIVITY / RESET succeeds iff every active critical task acknowledged. -/
def C02_iff_full (cfg : Cfg) : Prop :=
  ∀ (e : Ev), commandEv e → ∀ (ps : List (Task × Outcome)),
    (bodyFor cfg e (targets ps) = .ok ↔ allCriticalAcked (targets ps) = true)

/-- It holds whenever the command goes to somebody, and not to a lone non-critical task that fails
    (for every configuration, the code as it was included). -/
theorem C02_iff_partial (cfg : Cfg) (e : Ev) (he : commandEv e) (ps : List (Task × Outcome))
    (h0 : noTargets (targets ps) = false) (h1 : singleNoncritFail (targets ps) = false) :
    bodyFor cfg e (targets ps) = .ok ↔ allCriticalAcked (targets ps) = true := by
  rw [bodyFor_ok cfg e he _ h0, classify_acked cfg _ h0 (Or.inl h1)]

/-- The code as it is: it holds in full. -/
theorem C02_iff_code : C02_iff_full Cfg.code := by
  intro e he ps
  cases h0 : noTargets (targets ps)
  · rw [bodyFor_ok Cfg.code e he _ h0, classify_acked Cfg.code _ h0 (Or.inr rfl)]
  · have : targets ps = [] := by simpa [noTargets] using h0
    rw [this, bodyFor_empty _ _ he]; simp [Cfg.code, allCriticalAcked]

/-- finding `single_target_ignores_critical` (repaired; about the code as it was): a lone NON-critical task that
    answers START with an error makes the transition fail. -/
theorem C02_finding_single_target_ignores_critical : ¬ C02_iff_full Cfg.legacy := by
  intro h
  have := h .START_ACTIVITY (Or.inr (Or.inl rfl)) [({ critical := false, active := true }, .errorReplyStaySrc)]
  revert this; decide

/-- finding `zero_targets_error` (repaired; about the code as it was): with no active task START fails. -/
theorem C02_finding_zero_targets_error : ¬ C02_iff_full Cfg.legacy := by
  intro h
  have := h .START_ACTIVITY (Or.inr (Or.inl rfl)) []
  revert this; decide

/-- finding `configure_nothing_hangs` (repaired; about the code as it was): with no active task CONFIGURE never returns. -/
theorem C02_finding_configure_nothing_hangs :
    ¬ C02_iff_full Cfg.legacy ∧
    bodyFor Cfg.legacy .CONFIGURE (targets [({ critical := true, active := false }, .ok)]) = .hang := by
  refine ⟨fun h => ?_, by decide⟩
  have := h .CONFIGURE (Or.inl rfl) []
  revert this; decide

/-- From the body to the API: ControlEnvironment from a state in which the event is possible (no hooks, nothing
    pending) answers OK with the destination state iff the body succeeds — so iff whatever the body's success is
    equivalent to. -/
theorem iff_api_of_body (cfg : Cfg) (env : Env) (e : Ev) (d : St) (he : commandEv e) (w : Bool)
    (hp : env.pending = []) (hd : dst? e env.st = some d) (ps : List (Task × Outcome))
    (hiff : bodyFor cfg e (targets ps) = .ok ↔ allCriticalAcked (targets ps) = true) :
    let r := controlRpc cfg env [] e (decide (bodyFor cfg e (targets ps) = .ok)) false w
    (r.2 = true ∧ r.1.st = d) ↔ allCriticalAcked (targets ps) = true := by
  intro r
  rw [← hiff]
  have hdne : d ≠ .ERROR := by
    rcases he with rfl | rfl | rfl | rfl <;> (revert hd; cases env.st <;> simp [dst?] <;> (intro h; subst h; decide))
  by_cases hb : bodyFor cfg e (targets ps) = .ok
  · have hf := fsmEvent_nohooks env e d true hp hd
    have : r = ((tryTransition env [] e true false).1, true) := by
      show controlRpc cfg env [] e (decide (bodyFor cfg e (targets ps) = .ok)) false w = _
      rw [decide_eq_true hb]; exact controlRpc_ok cfg env [] e true false w hf.2.1
    rw [this]; simp only [tryTransition, hf.2.2, ↓reduceIte, and_self, true_iff]; exact hb
  · have hf := fsmEvent_body_fails env [] e false
    have : r.1.st = .ERROR := by
      show (controlRpc cfg env [] e (decide (bodyFor cfg e (targets ps) = .ok)) false w).1.st = _
      rw [decide_eq_false hb]; exact controlRpc_failed_error cfg env [] e false false w hf
    constructor
    · rintro ⟨_, h⟩; rw [this] at h; exact absurd h.symm hdne
    · intro h; exact absurd h hb

/-- The same at the API, any configuration: ControlEnvironment answers OK with the destination state iff every active
    critical task acknowledged — the two task-level corners excluded. -/
theorem C02_iff_api_partial (cfg : Cfg) (env : Env) (e : Ev) (d : St) (he : commandEv e) (w : Bool)
    (hp : env.pending = []) (hd : dst? e env.st = some d) (ps : List (Task × Outcome))
    (h0 : noTargets (targets ps) = false) (h1 : singleNoncritFail (targets ps) = false) :
    let r := controlRpc cfg env [] e (decide (bodyFor cfg e (targets ps) = .ok)) false w
    (r.2 = true ∧ r.1.st = d) ↔ allCriticalAcked (targets ps) = true :=
  iff_api_of_body cfg env e d he w hp hd ps (C02_iff_partial cfg e he ps h0 h1)

/-- The code as it is, at the API, in full: for every task list and outcome assignment, whoever wins the mutex. -/
theorem C02_iff_api_code (env : Env) (e : Ev) (d : St) (he : commandEv e) (w : Bool)
    (hp : env.pending = []) (hd : dst? e env.st = some d) (ps : List (Task × Outcome)) :
    let r := controlRpc Cfg.code env [] e (decide (bodyFor Cfg.code e (targets ps) = .ok)) false w
    (r.2 = true ∧ r.1.st = d) ↔ allCriticalAcked (targets ps) = true :=
  iff_api_of_body Cfg.code env e d he w hp hd ps (C02_iff_code e he ps)

/-! ## a critical task that does not acknowledge: never reported, and the environment ends in ERROR -/

/-- In full, for every configuration: if some active critical task does not acknowledge, the body fails. -/
theorem C02_unacked_never_reported (cfg : Cfg) (e : Ev) (he : commandEv e) (ts : List Target)
    (h : allCriticalAcked ts = false) : bodyFor cfg e ts ≠ .ok := by
  obtain ⟨h0, h1⟩ := unacked_nonempty ts h
  rw [Ne, bodyFor_ok cfg e he ts h0, classify_acked cfg ts h0 (Or.inl h1), h]; simp

/-- In full, for ALL hook sets, ALL environments, ALL task lists and outcomes, whoever wins the mutex: when the
    task-level body of a requested transition does not succeed, ControlEnvironment leaves the environment in ERROR. -/
theorem C02_fail_ends_error (cfg : Cfg) (hooks : List Hook) (env : Env) (e : Ev) (rnFail w : Bool)
    (ts : List Target) (hfail : bodyFor cfg e ts ≠ .ok) :
    (controlRpc cfg env hooks e (decide (bodyFor cfg e ts = .ok)) rnFail w).1.st = .ERROR := by
  rw [decide_eq_false hfail]
  exact controlRpc_failed_error cfg env hooks e false rnFail w (fsmEvent_body_fails env hooks e rnFail)

/-- …in particular when an active critical task answered with an error, could not be reached, stayed silent or died. -/
theorem C02_unacked_ends_error (cfg : Cfg) (hooks : List Hook) (env : Env) (e : Ev) (he : commandEv e)
    (rnFail w : Bool) (ps : List (Task × Outcome)) (h : allCriticalAcked (targets ps) = false) :
    (controlRpc cfg env hooks e (decide (bodyFor cfg e (targets ps) = .ok)) rnFail w).1.st = .ERROR :=
  C02_fail_ends_error cfg hooks env e rnFail w _ (C02_unacked_never_reported cfg e he _ h)

/-! ## …and the request returns an error -/

/-- Full strength: a request whose critical tasks did not all acknowledge answers with an error status. -/
def C02_fail_returns_error_full (cfg : Cfg) : Prop :=
  ∀ (env : Env) (e : Ev) (d : St) (w : Bool) (ts : List Target), commandEv e → env.pending = [] →
    dst? e env.st = some d → allCriticalAcked ts = false →
    (controlRpc cfg env [] e (decide (bodyFor cfg e ts = .ok)) false w).2 = false

/-- finding `rpc_ok_on_failed_transition` (repaired; about the code as it was): the handler overwrote the
    transition's error with the result of the GO_ERROR it performs next; GO_ERROR succeeds, so the status was OK (and
    the reply said ERROR). -/
theorem C02_finding_rpc_ok_on_failed_transition : ¬ C02_fail_returns_error_full Cfg.legacy := by
  intro h
  have := h { st := .CONFIGURED } .START_ACTIVITY .RUNNING false [(true, .errorReplyStaySrc)]
    (Or.inr (Or.inl rfl)) rfl rfl rfl
  revert this; decide

/-- Any configuration (as the code was, an error status came back only by this accident): when the environment's own
    watcher performed GO_ERROR first, so that the handler's GO_ERROR is refused, the status is an error. -/
theorem C02_fail_returns_error_partial (cfg : Cfg) (env : Env) (e : Ev) (d : St) (ts : List Target)
    (he : commandEv e) (hp : env.pending = []) (hd : dst? e env.st = some d)
    (h : allCriticalAcked ts = false) :
    (controlRpc cfg env [] e (decide (bodyFor cfg e ts = .ok)) false true).2 = false := by
  rw [decide_eq_false (C02_unacked_never_reported cfg e he ts h)]
  have hf := fsmEvent_nohooks env e d false hp hd
  have hsrc : dst? .GO_ERROR env.st = some .ERROR := by
    rcases he with rfl | rfl | rfl | rfl <;> (revert hd; cases env.st <;> simp [dst?])
  unfold controlRpc
  simp only [tryTransition, hf.2.1, Bool.false_eq_true, ↓reduceIte]
  generalize fsmEvent env [] e false false = R at hf
  have hst : R.1.st = env.st := by simpa using hf.2.2
  have hg := fsmEvent_nohooks R.1 .GO_ERROR .ERROR true hf.1 (by rw [hst]; exact hsrc)
  have hw : (watcher R.1 []).st = .ERROR := by
    unfold watcher; simp only [tryTransition, hg.2.1, ↓reduceIte]; simpa using hg.2.2
  rw [fsmEvent_illegal _ _ _ _ _ (by rw [hw]; rfl)]
  cases cfg.keepTransitionError <;> rfl

/-- The code as it is: an error status always comes back — for ALL hook sets, environments (whatever is pending,
    whether or not the event is possible), run-number failures and mutex winners. -/
theorem C02_fail_returns_error_code_any_hooks (hooks : List Hook) (env : Env) (e : Ev) (he : commandEv e) (rnFail w : Bool)
    (ts : List Target) (h : allCriticalAcked ts = false) :
    (controlRpc Cfg.code env hooks e (decide (bodyFor Cfg.code e ts = .ok)) rnFail w).2 = false := by
  rw [decide_eq_false (C02_unacked_never_reported Cfg.code e he ts h)]
  unfold controlRpc
  simp [fsmEvent_body_fails env hooks e rnFail, tryTransition, Cfg.code]

/-- …in particular the full-strength clause holds of the code as it is. -/
theorem C02_fail_returns_error_code : C02_fail_returns_error_full Cfg.code :=
  fun env e _ w ts he _ _ h => C02_fail_returns_error_code_any_hooks [] env e he false w ts h

/-! ## failures confined to non-critical tasks are harmless -/

def C02_noncritical_harmless_full (cfg : Cfg) : Prop :=
  ∀ (e : Ev), commandEv e → ∀ (ps : List (Task × Outcome)),
    (∀ t ∈ targets ps, t.2 ≠ .ok → t.1 = false) → bodyFor cfg e (targets ps) = .ok

theorem harmless_acked (ts : List Target) (h : ∀ t ∈ ts, t.2 ≠ .ok → t.1 = false) : allCriticalAcked ts = true := by
  simp only [allCriticalAcked, List.all_eq_true]
  intro t ht
  by_cases ho : t.2 = .ok
  · simp [ho]
  · simp [h t ht ho]

theorem C02_noncritical_harmless_partial (cfg : Cfg) (e : Ev) (he : commandEv e) (ps : List (Task × Outcome))
    (h0 : noTargets (targets ps) = false) (h1 : singleNoncritFail (targets ps) = false)
    (h : ∀ t ∈ targets ps, t.2 ≠ .ok → t.1 = false) : bodyFor cfg e (targets ps) = .ok :=
  (C02_iff_partial cfg e he ps h0 h1).2 (harmless_acked _ h)

/-- The code as it is: failures confined to non-critical tasks never fail a transition. -/
theorem C02_noncritical_harmless_code : C02_noncritical_harmless_full Cfg.code :=
  fun e he ps h => (C02_iff_code e he ps).2 (harmless_acked _ h)

/-- The single-target corner refuted this clause too (repaired; about the code as it was). -/
theorem C02_finding_single_target_harms : ¬ C02_noncritical_harmless_full Cfg.legacy := by
  intro h
  have := h .STOP_ACTIVITY (Or.inr (Or.inr (Or.inl rfl))) [({ critical := false, active := true }, .silent)]
    (by decide)
  revert this; decide

/-! ## a transition with nothing to command succeeds at once -/

def C02_empty_succeeds_full (cfg : Cfg) : Prop := ∀ (e : Ev), commandEv e → bodyFor cfg e [] = .ok

/-- What the code did instead (exactly): CONFIGURE never returned, the others failed. -/
theorem C02_empty_legacy (e : Ev) (he : commandEv e) :
    bodyFor Cfg.legacy e [] = if e = .CONFIGURE then .hang else .error := by
  rw [bodyFor_empty _ _ he]; rfl

/-- (repaired; about the code as it was) -/
theorem C02_finding_zero_targets : ¬ C02_empty_succeeds_full Cfg.legacy := by
  intro h
  have := h .RESET (Or.inr (Or.inr (Or.inr rfl)))
  revert this; decide

/-- The code as it is: a transition with nothing to command succeeds at once. -/
theorem C02_empty_succeeds_code : C02_empty_succeeds_full Cfg.code := by
  intro e he; rw [bodyFor_empty _ _ he]; rfl

/-- "Nothing to command" is decided by `GetActiveTasks`: tasks whose role is not ACTIVE are not commanded, and what
    is scripted for them is irrelevant. -/
theorem C02_inactive_not_commanded (ps : List (Task × Outcome)) (f : Outcome → Outcome) :
    targets (ps.map (fun p => if p.1.active then p else (p.1, f p.2))) = targets ps := by
  induction ps with
  | nil => rfl
  | cons p ps ih =>
    simp only [targets, List.map_cons, List.filter_cons] at ih ⊢
    by_cases ha : p.1.active = true
    · simp [ha, ih]
    · simp [ha, ih]

theorem C02_all_inactive_no_targets (ps : List (Task × Outcome)) (h : ∀ p ∈ ps, p.1.active = false) :
    targets ps = [] := by
  simp only [targets, List.map_eq_nil_iff, List.filter_eq_nil_iff]
  intro p hp; simp [h p hp]

/-! ## DEPLOY -/

/-- Full strength: DEPLOY succeeds iff every critical task became active — every workflow, every launch assignment,
    wherever the loop is when the root becomes ACTIVE. -/
def C02_deploy_iff_full (cfg : Cfg) : Prop :=
  ∀ (ls : List (Bool × Launch)) (calls : Nat) (lost : Bool),
    deployBody cfg ls calls lost = .ok ↔ allCriticalLaunched ls = true

/-- DEPLOY succeeds iff every critical task became active — provided the workflow has a role at all, no
    NON-critical task failed to start (the root status the loop waits for is the product over all roles), no
    TASK_RUNNING update overtook the roster and the loop was listening when the root became ACTIVE (for every
    configuration, the code as it was included). -/
theorem C02_deploy_iff_partial (cfg : Cfg) (ls : List (Bool × Launch)) (calls : Nat) (lost : Bool)
    (h0 : emptyWorkflow { calls := calls, tasks := ls } = false) (h1 : noncritLaunchFail ls = false)
    (h2 : earlyRunning ls = false) (h3 : lost = false) :
    deployBody cfg ls calls lost = .ok ↔ allCriticalLaunched ls = true := by
  rw [deployBody_ok]
  have hne : ls ≠ [] ∨ calls ≠ 0 := by
    simp only [emptyWorkflow, Bool.and_eq_false_iff, List.isEmpty_eq_false_iff, decide_eq_false_iff_not] at h0
    exact h0
  simp only [allCriticalLaunched, List.all_eq_true, noncritLaunchFail, earlyRunning, List.any_eq_false] at h1 h2 ⊢
  constructor
  · rintro (⟨_, hl, hc⟩ | ⟨_, _, hall⟩) l hl'
    · subst hl; cases hl'
    · simp [hall l hl', Launch.started]
  · intro h
    refine Or.inr ⟨by simp [Cfg.deployHears, h3], hne, fun l hl => ?_⟩
    have a := h l hl
    have b := h1 l hl
    have c := h2 l hl
    cases hc : l.1 <;> cases hl2 : l.2 <;> simp_all [Launch.started]

/-- The code as it is: the same with only the two open corners excluded — also for a workflow without a role, and
    wherever the loop is when the root becomes ACTIVE. -/
theorem C02_deploy_iff_code_partial (ls : List (Bool × Launch)) (calls : Nat) (lost : Bool)
    (h1 : noncritLaunchFail ls = false) (h2 : earlyRunning ls = false) :
    deployBody Cfg.code ls calls lost = .ok ↔ allCriticalLaunched ls = true := by
  rw [deployBody_ok]
  simp only [allCriticalLaunched, List.all_eq_true, noncritLaunchFail, earlyRunning, List.any_eq_false] at h1 h2 ⊢
  constructor
  · rintro (⟨_, hl, hc⟩ | ⟨_, _, hall⟩) l hl'
    · subst hl; cases hl'
    · simp [hall l hl', Launch.started]
  · intro h
    by_cases hemp : ls = [] ∧ calls = 0
    · exact Or.inl ⟨rfl, hemp.1, hemp.2⟩
    · refine Or.inr ⟨by simp [Cfg.deployHears, Cfg.code], ?_, fun l hl => ?_⟩
      · by_cases hls : ls = []
        · exact Or.inr (fun hc => hemp ⟨hls, hc⟩)
        · exact Or.inl hls
      · have a := h l hl
        have b := h1 l hl
        have c := h2 l hl
        cases hc : l.1 <;> cases hl2 : l.2 <;> simp_all [Launch.started]

/-- In full: a critical task that does not start (dies, stays staging, has no host) fails the DEPLOY. -/
theorem C02_deploy_critical_needed (cfg : Cfg) (ls : List (Bool × Launch)) (calls : Nat) (lost : Bool)
    (h : allCriticalLaunched ls = false) : deployBody cfg ls calls lost ≠ .ok := by
  rw [Ne, deployBody_ok]
  rintro (⟨_, hl, _⟩ | ⟨_, _, hall⟩)
  · subst hl; simp [allCriticalLaunched] at h
  · have : allCriticalLaunched ls = true := by
      simp only [allCriticalLaunched, List.all_eq_true]; intro l hl; simp [hall l hl, Launch.started]
    rw [this] at h; cases h

/-- finding `deploy_noncritical_blocks` (open; about the code as it is): a non-critical task that does not start makes
    the DEPLOY fail. -/
theorem C02_finding_deploy_noncritical_blocks : ¬ C02_deploy_iff_full Cfg.code := by
  intro h
  have := h [(true, .ok), (false, .dies)] 0 false
  revert this; decide

/-- finding `deploy_misses_active` (open; about the code as it is): a task that reports TASK_RUNNING before acquireTasks
    has entered it into the roster never becomes ACTIVE for the core: the DEPLOY times out although every task started
    in time. -/
theorem C02_finding_deploy_running_update_dropped : ¬ C02_deploy_iff_full Cfg.code := by
  intro h
  have := h [(true, .okEarly)] 0 false
  revert this; decide

/-- Full strength: "a transition with nothing to command succeeds at once" for DEPLOY — a workflow without a task role
    and without a call role is deployed, wherever the loop would be. -/
def C02_deploy_empty_full (cfg : Cfg) : Prop := ∀ (lost : Bool), deployBody cfg [] 0 lost = .ok

/-- The code as it is (since `fix: DEPLOY does not wait for a workflow that has nothing to deploy`). -/
theorem C02_deploy_empty_code : C02_deploy_empty_full Cfg.code := by
  intro lost; cases lost <;> decide

/-- the former finding `deploy_empty_workflow` (repaired; a true statement about the code as it was): a workflow without
    roles could not be deployed — nobody ever reports a status, the wait can only time out. -/
theorem C02_finding_deploy_empty_workflow : ¬ C02_deploy_empty_full Cfg.legacy ∧ ¬ C02_deploy_iff_full Cfg.legacy := by
  refine ⟨fun h => ?_, fun h => ?_⟩
  · have := h false
    revert this; decide
  · have := h [] 0 false
    revert this; decide

/-- Full strength: what DEPLOY answers does not depend on where its loop is when the root becomes ACTIVE. -/
def C02_deploy_heard_full (cfg : Cfg) : Prop :=
  ∀ (ls : List (Bool × Launch)) (calls : Nat) (lost : Bool), deployBody cfg ls calls lost = deployBody cfg ls calls false

/-- Any configuration whose hand-over keeps the notification. -/
theorem C02_deploy_heard_of_kept (cfg : Cfg) (h : cfg.deployKeepsNotification = true) : C02_deploy_heard_full cfg := by
  intro ls calls lost
  simp [deployBody, Cfg.deployHears, h]

/-- The code as it is (since `fix: DEPLOY cannot miss that the workflow became active`). -/
theorem C02_deploy_heard_code : C02_deploy_heard_full Cfg.code := C02_deploy_heard_of_kept _ rfl

/-- An ACTIVE root is reported by the code as it is, in every environment: every task up (and at least one role, or
    none at all) ⇒ DEPLOYED. -/
theorem C02_deploy_active_reported_code (ls : List (Bool × Launch)) (calls : Nat) (lost : Bool)
    (h : ∀ l ∈ ls, l.2 = .ok) : deployBody Cfg.code ls calls lost = .ok := by
  refine (C02_deploy_iff_code_partial ls calls lost ?_ ?_).2 ?_
  · simp only [noncritLaunchFail, List.any_eq_false]; intro l hl; simp [h l hl, Launch.started]
  · simp only [earlyRunning, List.any_eq_false]; intro l hl; simp [h l hl]
  · simp only [allCriticalLaunched, List.all_eq_true]; intro l hl; simp [h l hl, Launch.started]

/-- the former mechanism (b) of finding `deploy_misses_active` (repaired; a true statement about the code as it was):
    the non-blocking notification that the root became ACTIVE was dropped while the loop was not at its receive: the
    DEPLOY timed out although the workflow was ACTIVE. -/
theorem C02_finding_deploy_notification_lost : ¬ C02_deploy_heard_full Cfg.legacy ∧ ¬ C02_deploy_iff_full Cfg.legacy := by
  refine ⟨fun h => ?_, fun h => ?_⟩
  · have := h [(true, .ok)] 0 true
    revert this; decide
  · have := h [(true, .ok)] 0 true
    revert this; decide

/-! ## the corners are exhaustive; outside the DEPLOY corners the Spec holds of the code as it is

  `Trans.judge` (Spec/C02.lean) is the decidable predicate the correspondence harness evaluates on what the real
  core did; `Trans.judgeAll` is the same verdict with the repaired corners still named. Here they are evaluated on
  what the MODEL does, for every scenario: `judgeAll` on the code as it was (`C02_corners_exhaustive_legacy`),
  `judge` on the code as it is (`C02_spec_code`, `C02_corners_exhaustive`). -/

/-- The verdict names a recorded corner (or there is no violation). -/
def Named (r : Option String) : Prop := r ≠ some "-"

theorem commands_iff (e : Ev) : commands e = true ↔ commandEv e := by
  cases e <;> simp [commands, commandEv]

theorem dst_ne_error (e : Ev) (he : commandEv e) (s d : St) (hd : dst? e s = some d) : d ≠ .ERROR := by
  rcases he with rfl | rfl | rfl | rfl <;> (revert hd; cases s <;> simp [dst?] <;> (intro h; subst h; decide))

theorem bodyFor_hang (e : Ev) (ts : List Target) (h : bodyFor Cfg.legacy e ts = .hang) : e = .CONFIGURE ∧ ts = [] := by
  cases e <;> simp only [bodyFor, commandBody, configureBody] at h
  case CONFIGURE =>
    refine ⟨rfl, ?_⟩
    cases ts with
    | nil => rfl
    | cons t r =>
      simp only [List.isEmpty_cons, Bool.false_eq_true, ↓reduceIte] at h
      split at h <;> cases h
  all_goals (first | cases h | (split at h <;> cases h))

/-- body fails although every critical target acknowledged: one of the two corners. -/
theorem error_acked_corner (cfg : Cfg) (e : Ev) (he : commandEv e) (ts : List Target)
    (hb : bodyFor cfg e ts ≠ .ok) (ha : allCriticalAcked ts = true) :
    noTargets ts = true ∨ singleNoncritFail ts = true := by
  cases h0 : noTargets ts
  · right
    cases h1 : singleNoncritFail ts
    · exfalso; apply hb
      rw [bodyFor_ok cfg e he ts h0, classify_acked cfg ts h0 (Or.inl h1), ha]
    · rfl
  · left; rfl

theorem controlStep_hang (cfg : Cfg) (env : Env) (tasks : List Task) (e : Ev) (d : St) (outs : List Outcome) (w : Bool)
    (ls : List (Option Loss))
    (hd : dst? e env.st = some d) (hb : bodyFor cfg e (targets (pair tasks (effOuts ls outs))) = .hang) :
    controlStep cfg env tasks e outs w ls =
      ({ ev := some e, rpc := .hang, state := none, after := some env.st, cmd := [] }, env, tasks) := by
  unfold controlStep
  simp [hd, hb]

theorem controlStep_ok (cfg : Cfg) (env : Env) (tasks : List Task) (e : Ev) (d : St) (outs : List Outcome) (w : Bool)
    (ls : List (Option Loss))
    (hp : env.pending = []) (hd : dst? e env.st = some d)
    (hb : bodyFor cfg e (targets (pair tasks (effOuts ls outs))) = .ok) :
    controlStep cfg env tasks e outs w ls =
      ({ ev := some e, rpc := .ok, state := some (if critLost ls tasks && w then .ERROR else d),
         after := some (if critLost ls tasks then .ERROR else d), cmd := cmdIdx tasks, lost := lostIdx ls tasks },
       (tryTransition env [] e true false).1, loseTasks ls (afterCommand tasks (effOuts ls outs))) := by
  have hf := fsmEvent_nohooks env e d true hp hd
  have hr := controlRpc_ok cfg env [] e true false w hf.2.1
  have hst : (tryTransition env [] e true false).1.st = d := by simpa [tryTransition] using hf.2.2
  unfold controlStep
  simp [hd, hb, hr, hst]

theorem controlStep_error (cfg : Cfg) (env : Env) (tasks : List Task) (e : Ev) (d : St) (outs : List Outcome) (w : Bool)
    (ls : List (Option Loss))
    (hd : dst? e env.st = some d)
    (hb : bodyFor cfg e (targets (pair tasks (effOuts ls outs))) = .error) :
    ∃ k : Bool, (controlStep cfg env tasks e outs w ls).1 =
      { ev := some e, rpc := if k then .ok else .err, state := if k then some .ERROR else none,
        after := some .ERROR, cmd := cmdIdx tasks, lost := lostIdx ls tasks } := by
  have hf := fsmEvent_body_fails env [] e false
  have hst := controlRpc_failed_error cfg env [] e false false w hf
  refine ⟨(controlRpc cfg env [] e false false w).2, ?_⟩
  unfold controlStep
  simp [hd, hb, hst]

theorem named_none : Named none := by simp [Named]

theorem judgeSteps_no_obs (st : St) (tasks : List Task) (steps : List SStep) : judgeSteps st tasks steps [] = none := by
  cases steps <;> simp [judgeSteps]

theorem judgeSteps_die (st : St) (tasks : List Task) (outs : List Outcome) (rest : List SStep) (os : List Obs) :
    judgeSteps st tasks (.die outs :: rest) os = judgeSteps st (afterCommand tasks outs) rest os := by
  cases os with
  | nil => rw [judgeSteps_no_obs, judgeSteps_no_obs]
  | cons o os => simp [judgeSteps]

theorem judgeCtl_hang (e : Ev) (d : St) (s : St) (cl : Bool) :
    Named (judgeCtl e d [] { ev := some e, rpc := .hang, state := none, after := some s, cmd := [] } cl) := by
  simp only [judgeCtl, allCriticalAcked, List.all_nil, Trans.reqOk, reached, noTargets, List.isEmpty_nil]
  by_cases h : e = .CONFIGURE <;> cases cl <;> simp [h, Named]

/-- A successful request is as demanded: without a lost critical task (destination reported and kept) and with one
    (OK, the destination or — the watcher first — ERROR in the reply, ERROR afterwards). -/
theorem judgeCtl_ok (e : Ev) (d : St) (ts : List Target) (cmd lost : List Nat) (cl w : Bool)
    (ha : allCriticalAcked ts = true) :
    judgeCtl e d ts { ev := some e, rpc := .ok, state := some (if cl && w then .ERROR else d),
                      after := some (if cl then .ERROR else d), cmd := cmd, lost := lost } cl = none := by
  cases cl <;> cases w <;> simp [judgeCtl, ha, Trans.reqOk]

theorem judgeCtl_error (e : Ev) (d : St) (hd : d ≠ .ERROR) (ts : List Target) (cmd lost : List Nat) (k cl : Bool)
    (hcorner : allCriticalAcked ts = true → noTargets ts = true ∨ singleNoncritFail ts = true) :
    let o : Obs := { ev := some e, rpc := if k then .ok else .err, state := if k then some .ERROR else none,
                     after := some .ERROR, cmd := cmd, lost := lost }
    Named (judgeCtl e d ts o cl) ∧ reached d o = false := by
  intro o
  have hne : St.ERROR ≠ d := fun h => hd h.symm
  have hr : reached d o = false := by
    cases k <;> simp [reached, o, hne]
  refine ⟨?_, hr⟩
  cases ha : allCriticalAcked ts
  · cases k <;> simp [judgeCtl, ha, Trans.reqOk, o, hne, reached, Named]
  · rcases hcorner ha with h0 | h1
    · cases k <;> cases cl <;> by_cases hc : e = .CONFIGURE <;>
        simp [judgeCtl, ha, Trans.reqOk, o, hne, reached, Named, h0, hc]
    · cases h0 : noTargets ts <;> cases k <;> cases cl <;> by_cases hc : e = .CONFIGURE <;>
        simp [judgeCtl, ha, Trans.reqOk, o, hne, reached, Named, h0, h1, hc]

theorem unacked_body (cfg : Cfg) (e : Ev) (he : commandEv e) (ts : List Target)
    (hb : bodyFor cfg e ts = .ok) : allCriticalAcked ts = true := by
  cases ha : allCriticalAcked ts
  · exact absurd hb (C02_unacked_never_reported cfg e he ts ha)
  · rfl

/-- Along any sequence of requests (executor / agent losses included) the model of the code as it was violates the
    Spec only inside a recorded corner. -/
theorem steps_named (steps : List SStep) : ∀ (env : Env) (tasks : List Task), env.pending = [] →
    Named (judgeSteps env.st tasks steps (runSteps Cfg.legacy env tasks steps)) := by
  induction steps with
  | nil => intro env tasks _; simp [judgeSteps, Named]
  | cons s rest ih =>
    intro env tasks hp
    cases s with
    | die outs =>
      rw [judgeSteps_die]
      simp only [runSteps]
      exact ih env _ hp
    | ctl e outs w ls =>
      cases hc : commands e with
      | false =>
        simp only [runSteps]
        split <;> simp [judgeSteps, hc, Named]
      | true =>
      have he := (commands_iff e).1 hc
      cases hd : dst? e env.st with
      | none =>
        simp only [runSteps]
        split <;> simp [judgeSteps, hc, hd, Named]
      | some d =>
        have hdne := dst_ne_error e he env.st d hd
        cases hb : bodyFor Cfg.legacy e (targets (pair tasks (effOuts ls outs))) with
        | hang =>
          obtain ⟨_, hts⟩ := bodyFor_hang e _ hb
          have hcs := controlStep_hang Cfg.legacy env tasks e d outs w ls hd hb
          simp only [runSteps, hcs]
          simp only [show (Rpc.hang = Rpc.ok) = False from by simp, false_and, ↓reduceIte]
          simp only [judgeSteps, hc, hd, hts, Bool.not_true, Bool.false_eq_true, ↓reduceIte]
          have := judgeCtl_hang e d env.st (critLost ls tasks)
          revert this; generalize judgeCtl e d [] _ _ = r; intro this
          cases r with
          | some h => simpa using this
          | none => simp [reached, Named]
        | ok =>
          have hcs := controlStep_ok Cfg.legacy env tasks e d outs w ls hp hd hb
          have ha := unacked_body Cfg.legacy e he _ hb
          have hf := fsmEvent_nohooks env e d true hp hd
          have hj := judgeCtl_ok e d (targets (pair tasks (effOuts ls outs))) (cmdIdx tasks) (lostIdx ls tasks)
            (critLost ls tasks) w ha
          simp only [runSteps, hcs]
          cases hcl : critLost ls tasks with
          | true =>
            rw [hcl] at hj
            simp only [Bool.true_eq_false, and_false, ↓reduceIte]
            simp only [judgeSteps, hc, hd, Bool.not_true, Bool.false_eq_true, ↓reduceIte, hcl, Bool.and_false]
            simp only [↓reduceIte] at hj
            rw [hj]
            exact named_none
          | false =>
            rw [hcl] at hj
            simp only [Bool.false_and, Bool.false_eq_true, ↓reduceIte] at hj ⊢
            split
            · simp only [judgeSteps, hc, hd, Bool.not_true, Bool.false_eq_true, ↓reduceIte, hcl, hj]
              simp only [reached, decide_true, Bool.and_self, Bool.not_false, ↓reduceIte]
              have := ih (tryTransition env [] e true false).1 (loseTasks ls (afterCommand tasks (effOuts ls outs))) hf.1
              have hst : (tryTransition env [] e true false).1.st = d := by simpa [tryTransition] using hf.2.2
              rw [hst] at this; exact this
            · simp only [judgeSteps, hc, hd, Bool.not_true, Bool.false_eq_true, ↓reduceIte, hcl, hj]
              simp only [reached, decide_true, Bool.and_self, Bool.not_false, ↓reduceIte, judgeSteps_no_obs]
              exact named_none
        | error =>
          obtain ⟨k, hk⟩ := controlStep_error Cfg.legacy env tasks e d outs w ls hd hb
          have hcorner : allCriticalAcked (targets (pair tasks (effOuts ls outs))) = true →
              noTargets (targets (pair tasks (effOuts ls outs))) = true ∨
              singleNoncritFail (targets (pair tasks (effOuts ls outs))) = true :=
            fun ha => error_acked_corner Cfg.legacy e he _ (by rw [hb]; decide) ha
          have hj := judgeCtl_error e d hdne (targets (pair tasks (effOuts ls outs))) (cmdIdx tasks) (lostIdx ls tasks) k
            (critLost ls tasks) hcorner
          simp only [runSteps]
          have hnot : ¬ ((controlStep Cfg.legacy env tasks e outs w ls).1.rpc = Rpc.ok ∧
              (controlStep Cfg.legacy env tasks e outs w ls).1.state = dst? e env.st ∧ (dst? e env.st).isSome = true) := by
            rw [hk, hd]; intro h; cases k <;> simp at h
            exact hdne h.symm
          simp only [hnot, false_and, ↓reduceIte]
          simp only [judgeSteps, hc, hd, Bool.not_true, Bool.false_eq_true, ↓reduceIte, hk]
          obtain ⟨hn, hr⟩ := hj
          revert hn; generalize judgeCtl e d _ _ _ = r; intro hn
          cases r with
          | some h => simpa using hn
          | none => simp only [hr, Bool.false_and, Bool.false_eq_true, ↓reduceIte]; exact named_none

def tasks0 (wf : Workflow) : List Task := wf.tasks.map (fun t => { critical := t.1, active := t.2 = .ok })

theorem deploy_ok_launched (cfg : Cfg) (ls : List (Bool × Launch)) (calls : Nat) (lost : Bool)
    (h : deployBody cfg ls calls lost = .ok) : allCriticalLaunched ls = true := by
  cases ha : allCriticalLaunched ls
  · exact absurd h (C02_deploy_critical_needed cfg ls calls lost ha)
  · rfl

theorem deployBody_not_hang (cfg : Cfg) (ls : List (Bool × Launch)) (calls : Nat) (lost : Bool) :
    deployBody cfg ls calls lost ≠ .hang := by
  unfold deployBody; split
  · simp
  · split <;> simp

theorem new_env_ok (d : Env) (hd : d = (tryTransition ({} : Env) [] .DEPLOY true false).1) :
    (tryTransition d [] .CONFIGURE true false).1.pending = [] ∧
    (tryTransition d [] .CONFIGURE true false).1.st = .CONFIGURED := by
  have h1 := fsmEvent_nohooks ({} : Env) .DEPLOY .DEPLOYED true rfl rfl
  have hp : d.pending = [] := by rw [hd]; exact h1.1
  have hs : d.st = .DEPLOYED := by rw [hd]; simpa [tryTransition] using h1.2.2
  have h2 := fsmEvent_nohooks d .CONFIGURE .CONFIGURED true hp (by rw [hs]; rfl)
  exact ⟨h2.1, by simpa [tryTransition] using h2.2.2⟩

theorem create_named (wf : Workflow) (outs : List Outcome) :
    Named (judgeNew wf (targets (pair (tasks0 wf) outs)) (createEnvironment Cfg.legacy wf outs).1) ∧
    (∀ env tasks, (createEnvironment Cfg.legacy wf outs).2 = some (env, tasks) →
      env.pending = [] ∧ env.st = .CONFIGURED ∧ tasks = afterCommand (tasks0 wf) outs) := by
  unfold createEnvironment
  cases hdep : deployBody Cfg.legacy wf.tasks wf.calls wf.notifyLost with
  | hang => exact absurd hdep (deployBody_not_hang _ _ _ _)
  | error =>
    simp only
    refine ⟨?_, by intro _ _ h; cases h⟩
    cases hl : allCriticalLaunched wf.tasks
    · simp [judgeNew, hl, Trans.reqOk, Named]
    · cases ha : allCriticalAcked (targets (pair (tasks0 wf) outs))
      · simp [judgeNew, hl, ha, Trans.reqOk, Named]
      · -- every critical task started and would have acknowledged, yet DEPLOY failed: one of the DEPLOY corners (four for the code as it was)
        cases h0 : emptyWorkflow wf <;> cases h2 : earlyRunning wf.tasks <;> cases h1 : noncritLaunchFail wf.tasks <;>
          cases h3 : wf.notifyLost <;>
          simp [judgeNew, hl, ha, Trans.reqOk, reached, Named, h0, h1, h2, h3]
        have := (C02_deploy_iff_partial Cfg.legacy wf.tasks wf.calls wf.notifyLost h0 h1 h2 h3).2 hl
        rw [hdep] at this; cases this
  | ok =>
    simp only
    have hl := deploy_ok_launched _ _ _ _ hdep
    have henv := new_env_ok _ rfl
    cases hb : configureBody Cfg.legacy (targets (pair (tasks0 wf) outs)) with
    | hang =>
      have hts : targets (pair (tasks0 wf) outs) = [] := (bodyFor_hang .CONFIGURE _ hb).2
      simp only [tasks0] at hb hts
      simp only [hb]
      refine ⟨?_, by intro _ _ h; cases h⟩
      simp only [tasks0, hts]
      cases h0 : emptyWorkflow wf <;> cases h2 : earlyRunning wf.tasks <;> cases h1 : noncritLaunchFail wf.tasks <;>
        cases h3 : wf.notifyLost <;>
        simp [judgeNew, hl, allCriticalAcked, Trans.reqOk, reached, Named, h0, h1, h2, h3, noTargets]
    | error =>
      simp only [tasks0] at hb
      simp only [hb]
      refine ⟨?_, by intro _ _ h; cases h⟩
      cases ha : allCriticalAcked (targets (pair (tasks0 wf) outs))
      · simp [judgeNew, hl, ha, Trans.reqOk, Named]
      · have hcorner := error_acked_corner Cfg.legacy .CONFIGURE (Or.inl rfl) _
          (show bodyFor Cfg.legacy .CONFIGURE (targets (pair (tasks0 wf) outs)) ≠ .ok by
            simp only [bodyFor, tasks0, hb]; decide) ha
        rcases hcorner with hc | hc <;>
          cases h0 : emptyWorkflow wf <;> cases h2 : earlyRunning wf.tasks <;> cases h1 : noncritLaunchFail wf.tasks <;>
          cases h3 : noTargets (targets (pair (tasks0 wf) outs)) <;> cases h4 : wf.notifyLost <;>
          simp_all [judgeNew, Trans.reqOk, reached, Named]
    | ok =>
      simp only [tasks0] at hb
      simp only [hb]
      have ha : allCriticalAcked (targets (pair (tasks0 wf) outs)) = true :=
        unacked_body Cfg.legacy .CONFIGURE (Or.inl rfl) _ (by simp only [bodyFor, tasks0, hb])
      refine ⟨?_, ?_⟩
      · simp [judgeNew, hl, ha, Trans.reqOk, henv.2, Named]
      · intro env tasks h
        simp only [Option.some.injEq, Prod.mk.injEq] at h
        obtain ⟨h1, h2⟩ := h
        subst h1; subst h2
        exact ⟨henv.1, henv.2, rfl⟩

theorem judge_cons (sc : Scenario) (o : Obs) (os : List Obs)
    (hn : Named (judgeNew sc.wf (targets (pair (tasks0 sc.wf) sc.configure)) o))
    (hos : Named (judgeSteps .CONFIGURED (afterCommand (tasks0 sc.wf) sc.configure) sc.steps os)) :
    Named (judgeAll sc (o :: os)) := by
  simp only [judgeAll]
  simp only [tasks0] at hn hos
  revert hn
  generalize judgeNew sc.wf _ _ = r
  intro hn
  cases r with
  | some h => simpa using hn
  | none =>
    simp only
    split
    · exact hos
    · exact named_none

/-- About the code as it was: the recorded corners (seven findings, the two mechanisms of deploy_misses_active named
    apart) were EXHAUSTIVE — for every workflow, every outcome
    assignment and every request sequence, whenever what the model of the legacy code does is rejected by Spec.C02, the
    scenario lies in one of the named corners (the verdict with all corners named is never the anonymous "-"). -/
theorem C02_corners_exhaustive_legacy (sc : Scenario) : judgeAll sc (run Cfg.legacy sc) ≠ some "-" := by
  obtain ⟨hn, hsome⟩ := create_named sc.wf sc.configure
  have hnil : Named (judgeAll sc [(createEnvironment Cfg.legacy sc.wf sc.configure).1]) :=
    judge_cons sc _ [] hn (by rw [judgeSteps_no_obs]; exact named_none)
  unfold run
  simp only
  cases hc : (createEnvironment Cfg.legacy sc.wf sc.configure).2 with
  | none => exact hnil
  | some p =>
    obtain ⟨env, tasks⟩ := p
    obtain ⟨hp, hst, ht⟩ := hsome env tasks hc
    simp only
    split
    · exact hnil
    · refine judge_cons sc _ _ hn ?_
      have := steps_named sc.steps env tasks hp
      rw [hst] at this
      rw [← ht]
      exact this

/-! ### the code as it is: the Spec holds outside the DEPLOY corners, and nothing else is left -/

theorem ite_ne_hang (c : Prop) [Decidable c] : (if c then BodyRes.ok else BodyRes.error) ≠ .hang := by
  split <;> simp

theorem bodyFor_code_not_hang (e : Ev) (ts : List Target) : bodyFor Cfg.code e ts ≠ .hang := by
  cases e <;> simp only [bodyFor, commandBody, configureBody, Cfg.code, ↓reduceIte]
  case CONFIGURE =>
    by_cases h : ts.isEmpty = true
    · simp [h]
    · simp only [h, Bool.false_eq_true, ↓reduceIte]; exact ite_ne_hang _
  all_goals first | exact ite_ne_hang _ | decide

theorem controlRpc_code_err (env : Env) (hooks : List Hook) (e : Ev) (r w : Bool) :
    (controlRpc Cfg.code env hooks e false r w).2 = false := by
  unfold controlRpc
  simp [fsmEvent_body_fails env hooks e r, tryTransition, Cfg.code]

theorem controlStep_error_code (env : Env) (tasks : List Task) (e : Ev) (d : St) (outs : List Outcome) (w : Bool)
    (ls : List (Option Loss))
    (hd : dst? e env.st = some d)
    (hb : bodyFor Cfg.code e (targets (pair tasks (effOuts ls outs))) = .error) :
    (controlStep Cfg.code env tasks e outs w ls).1 =
      { ev := some e, rpc := .err, state := none, after := some .ERROR, cmd := cmdIdx tasks, lost := lostIdx ls tasks } := by
  have hf := fsmEvent_body_fails env [] e false
  have hst := controlRpc_failed_error Cfg.code env [] e false false w hf
  have hr := controlRpc_code_err env [] e false w
  unfold controlStep
  simp [hd, hb, hst, hr]

theorem iff_code_ts (e : Ev) (he : commandEv e) (tasks : List Task) (outs : List Outcome) :
    bodyFor Cfg.code e (targets (pair tasks outs)) = .ok ↔ allCriticalAcked (targets (pair tasks outs)) = true :=
  C02_iff_code e he (pair tasks outs)

theorem steps_code (steps : List SStep) : ∀ (env : Env) (tasks : List Task), env.pending = [] →
    judgeSteps env.st tasks steps (runSteps Cfg.code env tasks steps) = none := by
  induction steps with
  | nil => intro env tasks _; simp [judgeSteps]
  | cons s rest ih =>
    intro env tasks hp
    cases s with
    | die outs =>
      rw [judgeSteps_die]
      simp only [runSteps]
      exact ih env _ hp
    | ctl e outs w ls =>
      cases hc : commands e with
      | false =>
        simp only [runSteps]
        split <;> simp [judgeSteps, hc]
      | true =>
      have he := (commands_iff e).1 hc
      cases hd : dst? e env.st with
      | none =>
        simp only [runSteps]
        split <;> simp [judgeSteps, hc, hd]
      | some d =>
        have hdne := dst_ne_error e he env.st d hd
        cases hb : bodyFor Cfg.code e (targets (pair tasks (effOuts ls outs))) with
        | hang => exact absurd hb (bodyFor_code_not_hang _ _)
        | ok =>
          have hcs := controlStep_ok Cfg.code env tasks e d outs w ls hp hd hb
          have ha := (iff_code_ts e he tasks (effOuts ls outs)).1 hb
          have hf := fsmEvent_nohooks env e d true hp hd
          have hj := judgeCtl_ok e d (targets (pair tasks (effOuts ls outs))) (cmdIdx tasks) (lostIdx ls tasks)
            (critLost ls tasks) w ha
          simp only [runSteps, hcs]
          cases hcl : critLost ls tasks with
          | true =>
            rw [hcl] at hj
            simp only [Bool.true_eq_false, and_false, ↓reduceIte]
            simp only [judgeSteps, hc, hd, Bool.not_true, Bool.false_eq_true, ↓reduceIte, hcl, Bool.and_false]
            simp only [↓reduceIte] at hj
            rw [hj]
          | false =>
            rw [hcl] at hj
            simp only [Bool.false_and, Bool.false_eq_true, ↓reduceIte] at hj ⊢
            split
            · simp only [judgeSteps, hc, hd, Bool.not_true, Bool.false_eq_true, ↓reduceIte, hcl, hj]
              simp only [reached, decide_true, Bool.and_self, Bool.not_false, ↓reduceIte]
              have := ih (tryTransition env [] e true false).1 (loseTasks ls (afterCommand tasks (effOuts ls outs))) hf.1
              have hst : (tryTransition env [] e true false).1.st = d := by simpa [tryTransition] using hf.2.2
              rw [hst] at this; exact this
            · simp only [judgeSteps, hc, hd, Bool.not_true, Bool.false_eq_true, ↓reduceIte, hcl, hj]
              simp only [reached, decide_true, Bool.and_self, Bool.not_false, ↓reduceIte, judgeSteps_no_obs]
        | error =>
          have hk := controlStep_error_code env tasks e d outs w ls hd hb
          have ha : allCriticalAcked (targets (pair tasks (effOuts ls outs))) = false := by
            cases h : allCriticalAcked (targets (pair tasks (effOuts ls outs)))
            · rfl
            · have := (iff_code_ts e he tasks (effOuts ls outs)).2 h; rw [hb] at this; cases this
          simp only [runSteps]
          have hnot : ¬ ((controlStep Cfg.code env tasks e outs w ls).1.rpc = Rpc.ok ∧
              (controlStep Cfg.code env tasks e outs w ls).1.state = dst? e env.st ∧ (dst? e env.st).isSome = true) := by
            rw [hk]; simp
          simp only [hnot, false_and, ↓reduceIte]
          simp [judgeSteps, hc, hd, hk, judgeCtl, ha, Trans.reqOk, reached]

/-- No violation, or one inside an open DEPLOY corner. -/
def DeployCorner (r : Option String) : Prop :=
  r = none ∨ r = some "deploy_misses_active" ∨ r = some "deploy_noncritical_blocks"

/-- The scenario lies outside the two open DEPLOY corners. -/
def NoDeployCorner (wf : Workflow) : Prop :=
  noncritLaunchFail wf.tasks = false ∧ earlyRunning wf.tasks = false

/-- What is shown of a verdict on the model of the code as it is. -/
def CodeVerdict (wf : Workflow) (r : Option String) : Prop := DeployCorner r ∧ (NoDeployCorner wf → r = none)

theorem codeVerdict_none (wf : Workflow) : CodeVerdict wf none := ⟨Or.inl rfl, fun _ => rfl⟩

theorem create_code (wf : Workflow) (outs : List Outcome) :
    CodeVerdict wf (judgeNew wf (targets (pair (tasks0 wf) outs)) (createEnvironment Cfg.code wf outs).1) ∧
    (∀ env tasks, (createEnvironment Cfg.code wf outs).2 = some (env, tasks) →
      env.pending = [] ∧ env.st = .CONFIGURED ∧ tasks = afterCommand (tasks0 wf) outs) := by
  unfold createEnvironment
  cases hdep : deployBody Cfg.code wf.tasks wf.calls wf.notifyLost with
  | hang => exact absurd hdep (deployBody_not_hang _ _ _ _)
  | error =>
    simp only
    refine ⟨?_, by intro _ _ h; cases h⟩
    generalize (deployAwaits wf.tasks wf.calls && wf.tasks.all (fun t => t.2 = .ok || t.2 = .okEarly) &&
      decide (rootStatus wf.tasks wf.calls ≠ .ACTIVE)) = ra
    generalize decide (rootStatus wf.tasks wf.calls = .ACTIVE) = au
    cases hl : allCriticalLaunched wf.tasks
    · have : judgeNew wf (targets (pair (tasks0 wf) outs))
          { ev := none, rpc := .err, state := none, after := none, cmd := [], runningAcked := ra, activeUnseen := au } = none := by
        simp [judgeNew, hl, Trans.reqOk]
      rw [this]; exact codeVerdict_none wf
    · cases ha : allCriticalAcked (targets (pair (tasks0 wf) outs))
      · have : judgeNew wf (targets (pair (tasks0 wf) outs))
            { ev := none, rpc := .err, state := none, after := none, cmd := [], runningAcked := ra, activeUnseen := au } = none := by
          simp [judgeNew, hl, ha, Trans.reqOk]
        rw [this]; exact codeVerdict_none wf
      · -- every critical task started and would have acknowledged, yet DEPLOY failed: one of the two open DEPLOY corners
        have hin : ¬ NoDeployCorner wf := by
          rintro ⟨h1, h2⟩
          have := (C02_deploy_iff_code_partial wf.tasks wf.calls wf.notifyLost h1 h2).2 hl
          rw [hdep] at this; cases this
        have h0 : emptyWorkflow wf = false := by
          cases h0 : emptyWorkflow wf
          · rfl
          · exfalso; apply hin
            have : wf.tasks = [] := by
              simp only [emptyWorkflow, Bool.and_eq_true, List.isEmpty_iff] at h0; exact h0.1
            simp [NoDeployCorner, this, noncritLaunchFail, earlyRunning]
        refine ⟨?_, fun h => absurd h hin⟩
        cases h2 : earlyRunning wf.tasks <;> cases h1 : noncritLaunchFail wf.tasks <;>
          simp [judgeNew, hl, ha, Trans.reqOk, reached, DeployCorner, h0, h1, h2]
        exact absurd ⟨h1, h2⟩ hin
  | ok =>
    simp only
    have hl := deploy_ok_launched _ _ _ _ hdep
    have henv := new_env_ok _ rfl
    have hiff := iff_code_ts .CONFIGURE (Or.inl rfl) (tasks0 wf) outs
    simp only [bodyFor] at hiff
    cases hb : configureBody Cfg.code (targets (pair (tasks0 wf) outs)) with
    | hang => exact absurd (show bodyFor Cfg.code .CONFIGURE _ = .hang from hb) (bodyFor_code_not_hang _ _)
    | error =>
      have ha : allCriticalAcked (targets (pair (tasks0 wf) outs)) = false := by
        cases h : allCriticalAcked (targets (pair (tasks0 wf) outs))
        · rfl
        · have := hiff.2 h; rw [hb] at this; cases this
      simp only [tasks0] at hb
      simp only [hb]
      refine ⟨?_, by intro _ _ h; cases h⟩
      have : judgeNew wf (targets (pair (tasks0 wf) outs))
          { ev := none, rpc := .err, state := none, after := none,
            cmd := cmdIdx (wf.tasks.map (fun t => ({ critical := t.1, active := t.2 = .ok } : Task))) } = none := by
        simp [judgeNew, hl, ha, Trans.reqOk]
      rw [this]; exact codeVerdict_none wf
    | ok =>
      have ha := hiff.1 hb
      simp only [tasks0] at hb
      simp only [hb]
      refine ⟨?_, ?_⟩
      · have : judgeNew wf (targets (pair (tasks0 wf) outs))
            { ev := none, rpc := .ok,
              state := some (tryTransition (tryTransition ({} : Env) [] .DEPLOY true false).1 [] .CONFIGURE true false).1.st,
              after := some (tryTransition (tryTransition ({} : Env) [] .DEPLOY true false).1 [] .CONFIGURE true false).1.st,
              cmd := cmdIdx (wf.tasks.map (fun t => ({ critical := t.1, active := t.2 = .ok } : Task))) } = none := by
          simp [judgeNew, hl, ha, Trans.reqOk, henv.2]
        rw [this]; exact codeVerdict_none wf
      · intro env tasks h
        simp only [Option.some.injEq, Prod.mk.injEq] at h
        obtain ⟨h1, h2⟩ := h
        subst h1; subst h2
        exact ⟨henv.1, henv.2, rfl⟩

/-- `judgeAll` of a run that starts with the NewEnvironment observation: any property that holds of "no violation",
    of the verdict on NewEnvironment and of the verdict on the requests after it. -/
theorem judgeAll_cons (P : Option String → Prop) (hP : P none) (sc : Scenario) (o : Obs) (os : List Obs)
    (hn : P (judgeNew sc.wf (targets (pair (tasks0 sc.wf) sc.configure)) o))
    (hos : P (judgeSteps .CONFIGURED (afterCommand (tasks0 sc.wf) sc.configure) sc.steps os)) :
    P (judgeAll sc (o :: os)) := by
  simp only [judgeAll]
  simp only [tasks0] at hn hos
  revert hn
  generalize judgeNew sc.wf _ _ = r
  intro hn
  cases r with
  | some h => exact hn
  | none =>
    simp only
    split
    · exact hos
    · exact hP

/-- The model of the code as it is, EVERY scenario: Spec.C02 (all corners named) is satisfied or the violation lies in
    an open DEPLOY corner; outside the DEPLOY corners it is satisfied. -/
theorem code_verdict (sc : Scenario) : CodeVerdict sc.wf (judgeAll sc (run Cfg.code sc)) := by
  obtain ⟨hn, hsome⟩ := create_code sc.wf sc.configure
  have hnil : CodeVerdict sc.wf (judgeAll sc [(createEnvironment Cfg.code sc.wf sc.configure).1]) :=
    judgeAll_cons _ (codeVerdict_none _) sc _ [] hn (by rw [judgeSteps_no_obs]; exact codeVerdict_none _)
  unfold run
  simp only
  cases hc : (createEnvironment Cfg.code sc.wf sc.configure).2 with
  | none => exact hnil
  | some p =>
    obtain ⟨env, tasks⟩ := p
    obtain ⟨hp, hst, ht⟩ := hsome env tasks hc
    simp only
    split
    · exact hnil
    · refine judgeAll_cons _ (codeVerdict_none _) sc _ _ hn ?_
      have := steps_code sc.steps env tasks hp
      rw [hst] at this
      rw [← ht, this]; exact codeVerdict_none _

theorem judge_of_none (sc : Scenario) (os : List Obs) (h : judgeAll sc os = none) : judge sc os = none := by
  simp [judge, h]

theorem judge_of_corner (sc : Scenario) (os : List Obs) (h : DeployCorner (judgeAll sc os)) :
    judge sc os = judgeAll sc os := by
  rcases h with h | h | h <;> rw [judge, h] <;> decide

/-- The code as it is satisfies Spec.C02 on EVERY scenario in which no non-critical task fails to start and no
    TASK_RUNNING update overtakes the roster (the two DEPLOY corners that stay open findings): every workflow — the one
    without a role included —, every request sequence, every critical / active mix, every outcome assignment, idle deaths
    included, and wherever the DEPLOY loop is when the root becomes ACTIVE (`sc.wf.notifyLost` is not constrained). -/
theorem C02_spec_code (sc : Scenario)
    (h1 : noncritLaunchFail sc.wf.tasks = false) (h2 : earlyRunning sc.wf.tasks = false) :
    judge sc (run Cfg.code sc) = none :=
  judge_of_none sc _ ((code_verdict sc).2 ⟨h1, h2⟩)

/-- …and on ALL scenarios nothing else is left: whenever Spec.C02 rejects what the model of the code as it is does,
    the verdict names one of the two open DEPLOY corners. -/
theorem C02_only_deploy_corners_code (sc : Scenario) (h : String) (hj : judge sc (run Cfg.code sc) = some h) :
    h = "deploy_misses_active" ∨ h = "deploy_noncritical_blocks" := by
  have hv := (code_verdict sc).1
  rw [judge_of_corner sc _ hv] at hj
  rcases hv with hv | hv | hv <;> rw [hv] at hj <;> simp at hj <;> simp [← hj]

/-- The open corners are EXHAUSTIVE for the code as it is: the verdict the correspondence harness computes is never the
    anonymous "-" on what the model does. With the correspondence run (model = implementation) this is what makes
    "only KNOWN-FINDING lines" a complete account — and a return of one of the repaired defects a plain violation. -/
theorem C02_corners_exhaustive (sc : Scenario) : judge sc (run Cfg.code sc) ≠ some "-" := by
  intro hj
  rcases C02_only_deploy_corners_code sc "-" hj with h | h <;> revert h <;> decide

/-- The model of the code as it is never fails a DEPLOY with the root ACTIVE: the observation `active-unseen` (the core's
    own time-out message lists no role that is not ACTIVE) is a disagreement with the model whenever it is seen. -/
theorem C02_active_never_unseen_code (sc : Scenario) : ∀ o ∈ run Cfg.code sc, o.activeUnseen = false := by
  have hcreate : (createEnvironment Cfg.code sc.wf sc.configure).1.activeUnseen = false := by
    unfold createEnvironment
    cases hdep : deployBody Cfg.code sc.wf.tasks sc.wf.calls sc.wf.notifyLost with
    | ok => simp only; split <;> rfl
    | hang => exact absurd hdep (deployBody_not_hang _ _ _ _)
    | error =>
      simp only [decide_eq_false_iff_not]
      intro hact
      have := (deployBody_ok Cfg.code sc.wf.tasks sc.wf.calls sc.wf.notifyLost).2
        (Or.inr ⟨by simp [Cfg.deployHears, Cfg.code], (rootStatus_active _ _).1 hact⟩)
      rw [hdep] at this; cases this
  have hsteps : ∀ (steps : List SStep) (env : Env) (tasks : List Task), ∀ o ∈ runSteps Cfg.code env tasks steps,
      o.activeUnseen = false := by
    intro steps
    induction steps with
    | nil => intro env tasks o ho; simp [runSteps] at ho
    | cons st rest ih =>
      intro env tasks o ho
      cases st with
      | die outs => exact ih _ _ o (by simpa [runSteps] using ho)
      | ctl e outs w ls =>
        have hfirst : (controlStep Cfg.code env tasks e outs w ls).1.activeUnseen = false := by
          unfold controlStep; simp only; split <;> rfl
        simp only [runSteps] at ho
        split at ho
        · rcases List.mem_cons.1 ho with h | h
          · rw [h]; exact hfirst
          · exact ih _ _ o h
        · rw [List.mem_singleton.1 ho]; exact hfirst
  intro o ho
  unfold run at ho
  simp only at ho
  split at ho
  · split at ho
    · rw [List.mem_singleton.1 ho]; exact hcreate
    · rcases List.mem_cons.1 ho with h | h
      · rw [h]; exact hcreate
      · exact hsteps _ _ _ o h
  · rw [List.mem_singleton.1 ho]; exact hcreate

/-! ## executor / agent loss while a command is outstanding

  Mesos may report the executor or the agent of a commanded task lost (FAILURE event) before the last target has
  answered or timed out. `HandleExecutorFailed` / `HandleAgentFailed` then blank the executor id / agent id of every
  roster task on it. The response entries are keyed by the target computed BEFORE (agent id, executor id, task id); the
  classification looks the task up AFTERWARDS — by task id alone (`getTask`). Roster-level model: Model/Transition.lean
  (`RTask`, `applyLosses`, `classifyR`, `bodyForR`). -/

/-- Tie of the roster-level model to the source (go/ast, regenerated every run): the task behind a failed target is
    `m.GetTask(k.TaskId.Value)` in both functions and `GetTask` compares task ids only (`Trans.getTask`); the two FAILURE
    handlers write nothing of a roster task but its executor id / agent id (`Trans.handleExecutorFailed`,
    `Trans.handleAgentFailed`). A look-up that depends on anything a loss rewrites breaks this theorem. -/
theorem C02_lookup_is_code :
    Gen.C02.failedTargetLookupByTaskId = true ∧ Gen.C02.lossOnlyBlanksIds = true := by decide

/-- `GetTask` is blind to FAILURE events: for EVERY roster, EVERY sequence of executor / agent losses and EVERY task id
    it finds a task with the same critical trait afterwards as before (or none in both). -/
theorem C02_lookup_invariant_under_loss (L : List LossEv) (r : List RTask) (id : Nat) :
    (getTask (applyLosses L r) id).map (·.critical) = (getTask r id).map (·.critical) :=
  getTask_applyLosses L r id

/-- The classification of a command's responses is invariant under executor / agent loss of its targets (or of any
    other task): for EVERY configuration, roster, sequence of FAILURE events and list of response entries. -/
theorem C02_classification_invariant_under_loss (cfg : Cfg) (L : List LossEv) (r : List RTask)
    (es : List (CmdTarget × Bool)) :
    classifyR cfg (applyLosses L r) es = classifyR cfg r es :=
  classifyR_applyLosses cfg L r es

/-- …so the body of a transition computed on the roster, with ANY FAILURE events handled while its command is
    outstanding, depends only on the critical trait and the outcome of each commanded task: it is `bodyFor`. -/
theorem C02_body_invariant_under_loss (cfg : Cfg) (e : Ev) (r : List RTask) (cs : List (RTask × Outcome))
    (L : List LossEv) (h : RosterOk r cs) :
    bodyForR cfg e r cs L = bodyFor cfg e (plainTargets cs) :=
  bodyForR_eq cfg e r cs L h

theorem targets_allActive (cs : List (RTask × Outcome)) :
    targets (cs.map (fun c => (({ critical := c.1.critical, active := true } : Task), c.2))) = plainTargets cs := by
  induction cs with
  | nil => rfl
  | cons c cs ih =>
    simp only [targets, plainTargets, List.map_cons, List.filter_cons, ↓reduceIte] at ih ⊢
    rw [ih]

/-- The iff of the property holds under executor / agent loss, the code as it is, in full: for every roster (unique task
    ids), every list of commanded roster tasks with their outcomes and EVERY sequence of FAILURE events handled while
    the command is outstanding, the body succeeds iff every commanded critical task acknowledged. -/
theorem C02_iff_code_under_loss (e : Ev) (he : commandEv e) (r : List RTask) (cs : List (RTask × Outcome))
    (L : List LossEv) (h : RosterOk r cs) :
    bodyForR Cfg.code e r cs L = .ok ↔ allCriticalAcked (plainTargets cs) = true := by
  rw [bodyForR_eq Cfg.code e r cs L h]
  have := C02_iff_code e he (cs.map (fun c => (({ critical := c.1.critical, active := true } : Task), c.2)))
  have ht := targets_allActive cs
  rw [ht] at this; exact this

/-- …and for every configuration with the two task-level corners excluded (the code as it was included). -/
theorem C02_iff_partial_under_loss (cfg : Cfg) (e : Ev) (he : commandEv e) (r : List RTask)
    (cs : List (RTask × Outcome)) (L : List LossEv) (h : RosterOk r cs)
    (h0 : noTargets (plainTargets cs) = false) (h1 : singleNoncritFail (plainTargets cs) = false) :
    bodyForR cfg e r cs L = .ok ↔ allCriticalAcked (plainTargets cs) = true := by
  rw [bodyForR_eq cfg e r cs L h, bodyFor_ok cfg e he _ h0, classify_acked cfg _ h0 (Or.inl h1)]

/-- A critical task that does not acknowledge fails the transition whatever FAILURE events are handled meanwhile — in
    particular when it is its own executor or agent that is lost (every configuration). -/
theorem C02_unacked_never_reported_under_loss (cfg : Cfg) (e : Ev) (he : commandEv e) (r : List RTask)
    (cs : List (RTask × Outcome)) (L : List LossEv) (h : RosterOk r cs)
    (hu : allCriticalAcked (plainTargets cs) = false) :
    bodyForR cfg e r cs L ≠ .ok := by
  rw [bodyForR_eq cfg e r cs L h]
  exact C02_unacked_never_reported cfg e he _ hu

/-- What a loss does change: a target acknowledges iff it answers ok AND that reply left before the loss (if any). -/
theorem C02_ack_under_loss (o : Outcome) (l : Option Loss) :
    o.under l = .ok ↔ o = .ok ∧ (∀ x, l = some x → x.before = false) := by
  cases l with
  | none => simp [Outcome.under]
  | some x => cases o <;> cases hb : x.before <;> simp [Outcome.under, Outcome.replies, hb]

/-- …and only targets that would have replied are affected: a loss never turns a failure into an acknowledgement. -/
theorem C02_loss_never_acks (o : Outcome) (l : Option Loss) (h : o ≠ .ok) : o.under l ≠ .ok :=
  fun hu => h ((C02_ack_under_loss o l).1 hu).1

/-! ## DEPLOY when the offers come late: the attempt loop of acquireTasks

  Manager.acquireTasks requests the whole deployment, revives offers and waits for the verdict of the next offers round;
  when a critical descriptor was left undeployed it pauses and tries again, up to MAX_ATTEMPTS_PER_DEPLOY_REQUEST times
  (Model/DeployAttempts.lean). The offers rounds are an INPUT: every theorem below quantifies over all descriptor lists
  (any critical mix, any placement, machines that no agent has) and ALL patterns of missing offers — any host missing
  from any round, not only "late by k rounds". -/

/-- Tie to the source (go/ast, regenerated every run): the attempt limit is the literal of schedulerstate.go and the loop
    counts up to it; the loop body resets the verdict flag before it hands the request to the scheduler; the flag is set
    to false only for CRITICAL descriptors; a successful attempt leaves the loop at once; a failed deployment detaches
    what it launched and only a successful one gives roles their tasks; resourceOffers abandons a round in which a
    machine-bound descriptor has no offer before it launches anything. -/
theorem C02_attempt_loop_is_code :
    AcqCfg.code.maxAttempts = Gen.C02.maxDeployAttempts ∧ AcqCfg.code.resetPerAttempt = Gen.C02.attemptResetsVerdict ∧
    Gen.C02.attemptFailsOnlyOnCritical = true ∧ Gen.C02.attemptLoopBreaksOnSuccess = true ∧
    Gen.C02.failedDeploymentDetaches = true ∧ Gen.C02.roundAbandonedWhenUndeployable = true := by decide

/-- Tie to the source of the verdict's hand-over (go/ast, regenerated every run): the channel that acquireTasks puts into
    the `outcomeCh` field of the request it hands to the scheduler is made inside the loop body — afresh for every attempt
    — by `make(chan ResourceOffersOutcome, N)` with this literal N (0: no capacity argument = unbuffered, or shape not
    recognised), and acquireTasks receives from it once per attempt; and there is exactly ONE send on an `outcomeCh` in
    core/task: in resourceOffers, on the channel of the one request that call took from `tasksToDeploy`, outside every
    loop, under no condition but "a request was taken", with no `return` between taking the request and the send. So the
    channel is empty when the send is tried: `AcqCfg.heard`. With the repair reverted the capacity reads 0 and this
    theorem is false. -/
theorem C02_verdict_channel_is_code :
    AcqCfg.code.outcomeCap = Gen.C02.outcomeChanCapacity ∧ Gen.C02.oneVerdictPerRequest = true := by decide

/-- The hand-over, for every configuration: the verdict is heard iff acquireTasks is at its receive or the channel has
    room for it. -/
theorem C02_handover_heard_iff (acfg : AcqCfg) (listening : Bool) :
    acfg.heard listening = true ↔ listening = true ∨ 0 < acfg.outcomeCap := by
  simp [AcqCfg.heard, trySend]

/-- A channel with room never drops the verdict — whichever attempt's round is over before acquireTasks listens, and in
    every workflow: acquireTasks never hangs and does exactly what it does when every verdict is heard. In particular the
    code as it is (`AcqCfg.code`, capacity 1). -/
theorem C02_verdict_always_heard (acfg : AcqCfg) (hc : 0 < acfg.outcomeCap) (w : OWorkflow) :
    w.dropped acfg = none ∧ w.hung acfg = false ∧ w.acquired acfg = acquire acfg w.descs w.rounds := by
  have hd : w.dropped acfg = none := by
    unfold OWorkflow.dropped
    cases w.notListening with
    | none => rfl
    | some k => simp [(C02_handover_heard_iff acfg false).2 (Or.inr hc)]
  exact ⟨hd, by simp [OWorkflow.hung, hd], by simp [OWorkflow.acquired, hd]⟩

theorem dropped_code (w : OWorkflow) : w.dropped AcqCfg.code = none :=
  (C02_verdict_always_heard AcqCfg.code (by decide) w).1

theorem hung_code (w : OWorkflow) : w.hung AcqCfg.code = false :=
  (C02_verdict_always_heard AcqCfg.code (by decide) w).2.1

theorem acquired_code (w : OWorkflow) : w.acquired AcqCfg.code = acquire AcqCfg.code w.descs w.rounds :=
  (C02_verdict_always_heard AcqCfg.code (by decide) w).2.2

/-- With the unbuffered channel of the code as it was, the attempt that finds no receiver is the one whose verdict is
    dropped. -/
theorem dropped_legacy (w : OWorkflow) : w.dropped AcqCfg.legacy = w.notListening := by
  unfold OWorkflow.dropped
  cases w.notListening with
  | none => rfl
  | some k => simp [AcqCfg.heard, trySend, AcqCfg.legacy]

/-- acquireTasks' verdict on an attempt, for EVERY descriptor list and EVERY offers round: a failure iff a CRITICAL
    descriptor does not find the offer of its machine. -/
theorem C02_attempt_verdict_critical_only (ds : List Desc) (r : Round) :
    attemptVerdict ds (roundOutcome ds r) = !critMissing ds r :=
  attemptVerdict_round ds r

/-- What happens to tasks launched in a failed attempt: there are none — a round in which any descriptor misses its
    offer is abandoned before a task is launched, so a failed attempt leaves nothing behind that the next one would
    launch a second time. -/
theorem C02_failed_attempt_launches_nothing (ds : List Desc) (r : Round)
    (h : attemptVerdict ds (roundOutcome ds r) = false) : (roundOutcome ds r).deployed = [] := by
  rw [attemptVerdict_round] at h
  exact roundOutcome_incomplete ds r (critMissing_incomplete ds r (by simpa using h))

/-- Never more attempts than the limit (any configuration, any rounds). -/
theorem C02_attempts_bounded (cfg : AcqCfg) (ds : List Desc) (rs : List Round) :
    (acquire cfg ds rs).attempts.length ≤ cfg.maxAttempts := by
  unfold acquire
  split
  · simp
  · exact acquireLoop_length cfg ds cfg.maxAttempts true rs

/-- The verdict on an attempt depends on that attempt alone: whatever the earlier attempts left in the flag, the loop
    of the code as it is goes on in the same way. -/
theorem C02_attempt_verdicts_independent (ds : List Desc) (n : Nat) (flag : Bool) (rs : List Round) :
    acquireLoop AcqCfg.code ds (n + 1) flag rs = acquireLoop AcqCfg.code ds (n + 1) true rs :=
  acquireLoop_code_flag attemptLimit 1 ds n flag rs

theorem acquire_code_facts (ds : List Desc) (rs : List Round) :
    let a := acquire AcqCfg.code ds rs
    retriesJustified ds a.attempts = true ∧
    (∀ l ∈ a.attempts.dropLast, l = []) ∧
    (a.ok = true → a.kept = lastAttempt a.attempts ∧ a.marked = []) ∧
    (a.ok = false → a.kept = [] ∧ critUnlaunched ds (lastAttempt a.attempts) = true) ∧
    (a.ok = true ↔ ∃ i, i < attemptLimit ∧ critMissing ds (rs.getD i []) = false) := by
  by_cases hne : ds = []
  · subst hne
    simp only [acquire_nil]
    refine ⟨rfl, by simp, by simp [lastAttempt], by simp, ?_⟩
    simp only [true_iff]
    exact ⟨0, by decide, by simp [critMissing]⟩
  · simp only [acquire_code_nonempty ds rs hne]
    exact acquireLoop_code_facts attemptLimit 1 ds 2 true rs

/-- acquireTasks succeeds iff SOME attempt within the limit is not a failure — for every descriptor list and every
    pattern of missing offers. -/
theorem C02_acquire_succeeds_iff (ds : List Desc) (rs : List Round) :
    (acquire AcqCfg.code ds rs).ok = true ↔ ∃ i, i < attemptLimit ∧ critMissing ds (rs.getD i []) = false :=
  (acquire_code_facts ds rs).2.2.2.2

/-- Only the last attempt launches anything: nothing launched in an earlier attempt is abandoned. -/
theorem C02_only_last_attempt_launches (ds : List Desc) (rs : List Round) :
    ∀ l ∈ (acquire AcqCfg.code ds rs).attempts.dropLast, l = [] :=
  (acquire_code_facts ds rs).2.1

/-- The whole deployment is requested again only after an attempt that left a critical descriptor unlaunched. -/
theorem C02_retry_only_after_unlaunched_critical (ds : List Desc) (rs : List Round) :
    retriesJustified ds (acquire AcqCfg.code ds rs).attempts = true :=
  (acquire_code_facts ds rs).1

/-- Closed form, success: the FIRST attempt that is not a failure decides, wherever it is within the limit; the attempts
    before it launched nothing; its tasks are the ones the roles get. -/
theorem C02_first_good_attempt_decides (ds : List Desc) (rs : List Round) (hne : ds ≠ []) (i : Nat)
    (hi : i < attemptLimit) (hfail : ∀ j, j < i → critMissing ds (rs.getD j []) = true)
    (hgood : critMissing ds (rs.getD i []) = false) :
    acquire AcqCfg.code ds rs =
      { attempts := List.replicate i [] ++ [(roundOutcome ds (rs.getD i [])).deployed], ok := true,
        kept := (roundOutcome ds (rs.getD i [])).deployed, marked := [] } := by
  rw [acquire_code_nonempty ds rs hne]
  exact acquireLoop_code_first attemptLimit 1 ds i 3 true rs hi hfail hgood

/-- Closed form, genuine failure: every attempt up to the limit leaves a critical descriptor without its offer. Nothing
    was launched, no role holds a task, and exactly the critical descriptors that missed their offer in the last round
    are marked UNDEPLOYABLE. -/
theorem C02_attempts_exhausted (ds : List Desc) (rs : List Round) (hne : ds ≠ [])
    (h : ∀ j, j < attemptLimit → critMissing ds (rs.getD j []) = true) :
    acquire AcqCfg.code ds rs =
      { attempts := List.replicate attemptLimit [], ok := false, kept := [],
        marked := (roundOutcome ds (rs.getD 2 [])).undeployable.filter (critAt ds) } := by
  rw [acquire_code_nonempty ds rs hne]
  exact acquireLoop_code_exhausted attemptLimit 1 ds 2 true rs h

/-- The two closed forms are all there is: the first attempt within the limit that is not a failure, or none. -/
theorem acquire_code_cases (ds : List Desc) (rs : List Round) (hne : ds ≠ []) :
    (∃ i, i < attemptLimit ∧ (∀ j, j < i → critMissing ds (rs.getD j []) = true) ∧
        critMissing ds (rs.getD i []) = false ∧
        acquire AcqCfg.code ds rs =
          { attempts := List.replicate i [] ++ [(roundOutcome ds (rs.getD i [])).deployed], ok := true,
            kept := (roundOutcome ds (rs.getD i [])).deployed, marked := [] }) ∨
    ((∀ j, j < attemptLimit → critMissing ds (rs.getD j []) = true) ∧
        acquire AcqCfg.code ds rs =
          { attempts := List.replicate attemptLimit [], ok := false, kept := [],
            marked := (roundOutcome ds (rs.getD 2 [])).undeployable.filter (critAt ds) }) := by
  cases h0 : critMissing ds (rs.getD 0 [])
  · exact Or.inl ⟨0, by decide, by intro j hj; omega, h0,
      C02_first_good_attempt_decides ds rs hne 0 (by decide) (by intro j hj; omega) h0⟩
  · cases h1 : critMissing ds (rs.getD 1 [])
    · have hf : ∀ j, j < 1 → critMissing ds (rs.getD j []) = true := by
        intro j hj; have : j = 0 := by omega
        subst this; exact h0
      exact Or.inl ⟨1, by decide, hf, h1, C02_first_good_attempt_decides ds rs hne 1 (by decide) hf h1⟩
    · cases h2 : critMissing ds (rs.getD 2 [])
      · have hf : ∀ j, j < 2 → critMissing ds (rs.getD j []) = true := by
          intro j hj
          have : j = 0 ∨ j = 1 := by omega
          rcases this with rfl | rfl
          · exact h0
          · exact h1
        exact Or.inl ⟨2, by decide, hf, h2, C02_first_good_attempt_decides ds rs hne 2 (by decide) hf h2⟩
      · have hf : ∀ j, j < attemptLimit → critMissing ds (rs.getD j []) = true := by
          intro j hj
          have : j = 0 ∨ j = 1 ∨ j = 2 := by simp only [attemptLimit] at hj; omega
          rcases this with rfl | rfl | rfl
          · exact h0
          · exact h1
          · exact h2
        exact Or.inr ⟨hf, C02_attempts_exhausted ds rs hne hf⟩

theorem range_all_of_forall (n : Nat) (f : Nat → Bool) (h : ∀ j, j < n → f j = true) : (List.range n).all f = true := by
  rw [List.all_eq_true]
  intro j hj
  exact h j (List.mem_range.1 hj)

/-- The attempts of the code as it is satisfy the clause of Spec.C02 about them, for every descriptor list and every
    pattern of missing offers: at most the limit; a retry only after a round in which a critical descriptor's machine was
    missing; no giving up before the limit while one still is. -/
theorem C02_attempts_ok (ds : List Desc) (rs : List Round) :
    attemptsOk ds rs (acquire AcqCfg.code ds rs).attempts.length = true := by
  by_cases hne : ds = []
  · subst hne; simp [acquire_nil, attemptsOk, attemptLimit, critMissing]
  · rcases acquire_code_cases ds rs hne with ⟨i, hi, hfail, hgood, ha⟩ | ⟨hfail, ha⟩
    · rw [ha]
      simp only [attemptsOk, List.length_append, List.length_replicate, List.length_cons, List.length_nil,
        Nat.zero_add, Nat.add_sub_cancel, lastRound, hgood, Bool.not_false, Bool.true_or, Bool.and_true,
        Bool.and_eq_true, decide_eq_true_eq]
      exact ⟨by omega, range_all_of_forall i _ hfail⟩
    · rw [ha]
      simp only [attemptsOk, List.length_replicate, lastRound, Bool.and_eq_true, decide_eq_true_eq, Nat.le_refl,
        true_and, BEq.rfl, Bool.or_true, and_true]
      exact range_all_of_forall _ _ (fun j hj => hfail j (by simp only [attemptLimit] at hj ⊢; omega))

theorem complete_not_missing (ds : List Desc) (r : Round) (h : complete ds r = true) : critMissing ds r = false := by
  cases hm : critMissing ds r
  · rfl
  · rw [critMissing_incomplete ds r hm] at h; cases h

/-- Full strength, per configuration of acquireTasks and of the DEPLOY wait: a deployment whose offers come late — some
    attempt within the limit finds every machine's offer after attempts that each left a critical task without one — is
    reported DEPLOYED, every task coming up. In EVERY environment: whichever round is over before acquireTasks is at its
    receive, and wherever the DEPLOY loop is when the root becomes ACTIVE. -/
def C02_deploy_retry_full (acfg : AcqCfg) (cfg : Cfg) : Prop :=
  ∀ (w : OWorkflow) (i : Nat), i < attemptLimit →
    (∀ j, j < i → critMissing w.descs (w.rounds.getD j []) = true) →
    complete w.descs (w.rounds.getD i []) = true →
    (∀ t ∈ w.tasks, t.launch = .ok) → w.tasks ≠ [] →
    deployBody cfg (w.eff (w.acquired acfg)).tasks w.calls w.notifyLost = .ok

/-- The same with the excluding hypotheses: acquireTasks is at its receive whenever a verdict is handed over, and the
    DEPLOY loop at its receive when the root becomes ACTIVE. -/
def C02_deploy_retry_heard (acfg : AcqCfg) (cfg : Cfg) : Prop :=
  ∀ (w : OWorkflow) (i : Nat), w.notListening = none → i < attemptLimit →
    (∀ j, j < i → critMissing w.descs (w.rounds.getD j []) = true) →
    complete w.descs (w.rounds.getD i []) = true →
    (∀ t ∈ w.tasks, t.launch = .ok) → w.tasks ≠ [] → w.notifyLost = false →
    deployBody cfg (w.eff (w.acquired acfg)).tasks w.calls w.notifyLost = .ok

/-- What both rest on: when acquireTasks does what it does with every verdict heard, and the DEPLOY loop hears of the
    root becoming ACTIVE, the deployment is reported. Whether the complete round is the first, the second or the third
    makes no difference. -/
theorem deploy_retry_of_acquire (cfg : Cfg) (w : OWorkflow) (i : Nat) (hi : i < attemptLimit)
    (hfail : ∀ j, j < i → critMissing w.descs (w.rounds.getD j []) = true)
    (hcomplete : complete w.descs (w.rounds.getD i []) = true)
    (hscripts : ∀ t ∈ w.tasks, t.launch = .ok) (hne : w.tasks ≠ []) (hl : cfg.deployHears w.notifyLost = true) :
    deployBody cfg (w.eff (acquire AcqCfg.code w.descs w.rounds)).tasks w.calls w.notifyLost = .ok := by
  have hdne : w.descs ≠ [] := by
    intro h; apply hne; simpa [OWorkflow.descs] using h
  rw [C02_first_good_attempt_decides w.descs w.rounds hdne i hi hfail (complete_not_missing _ _ hcomplete)]
  rw [deployBody_ok]
  refine Or.inr ⟨hl, Or.inl ?_, ?_⟩
  · exact eff_tasks_ne w _ hne
  · intro l hl'
    simp only [OWorkflow.eff, List.mem_map] at hl'
    obtain ⟨p, hp, rfl⟩ := hl'
    obtain ⟨hlt, hmem⟩ := mem_indexed_lt w.tasks p hp
    have hk : (roundOutcome w.descs (w.rounds.getD i [])).deployed.contains p.1 = true := by
      rw [(roundOutcome_complete _ _ hcomplete).1]
      simp [OWorkflow.descs, hlt]
    simp only [effLaunch, hk, ↓reduceIte]
    exact hscripts p.2 hmem

/-- The code as it is, at FULL strength (since `fix: acquireTasks cannot miss the verdict of its offers round` and `fix:
    DEPLOY cannot miss that the workflow became active`): a deployment whose complete round is the first, second or
    third after failed ones is reported DEPLOYED, whichever round is over before acquireTasks listens and wherever the
    DEPLOY loop is when the root becomes ACTIVE — both channels keep what they are handed. -/
theorem C02_deploy_retry_code : C02_deploy_retry_full AcqCfg.code Cfg.code := by
  intro w i hi hfail hcomplete hscripts hne
  rw [acquired_code]
  exact deploy_retry_of_acquire Cfg.code w i hi hfail hcomplete hscripts hne (by simp [Cfg.deployHears, Cfg.code])

/-- The code as it was (unbuffered channels; any configuration of the rest): it holds whenever acquireTasks is listening
    when a verdict is handed over and the DEPLOY loop when the root becomes ACTIVE. -/
theorem C02_deploy_retry_partial (cfg : Cfg) : C02_deploy_retry_heard AcqCfg.legacy cfg := by
  intro w i hv hi hfail hcomplete hscripts hne hl
  have hacq : w.acquired AcqCfg.legacy = acquire AcqCfg.code w.descs w.rounds := by
    simp [OWorkflow.acquired, dropped_legacy, hv, acquire_legacy]
  rw [hacq]
  exact deploy_retry_of_acquire cfg w i hi hfail hcomplete hscripts hne (by simp [Cfg.deployHears, hl])

/-- the former finding `deploy_verdict_lost` (repaired; a true statement about the code as it was): in full it is false
    with the unbuffered verdict channel. resourceOffers hands the verdict of a round to acquireTasks with a non-blocking
    send; when the round is over before acquireTasks listens, the verdict is dropped: the tasks were launched and come up,
    acquireTasks waits for ever (holding the deployment mutex), no role gets its task, DEPLOY times out. -/
theorem C02_finding_deploy_verdict_lost : ¬ C02_deploy_retry_full AcqCfg.legacy Cfg.code := by
  intro h
  have := h { calls := 0, tasks := [⟨true, .ok, 1⟩, ⟨false, .ok, 2⟩], rounds := [], notListening := some 0 } 0
    (by decide) (by intro j hj; omega) (by decide) (by decide) (by decide)
  revert this; decide

/-- …and it is false with the unbuffered status channel of the DEPLOY wait, whatever acquireTasks does: every task is
    launched by the first attempt and comes up, every role is ACTIVE, and DEPLOY times out because the one notification
    that said so found the loop elsewhere. -/
theorem C02_retry_needs_kept_notification : ¬ C02_deploy_retry_full AcqCfg.code Cfg.legacy := by
  intro h
  have := h { calls := 0, tasks := [⟨true, .ok, 1⟩, ⟨false, .ok, 2⟩], rounds := [], notifyLost := true } 0
    (by decide) (by intro j hj; omega) (by decide) (by decide) (by decide)
  revert this; decide

/-- Without the reset at the head of the loop body it is false even when every verdict is heard (and the channel has
    room): a critical task whose machine is missing from the first round only is launched by the second attempt and comes
    up, yet the deployment is not reported (the flag is sticky, the launched task is detached, DEPLOY can only time out). -/
theorem C02_retry_needs_reset : ¬ C02_deploy_retry_heard AcqCfg.sticky Cfg.code := by
  intro h
  have := h { calls := 0, tasks := [⟨true, .ok, 1⟩, ⟨false, .ok, 2⟩], rounds := [[1]] } 1 rfl (by decide)
    (by intro j hj; have : j = 0 := by omega
        subst this; decide)
    (by decide) (by decide) (by decide) rfl
  revert this; decide

/-- The converse: when every attempt up to the limit leaves a critical descriptor without its offer, DEPLOY fails. -/
theorem C02_deploy_exhausted_fails (cfg : Cfg) (w : OWorkflow)
    (h : ∀ j, j < attemptLimit → critMissing w.descs (w.rounds.getD j []) = true) :
    deployBody cfg (w.eff (acquire AcqCfg.code w.descs w.rounds)).tasks w.calls w.notifyLost ≠ .ok := by
  have hf := acquire_code_facts w.descs w.rounds
  have hnok : (acquire AcqCfg.code w.descs w.rounds).ok = false := by
    cases hok : (acquire AcqCfg.code w.descs w.rounds).ok
    · rfl
    · obtain ⟨i, hi, hc⟩ := hf.2.2.2.2.1 hok
      rw [h i hi] at hc; cases hc
  obtain ⟨hk, hu⟩ := hf.2.2.2.1 hnok
  exact C02_deploy_critical_needed _ _ _ _ (eff_not_launched w _ _ hk hu)

/-- Conservative extension: with every round complete (and every role on a machine that exists) the first attempt
    launches everything and the DEPLOY wait sees the workflow exactly as the model without offers rounds has it. -/
theorem C02_no_late_offers_is_plain (w : OWorkflow) (hne : w.tasks ≠ []) (hr : w.rounds = [])
    (hh : ∀ t ∈ w.tasks, t.launch ≠ .nohost) :
    (acquire AcqCfg.code w.descs w.rounds).attempts = [List.range w.tasks.length] ∧
    w.eff (acquire AcqCfg.code w.descs w.rounds) =
      { calls := w.calls, tasks := w.tasks.map (fun t => (t.critical, t.launch)), notifyLost := w.notifyLost } := by
  have hdne : w.descs ≠ [] := by
    intro h; apply hne; simpa [OWorkflow.descs] using h
  have hcomplete : complete w.descs (w.rounds.getD 0 []) = true := by
    simp only [hr, complete, OWorkflow.descs, List.all_map, List.all_eq_true]
    intro t ht
    simp [OTask.desc, Desc.offered, hh t ht]
  have hlen : w.descs.length = w.tasks.length := by simp [OWorkflow.descs]
  rw [C02_first_good_attempt_decides w.descs w.rounds hdne 0 (by decide) (by intro j hj; omega)
    (complete_not_missing _ _ hcomplete)]
  rw [(roundOutcome_complete _ _ hcomplete).1, hlen]
  exact ⟨by simp, eff_all w _ rfl⟩

/-! ### Spec.C02 on scenarios with offers rounds -/

theorem judgeAll_att (sc : Scenario) (o : Obs) (os : List Obs) (x : Option (List (List Nat))) :
    judgeAll sc ({ o with att := x } :: os) = judgeAll sc (o :: os) := rfl

theorem run_deploy_fails (cfg : Cfg) (sc : Scenario)
    (h : deployBody cfg sc.wf.tasks sc.wf.calls sc.wf.notifyLost ≠ .ok) :
    ∃ ra au, run cfg sc =
      [{ ev := none, rpc := .err, state := none, after := none, cmd := [], runningAcked := ra, activeUnseen := au }] := by
  unfold run createEnvironment
  cases hd : deployBody cfg sc.wf.tasks sc.wf.calls sc.wf.notifyLost with
  | ok => exact absurd hd h
  | error => exact ⟨_, _, rfl⟩
  | hang => exact ⟨_, _, rfl⟩

theorem judge_att (sc : Scenario) (o : Obs) (os : List Obs) (x : Option (List (List Nat))) (y : Bool) :
    judge sc ({ o with att := x, verdictLost := y } :: os) = judge sc (o :: os) := rfl

/-- `judgeO` is the clause about the attempts plus `judge` on the workflow as offered. -/
theorem judgeO_cons (sc : OScenario) (o : Obs) (os : List Obs) (att : List (List Nat)) (ho : o.att = some att) :
    judgeO sc (o :: os) =
      if attemptsOk sc.wf.descs sc.wf.rounds att.length then
        judge { wf := sc.wf.asOffered att.length, configure := sc.configure, steps := sc.steps } (o :: os)
      else some "-" := by
  simp only [judgeO, ho]

/-- The analysis of the code as it was: with the last verdict heard it is `judgeO`. -/
theorem judgeOAll_heard (sc : OScenario) (o : Obs) (os : List Obs)
    (att : List (List Nat)) (ho : o.att = some att) (hv : lostLast sc.wf att.length = false) :
    judgeOAll sc (o :: os) = judgeO sc (o :: os) := by
  unfold judgeOAll
  cases judgeO sc (o :: os) <;> simp [ho, hv]

/-- …with the last verdict lost, every violation is attributed to that. -/
theorem judgeOAll_lost (sc : OScenario) (o : Obs) (os : List Obs)
    (att : List (List Nat)) (ho : o.att = some att) (hv : lostLast sc.wf att.length = true) :
    judgeOAll sc (o :: os) = none ∨ judgeOAll sc (o :: os) = some "deploy_verdict_lost" := by
  unfold judgeOAll
  cases judgeO sc (o :: os) <;> simp [ho, hv]

theorem runO_heard (acfg : AcqCfg) (cfg : Cfg) (sc : OScenario) (hh : sc.wf.hung acfg = false) :
    runO acfg cfg sc =
      match run cfg { wf := sc.wf.eff (acquire acfg sc.wf.descs sc.wf.rounds), configure := sc.configure, steps := sc.steps } with
      | [] => []
      | o :: os => { o with att := some (acquire acfg sc.wf.descs sc.wf.rounds).attempts, verdictLost := false } :: os := by
  have ha : sc.wf.acquired acfg = acquire acfg sc.wf.descs sc.wf.rounds := by
    unfold OWorkflow.acquired OWorkflow.hung at *
    cases hv : sc.wf.dropped acfg with
    | none => rfl
    | some k =>
      simp only [hv, decide_eq_false_iff_not] at hh
      simp [acquireLost, hh]
  unfold runO
  simp only [ha, hh]
  cases run cfg { wf := sc.wf.eff (acquire acfg sc.wf.descs sc.wf.rounds), configure := sc.configure, steps := sc.steps } <;> rfl

/-- The code as it was, not hanging: the attempt that found no receiver (if any) is not the last one made. -/
theorem not_hung_not_lost (w : OWorkflow) (hh : w.hung AcqCfg.legacy = false) :
    lostLast w (acquire AcqCfg.code w.descs w.rounds).attempts.length = false := by
  unfold OWorkflow.hung at hh
  rw [dropped_legacy, acquire_legacy] at hh
  unfold lostLast
  cases hv : w.notListening with
  | none => rfl
  | some k =>
    simp only [hv, decide_eq_false_iff_not] at hh
    simp only [beq_eq_false_iff_ne, ne_eq]
    omega

/-- DEPLOY failed: the verdict on the lone NewEnvironment observation, whatever the workflow it is judged against. -/
theorem judge_deploy_failed (sc : Scenario) (ra au : Bool) (att : Option (List (List Nat))) (vl : Bool) :
    let o : Obs := { ev := none, rpc := .err, state := none, after := none, cmd := [], runningAcked := ra,
                     activeUnseen := au, att := att, verdictLost := vl }
    (allCriticalLaunched sc.wf.tasks = false → judge sc [o] = none) ∧
    (noncritLaunchFail sc.wf.tasks = true →
      judge sc [o] = none ∨ judge sc [o] = some "deploy_misses_active" ∨
      judge sc [o] = some "deploy_noncritical_blocks") := by
  intro o
  constructor
  · intro hl
    simp [judge, judgeAll, judgeNew, hl, Trans.reqOk, reached, o]
  · intro hn
    have h0 : emptyWorkflow sc.wf = false := by
      cases h0 : emptyWorkflow sc.wf
      · rfl
      · have : sc.wf.tasks = [] := by
          simp only [emptyWorkflow, Bool.and_eq_true, List.isEmpty_iff] at h0; exact h0.1
        rw [this] at hn; simp [noncritLaunchFail] at hn
    cases hl : allCriticalLaunched sc.wf.tasks
    · left; simp [judge, judgeAll, judgeNew, hl, Trans.reqOk, reached, o]
    · cases ha : allCriticalAcked (targets (pair (sc.wf.tasks.map (fun t => ({ critical := t.1, active := t.2 = .ok } : Task))) sc.configure))
      · left; simp [judge, judgeAll, judgeNew, hl, ha, Trans.reqOk, reached, o]
      · cases h2 : earlyRunning sc.wf.tasks <;>
          simp [judge, judgeAll, judgeNew, hl, ha, Trans.reqOk, reached, o, h0, h2, hn, openCorner]

/-- `judgeO` of the model's run is `judge` of a plain run (the deployment was decided on a complete round), "no
    violation" (a critical task's machine was missing to the end), or a verdict inside the open DEPLOY corners with the
    workflow as offered having a non-critical task that could not start. -/
theorem judgeO_runO (sc : OScenario) :
    let n := (acquire AcqCfg.code sc.wf.descs sc.wf.rounds).attempts.length
    let off : Scenario := { wf := sc.wf.asOffered n, configure := sc.configure, steps := sc.steps }
    judgeO sc (runO AcqCfg.code Cfg.code sc) = judge off (run Cfg.code off) ∨
    judgeO sc (runO AcqCfg.code Cfg.code sc) = none ∨
    (noncritLaunchFail off.wf.tasks = true ∧
      (judgeO sc (runO AcqCfg.code Cfg.code sc) = some "deploy_misses_active" ∨
       judgeO sc (runO AcqCfg.code Cfg.code sc) = some "deploy_noncritical_blocks")) := by
  intro n off
  have hh : sc.wf.hung AcqCfg.code = false := hung_code sc.wf
  have hatt : attemptsOk sc.wf.descs sc.wf.rounds n = true := C02_attempts_ok sc.wf.descs sc.wf.rounds
  by_cases hne : sc.wf.tasks = []
  · -- no task role: acquireTasks is not called, nothing is offered to anybody
    left
    have hd : sc.wf.descs = [] := by simp [OWorkflow.descs, hne]
    have hn : n = 0 := by simp [n, hd, acquire_nil]
    have heff : sc.wf.eff (acquire AcqCfg.code sc.wf.descs sc.wf.rounds) = sc.wf.asOffered n := by
      simp [OWorkflow.eff, OWorkflow.asOffered, hne, indexed]
    rw [runO_heard _ _ sc hh]
    simp only [heff]
    show judgeO sc (match run Cfg.code off with
      | [] => []
      | o :: os => { o with att := some (acquire AcqCfg.code sc.wf.descs sc.wf.rounds).attempts, verdictLost := false } :: os) = _
    cases hr : run Cfg.code off with
    | nil => simp [judgeO, judge, judgeAll]
    | cons o os =>
      rw [judgeO_cons sc _ _ _ rfl]
      rw [show (acquire AcqCfg.code sc.wf.descs sc.wf.rounds).attempts.length = n from rfl, hatt]
      simp only [↓reduceIte]
      exact judge_att off o os _ _
  · have hdne : sc.wf.descs ≠ [] := by
      intro h; apply hne; simpa [OWorkflow.descs] using h
    have hlen : sc.wf.descs.length = sc.wf.tasks.length := by simp [OWorkflow.descs]
    rcases acquire_code_cases sc.wf.descs sc.wf.rounds hdne with ⟨i, hi, hfail, hgood, ha⟩ | ⟨hfail, ha⟩
    · have hn : n = i + 1 := by simp [n, ha]
      have hlast : lastRound sc.wf.rounds n = sc.wf.rounds.getD i [] := by simp [lastRound, hn]
      cases hc : complete sc.wf.descs (sc.wf.rounds.getD i [])
      · -- decided on a round that lacks the machine of a non-critical task only: nothing launched, DEPLOY times out
        have hk : (acquire AcqCfg.code sc.wf.descs sc.wf.rounds).kept = [] := by
          rw [ha]; exact roundOutcome_incomplete _ _ hc
        have hfailN := asOffered_noncrit_fail sc.wf n (by rw [hlast]; exact hc) (by rw [hlast]; exact hgood)
        obtain ⟨ra, au, hrun⟩ := run_deploy_fails Cfg.code
          { wf := sc.wf.eff (acquire AcqCfg.code sc.wf.descs sc.wf.rounds), configure := sc.configure, steps := sc.steps }
          (eff_none_fails Cfg.code sc.wf _ hk hne)
        have hj := (judge_deploy_failed off ra au (some (acquire AcqCfg.code sc.wf.descs sc.wf.rounds).attempts) false).2 hfailN
        have hO : judgeO sc (runO AcqCfg.code Cfg.code sc) =
            judge off [{ ev := none, rpc := .err, state := none, after := none, cmd := [], runningAcked := ra,
                         activeUnseen := au,
                         att := some (acquire AcqCfg.code sc.wf.descs sc.wf.rounds).attempts, verdictLost := false }] := by
          rw [runO_heard _ _ sc hh]
          simp only [hrun]
          rw [judgeO_cons sc _ _ _ rfl]
          rw [show (acquire AcqCfg.code sc.wf.descs sc.wf.rounds).attempts.length = n from rfl, hatt]
          rfl
        rcases hj with hj | hj | hj
        · exact Or.inr (Or.inl (hO.trans hj))
        · exact Or.inr (Or.inr ⟨hfailN, Or.inl (hO.trans hj)⟩)
        · exact Or.inr (Or.inr ⟨hfailN, Or.inr (hO.trans hj)⟩)
      · -- decided on a complete round: every role got its task
        left
        have hk : (acquire AcqCfg.code sc.wf.descs sc.wf.rounds).kept = List.range sc.wf.tasks.length := by
          rw [ha, ← hlen]; exact (roundOutcome_complete _ _ hc).1
        have heff : sc.wf.eff (acquire AcqCfg.code sc.wf.descs sc.wf.rounds) = sc.wf.asOffered n := by
          rw [eff_all sc.wf _ hk, asOffered_complete sc.wf n (by rw [hlast]; exact hc)]
        rw [runO_heard _ _ sc hh]
        simp only [heff]
        show judgeO sc (match run Cfg.code off with
          | [] => []
          | o :: os => { o with att := some (acquire AcqCfg.code sc.wf.descs sc.wf.rounds).attempts, verdictLost := false } :: os) = _
        cases hr : run Cfg.code off with
        | nil => simp [judgeO, judge, judgeAll]
        | cons o os =>
          rw [judgeO_cons sc _ _ _ rfl]
          rw [show (acquire AcqCfg.code sc.wf.descs sc.wf.rounds).attempts.length = n from rfl, hatt]
          simp only [↓reduceIte]
          exact judge_att off o os _ _
    · -- every attempt up to the limit left a critical task without its machine
      right; left
      have hn : n = attemptLimit := by simp [n, ha]
      have hlast : lastRound sc.wf.rounds n = sc.wf.rounds.getD 2 [] := by simp [lastRound, hn, attemptLimit]
      have hk : (acquire AcqCfg.code sc.wf.descs sc.wf.rounds).kept = [] := by rw [ha]
      have hcm := asOffered_crit_missing sc.wf n (by rw [hlast]; exact hfail 2 (by decide))
      obtain ⟨ra, au, hrun⟩ := run_deploy_fails Cfg.code
        { wf := sc.wf.eff (acquire AcqCfg.code sc.wf.descs sc.wf.rounds), configure := sc.configure, steps := sc.steps }
        (eff_none_fails Cfg.code sc.wf _ hk hne)
      have hj := (judge_deploy_failed off ra au (some (acquire AcqCfg.code sc.wf.descs sc.wf.rounds).attempts) false).1 hcm
      rw [runO_heard _ _ sc hh]
      simp only [hrun]
      rw [judgeO_cons sc _ _ _ rfl]
      rw [show (acquire AcqCfg.code sc.wf.descs sc.wf.rounds).attempts.length = n from rfl, hatt]
      exact hj

/-- The code as it is satisfies Spec.C02 on EVERY scenario with offers rounds — every pattern of missing offers, every
    placement and critical mix (machines that no agent has included), every request sequence after the deployment,
    whichever round is over before acquireTasks is at its receive, wherever the DEPLOY loop is when the root becomes
    ACTIVE — outside the two open DEPLOY corners, evaluated on the workflow as offered in the last round that took place
    (a NON-critical task whose machine is missing from it is "a non-critical task that did not start"). -/
theorem C02_attempts_spec_code (sc : OScenario) :
    let wf := sc.wf.asOffered (acquire AcqCfg.code sc.wf.descs sc.wf.rounds).attempts.length
    noncritLaunchFail wf.tasks = false → earlyRunning wf.tasks = false →
    judgeO sc (runO AcqCfg.code Cfg.code sc) = none := by
  intro wf h1 h2
  rcases judgeO_runO sc with h | h | ⟨hn, _⟩
  · rw [h]; exact C02_spec_code _ h1 h2
  · exact h
  · rw [show noncritLaunchFail wf.tasks = true from hn] at h1; cases h1

/-- …and on ALL of them nothing else is left: a rejected run of the model of the code as it is lies in one of the two
    open DEPLOY corners. (Before the repair of the verdict's hand-over a further class was left:
    `C02_attempts_only_open_corners_legacy`.) -/
theorem C02_attempts_only_open_corners_code (sc : OScenario) (h : String)
    (hj : judgeO sc (runO AcqCfg.code Cfg.code sc) = some h) :
    h = "deploy_misses_active" ∨ h = "deploy_noncritical_blocks" := by
  rcases judgeO_runO sc with h' | h' | ⟨_, h' | h'⟩
  · rw [h'] at hj
    exact C02_only_deploy_corners_code _ h hj
  · rw [h'] at hj; cases hj
  · rw [h'] at hj; left; exact (Option.some.inj hj).symm
  · rw [h'] at hj; right; exact (Option.some.inj hj).symm

theorem C02_attempts_corners_exhaustive (sc : OScenario) : judgeO sc (runO AcqCfg.code Cfg.code sc) ≠ some "-" := by
  intro hj
  rcases C02_attempts_only_open_corners_code sc "-" hj with h | h <;> revert h <;> decide

/-- Which round is over before acquireTasks listens is irrelevant for the code as it is: the run is the run of the
    scenario in which acquireTasks is always listening. -/
theorem C02_listening_irrelevant_code (cfg : Cfg) (sc : OScenario) :
    runO AcqCfg.code cfg sc = runO AcqCfg.code cfg { sc with wf := { sc.wf with notListening := none } } := by
  simp only [runO, acquired_code, hung_code]
  rfl

/-- As long as acquireTasks does not hang, the code as it was runs as the code as it is. -/
theorem runO_legacy_eq (cfg : Cfg) (sc : OScenario) (hh : sc.wf.hung AcqCfg.legacy = false) :
    runO AcqCfg.legacy cfg sc = runO AcqCfg.code cfg sc := by
  rw [runO_heard _ _ sc hh, runO_heard _ _ sc (hung_code _)]
  simp only [acquire_legacy]

/-- The code as it was (unbuffered channel), analysed with the former corner named: a rejected run of its model lies in
    one of the two open DEPLOY corners or is due to a lost verdict. -/
theorem C02_attempts_only_open_corners_legacy (sc : OScenario) (h : String)
    (hj : judgeOAll sc (runO AcqCfg.legacy Cfg.code sc) = some h) :
    h = "deploy_misses_active" ∨ h = "deploy_noncritical_blocks" ∨ h = "deploy_verdict_lost" := by
  cases hh : sc.wf.hung AcqCfg.legacy with
  | false =>
    rw [runO_legacy_eq _ sc hh] at hj
    have hc : judgeO sc (runO AcqCfg.code Cfg.code sc) = some h := by
      rw [runO_heard _ _ sc (hung_code _)] at hj ⊢
      revert hj
      cases run Cfg.code { wf := sc.wf.eff (acquire AcqCfg.code sc.wf.descs sc.wf.rounds), configure := sc.configure,
                           steps := sc.steps } with
      | nil => intro hj; simp [judgeOAll, judgeO] at hj
      | cons o os =>
        intro hj
        rw [judgeOAll_heard sc _ os _ rfl (not_hung_not_lost _ hh)] at hj
        exact hj
    rcases C02_attempts_only_open_corners_code sc h hc with h | h
    · exact Or.inl h
    · exact Or.inr (Or.inl h)
  | true =>
    right; right
    -- the verdict of the last attempt made is lost: whatever is rejected is attributed to that
    unfold OWorkflow.hung at hh
    rw [dropped_legacy] at hh
    cases hv : sc.wf.notListening with
    | none => simp [hv] at hh
    | some k =>
      simp only [hv, decide_eq_true_eq] at hh
      have ha : sc.wf.acquired AcqCfg.legacy =
          { attempts := (acquire AcqCfg.legacy sc.wf.descs sc.wf.rounds).attempts.take (k + 1), ok := false, kept := [],
            marked := [] } := by
        simp [OWorkflow.acquired, dropped_legacy, hv, acquireLost, hh]
      have hlen : ((acquire AcqCfg.legacy sc.wf.descs sc.wf.rounds).attempts.take (k + 1)).length = k + 1 := by
        rw [List.length_take]; omega
      have hl : lostLast sc.wf ((acquire AcqCfg.legacy sc.wf.descs sc.wf.rounds).attempts.take (k + 1)).length = true := by
        simp [lostLast, hv, hlen]
      unfold runO at hj
      rw [ha] at hj
      simp only at hj
      revert hj
      cases run Cfg.code { wf := sc.wf.eff _, configure := sc.configure, steps := sc.steps } with
      | nil => intro hj; simp [judgeOAll, judgeO] at hj
      | cons o os =>
        intro hj
        rcases judgeOAll_lost sc
          { o with att := some ((acquire AcqCfg.legacy sc.wf.descs sc.wf.rounds).attempts.take (k + 1)),
                   verdictLost := sc.wf.hung AcqCfg.legacy } os _ rfl hl with h' | h'
        · rw [h'] at hj; cases hj
        · rw [h'] at hj; exact (Option.some.inj hj).symm

/-- The code as it was: a lost verdict is never mistaken for a deployment — acquireTasks is still waiting, no role holds
    a task, DEPLOY fails (the destination is not reported), whatever was launched in that attempt. -/
theorem C02_verdict_lost_never_reported (cfg : Cfg) (w : OWorkflow) (hne : w.tasks ≠ []) (hh : w.hung AcqCfg.legacy = true) :
    deployBody cfg (w.eff (w.acquired AcqCfg.legacy)).tasks w.calls w.notifyLost ≠ .ok := by
  unfold OWorkflow.hung at hh
  cases hv : w.dropped AcqCfg.legacy with
  | none => simp [hv] at hh
  | some k =>
    simp only [hv, decide_eq_true_eq] at hh
    have hk : (w.acquired AcqCfg.legacy).kept = [] := by
      simp [OWorkflow.acquired, hv, acquireLost, hh]
    exact eff_none_fails cfg w _ hk hne

/-! ## non-vacuity -/

/-- A realistic mix satisfies the hypotheses of the partial theorems: two critical tasks and a failing non-critical one. -/
example :
    let ps : List (Task × Outcome) :=
      [(⟨true, true⟩, .ok), (⟨true, true⟩, .ok), (⟨false, true⟩, .errorReplyToError), (⟨false, false⟩, .dies)]
    noTargets (targets ps) = false ∧ singleNoncritFail (targets ps) = false ∧
    allCriticalAcked (targets ps) = true ∧ bodyFor Cfg.code .START_ACTIVITY (targets ps) = .ok := by decide

example :
    let ps : List (Task × Outcome) := [(⟨true, true⟩, .silent), (⟨false, true⟩, .ok)]
    allCriticalAcked (targets ps) = false ∧ bodyFor Cfg.code .STOP_ACTIVITY (targets ps) = .error ∧
    (controlRpc Cfg.code { st := .RUNNING } [] .STOP_ACTIVITY false false false).1.st = .ERROR := by decide

example : emptyWorkflow { calls := 0, tasks := [(true, .ok), (false, .ok)] } = false ∧
    noncritLaunchFail [(true, .ok), (false, .ok)] = false ∧ earlyRunning [(true, .ok), (false, .ok)] = false ∧
    deployBody Cfg.code [(true, .ok), (false, .ok)] 0 false = .ok ∧
    deployBody Cfg.legacy [(true, .ok), (false, .ok)] 0 false = .ok := by decide

/-- The two DEPLOY repairs, on whole scenarios. The loop is elsewhere when the root becomes ACTIVE: the code as it is
    reports CONFIGURED and goes on, the code as it was failed with every role ACTIVE (`activeUnseen`), and that
    observation judged for the code as it is is a violation outside every open corner. A workflow without a role: the
    code as it is walks through every transition at once, the code as it was could not deploy it. -/
example :
    (run Cfg.code { wf := { calls := 1, tasks := [(true, .ok), (false, .ok)], notifyLost := true }, configure := [.ok, .ok],
                    steps := [.ctl .START_ACTIVITY [.ok, .ok] false []] }).map (fun o => (o.rpc, o.state)) =
      [(.ok, some .CONFIGURED), (.ok, some .RUNNING)] ∧
    run Cfg.legacy { wf := { calls := 1, tasks := [(true, .ok), (false, .ok)], notifyLost := true }, configure := [.ok, .ok],
                     steps := [.ctl .START_ACTIVITY [.ok, .ok] false []] } =
      [{ ev := none, rpc := .err, state := none, after := none, cmd := [], activeUnseen := true }] ∧
    judge { wf := { calls := 1, tasks := [(true, .ok), (false, .ok)] }, configure := [.ok, .ok], steps := [] }
      [{ ev := none, rpc := .err, state := none, after := none, cmd := [], activeUnseen := true }] = some "-" ∧
    (run Cfg.code { wf := { calls := 0, tasks := [] }, configure := [],
                    steps := [.ctl .START_ACTIVITY [] false [], .ctl .STOP_ACTIVITY [] false [], .ctl .RESET [] false []] }).map
        (fun o => (o.rpc, o.state)) =
      [(.ok, some .CONFIGURED), (.ok, some .RUNNING), (.ok, some .CONFIGURED), (.ok, some .DEPLOYED)] ∧
    run Cfg.legacy { wf := { calls := 0, tasks := [] }, configure := [], steps := [] } =
      [{ ev := none, rpc := .err, state := none, after := none, cmd := [] }] ∧
    judge { wf := { calls := 0, tasks := [] }, configure := [], steps := [] }
      [{ ev := none, rpc := .err, state := none, after := none, cmd := [] }] = some "-" := by
  decide

/-- Executor loss inside a command, on the model of the code as it is: the critical task answers START with an error,
    its executor is lost while the co-target is still working, the co-target then answers ok — the request fails, the
    environment ends in ERROR (`err`, no state, ERROR, both commanded, task 0 lost). -/
example :
    run Cfg.code { wf := { calls := 0, tasks := [(true, .ok), (false, .ok)] }, configure := [.ok, .ok],
                   steps := [.ctl .START_ACTIVITY [.errorReplyStaySrc, .ok] false [some ⟨false, false, false⟩, none]] } =
      [{ ev := none, rpc := .ok, state := some .CONFIGURED, after := some .CONFIGURED, cmd := [0, 1] },
       { ev := some .START_ACTIVITY, rpc := .err, state := none, after := some .ERROR, cmd := [0, 1], lost := [0] }] := by
  decide

/-- The invariance has content: the key of the response entry (computed before) is NOT the task's target afterwards —
    a look-up by the full target would miss the task, the look-up by task id finds it. -/
example :
    let r : List RTask := [⟨1, some 10, some 7, true⟩, ⟨2, some 11, some 8, false⟩]
    let k := (⟨1, some 10, some 7, true⟩ : RTask).target
    (applyLosses [.executor 7] r).find? (fun t => t.target = k) = none ∧
    (getTask (applyLosses [.executor 7] r) k.taskId).map (·.critical) = some true ∧
    RosterOk r [(⟨1, some 10, some 7, true⟩, .errorReplyStaySrc), (⟨2, some 11, some 8, false⟩, .ok)] ∧
    bodyForR Cfg.code .START_ACTIVITY r [(⟨1, some 10, some 7, true⟩, .errorReplyStaySrc), (⟨2, some 11, some 8, false⟩, .ok)]
      [.executor 7] = .error := by
  refine ⟨by decide, by decide, ⟨?_, ?_⟩, by decide⟩
  · intro t ht t' ht' h
    simp only [List.mem_cons, List.mem_nil_iff, or_false] at ht ht'
    rcases ht with rfl | rfl <;> rcases ht' with rfl | rfl <;> simp_all
  · intro c hc
    simp only [List.mem_cons, List.mem_nil_iff, or_false] at hc
    rcases hc with rfl | rfl <;> simp

/-- Late offers, on the model of the code as it is: the critical task's machine is missing from the first two rounds;
    the third attempt launches both tasks, NewEnvironment answers CONFIGURED, START goes to both. -/
example :
    runO AcqCfg.code Cfg.code
      { wf := { calls := 0, tasks := [⟨true, .ok, 1⟩, ⟨false, .ok, 2⟩], rounds := [[1], [1]] }, configure := [.ok, .ok],
        steps := [.ctl .START_ACTIVITY [.ok, .ok] false []] } =
      [{ ev := none, rpc := .ok, state := some .CONFIGURED, after := some .CONFIGURED, cmd := [0, 1],
         att := some [[], [], [0, 1]] },
       { ev := some .START_ACTIVITY, rpc := .ok, state := some .RUNNING, after := some .RUNNING, cmd := [0, 1] }] := by
  decide

/-- The hypotheses of `C02_deploy_retry_full` are satisfiable with a retry (i = 2), and the sticky loop differs exactly there. -/
example :
    let w : OWorkflow := { calls := 0, tasks := [⟨true, .ok, 1⟩, ⟨true, .ok, 2⟩], rounds := [[1], [2]] }
    critMissing w.descs (w.rounds.getD 0 []) = true ∧ critMissing w.descs (w.rounds.getD 1 []) = true ∧
    complete w.descs (w.rounds.getD 2 []) = true ∧
    (acquire AcqCfg.code w.descs w.rounds).attempts = [[], [], [0, 1]] ∧ (acquire AcqCfg.code w.descs w.rounds).ok = true ∧
    (acquire AcqCfg.sticky w.descs w.rounds).attempts = [[], [], [0, 1]] ∧ (acquire AcqCfg.sticky w.descs w.rounds).ok = false := by
  decide

/-- A genuine failure: the machine never turns up within the limit — three empty attempts, the critical role marked. -/
example :
    acquire AcqCfg.code [⟨true, some 1⟩, ⟨false, some 2⟩] [[1], [1], [1]] =
      { attempts := [[], [], []], ok := false, kept := [], marked := [0] } := by decide

/-- The round is over before acquireTasks listens, on the model of the code as it is: the critical task's machine is
    missing from the first round, that (abandoned) round's verdict waits in the channel — second attempt, both tasks
    launched, NewEnvironment answers CONFIGURED. On the model of the code as it was the same environment loses the
    verdict: no second attempt, NewEnvironment fails, and the former analysis names the corner. -/
example :
    runO AcqCfg.code Cfg.code
      { wf := { calls := 0, tasks := [⟨true, .ok, 1⟩, ⟨false, .ok, 2⟩], rounds := [[1]], notListening := some 0 },
        configure := [.ok, .ok], steps := [] } =
      [{ ev := none, rpc := .ok, state := some .CONFIGURED, after := some .CONFIGURED, cmd := [0, 1],
         att := some [[], [0, 1]] }] ∧
    runO AcqCfg.legacy Cfg.code
      { wf := { calls := 0, tasks := [⟨true, .ok, 1⟩, ⟨false, .ok, 2⟩], rounds := [[1]], notListening := some 0 },
        configure := [.ok, .ok], steps := [] } =
      [{ ev := none, rpc := .err, state := none, after := none, cmd := [], att := some [[]], verdictLost := true }] ∧
    judgeOAll { wf := { calls := 0, tasks := [⟨true, .ok, 1⟩, ⟨false, .ok, 2⟩], rounds := [[1]], notListening := some 0 },
                configure := [.ok, .ok], steps := [] }
      [{ ev := none, rpc := .err, state := none, after := none, cmd := [], att := some [[]], verdictLost := true }] =
      some "deploy_verdict_lost" ∧
    -- the same observation judged for the code as it is: a violation outside every open corner
    judgeO { wf := { calls := 0, tasks := [⟨true, .ok, 1⟩, ⟨false, .ok, 2⟩], rounds := [[1]] },
             configure := [.ok, .ok], steps := [] }
      [{ ev := none, rpc := .err, state := none, after := none, cmd := [], att := some [[]], verdictLost := true }] =
      some "-" := by
  decide

/-! ## WHEN an acknowledgement counts: the response time-out a transition gives its targets

  `Servent.RunCommand` waits for a target's answer with the time-out of the command it was handed — the per-target copy
  `MakeSingleTarget` makes — not with the time-out of the command the transition built. Model/Deadline.lean: `DlCfg`,
  `transitionCommand`, `makeSingleTarget`, `runCommandT`, `commitT`, `TOutcome.settle`. -/

/-- tie (go/ast, Gen/C02Facts.lean): `DlCfg.code` is the default of mesoscommand.go, the value configureTasks puts on the
    CONFIGURE command, and MakeSingleTarget's literal handing the receiver's `ResponseTimeout` on; the constructors stamp
    the default; nothing else under core/ writes the field (START / STOP / RESET keep the default); commit sends and
    RunCommand waits for the COPY with the copy's time-out. -/
theorem C02_deadline_is_code :
    DlCfg.code = { dflt := Gen.C02.defaultTimeoutMs, configure := Gen.C02.configureTimeoutMs,
                   copyInherits := Gen.C02.singleTargetCopiesTimeout } ∧
    Gen.C02.constructorStampsDefault = true ∧ Gen.C02.onlyConfigureOverridesTimeout = true ∧
    Gen.C02.serventWaitsCopyTimeout = true := by decide

/-- tie (differential): the LINKED constructors stamp the model's default, and the LINKED MakeSingleTarget — through the
    Transition and TriggerHook wrappers and on the base — gives every receiver of commands with default and non-default
    time-outs a copy with the time-out `makeSingleTarget DlCfg.code` computes. -/
theorem C02_single_target_deadline_is_code :
    (∀ r ∈ Gen.C02.constructedTimeoutsMs, r.2 = (newMesosCommand DlCfg.code).timeout) ∧
    (∀ r ∈ Gen.C02.singleTargetTimeoutsMs, r.2.2 = (makeSingleTarget DlCfg.code ⟨r.2.1⟩).timeout) ∧
    Gen.C02.singleTargetTimeoutsMs.length = 36 := by decide

/-- The code as it is gives every target of every transition exactly the time the transition allows. -/
theorem C02_target_deadline_code (e : Ev) : targetDeadline DlCfg.code e = allowed e := by
  cases e <;> rfl

/-- Whenever the copy inherits, a target is waited for with the time-out of the command the transition built — whatever
    the numbers. -/
theorem C02_target_deadline_inherits (dc : DlCfg) (h : dc.copyInherits = true) (e : Ev) :
    targetDeadline dc e = (transitionCommand dc e).timeout := by
  simp [targetDeadline, makeSingleTarget, h]

/-- …and otherwise with the constructor's default, whatever the transition put on its command. -/
theorem C02_target_deadline_default_copy (dc : DlCfg) (h : dc.copyInherits = false) (e : Ev) :
    targetDeadline dc e = dc.dflt := by
  simp [targetDeadline, makeSingleTarget, h, newMesosCommand]

/-- `RunCommand` with a time-out is `runCommand` on the settled outcome: an answer that is not there when the timer
    fires is no answer. All time-outs, all delays, all outcomes. -/
theorem C02_run_command_settles (tmo : Nat) (o : TOutcome) : runCommandT tmo o = runCommand (o.settle tmo) := by
  obtain ⟨b, d⟩ := o
  by_cases h : d < tmo <;> cases b <;> simp [runCommandT, runCommand, TOutcome.settle, Outcome.replies, h]

/-- `commit` with time is `commit` of Model/Transition on the outcomes settled by the COPY's time-out. -/
theorem C02_commit_timed (dc : DlCfg) (c : Command) (ts : List (Bool × TOutcome)) :
    commitT dc c ts = commit (ts.map (fun t => (t.1, t.2.settle (makeSingleTarget dc c).timeout))) := by
  simp [commitT, commit, C02_run_command_settles, Function.comp_def]

/-- A timed outcome settles to "acknowledged" iff the task acknowledged before the time-out. -/
theorem C02_ack_in_time_iff (dl : Nat) (o : TOutcome) : o.settle dl = .ok ↔ o.ackedWithin dl = true := by
  obtain ⟨b, d⟩ := o
  by_cases h : d < dl <;> cases b <;> simp [TOutcome.settle, TOutcome.ackedWithin, Outcome.replies, h]

/-- An answer that comes at or after the time-out never counts, whatever it says. -/
theorem C02_late_never_acks (dl : Nat) (o : TOutcome) (h : dl ≤ o.delay) : o.settle dl ≠ .ok := by
  rw [Ne, C02_ack_in_time_iff]; simp [TOutcome.ackedWithin]; omega

theorem targetsT_settle (dl : Nat) (ps : List (Task × TOutcome)) :
    (targetsT ps).map (fun t => (t.1, t.2.settle dl)) = targets (ps.map (fun p => (p.1, p.2.settle dl))) := by
  simp [targetsT, targets, List.filter_map, Function.comp_def]

/-- Full strength with time: for EVERY task list and EVERY assignment of outcomes AND delays, the body of CONFIGURE /
    START_ACTIVITY / STOP_ACTIVITY / RESET succeeds iff every active critical task acknowledged within the time-out of
    the command the transition built. -/
def C02_iff_timed_full (dc : DlCfg) (cfg : Cfg) : Prop :=
  ∀ (e : Ev), commandEv e → ∀ (ps : List (Task × TOutcome)),
    (bodyForT dc cfg e (targetsT ps) = .ok ↔
      ∀ p ∈ ps, p.1.active = true → p.1.critical = true → p.2.ackedWithin (transitionCommand dc e).timeout = true)

theorem iff_timed_of_deadline (dc : DlCfg) (e : Ev) (he : commandEv e) (ps : List (Task × TOutcome)) :
    bodyForT dc Cfg.code e (targetsT ps) = .ok ↔
      ∀ p ∈ ps, p.1.active = true → p.1.critical = true → p.2.ackedWithin (targetDeadline dc e) = true := by
  rw [bodyForT, targetsT_settle, C02_iff_code e he]
  simp only [allCriticalAcked, targets, List.all_eq_true, List.mem_map, List.mem_filter]
  constructor
  · intro h p hp ha hc
    have := h (p.1.critical, p.2.settle (targetDeadline dc e)) ⟨(p.1, p.2.settle (targetDeadline dc e)), ⟨⟨p, hp, rfl⟩, ha⟩, rfl⟩
    simp only [hc, Bool.not_true, Bool.false_or, decide_eq_true_eq] at this
    exact (C02_ack_in_time_iff _ _).1 this
  · rintro h t ⟨q, ⟨⟨p, hp, rfl⟩, ha⟩, rfl⟩
    cases hc : p.1.critical
    · simp
    · simp only [Bool.not_true, Bool.false_or, decide_eq_true_eq]
      exact (C02_ack_in_time_iff _ _).2 (h p hp ha hc)

/-- It holds whenever the per-target copy inherits the command's time-out — for all default / CONFIGURE values. -/
theorem C02_iff_timed_inherits (dc : DlCfg) (h : dc.copyInherits = true) : C02_iff_timed_full dc Cfg.code := by
  intro e he ps
  rw [iff_timed_of_deadline dc e he ps, C02_target_deadline_inherits dc h]

/-- The code as it is: in full, and the time-out is the time the transition allows (`Spec.allowed`). -/
theorem C02_iff_code_timed : C02_iff_timed_full DlCfg.code Cfg.code := C02_iff_timed_inherits _ rfl

theorem C02_iff_code_allowed (e : Ev) (he : commandEv e) (ps : List (Task × TOutcome)) :
    bodyForT DlCfg.code Cfg.code e (targetsT ps) = .ok ↔
      ∀ p ∈ ps, p.1.active = true → p.1.critical = true → p.2.ackedWithin (allowed e) = true := by
  rw [iff_timed_of_deadline DlCfg.code e he ps, C02_target_deadline_code]

/-- It FAILS whenever the copy carries the default and CONFIGURE is meant to get more: a critical task that
    acknowledges CONFIGURE after the default but within the command's time-out is timed out. -/
theorem C02_copy_must_inherit (dc : DlCfg) (h : dc.copyInherits = false) (hlt : dc.dflt < dc.configure) :
    ¬ C02_iff_timed_full dc Cfg.code := by
  intro hf
  have := (hf .CONFIGURE (Or.inl rfl) [({ critical := true, active := true }, ⟨.ok, dc.dflt⟩)]).2
    (by intro p hp _ _
        simp only [List.mem_singleton] at hp
        subst hp
        simp [TOutcome.ackedWithin, transitionCommand, hlt])
  rw [iff_timed_of_deadline dc _ (Or.inl rfl), C02_target_deadline_default_copy dc h] at this
  have h1 := this _ (List.mem_singleton.2 rfl) rfl rfl
  simp [TOutcome.ackedWithin] at h1

/-- …in particular for the variant with the code's numbers. -/
theorem C02_default_copy_refuted : ¬ C02_iff_timed_full DlCfg.defaultCopy Cfg.code :=
  C02_copy_must_inherit _ rfl (by decide)

/-- In full, every configuration: a critical active task that does not acknowledge within the time-out its copy of the
    command carries makes the body fail. -/
theorem C02_unacked_in_time_never_reported (dc : DlCfg) (cfg : Cfg) (e : Ev) (he : commandEv e)
    (ps : List (Task × TOutcome)) (p : Task × TOutcome) (hp : p ∈ ps) (ha : p.1.active = true) (hc : p.1.critical = true)
    (hl : p.2.ackedWithin (targetDeadline dc e) = false) : bodyForT dc cfg e (targetsT ps) ≠ .ok := by
  rw [bodyForT, targetsT_settle]
  apply C02_unacked_never_reported cfg e he
  simp only [allCriticalAcked, targets, Bool.eq_false_iff, ne_eq, List.all_eq_true, List.mem_map, List.mem_filter]
  intro h
  have := h (p.1.critical, p.2.settle (targetDeadline dc e)) ⟨(p.1, p.2.settle (targetDeadline dc e)), ⟨⟨p, hp, rfl⟩, ha⟩, rfl⟩
  simp only [hc, Bool.not_true, Bool.false_or, decide_eq_true_eq] at this
  rw [(C02_ack_in_time_iff _ _).1 this] at hl
  cases hl

/-- Why the time-out GIVEN has to be the time ALLOWED: for any other value there is a delay at which a lone critical
    task's answer is judged differently. -/
theorem C02_wrong_deadline_refutes (e : Ev) (dl : Nat) (h : dl ≠ allowed e) :
    ∃ d, (⟨.ok, d⟩ : TOutcome).ackedWithin dl ≠ (⟨.ok, d⟩ : TOutcome).ackedWithin (allowed e) := by
  refine ⟨min dl (allowed e), ?_⟩
  simp only [TOutcome.ackedWithin, decide_true, Bool.true_and, ne_eq, decide_eq_decide]
  omega

/-! ### conservative extension: without delays nothing changes -/

theorem settle_timed (dl : Nat) (h : 0 < dl) (o : Outcome) : (Outcome.timed o).settle dl = o := by
  cases o <;> simp [Outcome.timed, TOutcome.settle, Outcome.replies, h]

theorem settleOuts_timed (dl : Nat) (h : 0 < dl) (os : List Outcome) : settleOuts dl (os.map Outcome.timed) = os := by
  induction os with
  | nil => rfl
  | cons o os ih =>
    simp only [settleOuts, List.map_cons, List.cons.injEq] at ih ⊢
    exact ⟨settle_timed dl h o, ih⟩

/-- A scenario without delays, settled by ANY positive time-outs, is the scenario. -/
theorem C02_no_delay_is_plain (dl : Ev → Nat) (h : ∀ e, 0 < dl e) (sc : Scenario) : sc.timed.settle dl = sc := by
  obtain ⟨wf, conf, steps⟩ := sc
  simp only [Scenario.timed, TScenario.settle, settleOuts_timed _ (h _), Scenario.mk.injEq, true_and]
  induction steps with
  | nil => rfl
  | cons s ss ih =>
    simp only [List.map_cons, List.cons.injEq]
    refine ⟨?_, ih⟩
    cases s <;> simp [SStep.timed, TStep.settle, settleOuts_timed _ (h _)]

/-- …so its timed run is the run of Model/Transition, with the time-outs given added to the observation. -/
theorem C02_no_delay_run (cfg : Cfg) (sc : Scenario) :
    runT DlCfg.code cfg sc.timed = withDeadlines DlCfg.code (run cfg sc) := by
  rw [runT, C02_no_delay_is_plain _ (fun e => by rw [C02_target_deadline_code]; cases e <;> decide)]

/-! ### Spec.C02 on timed scenarios -/

theorem obs_withDeadlines (dc : DlCfg) (os : List Obs) : (withDeadlines dc os).map (·.obs) = os := by
  simp [withDeadlines, Function.comp_def]

theorem deadlinesOk_code (os : List Obs) : deadlinesOk (withDeadlines DlCfg.code os) = true := by
  simp [deadlinesOk, withDeadlines, C02_target_deadline_code]

theorem deadline_code_allowed : targetDeadline DlCfg.code = allowed := funext C02_target_deadline_code

theorem judgeT_code (sc : TScenario) :
    judgeT sc (runT DlCfg.code Cfg.code sc) = judge (sc.settle allowed) (run Cfg.code (sc.settle allowed)) := by
  rw [judgeT, judgeDl, runT, deadlinesOk_code, obs_withDeadlines, deadline_code_allowed]; rfl

theorem judgeOT_code (sc : OTScenario) :
    judgeOT sc (runOT DlCfg.code AcqCfg.code Cfg.code sc) =
      judgeO (sc.settle allowed) (runO AcqCfg.code Cfg.code (sc.settle allowed)) := by
  rw [judgeOT, judgeDl, runOT, deadlinesOk_code, obs_withDeadlines, deadline_code_allowed]; rfl

/-- The code as it is satisfies Spec.C02 on EVERY scenario with timed outcomes outside the two open DEPLOY corners:
    every request sequence, every outcome AND delay assignment (answers just inside and just outside the time allowed
    included), and every commanded target is given exactly the time its transition allows. -/
theorem C02_spec_code_timed (sc : TScenario)
    (h1 : noncritLaunchFail sc.wf.tasks = false) (h2 : earlyRunning sc.wf.tasks = false) :
    judgeT sc (runT DlCfg.code Cfg.code sc) = none := by
  rw [judgeT_code]; exact C02_spec_code _ h1 h2

theorem C02_only_deploy_corners_code_timed (sc : TScenario) (h : String)
    (hj : judgeT sc (runT DlCfg.code Cfg.code sc) = some h) :
    h = "deploy_misses_active" ∨ h = "deploy_noncritical_blocks" := by
  rw [judgeT_code] at hj; exact C02_only_deploy_corners_code _ h hj

/-- The verdict the harness computes on what the model does with a timed scenario is never the anonymous "-". -/
theorem C02_corners_exhaustive_timed (sc : TScenario) : judgeT sc (runT DlCfg.code Cfg.code sc) ≠ some "-" := by
  rw [judgeT_code]; exact C02_corners_exhaustive _

theorem C02_attempts_corners_exhaustive_timed (sc : OTScenario) :
    judgeOT sc (runOT DlCfg.code AcqCfg.code Cfg.code sc) ≠ some "-" := by
  rw [judgeOT_code]; exact C02_attempts_corners_exhaustive _

/-- Spec.C02 rejects the variant whose per-target copy carries the default — on a scenario in which EVERY task answers at
    once (only the time-outs given differ), and on one whose critical task acknowledges CONFIGURE after 100 s (the
    variant reports a failure). -/
theorem C02_default_copy_rejected :
    judgeT { wf := { calls := 0, tasks := [(true, .ok), (false, .ok)] }, configure := [⟨.ok, 0⟩, ⟨.ok, 0⟩], steps := [] }
      (runT DlCfg.defaultCopy Cfg.code
        { wf := { calls := 0, tasks := [(true, .ok), (false, .ok)] }, configure := [⟨.ok, 0⟩, ⟨.ok, 0⟩], steps := [] }) = some "-" ∧
    (let sc : TScenario := { wf := { calls := 0, tasks := [(true, .ok), (false, .ok)] }, configure := [⟨.ok, 100000⟩, ⟨.ok, 0⟩], steps := [] }
     (runT DlCfg.defaultCopy Cfg.code sc).map (·.obs.rpc) = [.err] ∧ (runT DlCfg.code Cfg.code sc).map (·.obs.rpc) = [.ok] ∧
     judge (sc.settle allowed) ((runT DlCfg.defaultCopy Cfg.code sc).map (·.obs)) = some "-") := by decide

example : (runT DlCfg.code Cfg.code
    { wf := { calls := 0, tasks := [(true, .ok), (false, .ok)] }, configure := [⟨.ok, 100000⟩, ⟨.ok, 0⟩],
      steps := [.ctl .START_ACTIVITY [⟨.ok, 80000⟩, ⟨.errorReplyStaySrc, 100000⟩] false [],
                .ctl .STOP_ACTIVITY [⟨.ok, 100000⟩, ⟨.ok, 0⟩] false []] }).map (fun o => (o.obs.rpc, o.obs.state, o.dl)) =
    [(.ok, some .CONFIGURED, [120000, 120000]), (.ok, some .RUNNING, [90000, 90000]), (.err, none, [90000, 90000])] := by decide
