/-
  Props/C02 — "A transition succeeds iff every critical task acknowledged it".

  Model: Model/Transition.lean (task-level bodies, DEPLOY wait, ControlEnvironment incl. gRPC status) on top of
  Model/Env.lean (state machine). Tied to /repo by the whole-core simulator runs of harness/props/c02: the real core
  (child process) is driven through its gRPC API while scripted executors answer, and every request's status,
  reply state, state afterwards and set of commanded tasks is compared with `Trans.run`.

  The code — and so the faithful model — departs from the property at six corners. Each has its full-strength
  statement as a `def …_full : Prop`, a refutation `C02_finding_<id>` on a concrete witness, a `…_partial`
  theorem with the corner excluded by a decidable hypothesis, and (where a small repair exists) a `…_fixed`
  theorem showing that the statement holds in full once the repair (`Cfg.fixed`) is switched on.
-/
import ControlModel.Proofs.Transition

open EnvM Trans

/-- The events whose body commands the tasks. -/
def commandEv (e : Ev) : Prop := e = .CONFIGURE ∨ e = .START_ACTIVITY ∨ e = .STOP_ACTIVITY ∨ e = .RESET

theorem bodyFor_ok (cfg : Cfg) (e : Ev) (he : commandEv e) (ts : List Target) (h0 : noTargets ts = false) :
    bodyFor cfg e ts = .ok ↔ classify cfg (consolidate (commit ts)) = true := by
  have hne : ts.isEmpty = false := h0
  rcases he with rfl | rfl | rfl | rfl <;>
    simp [bodyFor, configureBody, commandBody, configureTasks, transitionTasks, hne] <;>
    (split <;> simp_all)

theorem bodyFor_empty (cfg : Cfg) (e : Ev) (he : commandEv e) :
    bodyFor cfg e [] = if cfg.emptyIsSuccess then .ok else if e = .CONFIGURE then .hang else .error := by
  rcases he with rfl | rfl | rfl | rfl <;>
    cases h : cfg.emptyIsSuccess <;>
    simp [bodyFor, configureBody, commandBody, transitionTasks, h, consolidate, commit, classify]

theorem unacked_nonempty (ts : List Target) (h : allCriticalAcked ts = false) :
    noTargets ts = false ∧ singleNoncritFail ts = false := by
  match ts with
  | [] => simp [allCriticalAcked] at h
  | [t] =>
    simp only [allCriticalAcked, List.all_cons, List.all_nil, Bool.and_true] at h
    refine ⟨rfl, ?_⟩
    simp only [singleNoncritFail]
    cases ht : t.1 <;> simp_all
  | _ :: _ :: _ => exact ⟨rfl, rfl⟩

/-! ## the destination is reported iff every critical task acknowledged -/

/-- Full strength, about the code as it is: for EVERY list of tasks and EVERY assignment of outcomes, the body of
    CONFIGURE / START_ACTIVITY / STOP_ACTIVITY / RESET succeeds iff every active critical task acknowledged. -/
def C02_iff_full : Prop :=
  ∀ (e : Ev), commandEv e → ∀ (ps : List (Task × Outcome)),
    (bodyFor Cfg.code e (targets ps) = .ok ↔ allCriticalAcked (targets ps) = true)

/-- It holds whenever the command goes to somebody, and not to a lone non-critical task that fails
    (for every repair configuration, in particular the code as it is). -/
theorem C02_iff_partial (cfg : Cfg) (e : Ev) (he : commandEv e) (ps : List (Task × Outcome))
    (h0 : noTargets (targets ps) = false) (h1 : singleNoncritFail (targets ps) = false) :
    bodyFor cfg e (targets ps) = .ok ↔ allCriticalAcked (targets ps) = true := by
  rw [bodyFor_ok cfg e he _ h0, classify_acked cfg _ h0 (Or.inl h1)]

/-- With the repairs on, it holds in full. -/
theorem C02_iff_fixed (e : Ev) (he : commandEv e) (ps : List (Task × Outcome)) :
    bodyFor Cfg.fixed e (targets ps) = .ok ↔ allCriticalAcked (targets ps) = true := by
  cases h0 : noTargets (targets ps)
  · rw [bodyFor_ok Cfg.fixed e he _ h0, classify_acked Cfg.fixed _ h0 (Or.inr rfl)]
  · have : targets ps = [] := by simpa [noTargets] using h0
    rw [this, bodyFor_empty _ _ he]; simp [Cfg.fixed, allCriticalAcked]

/-- finding `single_target_ignores_critical`: a lone NON-critical task that answers START with an error makes the
    transition fail. -/
theorem C02_finding_single_target_ignores_critical : ¬ C02_iff_full := by
  intro h
  have := h .START_ACTIVITY (Or.inr (Or.inl rfl)) [({ critical := false, active := true }, .errorReplyStaySrc)]
  revert this; decide

/-- finding `zero_targets_error`: with no active task START fails. -/
theorem C02_finding_zero_targets_error : ¬ C02_iff_full := by
  intro h
  have := h .START_ACTIVITY (Or.inr (Or.inl rfl)) []
  revert this; decide

/-- finding `configure_nothing_hangs`: with no active task CONFIGURE never returns. -/
theorem C02_finding_configure_nothing_hangs :
    ¬ C02_iff_full ∧ bodyFor Cfg.code .CONFIGURE (targets [({ critical := true, active := false }, .ok)]) = .hang := by
  refine ⟨fun h => ?_, by decide⟩
  have := h .CONFIGURE (Or.inl rfl) []
  revert this; decide

/-- The same at the API: ControlEnvironment from a state in which the event is possible (no hooks, nothing
    pending) answers OK with the destination state iff every active critical task acknowledged. -/
theorem C02_iff_api_partial (cfg : Cfg) (env : Env) (e : Ev) (d : St) (he : commandEv e) (w : Bool)
    (hp : env.pending = []) (hd : dst? e env.st = some d) (ps : List (Task × Outcome))
    (h0 : noTargets (targets ps) = false) (h1 : singleNoncritFail (targets ps) = false) :
    let r := controlRpc cfg env [] e (decide (bodyFor cfg e (targets ps) = .ok)) false w
    (r.2 = true ∧ r.1.st = d) ↔ allCriticalAcked (targets ps) = true := by
  intro r
  rw [← C02_iff_partial cfg e he ps h0 h1]
  have hdne : d ≠ .ERROR := by
    rcases he with rfl | rfl | rfl | rfl <;> (revert hd; cases env.st <;> simp [dst?] <;> (intro h; subst h; decide))
  by_cases hb : bodyFor cfg e (targets ps) = .ok
  · have hf := fsmEvent_nohooks env e d true hp hd
    have : r = ((tryTransition env [] e true false).1, true) := by
      show controlRpc cfg env [] e (decide (bodyFor cfg e (targets ps) = .ok)) false w = _
      rw [decide_eq_true hb]; exact controlRpc_ok cfg env [] e true false w hf.2.1
    rw [this]; simp only [tryTransition, hf.2.2, ↓reduceIte, and_self, true_iff]; exact hb
  · have hf := fsmEvent_body_fails env [] e false
    have : r.1.st = .ERROR := by
      show (controlRpc cfg env [] e (decide (bodyFor cfg e (targets ps) = .ok)) false w).1.st = _
      rw [decide_eq_false hb]; exact controlRpc_failed_error cfg env [] e false false w hf
    constructor
    · rintro ⟨_, h⟩; rw [this] at h; exact absurd h.symm hdne
    · intro h; exact absurd h hb

/-! ## a critical task that does not acknowledge: never reported, and the environment ends in ERROR -/

/-- In full, for every repair configuration: if some active critical task does not acknowledge, the body fails. -/
theorem C02_unacked_never_reported (cfg : Cfg) (e : Ev) (he : commandEv e) (ts : List Target)
    (h : allCriticalAcked ts = false) : bodyFor cfg e ts ≠ .ok := by
  obtain ⟨h0, h1⟩ := unacked_nonempty ts h
  rw [Ne, bodyFor_ok cfg e he ts h0, classify_acked cfg ts h0 (Or.inl h1), h]; simp

/-- In full, for ALL hook sets, ALL environments, ALL task lists and outcomes, whoever wins the mutex: when the
    task-level body of a requested transition does not succeed, ControlEnvironment leaves the environment in ERROR. -/
theorem C02_fail_ends_error (cfg : Cfg) (hooks : List Hook) (env : Env) (e : Ev) (rnFail w : Bool)
    (ts : List Target) (hfail : bodyFor cfg e ts ≠ .ok) :
    (controlRpc cfg env hooks e (decide (bodyFor cfg e ts = .ok)) rnFail w).1.st = .ERROR := by
  rw [decide_eq_false hfail]
  exact controlRpc_failed_error cfg env hooks e false rnFail w (fsmEvent_body_fails env hooks e rnFail)

/-- …in particular when an active critical task answered with an error, could not be reached, stayed silent or died. -/
theorem C02_unacked_ends_error (cfg : Cfg) (hooks : List Hook) (env : Env) (e : Ev) (he : commandEv e)
    (rnFail w : Bool) (ps : List (Task × Outcome)) (h : allCriticalAcked (targets ps) = false) :
    (controlRpc cfg env hooks e (decide (bodyFor cfg e (targets ps) = .ok)) rnFail w).1.st = .ERROR :=
  C02_fail_ends_error cfg hooks env e rnFail w _ (C02_unacked_never_reported cfg e he _ h)

/-! ## …and the request returns an error -/

/-- Full strength: a request whose critical tasks did not all acknowledge answers with an error status. -/
def C02_fail_returns_error_full : Prop :=
  ∀ (env : Env) (e : Ev) (d : St) (w : Bool) (ts : List Target), commandEv e → env.pending = [] →
    dst? e env.st = some d → allCriticalAcked ts = false →
    (controlRpc Cfg.code env [] e (decide (bodyFor Cfg.code e ts = .ok)) false w).2 = false

/-- finding `rpc_ok_on_failed_transition`: the handler overwrites the transition's error with the result of the
    GO_ERROR it performs next; GO_ERROR succeeds, so the status is OK (and the reply says ERROR). -/
theorem C02_finding_rpc_ok_on_failed_transition : ¬ C02_fail_returns_error_full := by
  intro h
  have := h { st := .CONFIGURED } .START_ACTIVITY .RUNNING false [(true, .errorReplyStaySrc)]
    (Or.inr (Or.inl rfl)) rfl rfl rfl
  revert this; decide

/-- As the code is, an error status comes back only by accident: when the environment's own watcher performed
    GO_ERROR first, so that the handler's GO_ERROR is refused. -/
theorem C02_fail_returns_error_partial (cfg : Cfg) (env : Env) (e : Ev) (d : St) (ts : List Target)
    (he : commandEv e) (hp : env.pending = []) (hd : dst? e env.st = some d)
    (h : allCriticalAcked ts = false) :
    (controlRpc cfg env [] e (decide (bodyFor cfg e ts = .ok)) false true).2 = false := by
  rw [decide_eq_false (C02_unacked_never_reported cfg e he ts h)]
  have hf := fsmEvent_nohooks env e d false hp hd
  have hsrc : dst? .GO_ERROR env.st = some .ERROR := by
    rcases he with rfl | rfl | rfl | rfl <;> (revert hd; cases env.st <;> simp [dst?])
  unfold controlRpc
  simp only [tryTransition, hf.2.1, Bool.false_eq_true, ↓reduceIte]
  generalize fsmEvent env [] e false false = R at hf
  have hst : R.1.st = env.st := by simpa using hf.2.2
  have hg := fsmEvent_nohooks R.1 .GO_ERROR .ERROR true hf.1 (by rw [hst]; exact hsrc)
  have hw : (watcher R.1 []).st = .ERROR := by
    unfold watcher; simp only [tryTransition, hg.2.1, ↓reduceIte]; simpa using hg.2.2
  rw [fsmEvent_illegal _ _ _ _ _ (by rw [hw]; rfl)]
  cases cfg.keepTransitionError <;> rfl

/-- With the repair on, an error status always comes back. -/
theorem C02_fail_returns_error_fixed (hooks : List Hook) (env : Env) (e : Ev) (he : commandEv e) (rnFail w : Bool)
    (ts : List Target) (h : allCriticalAcked ts = false) :
    (controlRpc Cfg.fixed env hooks e (decide (bodyFor Cfg.fixed e ts = .ok)) rnFail w).2 = false := by
  rw [decide_eq_false (C02_unacked_never_reported Cfg.fixed e he ts h)]
  unfold controlRpc
  simp [fsmEvent_body_fails env hooks e rnFail, tryTransition, Cfg.fixed]

/-! ## failures confined to non-critical tasks are harmless -/

def C02_noncritical_harmless_full : Prop :=
  ∀ (e : Ev), commandEv e → ∀ (ps : List (Task × Outcome)),
    (∀ t ∈ targets ps, t.2 ≠ .ok → t.1 = false) → bodyFor Cfg.code e (targets ps) = .ok

theorem harmless_acked (ts : List Target) (h : ∀ t ∈ ts, t.2 ≠ .ok → t.1 = false) : allCriticalAcked ts = true := by
  simp only [allCriticalAcked, List.all_eq_true]
  intro t ht
  by_cases ho : t.2 = .ok
  · simp [ho]
  · simp [h t ht ho]

theorem C02_noncritical_harmless_partial (cfg : Cfg) (e : Ev) (he : commandEv e) (ps : List (Task × Outcome))
    (h0 : noTargets (targets ps) = false) (h1 : singleNoncritFail (targets ps) = false)
    (h : ∀ t ∈ targets ps, t.2 ≠ .ok → t.1 = false) : bodyFor cfg e (targets ps) = .ok :=
  (C02_iff_partial cfg e he ps h0 h1).2 (harmless_acked _ h)

theorem C02_noncritical_harmless_fixed (e : Ev) (he : commandEv e) (ps : List (Task × Outcome))
    (h : ∀ t ∈ targets ps, t.2 ≠ .ok → t.1 = false) : bodyFor Cfg.fixed e (targets ps) = .ok :=
  (C02_iff_fixed e he ps).2 (harmless_acked _ h)

/-- The single-target corner refutes this clause too. -/
theorem C02_finding_single_target_harms : ¬ C02_noncritical_harmless_full := by
  intro h
  have := h .STOP_ACTIVITY (Or.inr (Or.inr (Or.inl rfl))) [({ critical := false, active := true }, .silent)]
    (by decide)
  revert this; decide

/-! ## a transition with nothing to command succeeds at once -/

def C02_empty_succeeds_full : Prop := ∀ (e : Ev), commandEv e → bodyFor Cfg.code e [] = .ok

/-- What the code does instead (exactly): CONFIGURE never returns, the others fail. -/
theorem C02_empty_code (e : Ev) (he : commandEv e) :
    bodyFor Cfg.code e [] = if e = .CONFIGURE then .hang else .error := by
  rw [bodyFor_empty _ _ he]; rfl

theorem C02_finding_zero_targets : ¬ C02_empty_succeeds_full := by
  intro h
  have := h .RESET (Or.inr (Or.inr (Or.inr rfl)))
  revert this; decide

theorem C02_empty_succeeds_fixed (e : Ev) (he : commandEv e) : bodyFor Cfg.fixed e [] = .ok := by
  rw [bodyFor_empty _ _ he]; rfl

/-- "Nothing to command" is decided by `GetActiveTasks`: tasks whose role is not ACTIVE are not commanded, and what
    is scripted for them is irrelevant. -/
theorem C02_inactive_not_commanded (ps : List (Task × Outcome)) (f : Outcome → Outcome) :
    targets (ps.map (fun p => if p.1.active then p else (p.1, f p.2))) = targets ps := by
  induction ps with
  | nil => rfl
  | cons p ps ih =>
    simp only [targets, List.map_cons, List.filter_cons] at ih ⊢
    by_cases ha : p.1.active = true
    · simp [ha, ih]
    · simp [ha, ih]

theorem C02_all_inactive_no_targets (ps : List (Task × Outcome)) (h : ∀ p ∈ ps, p.1.active = false) :
    targets ps = [] := by
  simp only [targets, List.map_eq_nil_iff, List.filter_eq_nil_iff]
  intro p hp; simp [h p hp]

/-! ## DEPLOY -/

def C02_deploy_iff_full : Prop :=
  ∀ (ls : List (Bool × Launch)) (calls : Nat), deployBody ls calls = .ok ↔ allCriticalLaunched ls = true

/-- DEPLOY succeeds iff every critical task became active — provided the workflow has a role at all, no
    NON-critical task failed to start (the root status the loop waits for is the product over all roles) and no
    TASK_RUNNING update overtook the roster. -/
theorem C02_deploy_iff_partial (ls : List (Bool × Launch)) (calls : Nat)
    (h0 : emptyWorkflow { calls := calls, tasks := ls } = false) (h1 : noncritLaunchFail ls = false)
    (h2 : earlyRunning ls = false) :
    deployBody ls calls = .ok ↔ allCriticalLaunched ls = true := by
  rw [deployBody_ok]
  have hne : ls ≠ [] ∨ calls ≠ 0 := by
    simp only [emptyWorkflow, Bool.and_eq_false_iff, List.isEmpty_eq_false_iff, decide_eq_false_iff_not] at h0
    exact h0
  simp only [allCriticalLaunched, List.all_eq_true, noncritLaunchFail, earlyRunning, List.any_eq_false] at h1 h2 ⊢
  constructor
  · rintro ⟨_, hall⟩ l hl; simp [hall l hl, Launch.started]
  · intro h
    refine ⟨hne, fun l hl => ?_⟩
    have a := h l hl
    have b := h1 l hl
    have c := h2 l hl
    cases hc : l.1 <;> cases hl2 : l.2 <;> simp_all [Launch.started]

/-- In full: a critical task that does not start (dies, stays staging, has no host) fails the DEPLOY. -/
theorem C02_deploy_critical_needed (ls : List (Bool × Launch)) (calls : Nat)
    (h : allCriticalLaunched ls = false) : deployBody ls calls ≠ .ok := by
  rw [Ne, deployBody_ok]
  rintro ⟨_, hall⟩
  have : allCriticalLaunched ls = true := by
    simp only [allCriticalLaunched, List.all_eq_true]; intro l hl; simp [hall l hl, Launch.started]
  rw [this] at h; cases h

/-- finding `deploy_noncritical_blocks`: a non-critical task that does not start makes the DEPLOY fail. -/
theorem C02_finding_deploy_noncritical_blocks : ¬ C02_deploy_iff_full := by
  intro h
  have := h [(true, .ok), (false, .dies)] 0
  revert this; decide

/-- finding `deploy_empty_workflow`: a workflow without roles cannot be deployed. -/
theorem C02_finding_deploy_empty_workflow : ¬ C02_deploy_iff_full := by
  intro h
  have := h [] 0
  revert this; decide

/-- finding `deploy_running_update_dropped`: a task that reports TASK_RUNNING before acquireTasks has entered it into
    the roster never becomes ACTIVE for the core: the DEPLOY times out although every task started in time. -/
theorem C02_finding_deploy_running_update_dropped : ¬ C02_deploy_iff_full := by
  intro h
  have := h [(true, .okEarly)] 0
  revert this; decide

/-! ## non-vacuity -/

/-- A realistic mix satisfies the hypotheses of the partial theorems: two critical tasks and a failing non-critical one. -/
example :
    let ps : List (Task × Outcome) :=
      [(⟨true, true⟩, .ok), (⟨true, true⟩, .ok), (⟨false, true⟩, .errorReplyToError), (⟨false, false⟩, .dies)]
    noTargets (targets ps) = false ∧ singleNoncritFail (targets ps) = false ∧
    allCriticalAcked (targets ps) = true ∧ bodyFor Cfg.code .START_ACTIVITY (targets ps) = .ok := by decide

example :
    let ps : List (Task × Outcome) := [(⟨true, true⟩, .silent), (⟨false, true⟩, .ok)]
    allCriticalAcked (targets ps) = false ∧ bodyFor Cfg.code .STOP_ACTIVITY (targets ps) = .error ∧
    (controlRpc Cfg.code { st := .RUNNING } [] .STOP_ACTIVITY false false false).1.st = .ERROR := by decide

example : emptyWorkflow { calls := 0, tasks := [(true, .ok), (false, .ok)] } = false ∧
    noncritLaunchFail [(true, .ok), (false, .ok)] = false ∧ earlyRunning [(true, .ok), (false, .ok)] = false ∧
    deployBody [(true, .ok), (false, .ok)] 0 = .ok := by decide
