/-
  Props/C03 — "Failure of a critical task drives a live environment to ERROR".

  Property theorems only; lemmas live in Proofs/Failure.lean (and Proofs/RoleTree.lean,
  Proofs/Env.lean, which are C11's and C01's).

  The system is `Failure.Sys` (role tree + environment machine + watcher + whatever holds
  the transition mutex); inputs are `failOne`/`fail` (one failure of some `Kind`), internal
  steps are `Label`s. "Within bounded time" is stated as: every run of enabled internal
  steps is at most `budget` long, and when nothing is enabled any more the environment is
  in ERROR (fairness = enabled internal steps are eventually taken; wall-clock time is not
  modelled).
-/
import ControlModel.Gen.FailureFacts
import ControlModel.Proofs.Failure

open RoleTree EnvM Failure

/-! ## the model is about the code as it is now (go/ast facts regenerated on every run) -/

def Failure.Kind.mesos? : Kind → Option String
  | .FAILED => some "TASK_FAILED" | .LOST => some "TASK_LOST" | .KILLED => some "TASK_KILLED"
  | .TERROR => some "TASK_ERROR" | .FINISHED => some "TASK_FINISHED" | _ => none

/-- `effect` for a terminal Mesos status IS the case table of task.Manager.handleMessage
    (state literal) and updateTaskStatus (INACTIVE); the ERROR rows are the ones guarded by
    `t.IsLocked()` (an owned task — every task of a live environment). -/
theorem C03_status_effect_is_code (k : Kind) (n : String) (st : St) (h : k.mesos? = some n) :
    (∃ row ∈ Gen.C03.statusState, row.1 = n ∧ TState.parse? row.2.1 = (effect k st).st ∧ row.2.2 = k.hard) ∧
    n ∈ Gen.C03.inactiveOn ∧ (effect k st).su = some .INACTIVE ∧ (effect k st).stop = false := by
  cases k <;> simp [Kind.mesos?] at h <;> subst h <;> cases st <;> decide

/-- `effect` for a lost executor / agent IS HandleExecutorFailed / HandleAgentFailed. -/
theorem C03_lost_effect_is_code (st : St) :
    TState.parse? Gen.C03.execState = (effect .EXEC st).st ∧ TState.parse? Gen.C03.execState = (effect .EXEC0 st).st ∧
    TState.parse? Gen.C03.agentState = (effect .AGENT st).st ∧ TState.parse? Gen.C03.agentState = (effect .AGENT0 st).st ∧
    Gen.C03.execInactive = true ∧ Gen.C03.agentInactive = true ∧
    (effect .EXEC st).su = some .INACTIVE ∧ (effect .EXEC0 st).su = some .INACTIVE ∧
    (effect .AGENT st).su = some .INACTIVE ∧ (effect .AGENT0 st).su = some .INACTIVE := by
  cases st <;> decide

/-- `effect` for TASK_INTERNAL_ERROR IS the branch of handleDeviceEvent: guarded by the
    environment's state being the literal "RUNNING", role told ERROR, STOP_ACTIVITY
    requested, the task's criticality never consulted. -/
theorem C03_internal_effect_is_code (st : St) :
    St.parse? Gen.C03.internalGuard = some .RUNNING ∧
    (effect .INTERNAL st).st = (if some st = St.parse? Gen.C03.internalGuard ∧ Gen.C03.internalUpdatesRole then some .ERROR else none) ∧
    (effect .INTERNAL st).stop = (decide (some st = St.parse? Gen.C03.internalGuard) && Gen.C03.internalStops) ∧
    (effect .INTERNAL st).su = none ∧ Gen.C03.internalLooksAtCritical = false := by
  cases st <;> decide

/-- `notify`, `updState`'s critical filter and `Watch` ARE the shapes found in
    parentadapter.go, taskrole.go and subscribeToWfState. -/
theorem C03_watcher_is_code :
    Gen.C03.notifyNonBlocking = true ∧ Gen.C03.forwardIffCritical = true ∧ Gen.C03.watcherOnError = true ∧
    Gen.C03.watcherOneShot = true ∧ Gen.C03.watcherLeavesOnDone = true ∧ Gen.C03.forcedError = true ∧
    Gen.C03.timerMs = 500 := by
  decide

/-! ## hypotheses -/

/-- Whatever holds the transition mutex is not RECOVER (the API cannot request it). -/
def NoRecover (s : Sys) : Prop := ∀ i, s.inflight = some i → i.ev ≠ .RECOVER

/-- A live environment: CONFIGURED or RUNNING, its watcher in its loop. -/
def Live (s : Sys) : Prop :=
  (s.env.st = .CONFIGURED ∨ s.env.st = .RUNNING) ∧ s.w = .parked ∧ NoRecover s

/-- Invariant after the ERROR notification was taken: the timer is pending or has irun. -/
def ErrInv (s : Sys) : Prop := (s.w = .armed ∨ s.env.st = .ERROR) ∧ NoRecover s

theorem step_inv (s : Sys) (l : Label) (h : ErrInv s) (he : enabled s l = true) : ErrInv (istep s l) := by
  obtain ⟨hw, hnr⟩ := h
  cases l with
  | arrive =>
    simp only [enabled] at he
    cases hi : s.inflight with
    | none => rw [hi] at he; cases he
    | some i =>
      cases hp : i.pending with
      | nil => rw [hi] at he; simp [hp] at he
      | cons pv rest =>
        simp only [istep, hi, hp]
        refine ⟨hw, ?_⟩
        intro j hj
        cases hj
        exact hnr i hi
  | apply k ready =>
    simp only [istep]
    cases hk : s.updq[k]? with
    | none => exact ⟨hw, hnr⟩
    | some pv =>
      obtain ⟨p, v⟩ := pv
      simp only
      obtain ⟨f1, f2, _, _, _, _⟩ := setLeaf_frame { s with updq := s.updq.eraseIdx k } p v ready
      refine ⟨?_, ?_⟩
      · rcases hw with hw | hw
        · left
          rw [setLeaf_w_not_parked _ _ _ _ (by simp [hw])]; exact hw
        · right; rw [f1]; exact hw
      · intro j hj
        rw [f2] at hj
        exact hnr j hj
  | finish =>
    simp only [enabled] at he
    cases hi : s.inflight with
    | none => rw [hi] at he; cases he
    | some i =>
      simp only [istep, hi]
      refine ⟨?_, ?_⟩
      · rcases hw with hw | hw
        · left; exact hw
        · right
          have hne := hnr i hi
          simp only
          split
          · exact control_from_error _ _ _ _ _ hw hne
          · rw [try_from_error _ _ _ _ _ hw hne]; exact hw
      · intro j hj; cases hj
  | devStop ok ready =>
    obtain ⟨e1, e2, _, _, e5, _⟩ := devStopStep_frame s ok ready
    simp only [istep]
    refine ⟨?_, ?_⟩
    · rcases hw with hw | hw
      · left; rw [e5 (by simp [hw])]; exact hw
      · right; rw [e1, try_from_error _ _ _ _ _ hw (by decide)]; exact hw
    · intro j hj; rw [e2] at hj; exact hnr j hj
  | timer =>
    obtain ⟨t1, _, t3, _⟩ := timerStep_spec s
    simp only [istep]
    exact ⟨Or.inr t1, fun j hj => by rw [t3] at hj; exact hnr j hj⟩

theorem run_inv (s : Sys) (ls : List Label) (h : ErrInv s) (hv : validRun s ls = true) : ErrInv (irun s ls) := by
  induction ls generalizing s with
  | nil => exact h
  | cons l ls ih =>
    simp only [validRun, Bool.and_eq_true] at hv
    exact ih (istep s l) (step_inv s l h hv.1) hv.2

theorem quiescent_inv_error (s : Sys) (h : ErrInv s) (hq : quiescent s = true) : s.env.st = .ERROR := by
  obtain ⟨hw, _⟩ := h
  simp only [quiescent, enabled, Bool.and_eq_true, Bool.not_eq_true'] at hq
  obtain ⟨⟨⟨⟨h1, _⟩, h2⟩, _⟩, h4⟩ := hq
  cases hi : s.inflight with
  | some i =>
    rw [hi] at h1 h2
    simp only at h1 h2
    cases hp : i.pending <;> simp [hp] at h1 h2
  | none =>
    rw [hi] at h4
    rcases hw with hw | hw
    · simp [hw] at h4
    · exact hw

theorem step_measure (s : Sys) (l : Label) (he : enabled s l = true) : budget (istep s l) < budget s := by
  cases l with
  | arrive =>
    simp only [enabled] at he
    cases hi : s.inflight with
    | none => rw [hi] at he; cases he
    | some i =>
      cases hp : i.pending with
      | nil => rw [hi] at he; simp [hp] at he
      | cons pv rest =>
        simp only [istep, hi, hp]
        unfold budget
        simp only [hi, hp, List.length_cons, List.length_append, List.length_nil]
        omega
  | apply k ready =>
    simp only [enabled, decide_eq_true_eq] at he
    simp only [istep]
    have hk : s.updq[k]? = some s.updq[k] := List.getElem?_eq_getElem he
    rw [hk]
    simp only
    obtain ⟨_, f2, f3, _, _, f6⟩ := setLeaf_frame { s with updq := s.updq.eraseIdx k } s.updq[k].1 s.updq[k].2 ready
    have hwle := setLeaf_weight_le { s with updq := s.updq.eraseIdx k } s.updq[k].1 s.updq[k].2 ready
    unfold budget
    rw [f2, f3, f6]
    simp only [List.length_eraseIdx, he, if_true]
    simp only at hwle
    omega
  | finish =>
    simp only [enabled] at he
    cases hi : s.inflight with
    | none => rw [hi] at he; cases he
    | some i =>
      simp only [istep, hi]
      unfold budget
      simp only [hi]
      omega
  | devStop ok ready =>
    simp only [enabled, Bool.and_eq_true, decide_eq_true_eq] at he
    obtain ⟨_, e2, e3, e4, _, e6⟩ := devStopStep_frame s ok ready
    simp only [istep]
    unfold budget
    rw [e2, e3, e6]
    have : s.inflight = none := by
      cases hi : s.inflight with
      | none => rfl
      | some i => rw [hi] at he; simp at he
    rw [this]
    simp only
    omega
  | timer =>
    simp only [enabled, Bool.and_eq_true, decide_eq_true_eq] at he
    obtain ⟨_, t2, t3, t4, t5⟩ := timerStep_spec s
    simp only [istep]
    unfold budget
    rw [t2, t3, t4, t5, he.2]
    have : s.inflight = none := by
      cases hi : s.inflight with
      | none => rfl
      | some i => rw [hi] at he; simp at he
    rw [this]
    simp [Watch.weight]

theorem run_length (s : Sys) (ls : List Label) (hv : validRun s ls = true) :
    ls.length + budget (irun s ls) ≤ budget s := by
  induction ls generalizing s with
  | nil => simp [irun]
  | cons l ls ih =>
    simp only [validRun, Bool.and_eq_true] at hv
    have h1 := step_measure s l hv.1
    have h2 := ih (istep s l) hv.2
    simp only [irun, List.foldl_cons, List.length_cons] at h2 ⊢
    omega

theorem not_quiescent_enabled (s : Sys) (h : quiescent s = false) : ∃ l, enabled s l = true := by
  simp only [quiescent] at h
  by_cases h0 : enabled s .arrive = true
  · exact ⟨_, h0⟩
  by_cases h1 : enabled s (.apply 0 true) = true
  · exact ⟨_, h1⟩
  by_cases h2 : enabled s .finish = true
  · exact ⟨_, h2⟩
  by_cases h3 : enabled s (.devStop true true) = true
  · exact ⟨_, h3⟩
  by_cases h4 : enabled s .timer = true
  · exact ⟨_, h4⟩
  simp_all

/-- From every state some run of enabled internal steps reaches quiescence. -/
theorem exists_maximal_run (n : Nat) (s : Sys) (hn : budget s ≤ n) :
    ∃ ls, validRun s ls = true ∧ quiescent (irun s ls) = true := by
  induction n generalizing s with
  | zero =>
    cases hq : quiescent s with
    | true => exact ⟨[], rfl, hq⟩
    | false =>
      obtain ⟨l, hl⟩ := not_quiescent_enabled s hq
      have := step_measure s l hl
      omega
  | succ n ih =>
    cases hq : quiescent s with
    | true => exact ⟨[], rfl, hq⟩
    | false =>
      obtain ⟨l, hl⟩ := not_quiescent_enabled s hq
      have hm := step_measure s l hl
      obtain ⟨ls, hv, hqq⟩ := ih (istep s l) (by omega)
      exact ⟨l :: ls, by simp [validRun, hl, hv], by simpa [irun] using hqq⟩

/-! ## the ERROR notification -/

theorem drives_effect (k : Kind) (st : St) (h : k.drives st = true) : (effect k st).st = some .ERROR := by
  simpa [Kind.drives] using h

/-- With the watcher at its receive, the failure of a critical task arms the watcher. -/
theorem failOne_arms (s : Sys) (k : Kind) (p : List Nat) (hw : s.w = .parked)
    (hcrit : critLeafAt s.f p = true) (hk : k.drives s.env.st = true) :
    (failOne k s p true).w = .armed := by
  unfold failOne
  simp only [drives_effect k _ hk, updState_crit_error s.f p hcrit]
  exact notify_error_ready _ hw

/-- …and the root of the role tree says ERROR (C11's fold: ERROR of a critical leaf dominates). -/
theorem C03_root_error (f : Forest) (p : List Nat) (hc : Consistent f) (hcrit : critLeafAt f p = true) :
    (updState f p .ERROR).2 = some .ERROR ∧ specState (updState f p .ERROR).1 = .ERROR := by
  have h1 := updState_crit_error f p hcrit
  refine ⟨h1, ?_⟩
  have hc' := upd_consistent f p .ERROR hc
  rw [← (consistent_spec _ hc').1]
  obtain ⟨a, o, _, h2⟩ := (upd_top f p .ERROR).2 .ERROR h1
  rw [h2, X_error_left]

/-! ## several tasks at once (executor / agent lost) -/

theorem fail_frame (k : Kind) (s : Sys) (vs : List (List Nat × Bool)) :
    (fail k s vs).env = s.env ∧ (fail k s vs).inflight = s.inflight ∧ (fail k s vs).hooks = s.hooks ∧
    (fail k s vs).stopReq ≤ s.stopReq + vs.length ∧ (fail k s vs).updq = s.updq := by
  induction vs generalizing s with
  | nil => exact ⟨rfl, rfl, rfl, Nat.le_refl _, rfl⟩
  | cons v vs ih =>
    obtain ⟨q, r⟩ := v
    simp only [fail]
    obtain ⟨a1, a2, a3, a4, a5⟩ := ih (failOne k s q r)
    obtain ⟨b1, b2, b3, b4, b5⟩ := failOne_frame k s q r
    refine ⟨a1.trans b1, a2.trans b2, a3.trans b3, ?_, a5.trans b5⟩
    rw [b4] at a4
    simp only [List.length_cons]
    split at a4 <;> omega

/-- One failure hitting any number of tasks arms the watcher as soon as ONE of them is
    critical and its notification finds the watcher at its receive — whatever happens to
    the notifications of the others (dropped, or sent after the watcher has left its loop). -/
theorem fail_arms (k : Kind) (s : Sys) (vs : List (List Nat × Bool))
    (hw : s.w = .parked ∨ s.w = .armed) (hk : k.drives s.env.st = true)
    (h : s.w = .armed ∨ ∃ p, (p, true) ∈ vs ∧ critLeafAt s.f p = true) :
    (fail k s vs).w = .armed := by
  induction vs generalizing s with
  | nil =>
    rcases h with h | ⟨p, hp, _⟩
    · exact h
    · cases hp
  | cons v vs ih =>
    obtain ⟨q, r⟩ := v
    simp only [fail]
    have henv : (failOne k s q r).env = s.env := (failOne_frame k s q r).1
    have hk' : k.drives (failOne k s q r).env.st = true := by rw [henv]; exact hk
    obtain ⟨w1, w2⟩ := failOne_w k s q r hk
    rcases hw with hw | hw
    · -- parked
      rcases h with h | ⟨p, hp, hc⟩
      · rw [hw] at h; cases h
      · rcases List.mem_cons.mp hp with heq | hin
        · cases heq
          exact ih _ (Or.inr (failOne_arms s k _ hw hc hk)) hk' (Or.inl (failOne_arms s k _ hw hc hk))
        · refine ih _ ?_ hk' (Or.inr ⟨p, hin, by rw [failOne_critLeafAt]; exact hc⟩)
          exact w2 hw
    · -- armed already
      have : (failOne k s q r).w = .armed := by rw [w1 (by simp [hw])]; exact hw
      exact ih _ (Or.inr this) hk' (Or.inl this)

/-! ## C03: critical ⇒ ERROR -/

/-- FULL-STRENGTH statement (kept visible; FALSE of the code, see the `C03_finding_*`
    theorems): whatever the kind of failure and wherever the watcher goroutine is, once a
    critical task of a live environment has failed (alone or with the other tasks of its
    executor / agent) and nothing more can happen, the environment is in ERROR. -/
def C03_critical_to_error_full : Prop :=
  ∀ (s : Sys) (k : Kind) (vs : List (List Nat × Bool)) (ls : List Label),
    Live s → (∃ p r, (p, r) ∈ vs ∧ critLeafAt s.f p = true) →
    validRun (fail k s vs) ls = true → quiescent (irun (fail k s vs) ls) = true →
    (irun (fail k s vs) ls).env.st = .ERROR

/-- What IS proved — for every role tree, every live state, every set of tasks dying
    together of which at least one is critical, every kind of failure that the code turns
    into task state ERROR at that instant (`Kind.drives`: TASK_FAILED/LOST/KILLED/ERROR,
    executor lost, agent lost; an announced internal error only while RUNNING), idle or with
    any transition in flight, every hook set, every order of the enabled internal steps and
    every outcome of the in-flight / queued transitions — PROVIDED the watcher is at its
    receive when the root notifies for (one of) the critical victim(s) (`(p, true) ∈ vs`):
      (1) the watcher is armed and at most `budget` (≤ budget before + number of victims;
          budget = 2 × replies still to arrive + 1 if a transition is in flight + queued task-state
          updates + queued STOP requests + 2/1/0 for the watcher) internal steps can follow,
      (2) when none is enabled any more the environment is in ERROR,
      (3) such a run exists (so (2) is not vacuous).
    `C03_error_stable` adds that ERROR is then kept. -/
theorem C03_critical_to_error_partial (s : Sys) (k : Kind) (vs : List (List Nat × Bool))
    (hlive : Live s) (hk : k.drives s.env.st = true)
    (hcrit : ∃ p, (p, true) ∈ vs ∧ critLeafAt s.f p = true) :
    let s1 := fail k s vs
    s1.w = .armed ∧ budget s1 ≤ budget s + vs.length ∧
    (∀ ls, validRun s1 ls = true → ls.length ≤ budget s1 ∧
      (quiescent (irun s1 ls) = true → (irun s1 ls).env.st = .ERROR)) ∧
    (∃ ls, validRun s1 ls = true ∧ quiescent (irun s1 ls) = true) := by
  obtain ⟨_, hw, hnr⟩ := hlive
  have harm := fail_arms k s vs (Or.inl hw) hk (Or.inr hcrit)
  obtain ⟨_, fi, _, fs, fu⟩ := fail_frame k s vs
  have hinv : ErrInv (fail k s vs) := ⟨Or.inl harm, fun i hi => by rw [fi] at hi; exact hnr i hi⟩
  refine ⟨harm, ?_, ?_, exists_maximal_run _ _ (Nat.le_refl _)⟩
  · unfold budget
    rw [fi, fu, harm, hw]
    simp only [Watch.weight]
    split <;> omega
  · intro ls hv
    refine ⟨?_, fun hq => quiescent_inv_error _ (run_inv _ ls hinv hv) hq⟩
    have := run_length _ ls hv
    omega

/-- The single-victim reading. -/
theorem C03_critical_to_error (s : Sys) (k : Kind) (p : List Nat) (ls : List Label)
    (hlive : Live s) (hcrit : critLeafAt s.f p = true) (hk : k.drives s.env.st = true)
    (hv : validRun (failOne k s p true) ls = true) (hq : quiescent (irun (failOne k s p true) ls) = true) :
    (irun (failOne k s p true) ls).env.st = .ERROR ∧ ls.length ≤ budget s + 1 := by
  obtain ⟨_, hb, h, _⟩ := C03_critical_to_error_partial s k [(p, true)] hlive hk ⟨p, List.mem_singleton.mpr rfl, hcrit⟩
  simp only [fail, List.length_singleton] at hb h
  obtain ⟨h1, h2⟩ := h ls hv
  exact ⟨h2 hq, by omega⟩

/-- ERROR is absorbing for the internal steps (nothing in flight is RECOVER). -/
theorem C03_error_stable (s : Sys) (ls : List Label) (he : s.env.st = .ERROR) (hnr : NoRecover s)
    (hv : validRun s ls = true) : (irun s ls).env.st = .ERROR := by
  have hinv : ErrInv s := ⟨Or.inr he, hnr⟩
  induction ls generalizing s with
  | nil => exact he
  | cons l ls ih =>
    simp only [validRun, Bool.and_eq_true] at hv
    have h1 := step_inv s l hinv hv.1
    have hst : (istep s l).env.st = .ERROR := by
      cases l with
      | arrive =>
        cases hi : s.inflight with
        | none => simp [istep, hi, he]
        | some i =>
          cases hp : i.pending with
          | nil => simp [istep, hi, hp, he]
          | cons pv rest => simp [istep, hi, hp, he]
      | apply k ready =>
        simp only [istep]
        cases hk : s.updq[k]? with
        | none => exact he
        | some pv =>
          simp only
          rw [(setLeaf_frame _ _ _ _).1]; exact he
      | finish =>
        cases hi : s.inflight with
        | none => simp [istep, hi, he]
        | some i =>
          simp only [istep, hi]
          split
          · exact control_from_error _ _ _ _ _ he (hnr i hi)
          · rw [try_from_error _ _ _ _ _ he (hnr i hi)]; exact he
      | devStop ok ready =>
        simp only [istep]
        rw [(devStopStep_frame s ok ready).1, try_from_error _ _ _ _ _ he (by decide)]; exact he
      | timer => exact (timerStep_spec s).1
    simpa [irun] using ih (istep s l) hst h1.2 hv.2 ⟨Or.inr hst, h1.2⟩

/-! ## C03: non-critical ⇒ nothing -/

/-- FULL-STRENGTH statement (FALSE of the code, see
    `C03_finding_internal_error_noncritical_stops_run`): the failure of a non-critical task
    of a quiet live environment never changes the environment's state. -/
def C03_noncritical_inert_full : Prop :=
  ∀ (s : Sys) (k : Kind) (p : List Nat) (ready : Bool) (ls : List Label),
    Live s → quiescent s = true → plainLeafAt s.f p = true →
    validRun (failOne k s p ready) ls = true → (irun (failOne k s p ready) ls).env.st = s.env.st

/-- What IS proved: for every kind that does not queue a STOP (`Kind.quiet`: all of them
    except TASK_INTERNAL_ERROR while RUNNING) the failure of a non-critical task changes
    NOTHING outside that task's own role: environment, watcher, mutex holder, queued
    requests are untouched, no notification is sent, the fold of the critical leaves
    (what C11 proves every aggregator reports) is unchanged, exactly the same internal
    steps are enabled as before, and an idle environment stays idle — its state can never
    change as a consequence. Any schedule, any watcher position. -/
theorem C03_noncritical_inert_partial (s : Sys) (k : Kind) (p : List Nat) (ready : Bool)
    (hplain : plainLeafAt s.f p = true) (hq : k.quiet s.env.st = true) :
    let s1 := failOne k s p ready
    s1.env = s.env ∧ s1.w = s.w ∧ s1.inflight = s.inflight ∧ s1.stopReq = s.stopReq ∧ s1.dropped = s.dropped ∧
    S s1.f = S s.f ∧
    (∀ l, enabled s1 l = enabled s l) ∧
    (quiescent s = true → ∀ ls, validRun s1 ls = true → ls = [] ∧ (irun s1 ls).env.st = s.env.st) := by
  have hstop : (effect k s.env.st).stop = false := by simpa [Kind.quiet] using hq
  obtain ⟨fe, fi, _, fs, fu⟩ := failOne_frame k s p ready
  rw [hstop] at fs
  simp only [Bool.false_eq_true, if_false, Nat.add_zero] at fs
  have hnone : ∀ st, (updState s.f p st).2 = none := fun st => updState_plain_none s.f p st hplain
  have hwd : (failOne k s p ready).w = s.w ∧ (failOne k s p ready).dropped = s.dropped ∧ S (failOne k s p ready).f = S s.f := by
    unfold failOne
    simp only
    cases hst : (effect k s.env.st).st with
    | none =>
      simp only [notify_none]
      cases hsu : (effect k s.env.st).su with
      | none => exact ⟨by first | rfl | trivial, by first | rfl | trivial, by first | rfl | trivial⟩
      | some su => exact ⟨by first | rfl | trivial, by first | rfl | trivial, updStatus_S _ _ _⟩
    | some st =>
      simp only [hnone st, notify_none]
      have hS : S (updState s.f p st).1 = S s.f := (upd_top s.f p st).1 (hnone st)
      cases hsu : (effect k s.env.st).su with
      | none => exact ⟨by first | rfl | trivial, by first | rfl | trivial, hS⟩
      | some su => exact ⟨by first | rfl | trivial, by first | rfl | trivial, by rw [updStatus_S]; exact hS⟩
  have hen : ∀ l, enabled (failOne k s p ready) l = enabled s l := by
    intro l
    cases l <;> simp only [enabled, fi, fs, fu, hwd.1]
  refine ⟨fe, hwd.1, fi, fs, hwd.2.1, hwd.2.2, hen, ?_⟩
  intro hqs ls hv
  cases ls with
  | nil => exact ⟨rfl, by simp [irun, fe]⟩
  | cons l ls =>
    simp only [validRun, Bool.and_eq_true] at hv
    have h1 := hv.1
    rw [hen l] at h1
    simp only [quiescent, Bool.and_eq_true, Bool.not_eq_true'] at hqs
    obtain ⟨⟨⟨q1, q2⟩, q3⟩, q4⟩ := hqs
    cases l <;> simp_all [enabled]

/-! ## C03: the end of the irun is recorded -/

/-- When the watcher's timer runs on a RUNNING environment whose end-of-irun stamps are
    still open (as START_ACTIVITY leaves them) and no critical hook can veto GO_ERROR,
    both stamps are set and both irun events (GO_ERROR STARTED at run_end_time_ms,
    GO_ERROR DONE_OK at run_end_completion_time_ms) are emitted, carrying the irun number. -/
theorem C03_run_end_recorded (s : Sys) (hst : s.env.st = .RUNNING)
    (hh : s.hooks = []) (hp : s.env.pending = [])
    (h1 : s.env.vars.soeor = .empty) (h2 : s.env.vars.eoeor = .empty) :
    let s1 := timerStep s
    s1.env.st = .ERROR ∧
    s1.env.vars.soeor = .val (s.env.clock + 1) ∧ s1.env.vars.eoeor = .val (s.env.clock + 2) ∧
    Step.runEvent "GO_ERROR" .started s.env.rn (s.env.clock + 1) ∈ s1.log ∧
    Step.runEvent "GO_ERROR" .doneOk s.env.rn (s.env.clock + 2) ∈ s1.log := by
  unfold timerStep
  simp only
  rw [(setLeaves_frame _ _ _ _).1, (setLeaves_frame _ _ _ _).2.2.2.2.1]
  simp only [hh]
  have key : ∀ env : Env, env.st = .RUNNING → env.pending = [] → env.vars.soeor = .empty → env.vars.eoeor = .empty →
      let g := tryTransition env [] .GO_ERROR true false
      g.2.2 = .ok ∧ g.1.st = .ERROR ∧ g.1.vars.soeor = .val (env.clock + 1) ∧ g.1.vars.eoeor = .val (env.clock + 2) ∧
      Step.runEvent "GO_ERROR" .started env.rn (env.clock + 1) ∈ g.2.1 ∧
      Step.runEvent "GO_ERROR" .doneOk env.rn (env.clock + 2) ∈ g.2.1 := by
    intro env e1 e2 e3 e4
    simp [tryTransition, fsmEvent, e1, dst?, beforeEvent, handleHooks, weightsFor, e2, sortDedup, handleWeights,
      bkBefore, setSoeorIfEmpty, e3, TV.isEmpty, tick, leaveState, enterState, afterEvent, bkAfter, setEoeorIfEmpty, e4,
      finAfter, Ev.name]
  obtain ⟨k1, k2, k3, k4, k5, k6⟩ := key s.env hst hp h1 h2
  simp only [k1, Result.isOk, if_true]
  exact ⟨k2, k3, k4, List.mem_append_right _ k5, List.mem_append_right _ k6⟩

/-! ## the findings, machine-checked on the model -/

/-- One critical task, environment RUNNING after a START_ACTIVITY (stamps open). -/
def wRunning : Sys :=
  { f := .agg .RUNNING .ACTIVE (.leaf false true .RUNNING .ACTIVE (.leaf false false .RUNNING .ACTIVE .nil)) .nil,
    env := { st := .RUNNING, rn := 1, counter := 1, clock := 1,
             vars := { rnVar := some 1, sosor := .val 1, eosor := .val 1, soeor := .empty, eoeor := .empty } } }

def wConfigured : Sys :=
  { f := .agg .CONFIGURED .ACTIVE (.leaf false true .CONFIGURED .ACTIVE (.leaf false false .CONFIGURED .ACTIVE .nil)) .nil,
    env := { st := .CONFIGURED } }

theorem wRunning_live : Live wRunning := ⟨Or.inr rfl, rfl, fun i hi => by cases hi⟩
theorem wConfigured_live : Live wConfigured := ⟨Or.inl rfl, rfl, fun i hi => by cases hi⟩

/-- NEGATIVE lemma (the lossy notification): with the watcher away from its receive at
    the instant the root notifies, the ERROR is dropped; nothing is enabled afterwards
    and the environment keeps reporting RUNNING with its critical task dead, the root
    role saying ERROR. -/
theorem C03_finding_notify_dropped : ¬ C03_critical_to_error_full := by
  intro h
  have := h wRunning .FAILED [([0, 0], false)] [] wRunning_live ⟨[0, 0], false, by decide, by decide⟩ (by decide) (by decide)
  revert this; decide

/-- What exactly that schedule leaves behind. -/
theorem C03_notify_dropped_witness :
    let s1 := failOne .FAILED wRunning [0, 0] false
    quiescent s1 = true ∧ s1.env.st = .RUNNING ∧ rootState s1.f = .ERROR ∧ s1.dropped = 1 ∧ s1.w = .parked := by
  decide

/-- A critical task whose process ends with exit status 0 (TASK_FINISHED) becomes DONE,
    not ERROR: the environment stays RUNNING. -/
theorem C03_finding_finished_not_error : ¬ C03_critical_to_error_full := by
  intro h
  have := h wRunning .FINISHED [([0, 0], true)] [] wRunning_live ⟨[0, 0], true, by decide, by decide⟩ (by decide) (by decide)
  revert this; decide

/-- TASK_INTERNAL_ERROR of a critical task while the environment is CONFIGURED is ignored. -/
theorem C03_finding_internal_error_ignored_unless_running : ¬ C03_critical_to_error_full := by
  intro h
  have := h wConfigured .INTERNAL [([0, 0], true)] [] wConfigured_live ⟨[0, 0], true, by decide, by decide⟩ (by decide) (by decide)
  revert this; decide

/-- TASK_INTERNAL_ERROR of a NON-critical task while RUNNING stops the irun
    (STOP_ACTIVITY is requested whatever the task's criticality). -/
theorem C03_finding_internal_error_noncritical_stops_run : ¬ C03_noncritical_inert_full := by
  intro h
  have := h wRunning .INTERNAL [0, 1] true [.devStop true true] wRunning_live (by decide) (by decide) (by decide)
  revert this; decide

/-- Non-vacuity of the partial theorems on a realistic system: a critical task FAILS while
    STOP_ACTIVITY is in flight with one reply outstanding; the wall-clock schedule
    (`settle`) ends in ERROR with both stamps set. -/
example :
    let s : Sys := { wRunning with inflight := some { ev := .STOP_ACTIVITY, api := true, pending := [([0, 1], .CONFIGURED)], ok := true } }
    let s1 := settle 10 (failOne .FAILED s [0, 0] true)
    Live s ∧ critLeafAt s.f [0, 0] = true ∧ Kind.FAILED.drives s.env.st = true ∧
    quiescent s1 = true ∧ s1.env.st = .ERROR ∧ s1.env.vars.soeor ≠ .empty ∧ s1.env.vars.eoeor ≠ .empty := by
  refine ⟨⟨Or.inr rfl, rfl, fun i hi => by cases hi; decide⟩, ?_⟩
  decide
