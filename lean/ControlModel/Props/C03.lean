/-
  Props/C03 — "Failure of a critical task drives a live environment to ERROR".

  Property theorems only; lemmas live in Proofs/Failure.lean (and Proofs/RoleTree.lean,
  Proofs/Env.lean, which are C11's and C01's).

  The system is `Failure.Sys` (role tree + environment machine + watcher + whatever holds
  the transition mutex); inputs are `failOne`/`fail` (one failure of some `Kind`), internal
  steps are `Label`s. "Within bounded time" is stated as: every run of enabled internal
  steps is at most `budget` long, and when nothing is enabled any more the environment is
  in ERROR (fairness = enabled internal steps are eventually taken; wall-clock time is not
  modelled).

  Configurations (`Failure.Cfg`): `codeCfg` — the code as it is, with "fix: the workflow state
  watcher cannot miss an ERROR" (channel with a buffer of one, root state re-read after every
  receive) and the two repairs of handleDeviceEvent's TASK_INTERNAL_ERROR case (the role is told
  ERROR in every environment state; STOP_ACTIVITY is requested only for a critical task) —,
  `deviceLegacyCfg`, the code before those two (findings internal_error_ignored_unless_running,
  internal_error_noncritical_stops_run), and `legacyCfg`, the code before all of them (finding
  notify_dropped). `C03_watcher_is_code` and `C03_internal_effect_is_code` tie `codeCfg` to the
  source: they break when a repair is reverted.
-/
import ControlModel.Gen.FailureFacts
import ControlModel.Proofs.Failure
import ControlModel.Proofs.FailureRoster

open RoleTree EnvM Failure

/-! ## the model is about the code as it is now (go/ast facts regenerated on every run) -/

def Failure.Kind.mesos? : Kind → Option String
  | .FAILED | .RFAILED => some "TASK_FAILED" | .LOST | .RLOST | .RAGENT => some "TASK_LOST"
  | .KILLED | .RKILLED => some "TASK_KILLED" | .TERROR | .RTERROR => some "TASK_ERROR"
  | .FINISHED | .RFINISHED => some "TASK_FINISHED" | _ => none

/-- `effect` for a terminal Mesos status IS the case table of task.Manager.handleMessage
    (state literal) and updateTaskStatus (INACTIVE); the ERROR rows are the ones guarded by
    `t.IsLocked()` (an owned task — every task of a live environment). Whatever the
    configuration, the environment's state and the task's criticality. -/
theorem C03_status_effect_is_code (c : Cfg) (k : Kind) (n : String) (st : St) (crit : Bool) (h : k.mesos? = some n) :
    (∃ row ∈ Gen.C03.statusState, row.1 = n ∧ TState.parse? row.2.1 = (effect c k st crit).st ∧ row.2.2 = k.hard) ∧
    n ∈ Gen.C03.inactiveOn ∧ (effect c k st crit).su = some .INACTIVE ∧ (effect c k st crit).stop = false := by
  cases k <;> simp [Kind.mesos?] at h <;> subst h <;> rw [effect_cfg_blind c _ st crit (by decide)] <;> cases st <;> decide

/-- A terminal state learnt ONLY through the master's reconciliation answer after a
    re-subscription (the task died while the core was cut off) has the effect of the same
    state delivered directly — because that IS the shape of handleMessage(TaskStatusMessage):
    the `switch mesosState` is reached by every status update (straight-line code before it)
    and no condition on the way to `updateTaskState` mentions the update's reason; and
    `updateTaskStatus` (INACTIVE) is reached by every update about a task that is in the
    roster (only the KILL of tasks NOT in the roster looks at the reason). Moving the
    handling of reconciliation updates into a branch of its own makes this theorem false. -/
theorem C03_reconciled_effect_is_code (c : Cfg) (k : Kind) (st : St) (crit : Bool) (h : k.viaReconciliation = true) :
    Gen.C03.statusStateReasonBlind = true ∧ Gen.C03.statusUpdateReachesRosterTasks = true ∧
    k.direct.viaReconciliation = false ∧ k.mesos?.isSome = true ∧ k.mesos? = k.direct.mesos? ∧
    effect c k st crit = effect c k.direct st crit ∧ k.hard = k.direct.hard := by
  cases k <;> simp [Kind.viaReconciliation] at h <;>
    rw [effect_cfg_blind c _ st crit (by decide), effect_cfg_blind c _ st crit (by decide)] <;> cases st <;> decide

/-- `effect` for a lost executor / agent IS HandleExecutorFailed / HandleAgentFailed. -/
theorem C03_lost_effect_is_code (c : Cfg) (st : St) (crit : Bool) :
    TState.parse? Gen.C03.execState = (effect c .EXEC st crit).st ∧ TState.parse? Gen.C03.execState = (effect c .EXEC0 st crit).st ∧
    TState.parse? Gen.C03.agentState = (effect c .AGENT st crit).st ∧ TState.parse? Gen.C03.agentState = (effect c .AGENT0 st crit).st ∧
    Gen.C03.execInactive = true ∧ Gen.C03.agentInactive = true ∧
    (effect c .EXEC st crit).su = some .INACTIVE ∧ (effect c .EXEC0 st crit).su = some .INACTIVE ∧
    (effect c .AGENT st crit).su = some .INACTIVE ∧ (effect c .AGENT0 st crit).su = some .INACTIVE := by
  rw [effect_cfg_blind c .EXEC st crit (by decide), effect_cfg_blind c .EXEC0 st crit (by decide),
    effect_cfg_blind c .AGENT st crit (by decide), effect_cfg_blind c .AGENT0 st crit (by decide)]
  cases st <;> decide

/-- `effect codeCfg` for TASK_INTERNAL_ERROR IS the case of handleDeviceEvent, read off the
    GUARD STACKS go/ast finds for its two calls (conditions of the enclosing `if`s and negated
    conditions of earlier `if C { …; return }` statements): the role update
    `<parent>.UpdateState(sm.ERROR)` — exactly one, under no test of the environment's state and
    no test of the task's criticality (nil tests only) —, and the STOP request
    `env.TryTransition(NewStopActivityTransition(…))` — exactly one, under the test of the
    environment's state against the literal "RUNNING" AND under a positive test of the task's
    criticality, nothing else —, both in one goroutine, the role update first; the status is not
    touched. For every state of the environment and either criticality.
    Reverting "fix: TASK_INTERNAL_ERROR of a non-critical task does not stop the run" makes
    `internalStopNeedsCritical` false, reverting "fix: a task's TASK_INTERNAL_ERROR reaches its role
    in every environment state" makes `internalRoleNeedsRunning` true: either way this theorem
    is false. -/
theorem C03_internal_effect_is_code (st : St) (crit : Bool) :
    St.parse? Gen.C03.internalGuard = some .RUNNING ∧
    (effect codeCfg .INTERNAL st crit).st =
      (if Gen.C03.internalUpdatesRole ∧ (Gen.C03.internalRoleNeedsRunning = false ∨ some st = St.parse? Gen.C03.internalGuard) ∧
          (Gen.C03.internalRoleNeedsCritical = false ∨ crit = true) then some .ERROR else none) ∧
    (effect codeCfg .INTERNAL st crit).stop =
      (Gen.C03.internalStops && (!Gen.C03.internalStopNeedsRunning || decide (some st = St.parse? Gen.C03.internalGuard)) &&
        (!Gen.C03.internalStopNeedsCritical || crit)) ∧
    (effect codeCfg .INTERNAL st crit).su = none ∧
    Gen.C03.internalRoleOther = false ∧ Gen.C03.internalStopOther = false ∧ Gen.C03.internalRoleBeforeStop = true ∧
    Gen.C03.internalRoleNeedsRunning = !codeCfg.roleAlways ∧ Gen.C03.internalStopNeedsCritical = codeCfg.stopAsksCritical := by
  cases st <;> cases crit <;> decide

/-- `notify`, `updState`'s critical filter, `Watch` and `codeCfg` ARE the shapes found in
    parentadapter.go, taskrole.go and subscribeToWfState: non-blocking send, critical-only
    forwarding, one-shot watcher, 500 ms, forced ERROR — and the watcher's channel has a
    buffer of exactly one value and the root's state is re-read after a receive, before the
    value is acted upon (`codeCfg`; reverting the repair makes this theorem false). -/
theorem C03_watcher_is_code :
    Gen.C03.notifyNonBlocking = true ∧ Gen.C03.forwardIffCritical = true ∧ Gen.C03.watcherOnError = true ∧
    Gen.C03.watcherOneShot = true ∧ Gen.C03.watcherLeavesOnDone = true ∧ Gen.C03.forcedError = true ∧
    Gen.C03.timerMs = 500 ∧
    Gen.C03.notifyChanCap = (if codeCfg.buffered then 1 else 0) ∧ Gen.C03.watcherRereadsRoot = codeCfg.reread := by
  decide

/-! ## hypotheses -/

/-- Whatever holds the transition mutex is not RECOVER (the API cannot request it). -/
def NoRecover (s : Sys) : Prop := ∀ i, s.inflight = some i → i.ev ≠ .RECOVER

/-- A live environment: CONFIGURED or RUNNING, its watcher in its loop (whatever is waiting
    in the watcher's channel). -/
def Live (s : Sys) : Prop :=
  (s.env.st = .CONFIGURED ∨ s.env.st = .RUNNING) ∧ s.w = .parked ∧ NoRecover s

/-- Invariant after the ERROR notification was taken: the timer is pending or has run. -/
def ErrInv (s : Sys) : Prop := (s.w = .armed ∨ s.env.st = .ERROR) ∧ NoRecover s

theorem step_norecover (c : Cfg) (s : Sys) (l : Label) (hnr : NoRecover s) : NoRecover (istep c s l) := by
  cases l with
  | arrive =>
    cases hi : s.inflight with
    | none => simp only [istep, hi]; exact hnr
    | some i =>
      cases hp : i.pending with
      | nil => simp only [istep, hi, hp]; exact hnr
      | cons pv rest =>
        simp only [istep, hi, hp]
        intro j hj
        cases hj
        exact hnr i hi
  | apply k ready =>
    simp only [istep]
    cases hk : s.updq[k]? with
    | none => exact hnr
    | some pv =>
      obtain ⟨p, v⟩ := pv
      simp only
      intro j hj
      rw [(setLeaf_frame c { s with updq := s.updq.eraseIdx k } p v ready).2.1] at hj
      exact hnr j hj
  | finish =>
    cases hi : s.inflight with
    | none => simp only [istep, hi]; exact hnr
    | some i => simp only [istep, hi]; intro j hj; cases hj
  | devStop ok ready =>
    simp only [istep]
    intro j hj; rw [(devStopStep_frame c s ok ready).2.1] at hj; exact hnr j hj
  | timer =>
    simp only [istep]
    intro j hj; rw [(timerStep_spec c s).2.2.1] at hj; exact hnr j hj
  | take =>
    simp only [istep]
    split
    · exact hnr
    · exact hnr
  | look =>
    simp only [istep]
    split
    · intro j hj; rw [(react_frame c s _).2.2.1] at hj; exact hnr j hj
    · exact hnr
  | subscribe =>
    simp only [istep]
    split
    · unfold subscribeStep; split <;> exact hnr
    · exact hnr

theorem step_inv (c : Cfg) (s : Sys) (l : Label) (h : ErrInv s) (he : enabled s l = true) : ErrInv (istep c s l) := by
  obtain ⟨hw, hnr⟩ := h
  refine ⟨?_, step_norecover c s l hnr⟩
  cases l with
  | arrive =>
    simp only [enabled] at he
    cases hi : s.inflight with
    | none => rw [hi] at he; cases he
    | some i =>
      cases hp : i.pending with
      | nil => rw [hi] at he; simp [hp] at he
      | cons pv rest =>
        simp only [istep, hi, hp]
        exact hw
  | apply k ready =>
    simp only [istep]
    cases hk : s.updq[k]? with
    | none => exact hw
    | some pv =>
      obtain ⟨p, v⟩ := pv
      simp only
      obtain ⟨f1, _, _, _, _, _⟩ := setLeaf_frame c { s with updq := s.updq.eraseIdx k } p v ready
      rcases hw with hw | hw
      · left
        rw [setLeaf_w_not_parked _ _ _ _ _ (by simp [hw])]; exact hw
      · right; rw [f1]; exact hw
  | finish =>
    simp only [enabled] at he
    cases hi : s.inflight with
    | none => rw [hi] at he; cases he
    | some i =>
      simp only [istep, hi]
      rcases hw with hw | hw
      · left; exact hw
      · right
        have hne := hnr i hi
        split
        · exact control_from_error _ _ _ _ _ hw hne
        · rw [try_from_error _ _ _ _ _ hw hne]; exact hw
  | devStop ok ready =>
    obtain ⟨e1, _, _, _, e5, _⟩ := devStopStep_frame c s ok ready
    simp only [istep]
    rcases hw with hw | hw
    · left; rw [e5 (by simp [hw])]; exact hw
    · right; rw [e1, try_from_error _ _ _ _ _ hw (by decide)]; exact hw
  | timer =>
    simp only [istep]
    exact Or.inr (timerStep_spec c s).1
  | take =>
    rcases hw with hw | hw
    · simp [enabled, hw] at he
    · right
      simp only [istep]
      split
      · exact hw
      · exact hw
  | look =>
    rcases hw with hw | hw
    · simp [enabled, hw] at he
    · right
      simp only [istep]
      split
      · rw [(react_frame c s _).1]; exact hw
      · exact hw
  | subscribe =>
    rcases hw with hw | hw
    · simp [enabled, hw] at he
    · right
      simp only [istep]
      split
      · unfold subscribeStep; split <;> exact hw
      · exact hw

theorem run_inv (c : Cfg) (s : Sys) (ls : List Label) (h : ErrInv s) (hv : validRun c s ls = true) :
    ErrInv (irun c s ls) := by
  induction ls generalizing s with
  | nil => exact h
  | cons l ls ih =>
    simp only [validRun, Bool.and_eq_true] at hv
    exact ih (istep c s l) (step_inv c s l h hv.1) hv.2

/-- Nothing enabled, nothing in flight. -/
theorem quiescent_idle (s : Sys) (hq : quiescent s = true) : s.inflight = none := by
  simp only [quiescent, enabled, Bool.and_eq_true, Bool.not_eq_true'] at hq
  obtain ⟨⟨⟨⟨⟨⟨⟨h1, _⟩, h2⟩, _⟩, _⟩, _⟩, _⟩, _⟩ := hq
  cases hi : s.inflight with
  | some i =>
    rw [hi] at h1 h2
    simp only at h1 h2
    cases hp : i.pending <;> simp [hp] at h1 h2
  | none => rfl

theorem quiescent_inv_error (s : Sys) (h : ErrInv s) (hq : quiescent s = true) : s.env.st = .ERROR := by
  obtain ⟨hw, _⟩ := h
  have hi := quiescent_idle s hq
  simp only [quiescent, enabled, Bool.and_eq_true, Bool.not_eq_true'] at hq
  obtain ⟨⟨⟨⟨_, h4⟩, _⟩, _⟩, _⟩ := hq
  rw [hi] at h4
  rcases hw with hw | hw
  · simp [hw] at h4
  · exact hw

theorem chanWeight_le (s : Sys) : chanWeight s ≤ 2 := by
  unfold chanWeight; split <;> omega

theorem step_measure (c : Cfg) (s : Sys) (l : Label) (he : enabled s l = true) : budget (istep c s l) < budget s := by
  cases l with
  | arrive =>
    simp only [enabled] at he
    cases hi : s.inflight with
    | none => rw [hi] at he; cases he
    | some i =>
      cases hp : i.pending with
      | nil => rw [hi] at he; simp [hp] at he
      | cons pv rest =>
        simp only [istep, hi, hp]
        unfold budget chanWeight
        simp only [hi, hp, List.length_cons, List.length_append, List.length_nil]
        omega
  | apply k ready =>
    simp only [enabled, decide_eq_true_eq] at he
    simp only [istep]
    have hk : s.updq[k]? = some s.updq[k] := List.getElem?_eq_getElem he
    rw [hk]
    simp only
    obtain ⟨_, f2, f3, _, _, f6⟩ := setLeaf_frame c { s with updq := s.updq.eraseIdx k } s.updq[k].1 s.updq[k].2 ready
    have hwle := setLeaf_weight_le c { s with updq := s.updq.eraseIdx k } s.updq[k].1 s.updq[k].2 ready
    have hc := chanWeight_le (setLeaf c { s with updq := s.updq.eraseIdx k } s.updq[k].1 s.updq[k].2 ready)
    unfold budget
    rw [f2, f3, f6]
    simp only [List.length_eraseIdx, he, if_true]
    simp only at hwle
    omega
  | finish =>
    simp only [enabled] at he
    cases hi : s.inflight with
    | none => rw [hi] at he; cases he
    | some i =>
      simp only [istep, hi]
      unfold budget chanWeight
      simp only [hi]
      omega
  | devStop ok ready =>
    simp only [enabled, Bool.and_eq_true, decide_eq_true_eq] at he
    obtain ⟨_, e2, e3, e4, _, e6⟩ := devStopStep_frame c s ok ready
    have hc := chanWeight_le (devStopStep c s ok ready)
    simp only [istep]
    unfold budget
    rw [e2, e3, e6]
    have : s.inflight = none := by
      cases hi : s.inflight with
      | none => rfl
      | some i => rw [hi] at he; simp at he
    rw [this]
    simp only
    omega
  | timer =>
    simp only [enabled, Bool.and_eq_true, decide_eq_true_eq] at he
    obtain ⟨_, t2, t3, t4, t5, t6⟩ := timerStep_spec c s
    simp only [istep]
    unfold budget chanWeight
    rw [t2, t3, t4, t5, t6, he.2]
    have : s.inflight = none := by
      cases hi : s.inflight with
      | none => rfl
      | some i => rw [hi] at he; simp at he
    rw [this]
    simp [Watch.weight]
  | take =>
    simp only [enabled, Bool.and_eq_true, decide_eq_true_eq] at he
    obtain ⟨hw, hc⟩ := he
    cases hch : s.chan with
    | none => simp [hch] at hc
    | some v =>
      simp only [istep, hw, hch]
      unfold budget chanWeight
      simp only [hw, hch, Watch.weight, Option.isSome_some, Option.isSome_none, if_true]
      simp
  | look =>
    cases hw : s.w with
    | holding v =>
      simp only [istep, hw]
      obtain ⟨_, _, r3, r4, _, _, _, r8, r9, _⟩ := react_frame c s v
      have hwt := react_weight c s v
      unfold budget chanWeight
      rw [r3, r4, r8, r9, hw]
      have h3 : (Watch.holding v).weight = 3 := rfl
      rw [h3]
      omega
    | starting => simp [enabled, hw] at he
    | parked => simp [enabled, hw] at he
    | armed => simp [enabled, hw] at he
    | gone => simp [enabled, hw] at he
  | subscribe =>
    simp only [enabled, decide_eq_true_eq] at he
    simp only [istep, he, if_true]
    unfold subscribeStep
    by_cases hr : rootState s.f = .ERROR
    · simp only [hr, if_true]; unfold budget chanWeight; simp [he, Watch.weight]
    · simp only [hr, if_false]; unfold budget chanWeight; simp [he, Watch.weight]

theorem run_length (c : Cfg) (s : Sys) (ls : List Label) (hv : validRun c s ls = true) :
    ls.length + budget (irun c s ls) ≤ budget s := by
  induction ls generalizing s with
  | nil => simp [irun]
  | cons l ls ih =>
    simp only [validRun, Bool.and_eq_true] at hv
    have h1 := step_measure c s l hv.1
    have h2 := ih (istep c s l) hv.2
    simp only [irun, List.foldl_cons, List.length_cons] at h2 ⊢
    omega

theorem not_quiescent_enabled (s : Sys) (h : quiescent s = false) : ∃ l, enabled s l = true := by
  simp only [quiescent] at h
  by_cases h0 : enabled s .arrive = true
  · exact ⟨_, h0⟩
  by_cases h1 : enabled s (.apply 0 true) = true
  · exact ⟨_, h1⟩
  by_cases h2 : enabled s .finish = true
  · exact ⟨_, h2⟩
  by_cases h3 : enabled s (.devStop true true) = true
  · exact ⟨_, h3⟩
  by_cases h4 : enabled s .timer = true
  · exact ⟨_, h4⟩
  by_cases h5 : enabled s .take = true
  · exact ⟨_, h5⟩
  by_cases h6 : enabled s .look = true
  · exact ⟨_, h6⟩
  by_cases h7 : enabled s .subscribe = true
  · exact ⟨_, h7⟩
  simp_all

/-- From every state some run of enabled internal steps reaches quiescence. -/
theorem exists_maximal_run (c : Cfg) (n : Nat) (s : Sys) (hn : budget s ≤ n) :
    ∃ ls, validRun c s ls = true ∧ quiescent (irun c s ls) = true := by
  induction n generalizing s with
  | zero =>
    cases hq : quiescent s with
    | true => exact ⟨[], rfl, hq⟩
    | false =>
      obtain ⟨l, hl⟩ := not_quiescent_enabled s hq
      have := step_measure c s l hl
      omega
  | succ n ih =>
    cases hq : quiescent s with
    | true => exact ⟨[], rfl, hq⟩
    | false =>
      obtain ⟨l, hl⟩ := not_quiescent_enabled s hq
      have hm := step_measure c s l hl
      obtain ⟨ls, hv, hqq⟩ := ih (istep c s l) (by omega)
      exact ⟨l :: ls, by simp [validRun, hl, hv], by simpa [irun] using hqq⟩

/-! ## the ERROR notification -/

/-- Unbuffered channel, watcher at its receive: the failure of a critical task arms the watcher. -/
theorem failOne_arms (c : Cfg) (hb : c.buffered = false) (s : Sys) (k : Kind) (p : List Nat) (hw : s.w = .parked)
    (hcrit : critLeafAt s.f p = true) (hk : k.drives c s.env.st = true) :
    (failOne c k s p true).w = .armed := by
  unfold failOne
  simp only [drives_effect c k _ hk, updState_crit_error s.f p hcrit]
  exact notify_error_ready c _ hb hw

/-- …and the root of the role tree says ERROR (C11's fold: ERROR of a critical leaf dominates). -/
theorem C03_root_error (f : Forest) (p : List Nat) (hc : Consistent f) (hcrit : critLeafAt f p = true) :
    (updState f p .ERROR).2 = some .ERROR ∧ specState (updState f p .ERROR).1 = .ERROR := by
  have h1 := updState_crit_error f p hcrit
  refine ⟨h1, ?_⟩
  have hc' := upd_consistent f p .ERROR hc
  rw [← (consistent_spec _ hc').1]
  obtain ⟨a, o, _, h2⟩ := (upd_top f p .ERROR).2 .ERROR h1
  rw [h2, X_error_left]

/-! ## several tasks at once (executor / agent lost) -/

theorem fail_frame (c : Cfg) (k : Kind) (s : Sys) (vs : List (List Nat × Bool)) :
    (fail c k s vs).env = s.env ∧ (fail c k s vs).inflight = s.inflight ∧ (fail c k s vs).hooks = s.hooks ∧
    (fail c k s vs).stopReq ≤ s.stopReq + vs.length ∧ (fail c k s vs).updq = s.updq ∧
    (fail c k s vs).w.weight ≤ s.w.weight := by
  induction vs generalizing s with
  | nil => exact ⟨rfl, rfl, rfl, Nat.le_refl _, rfl, Nat.le_refl _⟩
  | cons v vs ih =>
    obtain ⟨q, r⟩ := v
    simp only [fail]
    obtain ⟨a1, a2, a3, a4, a5, a6⟩ := ih (failOne c k s q r)
    obtain ⟨b1, b2, b3, b4, b5⟩ := failOne_frame c k s q r
    refine ⟨a1.trans b1, a2.trans b2, a3.trans b3, ?_, a5.trans b5, Nat.le_trans a6 (failOne_weight_le c k s q r)⟩
    rw [b4] at a4
    simp only [List.length_cons]
    split at a4 <;> omega

/-- The failure itself costs at most 3 further internal steps per victim (its queued STOP
    request and what that can put into the watcher's channel) + 2 (take, look). -/
theorem fail_budget (c : Cfg) (k : Kind) (s : Sys) (vs : List (List Nat × Bool)) :
    budget (fail c k s vs) ≤ budget s + 3 * vs.length + 2 := by
  obtain ⟨_, fi, _, fs, fu, fw⟩ := fail_frame c k s vs
  have := chanWeight_le (fail c k s vs)
  unfold budget
  rw [fi, fu]
  omega

/-- One failure hitting any number of tasks arms the watcher (unbuffered channel) as soon as
    ONE of them is critical and its notification finds the watcher at its receive — whatever
    happens to the notifications of the others (dropped, or sent after the watcher has left
    its loop). -/
theorem fail_arms (c : Cfg) (hb : c.buffered = false) (k : Kind) (s : Sys) (vs : List (List Nat × Bool))
    (hw : s.w = .parked ∨ s.w = .armed) (hk : k.drives c s.env.st = true)
    (h : s.w = .armed ∨ ∃ p, (p, true) ∈ vs ∧ critLeafAt s.f p = true) :
    (fail c k s vs).w = .armed := by
  induction vs generalizing s with
  | nil =>
    rcases h with h | ⟨p, hp, _⟩
    · exact h
    · cases hp
  | cons v vs ih =>
    obtain ⟨q, r⟩ := v
    simp only [fail]
    have henv : (failOne c k s q r).env = s.env := (failOne_frame c k s q r).1
    have hk' : k.drives c (failOne c k s q r).env.st = true := by rw [henv]; exact hk
    obtain ⟨w1, w2⟩ := failOne_w c k s q r hb hk
    rcases hw with hw | hw
    · -- parked
      rcases h with h | ⟨p, hp, hc⟩
      · rw [hw] at h; cases h
      · rcases List.mem_cons.mp hp with heq | hin
        · cases heq
          exact ih _ (Or.inr (failOne_arms c hb s k _ hw hc hk)) hk' (Or.inl (failOne_arms c hb s k _ hw hc hk))
        · refine ih _ ?_ hk' (Or.inr ⟨p, hin, by rw [failOne_critLeafAt]; exact hc⟩)
          exact w2 hw
    · -- armed already
      have : (failOne c k s q r).w = .armed := by rw [w1 (by simp [hw])]; exact hw
      exact ih _ (Or.inr this) hk' (Or.inl this)

/-! ## C03: critical ⇒ ERROR, the code as it was (unbuffered channel) -/

/-- What WAS provable before the repair, and still is for every configuration with an
    unbuffered channel (`legacyCfg`) — for every role tree, every live state, every set of
    tasks dying together of which at least one is critical, every kind of failure that the
    code turns into task state ERROR at that instant (`Kind.drives`), idle or with any
    transition in flight, every hook set, every order of the enabled internal steps and every
    outcome of the in-flight / queued transitions — PROVIDED the watcher is at its receive
    when the root notifies for (one of) the critical victim(s) (`(p, true) ∈ vs`):
      (1) the watcher is armed and at most `budget` internal steps can follow,
      (2) when none is enabled any more the environment is in ERROR,
      (3) such a run exists (so (2) is not vacuous). -/
theorem C03_critical_to_error_partial (c : Cfg) (hb : c.buffered = false) (s : Sys) (k : Kind)
    (vs : List (List Nat × Bool))
    (hlive : Live s) (hk : k.drives c s.env.st = true)
    (hcrit : ∃ p, (p, true) ∈ vs ∧ critLeafAt s.f p = true) :
    let s1 := fail c k s vs
    s1.w = .armed ∧ budget s1 ≤ budget s + 3 * vs.length + 2 ∧
    (∀ ls, validRun c s1 ls = true → ls.length ≤ budget s1 ∧
      (quiescent (irun c s1 ls) = true → (irun c s1 ls).env.st = .ERROR)) ∧
    (∃ ls, validRun c s1 ls = true ∧ quiescent (irun c s1 ls) = true) := by
  obtain ⟨_, hw, hnr⟩ := hlive
  have harm := fail_arms c hb k s vs (Or.inl hw) hk (Or.inr hcrit)
  obtain ⟨_, fi, _, _, _, _⟩ := fail_frame c k s vs
  have hinv : ErrInv (fail c k s vs) := ⟨Or.inl harm, fun i hi => by rw [fi] at hi; exact hnr i hi⟩
  refine ⟨harm, fail_budget c k s vs, ?_, exists_maximal_run c _ _ (Nat.le_refl _)⟩
  intro ls hv
  refine ⟨?_, fun hq => quiescent_inv_error _ (run_inv c _ ls hinv hv) hq⟩
  have := run_length c _ ls hv
  omega

/-- The single-victim reading. -/
theorem C03_critical_to_error (c : Cfg) (hb : c.buffered = false) (s : Sys) (k : Kind) (p : List Nat) (ls : List Label)
    (hlive : Live s) (hcrit : critLeafAt s.f p = true) (hk : k.drives c s.env.st = true)
    (hv : validRun c (failOne c k s p true) ls = true) (hq : quiescent (irun c (failOne c k s p true) ls) = true) :
    (irun c (failOne c k s p true) ls).env.st = .ERROR ∧ ls.length ≤ budget s + 5 := by
  obtain ⟨_, hbud, h, _⟩ := C03_critical_to_error_partial c hb s k [(p, true)] hlive hk ⟨p, List.mem_singleton.mpr rfl, hcrit⟩
  simp only [fail, List.length_singleton] at hbud h
  obtain ⟨h1, h2⟩ := h ls hv
  exact ⟨h2 hq, by omega⟩

/-! ## C03: critical ⇒ ERROR, the code as it is (buffer of one + re-read of the root) -/

/-- An ERROR is on its way to the watcher: waiting in its channel, or in its hands; or
    (`R`: the root keeps saying ERROR) anything at all is, because the watcher re-reads the
    root before acting. -/
def Pend (R : Bool) (s : Sys) : Prop :=
  (s.w = .parked ∧ s.chan = some .ERROR) ∨ s.w = .holding .ERROR ∨
  (R = true ∧ ((s.w = .parked ∧ s.chan.isSome = true) ∨ ∃ v, s.w = .holding v))

theorem Pend.keeps {R : Bool} {s s' : Sys} (h : Pend R s) (hk : Keeps s s') : Pend R s' := by
  obtain ⟨hw, hc⟩ := hk
  rcases h with ⟨h1, h2⟩ | h | ⟨hR, ⟨h1, h2⟩ | ⟨v, h1⟩⟩
  · exact Or.inl ⟨hw.trans h1, (hc (by rw [h2]; rfl)).trans h2⟩
  · exact Or.inr (Or.inl (hw.trans h))
  · exact Or.inr (Or.inr ⟨hR, Or.inl ⟨hw.trans h1, by rw [hc h2]; exact h2⟩⟩)
  · exact Or.inr (Or.inr ⟨hR, Or.inr ⟨v, hw.trans h1⟩⟩)

def BufInv (R : Bool) (s : Sys) : Prop := (s.w = .armed ∨ s.env.st = .ERROR ∨ Pend R s) ∧ NoRecover s

/-- Buffered channel: the steps that are not the watcher's own (and not its timer) neither
    move the watcher nor replace what waits in its channel. -/
theorem istep_keeps (c : Cfg) (hb : c.buffered = true) (s : Sys) (l : Label)
    (h1 : l ≠ .take) (h2 : l ≠ .look) (h3 : l ≠ .timer) (h4 : l ≠ .subscribe) : Keeps s (istep c s l) := by
  cases l with
  | arrive =>
    simp only [istep]
    repeat' split
    all_goals exact ⟨rfl, fun _ => rfl⟩
  | apply k ready =>
    simp only [istep]
    split
    · exact setLeaf_keeps c _ _ _ ready hb
    · exact Keeps.refl s
  | finish =>
    simp only [istep]
    split
    · exact ⟨rfl, fun _ => rfl⟩
    · exact Keeps.refl s
  | devStop ok ready => exact devStopStep_keeps c s ok ready hb
  | timer => exact absurd rfl h3
  | take => exact absurd rfl h1
  | look => exact absurd rfl h2
  | subscribe => exact absurd rfl h4

theorem step_inv_buf (c : Cfg) (hb : c.buffered = true) (hr : c.reread = true) (R : Bool) (s : Sys) (l : Label)
    (h : BufInv R s) (he : enabled s l = true)
    (hroot : R = true → s.w.inLoop = true → rootState s.f = .ERROR) : BufInv R (istep c s l) := by
  obtain ⟨hw, hnr⟩ := h
  rcases hw with hw | hw | hp
  · obtain ⟨g1, g2⟩ := step_inv c s l ⟨Or.inl hw, hnr⟩ he
    exact ⟨g1.elim Or.inl (fun x => Or.inr (Or.inl x)), g2⟩
  · obtain ⟨g1, g2⟩ := step_inv c s l ⟨Or.inr hw, hnr⟩ he
    exact ⟨g1.elim Or.inl (fun x => Or.inr (Or.inl x)), g2⟩
  refine ⟨?_, step_norecover c s l hnr⟩
  cases l with
  | arrive => exact Or.inr (Or.inr (hp.keeps (istep_keeps c hb s _ (by simp) (by simp) (by simp) (by simp))))
  | apply k ready => exact Or.inr (Or.inr (hp.keeps (istep_keeps c hb s _ (by simp) (by simp) (by simp) (by simp))))
  | finish => exact Or.inr (Or.inr (hp.keeps (istep_keeps c hb s _ (by simp) (by simp) (by simp) (by simp))))
  | devStop ok ready => exact Or.inr (Or.inr (hp.keeps (istep_keeps c hb s _ (by simp) (by simp) (by simp) (by simp))))
  | timer => exact Or.inr (Or.inl (timerStep_spec c s).1)
  | take =>
    simp only [enabled, Bool.and_eq_true, decide_eq_true_eq] at he
    obtain ⟨ew, ec⟩ := he
    right; right
    rcases hp with ⟨_, h2⟩ | h | ⟨hR, ⟨_, _⟩ | ⟨v, h1⟩⟩
    · simp only [istep, ew, h2]
      exact Or.inr (Or.inl rfl)
    · rw [ew] at h; cases h
    · cases hch : s.chan with
      | none => simp [hch] at ec
      | some v =>
        simp only [istep, ew, hch]
        exact Or.inr (Or.inr ⟨hR, Or.inr ⟨v, rfl⟩⟩)
    · rw [ew] at h1; cases h1
  | look =>
    left
    rcases hp with ⟨h1, _⟩ | h | ⟨hR, ⟨h1, _⟩ | ⟨v, h1⟩⟩
    · simp [enabled, h1] at he
    · simp only [istep, h]
      exact react_error c s
    · simp [enabled, h1] at he
    · simp only [istep, h1]
      exact react_reread c s v hr (hroot hR (by rw [h1]; rfl))
  | subscribe =>
    exfalso
    simp only [enabled, decide_eq_true_eq] at he
    rcases hp with ⟨h1, _⟩ | h | ⟨_, ⟨h1, _⟩ | ⟨v, h1⟩⟩ <;> simp_all

/-- As long as the watcher is in its loop the root role says ERROR — at every state of the run. -/
def rootHolds (c : Cfg) : Sys → List Label → Bool
  | s, [] => !s.w.inLoop || rootState s.f == .ERROR
  | s, l :: ls => (!s.w.inLoop || rootState s.f == .ERROR) && rootHolds c (istep c s l) ls

theorem run_inv_buf (c : Cfg) (hb : c.buffered = true) (hr : c.reread = true) (R : Bool) (s : Sys) (ls : List Label)
    (h : BufInv R s) (hv : validRun c s ls = true) (hroot : R = true → rootHolds c s ls = true) :
    BufInv R (irun c s ls) := by
  induction ls generalizing s with
  | nil => exact h
  | cons l ls ih =>
    simp only [validRun, Bool.and_eq_true] at hv
    have hnow : R = true → s.w.inLoop = true → rootState s.f = .ERROR := by
      intro hR hin
      have := hroot hR
      simp only [rootHolds, Bool.and_eq_true, Bool.or_eq_true, Bool.not_eq_true', hin, beq_iff_eq] at this
      rcases this.1 with h | h
      · cases h
      · exact h
    refine ih (istep c s l) (step_inv_buf c hb hr R s l h hv.1 hnow) hv.2 ?_
    intro hR
    have := hroot hR
    simp only [rootHolds, Bool.and_eq_true] at this
    exact this.2

theorem quiescent_bufinv_error (R : Bool) (s : Sys) (h : BufInv R s) (hq : quiescent s = true) : s.env.st = .ERROR := by
  obtain ⟨hw, hnr⟩ := h
  rcases hw with hw | hw | hp
  · exact quiescent_inv_error s ⟨Or.inl hw, hnr⟩ hq
  · exact hw
  · exfalso
    simp only [quiescent, enabled, Bool.and_eq_true, Bool.not_eq_true'] at hq
    obtain ⟨⟨⟨_, q6⟩, q7⟩, _⟩ := hq
    rcases hp with ⟨h1, h2⟩ | h | ⟨_, ⟨h1, h2⟩ | ⟨v, h1⟩⟩
    · simp [h1, h2] at q6
    · simp [h] at q7
    · simp [h1, h2] at q6
    · simp [h1] at q7

theorem fail_keeps (c : Cfg) (hb : c.buffered = true) (k : Kind) (s : Sys) (vs : List (List Nat × Bool)) :
    Keeps s (fail c k s vs) := by
  induction vs generalizing s with
  | nil => exact Keeps.refl s
  | cons v vs ih =>
    obtain ⟨q, r⟩ := v
    simp only [fail]
    exact (failOne_keeps c k s q r hb).trans (ih _)

/-- Buffered channel: one failure hitting any number of tasks, ONE of them critical, leaves an
    ERROR in the watcher's channel if that was empty — whatever the `ready` bits. -/
theorem fail_kept (c : Cfg) (hb : c.buffered = true) (k : Kind) (s : Sys) (vs : List (List Nat × Bool))
    (hw : s.w = .parked) (hk : k.drives c s.env.st = true)
    (h : s.chan = some .ERROR ∨ (s.chan = none ∧ ∃ p r, (p, r) ∈ vs ∧ critLeafAt s.f p = true)) :
    (fail c k s vs).chan = some .ERROR := by
  induction vs generalizing s with
  | nil =>
    rcases h with h | ⟨_, p, r, hp, _⟩
    · exact h
    · cases hp
  | cons v vs ih =>
    obtain ⟨q, r⟩ := v
    simp only [fail]
    have henv : (failOne c k s q r).env = s.env := (failOne_frame c k s q r).1
    have hk' : k.drives c (failOne c k s q r).env.st = true := by rw [henv]; exact hk
    obtain ⟨kw, kc⟩ := failOne_keeps c k s q r hb
    have hw' : (failOne c k s q r).w = .parked := kw.trans hw
    rcases h with h | ⟨hn, p, r', hp, hc⟩
    · exact ih _ hw' hk' (Or.inl ((kc (by rw [h]; rfl)).trans h))
    · rcases List.mem_cons.mp hp with heq | hin
      · cases heq
        exact ih _ hw' hk' (Or.inl (failOne_kept c k s _ _ hb hk (by rw [hw]; rfl) hn hc))
      · rcases failOne_chan c k s q r hb hk with e | e
        · exact ih _ hw' hk' (Or.inr ⟨e.trans hn, p, r', hin, by rw [failOne_critLeafAt]; exact hc⟩)
        · exact ih _ hw' hk' (Or.inl e)

/-- FULL-STRENGTH statement about the way from the root role to the environment — no premise
    about where the watcher goroutine is: for every live system (whatever is waiting in the
    watcher's channel), every kind of failure the code turns into task state ERROR at that
    instant, every set of tasks dying together of which at least one is critical, EVERY
    `ready` bit, every valid run of internal steps — in which, if a stale value was still
    waiting in the watcher's channel when the task failed, the root role goes on saying ERROR
    while the watcher is in its loop (a statement about the ROLE TREE, not about the watcher:
    it fails only when a late command reply of the dead task overwrites its ERROR, the
    unordered `go updateTaskState` goroutines of C11 / C02) — once nothing more can happen the
    environment is in ERROR.
    FALSE for the code as it was (`C03_finding_notify_dropped`), TRUE for the code as it is
    (`C03_critical_to_error_code`). -/
def C03_critical_to_error_full (c : Cfg) : Prop :=
  ∀ (s : Sys) (k : Kind) (vs : List (List Nat × Bool)) (ls : List Label),
    Live s → k.drives c s.env.st = true → (∃ p r, (p, r) ∈ vs ∧ critLeafAt s.f p = true) →
    validRun c (fail c k s vs) ls = true →
    (s.chan = none ∨ rootHolds c (fail c k s vs) ls = true) →
    quiescent (irun c (fail c k s vs) ls) = true →
    (irun c (fail c k s vs) ls).env.st = .ERROR

/-- The same with the bounds, for every configuration that has the buffer and the re-read:
    at most `budget` (≤ budget before + 3 per victim + 2) internal steps can follow the
    failure; when none is enabled any more the environment is in ERROR; such a run exists. -/
theorem C03_critical_to_error_buffered (c : Cfg) (hb : c.buffered = true) (hr : c.reread = true)
    (s : Sys) (k : Kind) (vs : List (List Nat × Bool))
    (hlive : Live s) (hk : k.drives c s.env.st = true)
    (hcrit : ∃ p r, (p, r) ∈ vs ∧ critLeafAt s.f p = true) :
    let s1 := fail c k s vs
    budget s1 ≤ budget s + 3 * vs.length + 2 ∧
    (∀ ls, validRun c s1 ls = true → ls.length ≤ budget s1 ∧
      ((s.chan = none ∨ rootHolds c s1 ls = true) → quiescent (irun c s1 ls) = true → (irun c s1 ls).env.st = .ERROR)) ∧
    (∃ ls, validRun c s1 ls = true ∧ quiescent (irun c s1 ls) = true) := by
  obtain ⟨_, hw, hnr⟩ := hlive
  obtain ⟨_, fi, _, _, _, _⟩ := fail_frame c k s vs
  obtain ⟨kw, kc⟩ := fail_keeps c hb k s vs
  have hnr1 : NoRecover (fail c k s vs) := fun i hi => by rw [fi] at hi; exact hnr i hi
  refine ⟨fail_budget c k s vs, ?_, exists_maximal_run c _ _ (Nat.le_refl _)⟩
  intro ls hv
  refine ⟨by have := run_length c _ ls hv; omega, ?_⟩
  intro hprem hq
  cases hch : s.chan with
  | none =>
    -- the ERROR itself is in the channel
    have hkept := fail_kept c hb k s vs hw hk (Or.inr ⟨hch, hcrit⟩)
    have hinv : BufInv false (fail c k s vs) := ⟨Or.inr (Or.inr (Or.inl ⟨kw.trans hw, hkept⟩)), hnr1⟩
    exact quiescent_bufinv_error false _ (run_inv_buf c hb hr false _ ls hinv hv (fun h => by cases h)) hq
  | some x =>
    -- a stale value is: the watcher will take it and re-read the root
    have hR : rootHolds c (fail c k s vs) ls = true := by
      rcases hprem with h | h
      · rw [hch] at h; cases h
      · exact h
    have hsome : (fail c k s vs).chan.isSome = true := by rw [kc (by rw [hch]; rfl), hch]; rfl
    have hinv : BufInv true (fail c k s vs) := ⟨Or.inr (Or.inr (Or.inr (Or.inr ⟨rfl, Or.inl ⟨kw.trans hw, hsome⟩⟩))), hnr1⟩
    exact quiescent_bufinv_error true _ (run_inv_buf c hb hr true _ ls hinv hv (fun _ => hR)) hq

/-- **The full-strength statement holds for the code as it is.** -/
theorem C03_critical_to_error_code : C03_critical_to_error_full codeCfg := by
  intro s k vs ls hlive hk hcrit hv hprem hq
  exact ((C03_critical_to_error_buffered codeCfg rfl rfl s k vs hlive hk hcrit).2.1 ls hv).2 hprem hq

/-! ## C03: the task died while the core was cut off from the master -/

theorem effect_direct (c : Cfg) (k : Kind) (st : St) (crit : Bool) : effect c k.direct st crit = effect c k st crit := by
  cases k <;> rfl

/-- For EVERY system, kind and victim list: a failure learnt through reconciliation IS the
    directly delivered one (same tree, watcher, channel, queues …) — so everything proved
    about `fail` (all the theorems of this file quantify over every `Kind`) holds for it, and
    the premises `drives` / `quiet` / `hard` are the direct kind's. -/
theorem C03_reconciled_as_direct (c : Cfg) (k : Kind) (s : Sys) (vs : List (List Nat × Bool)) :
    fail c k s vs = fail c k.direct s vs ∧
    (∀ st crit, k.drives c st = k.direct.drives c st ∧ k.quiet c st crit = k.direct.quiet c st crit) ∧ k.hard = k.direct.hard := by
  refine ⟨?_, fun st crit => by simp [Kind.drives, Kind.quiet, effect_direct], by cases k <;> rfl⟩
  induction vs generalizing s with
  | nil => rfl
  | cons v vs ih =>
    obtain ⟨p, r⟩ := v
    have h1 : failOne c k s p r = failOne c k.direct s p r := by
      unfold failOne
      simp only [effect_direct]
    simp only [fail, h1]
    exact ih _

/-- A terminal state other than TASK_FINISHED learnt through reconciliation drives, whatever
    the environment's state. -/
theorem reconciled_hard_drives (c : Cfg) (k : Kind) (st : St) (h : k.viaReconciliation = true) (hk : k.hard = true) :
    k.drives c st = true := by
  cases k <;> simp [Kind.viaReconciliation, Kind.hard] at h hk <;> rfl

/-- **Critical task dead while the core was cut off ⇒ ERROR.** For every live system, every
    terminal state except TASK_FINISHED reported by the master's reconciliation answer
    (TASK_FAILED / LOST / KILLED / ERROR; a whole agent's tasks LOST) about any set of tasks of
    which one is critical, every watcher position and every valid run of internal steps (with
    the premise of `C03_critical_to_error_full` about a stale value in the watcher's channel):
    at most `budget` (≤ budget before + 3 per victim + 2) steps follow, and when none is
    enabled any more the environment is in ERROR; such a run exists. -/
theorem C03_reconciled_critical_to_error (s : Sys) (k : Kind) (vs : List (List Nat × Bool))
    (hrec : k.viaReconciliation = true) (hk : k.hard = true)
    (hlive : Live s) (hcrit : ∃ p r, (p, r) ∈ vs ∧ critLeafAt s.f p = true) :
    let s1 := fail codeCfg k s vs
    (∀ ls, validRun codeCfg s1 ls = true → ls.length ≤ budget s + 3 * vs.length + 2 ∧
      ((s.chan = none ∨ rootHolds codeCfg s1 ls = true) → quiescent (irun codeCfg s1 ls) = true →
        (irun codeCfg s1 ls).env.st = .ERROR)) ∧
    (∃ ls, validRun codeCfg s1 ls = true ∧ quiescent (irun codeCfg s1 ls) = true) := by
  obtain ⟨hb, h, hex⟩ := C03_critical_to_error_buffered codeCfg rfl rfl s k vs hlive
    (reconciled_hard_drives codeCfg k s.env.st hrec hk) hcrit
  refine ⟨fun ls hv => ?_, hex⟩
  obtain ⟨h1, h2⟩ := h ls hv
  exact ⟨by omega, h2⟩

/-- ERROR is absorbing for the internal steps (nothing in flight is RECOVER). -/
theorem C03_error_stable (c : Cfg) (s : Sys) (ls : List Label) (he : s.env.st = .ERROR) (hnr : NoRecover s)
    (hv : validRun c s ls = true) : (irun c s ls).env.st = .ERROR := by
  have := run_inv c s ls ⟨Or.inr he, hnr⟩ hv
  induction ls generalizing s with
  | nil => exact he
  | cons l ls ih =>
    simp only [validRun, Bool.and_eq_true] at hv
    have h1 := step_inv c s l ⟨Or.inr he, hnr⟩ hv.1
    have hst : (istep c s l).env.st = .ERROR := by
      cases l with
      | arrive =>
        cases hi : s.inflight with
        | none => simp [istep, hi, he]
        | some i =>
          cases hp : i.pending with
          | nil => simp [istep, hi, hp, he]
          | cons pv rest => simp [istep, hi, hp, he]
      | apply k ready =>
        simp only [istep]
        cases hk : s.updq[k]? with
        | none => exact he
        | some pv =>
          simp only
          rw [(setLeaf_frame _ _ _ _ _).1]; exact he
      | finish =>
        cases hi : s.inflight with
        | none => simp [istep, hi, he]
        | some i =>
          simp only [istep, hi]
          split
          · exact control_from_error _ _ _ _ _ he (hnr i hi)
          · rw [try_from_error _ _ _ _ _ he (hnr i hi)]; exact he
      | devStop ok ready =>
        simp only [istep]
        rw [(devStopStep_frame c s ok ready).1, try_from_error _ _ _ _ _ he (by decide)]; exact he
      | timer => exact (timerStep_spec c s).1
      | take =>
        simp only [istep]
        split
        · exact he
        · exact he
      | look =>
        simp only [istep]
        split
        · rw [(react_frame c s _).1]; exact he
        · exact he
      | subscribe =>
        simp only [istep]
        split
        · unfold subscribeStep; split <;> exact he
        · exact he
    simpa [irun] using ih (istep c s l) hst h1.2 hv.2 (run_inv c _ ls ⟨Or.inr hst, h1.2⟩ hv.2)

/-! ## C03: non-critical ⇒ nothing -/

/-- FULL-STRENGTH statement: the failure — of ANY kind — of a non-critical task of a quiet
    live environment never changes the environment's state. TRUE of the code as it is
    (`C03_noncritical_inert_code`), FALSE of the code as it was before "fix: TASK_INTERNAL_ERROR
    of a non-critical task does not stop the run" (`C03_finding_internal_error_noncritical_stops_run`). -/
def C03_noncritical_inert_full (c : Cfg) : Prop :=
  ∀ (s : Sys) (k : Kind) (p : List Nat) (ready : Bool) (ls : List Label),
    Live s → quiescent s = true → plainLeafAt s.f p = true →
    validRun c (failOne c k s p ready) ls = true → (irun c (failOne c k s p ready) ls).env.st = s.env.st

/-- What is proved for EVERY configuration: for every kind that does not queue a STOP
    (`Kind.quiet`: all of them in the code as it is, `quiet_code`; all except
    TASK_INTERNAL_ERROR while RUNNING in the code as it was) the failure of a
    non-critical task changes NOTHING outside that task's own role: environment, watcher, its
    channel, mutex holder, queued requests are untouched, no notification is sent, the fold
    of the critical leaves (what C11 proves every aggregator reports) is unchanged, exactly
    the same internal steps are enabled as before, and an idle environment stays idle — its
    state can never change as a consequence. Any schedule, any watcher position. -/
theorem C03_noncritical_inert_partial (c : Cfg) (s : Sys) (k : Kind) (p : List Nat) (ready : Bool)
    (hplain : plainLeafAt s.f p = true) (hq : k.quiet c s.env.st false = true) :
    let s1 := failOne c k s p ready
    s1.env = s.env ∧ s1.w = s.w ∧ s1.chan = s.chan ∧ s1.inflight = s.inflight ∧ s1.stopReq = s.stopReq ∧
    s1.dropped = s.dropped ∧ S s1.f = S s.f ∧
    (∀ l, enabled s1 l = enabled s l) ∧
    (quiescent s = true → ∀ ls, validRun c s1 ls = true → ls = [] ∧ (irun c s1 ls).env.st = s.env.st) := by
  have hcf : critLeafAt s.f p = false := plain_not_crit s.f p hplain
  have hstop : (effect c k s.env.st (critLeafAt s.f p)).stop = false := by rw [hcf]; simpa [Kind.quiet] using hq
  obtain ⟨fe, fi, _, fs, fu⟩ := failOne_frame c k s p ready
  rw [hstop] at fs
  simp only [Bool.false_eq_true, if_false, Nat.add_zero] at fs
  have hnone : ∀ st, (updState s.f p st).2 = none := fun st => updState_plain_none s.f p st hplain
  have hwd : (failOne c k s p ready).w = s.w ∧ (failOne c k s p ready).chan = s.chan ∧
      (failOne c k s p ready).dropped = s.dropped ∧ S (failOne c k s p ready).f = S s.f := by
    unfold failOne
    simp only
    cases hst : (effect c k s.env.st (critLeafAt s.f p)).st with
    | none =>
      simp only [notify_none]
      cases hsu : (effect c k s.env.st (critLeafAt s.f p)).su with
      | none => exact ⟨by first | rfl | trivial, by first | rfl | trivial, by first | rfl | trivial, by first | rfl | trivial⟩
      | some su => exact ⟨by first | rfl | trivial, by first | rfl | trivial, by first | rfl | trivial, updStatus_S _ _ _⟩
    | some st =>
      simp only [hnone st, notify_none]
      have hS : S (updState s.f p st).1 = S s.f := (upd_top s.f p st).1 (hnone st)
      cases hsu : (effect c k s.env.st (critLeafAt s.f p)).su with
      | none => exact ⟨by first | rfl | trivial, by first | rfl | trivial, by first | rfl | trivial, hS⟩
      | some su => exact ⟨by first | rfl | trivial, by first | rfl | trivial, by first | rfl | trivial, by rw [updStatus_S]; exact hS⟩
  have hen : ∀ l, enabled (failOne c k s p ready) l = enabled s l := by
    intro l
    cases l <;> simp only [enabled, fi, fs, fu, hwd.1, hwd.2.1]
  refine ⟨fe, hwd.1, hwd.2.1, fi, fs, hwd.2.2.1, hwd.2.2.2, hen, ?_⟩
  intro hqs ls hv
  cases ls with
  | nil => exact ⟨rfl, by simp [irun, fe]⟩
  | cons l ls =>
    exfalso
    simp only [validRun, Bool.and_eq_true] at hv
    have h1 := hv.1
    rw [hen l] at h1
    have hidle := quiescent_idle s hqs
    simp only [quiescent, enabled, hidle, Bool.and_eq_true, Bool.not_eq_true'] at hqs
    cases l <;> simp_all [enabled]

/-- **The full-strength statement holds for the code as it is**: every kind of failure —
    TASK_INTERNAL_ERROR while RUNNING included — of a non-critical task of a quiet live
    environment leaves no internal step enabled: the environment's state can never change as a
    consequence (with everything `C03_noncritical_inert_partial` lists: watcher, channel, mutex
    holder, queued requests, fold of the critical leaves untouched). -/
theorem C03_noncritical_inert_code : C03_noncritical_inert_full codeCfg := by
  intro s k p ready ls _ hq hplain hv
  exact ((C03_noncritical_inert_partial codeCfg s k p ready hplain (quiet_code k s.env.st)).2.2.2.2.2.2.2.2 hq ls hv).2

/-- The same without any premise about the environment (any state, anything in flight, any
    watcher position): nothing outside the task's own role changes, the same steps stay enabled. -/
theorem C03_noncritical_untouched_code (s : Sys) (k : Kind) (p : List Nat) (ready : Bool)
    (hplain : plainLeafAt s.f p = true) :
    let s1 := failOne codeCfg k s p ready
    s1.env = s.env ∧ s1.w = s.w ∧ s1.chan = s.chan ∧ s1.inflight = s.inflight ∧ s1.stopReq = s.stopReq ∧
    s1.dropped = s.dropped ∧ S s1.f = S s.f ∧ (∀ l, enabled s1 l = enabled s l) := by
  obtain ⟨a1, a2, a3, a4, a5, a6, a7, a8, _⟩ :=
    C03_noncritical_inert_partial codeCfg s k p ready hplain (quiet_code k s.env.st)
  exact ⟨a1, a2, a3, a4, a5, a6, a7, a8⟩

/-! ## C03: the end of the run is recorded -/

/-- When the watcher's timer runs on a RUNNING environment whose end-of-run stamps are
    still open (as START_ACTIVITY leaves them) and no critical hook can veto GO_ERROR,
    both stamps are set and both run events (GO_ERROR STARTED at run_end_time_ms,
    GO_ERROR DONE_OK at run_end_completion_time_ms) are emitted, carrying the run number. -/
theorem C03_run_end_recorded (c : Cfg) (s : Sys) (hst : s.env.st = .RUNNING)
    (hh : s.hooks = []) (hp : s.env.pending = [])
    (h1 : s.env.vars.soeor = .empty) (h2 : s.env.vars.eoeor = .empty) :
    let s1 := timerStep c s
    s1.env.st = .ERROR ∧
    s1.env.vars.soeor = .val (s.env.clock + 1) ∧ s1.env.vars.eoeor = .val (s.env.clock + 2) ∧
    Step.runEvent "GO_ERROR" .started s.env.rn (s.env.clock + 1) ∈ s1.log ∧
    Step.runEvent "GO_ERROR" .doneOk s.env.rn (s.env.clock + 2) ∈ s1.log := by
  unfold timerStep
  simp only
  rw [(setLeaves_frame _ _ _ _ _).1, (setLeaves_frame _ _ _ _ _).2.2.2.2.1]
  simp only [hh]
  have key : ∀ env : Env, env.st = .RUNNING → env.pending = [] → env.vars.soeor = .empty → env.vars.eoeor = .empty →
      let g := tryTransition env [] .GO_ERROR true false
      g.2.2 = .ok ∧ g.1.st = .ERROR ∧ g.1.vars.soeor = .val (env.clock + 1) ∧ g.1.vars.eoeor = .val (env.clock + 2) ∧
      Step.runEvent "GO_ERROR" .started env.rn (env.clock + 1) ∈ g.2.1 ∧
      Step.runEvent "GO_ERROR" .doneOk env.rn (env.clock + 2) ∈ g.2.1 := by
    intro env e1 e2 e3 e4
    simp [tryTransition, fsmEvent, e1, dst?, beforeEvent, handleHooks, weightsFor, e2, sortDedup, handleWeights,
      bkBefore, setSoeorIfEmpty, e3, TV.isEmpty, tick, leaveState, enterState, afterEvent, bkAfter, setEoeorIfEmpty, e4,
      finAfter, Ev.name]
  obtain ⟨k1, k2, k3, k4, k5, k6⟩ := key s.env hst hp h1 h2
  simp only [k1, Result.isOk, if_true]
  exact ⟨k2, k3, k4, List.mem_append_right _ k5, List.mem_append_right _ k6⟩

/-! ## the findings, machine-checked on the model -/

/-- One critical task, environment RUNNING after a START_ACTIVITY (stamps open). -/
def wRunning : Sys :=
  { f := .agg .RUNNING .ACTIVE (.leaf false true .RUNNING .ACTIVE (.leaf false false .RUNNING .ACTIVE .nil)) .nil,
    env := { st := .RUNNING, rn := 1, counter := 1, clock := 1,
             vars := { rnVar := some 1, sosor := .val 1, eosor := .val 1, soeor := .empty, eoeor := .empty } } }

def wConfigured : Sys :=
  { f := .agg .CONFIGURED .ACTIVE (.leaf false true .CONFIGURED .ACTIVE (.leaf false false .CONFIGURED .ACTIVE .nil)) .nil,
    env := { st := .CONFIGURED } }

theorem wRunning_live : Live wRunning := ⟨Or.inr rfl, rfl, fun i hi => by cases hi⟩
theorem wConfigured_live : Live wConfigured := ⟨Or.inl rfl, rfl, fun i hi => by cases hi⟩

/-- NEGATIVE lemma about the code AS IT WAS (finding notify_dropped, fixed): on an unbuffered
    channel, with the watcher away from its receive at the instant the root notifies, the
    ERROR is dropped; nothing is enabled afterwards and the environment keeps reporting
    RUNNING with its critical task dead, the root role saying ERROR. -/
theorem C03_finding_notify_dropped : ¬ C03_critical_to_error_full legacyCfg := by
  intro h
  have := h wRunning .FAILED [([0, 0], false)] [] wRunning_live (by decide) ⟨[0, 0], false, by decide, by decide⟩
    (by decide) (Or.inl rfl) (by decide)
  revert this; decide

/-- What exactly that schedule left behind — and what the same schedule does now: the ERROR
    waits in the channel, the watcher takes it, the timer runs, the environment is in ERROR. -/
theorem C03_notify_dropped_witness :
    (let s1 := failOne legacyCfg .FAILED wRunning [0, 0] false
     quiescent s1 = true ∧ s1.env.st = .RUNNING ∧ rootState s1.f = .ERROR ∧ s1.dropped = 1 ∧ s1.w = .parked) ∧
    (let s1 := failOne codeCfg .FAILED wRunning [0, 0] false
     s1.chan = some .ERROR ∧ s1.dropped = 0 ∧ validRun codeCfg s1 [.take, .look, .timer] = true ∧
     quiescent (irun codeCfg s1 [.take, .look, .timer]) = true ∧ (irun codeCfg s1 [.take, .look, .timer]).env.st = .ERROR) := by
  decide

/-- The text of the property for EVERY kind of failure (no `Kind.drives`): FALSE of the code as
    it is — because of TASK_FINISHED alone (open finding finished_not_error, below); for every
    other kind it holds, `C03_every_failure_to_error_code`. -/
def C03_every_kind_to_error_full (c : Cfg) : Prop :=
  ∀ (s : Sys) (k : Kind) (vs : List (List Nat × Bool)) (ls : List Label),
    Live s → (∃ p r, (p, r) ∈ vs ∧ critLeafAt s.f p = true) →
    validRun c (fail c k s vs) ls = true → s.chan = none →
    quiescent (irun c (fail c k s vs) ls) = true →
    (irun c (fail c k s vs) ls).env.st = .ERROR

/-- A critical task whose process ends with exit status 0 (TASK_FINISHED) becomes DONE,
    not ERROR: the watcher receives DONE and leaves, the environment stays RUNNING. -/
theorem C03_finding_finished_not_error : ¬ C03_every_kind_to_error_full codeCfg := by
  intro h
  have := h wRunning .FINISHED [([0, 0], true)] [.take, .look] wRunning_live ⟨[0, 0], true, by decide, by decide⟩
    (by decide) rfl (by decide)
  revert this; decide

/-- The same when the exit is only learnt through reconciliation after a re-subscription
    (finding finished_not_error, same class). -/
theorem C03_finding_reconciled_finished_not_error : ¬ C03_every_kind_to_error_full codeCfg := by
  intro h
  have := h wRunning .RFINISHED [([0, 0], true)] [.take, .look] wRunning_live ⟨[0, 0], true, by decide, by decide⟩
    (by decide) rfl (by decide)
  revert this; decide

/-- The text of the property for every kind of failure it names — the process dies, Mesos
    reports the task failed / lost / killed / in error (directly or through reconciliation),
    its executor or agent is lost, OR IT ANNOUNCES AN INTERNAL ERROR —, i.e. every `Kind` but
    exit status 0, with NO hypothesis about what the code does with the kind at that instant
    (no `Kind.drives`): every live system — CONFIGURED or RUNNING, idle or with any transition
    in flight —, every set of victims with a critical one, every valid run of internal steps:
    once nothing more can happen the environment is in ERROR.
    FALSE of the code as it was (`C03_finding_internal_error_ignored_unless_running`), TRUE of
    the code as it is (`C03_every_failure_to_error_code`). -/
def C03_every_failure_to_error_full (c : Cfg) : Prop :=
  ∀ (s : Sys) (k : Kind) (vs : List (List Nat × Bool)) (ls : List Label),
    Live s → k.exitZero = false → (∃ p r, (p, r) ∈ vs ∧ critLeafAt s.f p = true) →
    validRun c (fail c k s vs) ls = true → s.chan = none →
    quiescent (irun c (fail c k s vs) ls) = true →
    (irun c (fail c k s vs) ls).env.st = .ERROR

/-- In the code as it is every kind of failure but exit status 0 puts the task's role into
    ERROR whatever the environment's state is at that instant, and no kind requests a
    transition on behalf of a non-critical task: the hypotheses `Kind.drives` / `Kind.quiet`
    of the `_partial` theorems are theorems. -/
theorem C03_every_failure_drives_code (k : Kind) (st : St) :
    (k.exitZero = false → k.drives codeCfg st = true) ∧ k.quiet codeCfg st false = true :=
  ⟨drives_code k st, quiet_code k st⟩

/-- **Holds for the code as it is**, with the bounds: at most `budget` (≤ budget before + 3 per
    victim + 2) internal steps follow the failure, a run to quiescence exists, and a quiescent
    system is in ERROR. -/
theorem C03_every_failure_to_error_bounded (s : Sys) (k : Kind) (vs : List (List Nat × Bool))
    (hlive : Live s) (hk : k.exitZero = false) (hcrit : ∃ p r, (p, r) ∈ vs ∧ critLeafAt s.f p = true) :
    let s1 := fail codeCfg k s vs
    (∀ ls, validRun codeCfg s1 ls = true → ls.length ≤ budget s + 3 * vs.length + 2 ∧
      ((s.chan = none ∨ rootHolds codeCfg s1 ls = true) → quiescent (irun codeCfg s1 ls) = true →
        (irun codeCfg s1 ls).env.st = .ERROR)) ∧
    (∃ ls, validRun codeCfg s1 ls = true ∧ quiescent (irun codeCfg s1 ls) = true) := by
  obtain ⟨hb, h, hex⟩ := C03_critical_to_error_buffered codeCfg rfl rfl s k vs hlive (drives_code k s.env.st hk) hcrit
  refine ⟨fun ls hv => ?_, hex⟩
  obtain ⟨h1, h2⟩ := h ls hv
  exact ⟨by omega, h2⟩

theorem C03_every_failure_to_error_code : C03_every_failure_to_error_full codeCfg := by
  intro s k vs ls hlive hk hcrit hv hch hq
  exact ((C03_every_failure_to_error_bounded s k vs hlive hk hcrit).1 ls hv).2 (Or.inl hch) hq

/-- The code AS IT WAS (finding internal_error_ignored_unless_running, fixed):
    TASK_INTERNAL_ERROR of a critical task while the environment is CONFIGURED was ignored —
    nothing was enabled afterwards, the environment stayed CONFIGURED. -/
theorem C03_finding_internal_error_ignored_unless_running : ¬ C03_every_failure_to_error_full deviceLegacyCfg := by
  intro h
  have := h wConfigured .INTERNAL [([0, 0], true)] [] wConfigured_live rfl ⟨[0, 0], true, by decide, by decide⟩
    (by decide) rfl (by decide)
  revert this; decide

/-- …and it is exactly the test of the environment's state around the role update that did it:
    with the STOP request already asking for the task's criticality, a role that is told only
    while RUNNING still refutes the statement. -/
theorem C03_role_must_be_told_in_every_state : ¬ C03_every_failure_to_error_full { codeCfg with roleAlways := false } := by
  intro h
  have := h wConfigured .INTERNAL [([0, 0], true)] [] wConfigured_live rfl ⟨[0, 0], true, by decide, by decide⟩
    (by decide) rfl (by decide)
  revert this; decide

/-- The code AS IT WAS (finding internal_error_noncritical_stops_run, fixed):
    TASK_INTERNAL_ERROR of a NON-critical task while RUNNING stopped the run
    (STOP_ACTIVITY was requested whatever the task's criticality). -/
theorem C03_finding_internal_error_noncritical_stops_run : ¬ C03_noncritical_inert_full deviceLegacyCfg := by
  intro h
  have := h wRunning .INTERNAL [0, 1] true [.devStop true true] wRunning_live (by decide) (by decide) (by decide)
  revert this; decide

/-- …and it is exactly the missing look at the task's criticality: with the role told in
    every state, a STOP request that does not ask still refutes the statement. -/
theorem C03_stop_must_ask_criticality : ¬ C03_noncritical_inert_full { codeCfg with stopAsksCritical := false } := by
  intro h
  have := h wRunning .INTERNAL [0, 1] true [.devStop true true] wRunning_live (by decide) (by decide) (by decide)
  revert this; decide

/-- What the three witnesses look like before and after the two repairs of the
    TASK_INTERNAL_ERROR case (the pictures the harness sees on the real core).
    (1) critical task, environment CONFIGURED and idle: was — nothing (role CONFIGURED,
        nothing enabled); is — role and root ERROR, status untouched, the watcher's timer runs,
        environment ERROR, no STOP (no task is RUNNING).
    (2) critical task, START_ACTIVITY in flight with the other task's reply outstanding
        (the environment still reports CONFIGURED): was — ignored, the environment becomes
        RUNNING with a task that has said it is in ERROR; is — START ends, then GO_ERROR: ERROR
        with both end-of-run stamps.
    (3) non-critical task, environment RUNNING: was — STOP_ACTIVITY, environment CONFIGURED; is —
        the task's own role ERROR, nothing enabled, environment RUNNING, root RUNNING.
    (4) unchanged: critical task, environment RUNNING — role ERROR, STOP_ACTIVITY requested, then
        the timer: ERROR with both stamps. -/
theorem C03_internal_error_witness :
    (let a := fail deviceLegacyCfg .INTERNAL wConfigured [([0, 0], true)]
     let b := settle codeCfg 12 (fail codeCfg .INTERNAL wConfigured [([0, 0], true)])
     quiescent a = true ∧ a.env.st = .CONFIGURED ∧ roleStateAt a.f [0, 0] = .CONFIGURED ∧
     quiescent b = true ∧ b.env.st = .ERROR ∧ roleStateAt b.f [0, 0] = .ERROR ∧ rootState b.f = .ERROR ∧
     rootStatus b.f = .ACTIVE ∧ b.stopped = []) ∧
    (let s : Sys := { wConfigured with inflight := some { ev := .START_ACTIVITY, api := true, pending := [([0, 1], .RUNNING)], ok := true } }
     let a := settle deviceLegacyCfg 12 (fail deviceLegacyCfg .INTERNAL s [([0, 0], true)])
     let b := settle codeCfg 16 (fail codeCfg .INTERNAL s [([0, 0], true)])
     Live s ∧ quiescent a = true ∧ a.env.st = .RUNNING ∧
     quiescent b = true ∧ b.env.st = .ERROR ∧ b.transRes = some (true, .RUNNING) ∧
     b.env.vars.soeor ≠ .empty ∧ b.env.vars.eoeor ≠ .empty) ∧
    (let a := settle deviceLegacyCfg 12 (failOne deviceLegacyCfg .INTERNAL wRunning [0, 1] true)
     let b := failOne codeCfg .INTERNAL wRunning [0, 1] true
     quiescent a = true ∧ a.env.st = .CONFIGURED ∧
     quiescent b = true ∧ b.env.st = .RUNNING ∧ roleStateAt b.f [0, 1] = .ERROR ∧ rootState b.f = .RUNNING ∧ b.stopReq = 0) ∧
    (let b := settle codeCfg 16 (fail codeCfg .INTERNAL wRunning [([0, 0], true)])
     (fail codeCfg .INTERNAL wRunning [([0, 0], true)]).stopReq = 1 ∧
     quiescent b = true ∧ b.env.st = .ERROR ∧ b.env.vars.soeor ≠ .empty ∧ b.env.vars.eoeor ≠ .empty) := by
  refine ⟨by decide, ⟨⟨Or.inl rfl, rfl, fun i hi => by cases hi; decide⟩, by decide⟩, by decide, by decide⟩

/-- The licence of the driver's variant "the failure's update of the role was overwritten before
    the root looked" (`failOneLost`; the code's non-atomic `updateTaskState`, open finding
    stale_update_overwrites_error, at instant burst): such a failure leaves the environment
    machine, the watcher and its channel exactly as they were — the system is still `Live`, the
    tree has the same critical leaves — and therefore ONE MORE failure of a critical task, of any
    kind but exit status 0, still takes the environment to ERROR (every valid run, bounded). That
    is the evidence the harness collects (`(again ERROR)`, harness/props/c03/again.go): a core
    whose watcher received the ERROR and then did nothing fails it. -/
theorem C03_overwritten_update_keeps_watcher (k : Kind) (s : Sys) (p : List Nat) (hlive : Live s) :
    let s1 := failOneLost codeCfg k s p
    Live s1 ∧ s1.env = s.env ∧ s1.w = s.w ∧ s1.chan = s.chan ∧ s1.inflight = s.inflight ∧
    (∀ q, critLeafAt s1.f q = critLeafAt s.f q) ∧
    (∀ (k' : Kind) (vs : List (List Nat × Bool)) (ls : List Label), k'.exitZero = false →
      (∃ q r, (q, r) ∈ vs ∧ critLeafAt s.f q = true) → validRun codeCfg (fail codeCfg k' s1 vs) ls = true →
      s.chan = none → quiescent (irun codeCfg (fail codeCfg k' s1 vs) ls) = true →
      (irun codeCfg (fail codeCfg k' s1 vs) ls).env.st = .ERROR) := by
  have hcrit : ∀ q, critLeafAt (failOneLost codeCfg k s p).f q = critLeafAt s.f q := by
    intro q
    unfold failOneLost
    simp only
    cases (effect codeCfg k s.env.st (critLeafAt s.f p)).su <;> simp only [critLeafAt_updStatus]
  have hl : Live (failOneLost codeCfg k s p) := hlive
  refine ⟨hl, rfl, rfl, rfl, rfl, hcrit, ?_⟩
  intro k' vs ls hk hc hv hch hq
  obtain ⟨q, r, hm, hq'⟩ := hc
  exact C03_every_failure_to_error_code _ k' vs ls hl hk ⟨q, r, hm, by rw [hcrit]; exact hq'⟩ hv hch hq

/-- LIMIT of `C03_critical_to_error_code`, machine-checked: its premise about the role tree
    cannot be dropped. START_ACTIVITY has ended, the critical task's own reply is still a
    queued `go updateTaskState(RUNNING)`, an older value is still waiting in the watcher's
    channel; the task FAILS (root ERROR, notification dropped: buffer full), then its stale
    reply is applied (leaf RUNNING, root RUNNING again — the unordered goroutines of C11 / C02),
    only then the watcher wakes up: it takes the old value, re-reads a root that no longer
    says ERROR, and stays in its loop. The environment keeps RUNNING. (Not reproduced on the
    real core: it needs the watcher goroutine to sleep through two notifications.) -/
theorem C03_limit_error_overwritten_while_channel_full :
    let s : Sys := { wRunning with chan := some .RUNNING, updq := [([0, 0], .RUNNING)] }
    let s1 := failOne codeCfg .FAILED s [0, 0] true
    let ls : List Label := [.apply 0 true, .take, .look]
    Live s ∧ critLeafAt s.f [0, 0] = true ∧ Kind.FAILED.drives codeCfg s.env.st = true ∧
    rootState s1.f = .ERROR ∧ s1.dropped = 1 ∧
    validRun codeCfg s1 ls = true ∧ quiescent (irun codeCfg s1 ls) = true ∧ (irun codeCfg s1 ls).env.st = .RUNNING ∧
    rootState (irun codeCfg s1 ls).f = .RUNNING ∧ rootHolds codeCfg s1 ls = false := by
  refine ⟨⟨Or.inr rfl, rfl, fun i hi => by cases hi⟩, ?_⟩
  decide

/-! ## C03: the failure arrives right after the creation (finding stale_update_overwrites_error) -/

/-- An environment as `CreateEnvironment` / the last `ControlEnvironment` hands it over:
    CONFIGURED or RUNNING, nothing of RECOVER in flight, nothing in the watcher's channel, the
    watcher goroutine in its loop — or only just CREATED by `subscribeToWfState`
    (`Watch.starting`: `go func() { … }()` has been executed, the goroutine has not run yet).
    Command replies of the transition that has just ended may still be queued
    `go updateTaskState` goroutines: `updq` is ARBITRARY. -/
def Fresh (s : Sys) : Prop :=
  (s.env.st = .CONFIGURED ∨ s.env.st = .RUNNING) ∧ (s.w = .parked ∨ s.w = .starting) ∧ s.chan = none ∧ NoRecover s

/-- The watcher goroutine had subscribed before the task failed (excluded hypothesis of
    `C03_created_critical_to_error_partial`; the driver reports an observation that only a
    later subscription explains as `stale_update_overwrites_error`). -/
def watcherSubscribed (s : Sys) : Bool := decide (s.w = .parked)

/-- FULL-STRENGTH statement for an environment that has only just been handed over: every
    fresh system, every kind that drives, every set of victims with a critical one, EVERY
    valid run of internal steps (stale state updates of the creation applied at any moment,
    the watcher goroutine starting at any moment) — once nothing more can happen the
    environment is in ERROR. FALSE of the code: `C03_finding_stale_update_overwrites_error`. -/
def C03_created_critical_to_error_full (c : Cfg) : Prop :=
  ∀ (s : Sys) (k : Kind) (vs : List (List Nat × Bool)) (ls : List Label),
    Fresh s → k.drives c s.env.st = true → (∃ p r, (p, r) ∈ vs ∧ critLeafAt s.f p = true) →
    validRun c (fail c k s vs) ls = true →
    quiescent (irun c (fail c k s vs) ls) = true →
    (irun c (fail c k s vs) ls).env.st = .ERROR

/-- One critical task; NewEnvironment has returned CONFIGURED; the CONFIGURE reply's
    `go updateTaskState("CONFIGURED")` has not run yet (the role still says STANDBY), the
    watcher goroutine has been created and has not run yet. -/
def wFresh : Sys :=
  { f := .agg .STANDBY .ACTIVE (.leaf false true .STANDBY .ACTIVE .nil) .nil,
    env := { st := .CONFIGURED }, w := .starting, updq := [([0, 0], .CONFIGURED)] }

theorem wFresh_fresh : Fresh wFresh := ⟨Or.inl rfl, Or.inr rfl, rfl, fun i hi => by cases hi⟩

/-- **Finding stale_update_overwrites_error** (seen on the real core under load; schedule
    forced in a scratch copy gives the same picture): the executor of the only, critical, task
    is lost right after the creation. `HandleExecutorFailed`'s goroutine marks the role ERROR /
    INACTIVE — nobody is subscribed yet, the root's ERROR goes nowhere; the CONFIGURE reply's
    stale `go updateTaskState("CONFIGURED")` then overwrites the role (root CONFIGURED again);
    the watcher goroutine starts, reads a root that says CONFIGURED and waits for ever. The
    environment stays CONFIGURED with its critical task dead. -/
theorem C03_finding_stale_update_overwrites_error : ¬ C03_created_critical_to_error_full codeCfg := by
  intro h
  have := h wFresh .EXEC0 [([0, 0], true)] [.apply 0 true, .subscribe] wFresh_fresh (by decide)
    ⟨[0, 0], true, by decide, by decide⟩ (by decide) (by decide)
  revert this; decide

/-- What exactly the two orders leave behind, and what saves the environment when the watcher
    HAS subscribed: (1) failure, stale update, subscription: role and root CONFIGURED, status
    INACTIVE, watcher parked for ever, environment CONFIGURED; (2) failure, subscription, stale
    update: the watcher finds the root in ERROR and returns AT ONCE without touching the
    environment (`subscribeStep`), then the role is overwritten: same picture, watcher gone;
    (3) the same system with the watcher in its loop: the ERROR waits in its channel, the
    stale update overwrites the role all the same, and the environment still ends in ERROR
    (root and role saying CONFIGURED — observed on the real core under load, 8 of ~19300 one-task worlds). -/
theorem C03_stale_update_witness :
    (let s1 := fail codeCfg .EXEC0 wFresh [([0, 0], true)]
     let e := irun codeCfg s1 [.apply 0 true, .subscribe]
     roleStateAt s1.f [0, 0] = .ERROR ∧ rootState s1.f = .ERROR ∧ s1.chan = none ∧ s1.w = .starting ∧
     quiescent e = true ∧ e.env.st = .CONFIGURED ∧ roleStateAt e.f [0, 0] = .CONFIGURED ∧ rootState e.f = .CONFIGURED ∧
     rootStatus e.f = .INACTIVE ∧ e.w = .parked ∧ e.chan = none) ∧
    (let s1 := fail codeCfg .EXEC0 wFresh [([0, 0], true)]
     let e := irun codeCfg s1 [.subscribe, .apply 0 true]
     validRun codeCfg s1 [.subscribe, .apply 0 true] = true ∧
     quiescent e = true ∧ e.env.st = .CONFIGURED ∧ roleStateAt e.f [0, 0] = .CONFIGURED ∧ rootState e.f = .CONFIGURED ∧ e.w = .gone) ∧
    (let s1 := fail codeCfg .EXEC0 { wFresh with w := .parked } [([0, 0], true)]
     let ls : List Label := [.apply 0 true, .take, .look, .timer]
     s1.chan = some .ERROR ∧ validRun codeCfg s1 ls = true ∧ quiescent (irun codeCfg s1 ls) = true ∧
     (irun codeCfg s1 ls).env.st = .ERROR ∧ roleStateAt (irun codeCfg s1 ls).f [0, 0] = .CONFIGURED ∧
     rootState (irun codeCfg s1 ls).f = .CONFIGURED) := by
  decide

/-- What IS proved for a fresh environment: if the watcher goroutine had subscribed before the
    task failed (`watcherSubscribed`), then — WHATEVER stale state updates of the creation are
    still queued and whenever they are applied — every valid run has at most `budget` steps and,
    once nothing more can happen, the environment is in ERROR; such a run exists. (A stale
    update that overwrites the dead task's role after the ERROR was put into the watcher's
    channel is harmless for the environment: the watcher acts on the value it received.) -/
theorem C03_created_critical_to_error_partial (s : Sys) (k : Kind) (vs : List (List Nat × Bool))
    (hf : Fresh s) (hsub : watcherSubscribed s = true) (hk : k.drives codeCfg s.env.st = true)
    (hcrit : ∃ p r, (p, r) ∈ vs ∧ critLeafAt s.f p = true) :
    let s1 := fail codeCfg k s vs
    (∀ ls, validRun codeCfg s1 ls = true → ls.length ≤ budget s1 ∧
      (quiescent (irun codeCfg s1 ls) = true → (irun codeCfg s1 ls).env.st = .ERROR)) ∧
    (∃ ls, validRun codeCfg s1 ls = true ∧ quiescent (irun codeCfg s1 ls) = true) := by
  obtain ⟨hst, _, hch, hnr⟩ := hf
  have hw : s.w = .parked := by simpa [watcherSubscribed] using hsub
  obtain ⟨_, h2, h3⟩ := C03_critical_to_error_buffered codeCfg rfl rfl s k vs ⟨hst, hw, hnr⟩ hk hcrit
  refine ⟨fun ls hv => ?_, h3⟩
  obtain ⟨a, b⟩ := h2 ls hv
  exact ⟨a, b (Or.inl hch)⟩

/-- LIMIT, machine-checked; reproduced on the real core only with the schedule forced (a
    sleep at the head of the watcher goroutine in a scratch copy), never seen otherwise: the
    stale update is not needed. A critical task that fails between the end of the creation and
    the first run of the watcher goroutine leaves the root in ERROR; the goroutine then reads
    `wf.GetState() == ERROR`, skips its loop and returns: the environment stays CONFIGURED for
    ever, the root role saying ERROR. So "no stale update pending" is NOT a sufficient
    hypothesis for `C03_created_critical_to_error_full`; `watcherSubscribed` is. -/
theorem C03_limit_watcher_subscribes_after_failure :
    let s : Sys := { wConfigured with w := .starting }
    let s1 := failOne codeCfg .FAILED s [0, 0] true
    Fresh s ∧ s.updq = [] ∧ critLeafAt s.f [0, 0] = true ∧ Kind.FAILED.drives codeCfg s.env.st = true ∧
    validRun codeCfg s1 [.subscribe] = true ∧ quiescent (irun codeCfg s1 [.subscribe]) = true ∧
    (irun codeCfg s1 [.subscribe]).env.st = .CONFIGURED ∧ rootState (irun codeCfg s1 [.subscribe]).f = .ERROR ∧
    (irun codeCfg s1 [.subscribe]).w = .gone := by
  refine ⟨⟨Or.inl rfl, Or.inr rfl, rfl, fun i hi => by cases hi⟩, ?_⟩
  decide

/-- Non-vacuity of `C03_created_critical_to_error_partial`: the fresh one-task system with the
    watcher subscribed and the CONFIGURE reply's update still queued; the wall-clock schedule
    ends in ERROR. -/
example :
    let s : Sys := { wFresh with w := .parked }
    let e := settle codeCfg 12 (fail codeCfg .EXEC0 s [([0, 0], true)])
    Fresh s ∧ watcherSubscribed s = true ∧ s.updq ≠ [] ∧ Kind.EXEC0.drives codeCfg s.env.st = true ∧ critLeafAt s.f [0, 0] = true ∧
    quiescent e = true ∧ e.env.st = .ERROR := by
  refine ⟨⟨Or.inl rfl, Or.inl rfl, rfl, fun i hi => by cases hi⟩, ?_⟩
  decide

/-- Non-vacuity of the theorems on realistic systems: a critical task FAILS while
    STOP_ACTIVITY is in flight with one reply outstanding; the wall-clock schedule (`settle`)
    ends in ERROR with both stamps set — on the unbuffered channel with the watcher at its
    receive, and on the buffered one wherever the watcher is; and with a stale value waiting
    in the channel the ERROR notification is dropped, yet the re-read of the root arms the
    watcher (premise `rootHolds` satisfied). -/
example :
    let s : Sys := { wRunning with inflight := some { ev := .STOP_ACTIVITY, api := true, pending := [([0, 1], .CONFIGURED)], ok := true } }
    let s1 := settle legacyCfg 10 (failOne legacyCfg .FAILED s [0, 0] true)
    let s2 := settle codeCfg 12 (failOne codeCfg .FAILED s [0, 0] false)
    Live s ∧ critLeafAt s.f [0, 0] = true ∧ Kind.FAILED.drives codeCfg s.env.st = true ∧
    quiescent s1 = true ∧ s1.env.st = .ERROR ∧ s1.env.vars.soeor ≠ .empty ∧ s1.env.vars.eoeor ≠ .empty ∧
    quiescent s2 = true ∧ s2.env.st = .ERROR ∧ s2.env.vars.soeor ≠ .empty ∧ s2.env.vars.eoeor ≠ .empty := by
  refine ⟨⟨Or.inr rfl, rfl, fun i hi => by cases hi; decide⟩, ?_⟩
  decide

example :
    let s : Sys := { wRunning with chan := some .RUNNING }
    let s1 := failOne codeCfg .FAILED s [0, 0] true
    let ls : List Label := [.take, .look, .timer]
    Live s ∧ s1.dropped = 1 ∧ s1.chan = some .RUNNING ∧ validRun codeCfg s1 ls = true ∧ rootHolds codeCfg s1 ls = true ∧
    quiescent (irun codeCfg s1 ls) = true ∧ (irun codeCfg s1 ls).env.st = .ERROR := by
  refine ⟨⟨Or.inr rfl, rfl, fun i hi => by cases hi⟩, ?_⟩
  decide

/-- Non-vacuity of `C03_reconciled_critical_to_error`: the critical task of a RUNNING
    environment is reported TASK_LOST by the reconciliation answer; a whole agent (the critical
    and the non-critical task) is; the wall-clock schedule ends in ERROR with both stamps
    set, the surviving RUNNING task is sent STOP. -/
example :
    let s1 := settle codeCfg 12 (fail codeCfg .RLOST wRunning [([0, 0], false)])
    let s2 := settle codeCfg 12 (fail codeCfg .RAGENT wRunning [([0, 1], true), ([0, 0], true)])
    Live wRunning ∧ Kind.RLOST.viaReconciliation = true ∧ Kind.RLOST.hard = true ∧ critLeafAt wRunning.f [0, 0] = true ∧
    quiescent s1 = true ∧ s1.env.st = .ERROR ∧ s1.env.vars.soeor ≠ .empty ∧ s1.env.vars.eoeor ≠ .empty ∧
    s1.stopped = [[0, 1]] ∧ roleStateAt s1.f [0, 0] = .ERROR ∧
    quiescent s2 = true ∧ s2.env.st = .ERROR ∧ s2.stopped = [] := by
  refine ⟨wRunning_live, ?_⟩
  decide

/-! ## C03: the roster is one table — tasks of other environments and of no environment on the same agent -/

/-- `codeWalk` IS the shape of HandleExecutorFailed / HandleAgentFailed: `updateTaskState("ERROR")`
    and the parent's `UpdateStatus(INACTIVE)` sit unconditionally (the latter under one `!= nil`
    test of the parent) in the body of a `range` loop over the snapshot `m.roster.filtered(…)`,
    and no statement of that body (function literals — the per-task goroutine — not entered)
    can leave the iteration: every entry of the snapshot gets its body, whatever the other
    entries are. A walk whose body returns / breaks at some entry makes this theorem false. -/
theorem C03_lost_walk_is_code :
    Gen.C03.execWalkPerTask = codeWalk.perTask ∧ Gen.C03.agentWalkPerTask = codeWalk.perTask := by
  decide

/-- **Seen from one environment, the walk over the roster is `fail` on that environment's own
    victims** — for every world, kind, snapshot (in every order: the per-task goroutines are
    unordered) and environment; and entries that are not this environment's — tasks of OTHER
    environments, tasks WITHOUT a parent role — change nothing for it wherever they stand in the
    snapshot: before, between or after its own. Hence every theorem of this file about `fail`
    (they quantify over every victim list) is a theorem about every environment of a world. -/
theorem C03_roster_walk_is_fail (c : Cfg) (k : Kind) (W : World) (e : Nat) (ts : List (Nat × RTask × Bool)) :
    (hitAll codeWalk c k W ts).envs[e]? = (W.envs[e]?).map (fun s => fail c k s (victimsFor e ts)) ∧
    (∀ a x b, ts = a ++ x ++ b → (∀ y ∈ x, y.2.1.owner ≠ some e) →
      (hitAll codeWalk c k W ts).envs[e]? = (hitAll codeWalk c k W (a ++ b)).envs[e]?) := by
  refine ⟨hitAll_env c k e ts W, ?_⟩
  intro a x b hts hx
  subst hts
  rw [hitAll_env, hitAll_env]
  simp only [victimsFor_append, victimsFor_foreign e x hx, List.append_nil]

/-- FULL-STRENGTH statement per environment, parameterised by the walk: every world (any number
    of environments, any roster), every kind that drives, every snapshot, every environment `e`
    that is live and has a critical task among the entries of the snapshot, every valid run of
    internal steps of ALL environments interleaved in any way (premise about a stale value in
    `e`'s watcher channel as in `C03_critical_to_error_full`): once nothing is enabled in any
    environment, `e` is in ERROR. TRUE for the code (`C03_roster_critical_to_error_code`), FALSE
    for a walk that ends at an entry without a parent (`C03_walk_must_cover_every_task`). -/
def C03_roster_critical_to_error_full (wk : Walk) (c : Cfg) : Prop :=
  ∀ (W : World) (k : Kind) (ts : List (Nat × RTask × Bool)) (e : Nat) (s : Sys) (ls : List (Nat × Label)),
    W.envs[e]? = some s → Live s → k.drives c s.env.st = true →
    (∃ i t r, (i, t, r) ∈ ts ∧ t.owner = some e ∧ critLeafAt s.f t.path = true) →
    wvalid c (hitAll wk c k W ts) ls = true →
    (s.chan = none ∨ rootHolds c (fail c k s (victimsFor e ts)) (labelsOf e ls) = true) →
    wquiescent (wrun c (hitAll wk c k W ts) ls) = true →
    ∃ s', (wrun c (hitAll wk c k W ts) ls).envs[e]? = some s' ∧ s'.env.st = .ERROR

/-- The same with the bounds: after the walk, environment `e` is `fail` on its own victims; in
    every valid run of the world `e` takes at most `budget` (≤ budget before + 3 per entry of
    the snapshot + 2) steps; a quiescent world has `e` in ERROR; and a run that brings `e` to
    rest in ERROR exists (the other environments need not move). -/
theorem C03_roster_critical_to_error (W : World) (k : Kind) (ts : List (Nat × RTask × Bool)) (e : Nat) (s : Sys)
    (hs : W.envs[e]? = some s) (hlive : Live s) (hk : k.drives codeCfg s.env.st = true)
    (hcrit : ∃ i t r, (i, t, r) ∈ ts ∧ t.owner = some e ∧ critLeafAt s.f t.path = true) :
    let W1 := hitAll codeWalk codeCfg k W ts
    W1.envs[e]? = some (fail codeCfg k s (victimsFor e ts)) ∧
    (∀ ls, wvalid codeCfg W1 ls = true → (labelsOf e ls).length ≤ budget s + 3 * ts.length + 2 ∧
      ((s.chan = none ∨ rootHolds codeCfg (fail codeCfg k s (victimsFor e ts)) (labelsOf e ls) = true) →
        wquiescent (wrun codeCfg W1 ls) = true →
        ∃ s', (wrun codeCfg W1 ls).envs[e]? = some s' ∧ s'.env.st = .ERROR)) ∧
    (∃ ls s', wvalid codeCfg W1 ls = true ∧ (wrun codeCfg W1 ls).envs[e]? = some s' ∧ quiescent s' = true ∧
      (s.chan = none → s'.env.st = .ERROR)) := by
  have h1 : (hitAll codeWalk codeCfg k W ts).envs[e]? = some (fail codeCfg k s (victimsFor e ts)) := by
    rw [hitAll_env, hs]; rfl
  obtain ⟨i, t, r, hm, ho, hc⟩ := hcrit
  have hcrit' : ∃ p r, (p, r) ∈ victimsFor e ts ∧ critLeafAt s.f p = true :=
    ⟨t.path, r, victimsFor_mem e ts i t r hm ho, hc⟩
  obtain ⟨hb, hall, hex⟩ := C03_critical_to_error_buffered codeCfg rfl rfl s k (victimsFor e ts) hlive hk hcrit'
  have hlen := victimsFor_length_le e ts
  refine ⟨h1, fun ls hv => ?_, ?_⟩
  · have hv' := wvalid_env codeCfg e ls _ _ h1 hv
    obtain ⟨hl, herr⟩ := hall (labelsOf e ls) hv'
    refine ⟨by omega, fun hprem hq => ?_⟩
    have hrun : (wrun codeCfg (hitAll codeWalk codeCfg k W ts) ls).envs[e]? =
        some (irun codeCfg (fail codeCfg k s (victimsFor e ts)) (labelsOf e ls)) := by
      rw [wrun_env, h1]; rfl
    exact ⟨_, hrun, herr hprem (wquiescent_env _ e _ hrun hq)⟩
  · obtain ⟨ls, hv, hq⟩ := hex
    obtain ⟨hwv, hlab⟩ := wvalid_lift codeCfg e ls _ _ h1 hv
    have hrun : (wrun codeCfg (hitAll codeWalk codeCfg k W ts) (ls.map (fun l => (e, l)))).envs[e]? =
        some (irun codeCfg (fail codeCfg k s (victimsFor e ts)) ls) := by
      rw [wrun_env, h1, hlab]; rfl
    exact ⟨_, _, hwv, hrun, hq, fun hch => ((hall ls hv).2) (Or.inl hch) hq⟩

/-- **Every live environment with a failed critical task goes to ERROR — whatever else is in
    the roster.** The full-strength statement holds for the walk of the code. -/
theorem C03_roster_critical_to_error_code : C03_roster_critical_to_error_full codeWalk codeCfg := by
  intro W k ts e s ls hs hlive hk hcrit hv hprem hq
  exact ((C03_roster_critical_to_error W k ts e s hs hlive hk hcrit).2.1 ls hv).2 hprem hq

/-- The roster statement with no hypothesis about the kind: in the code as it is, every kind of
    failure but exit status 0 — TASK_INTERNAL_ERROR in any environment state included — of a
    critical task of a live environment of the world brings THAT environment to ERROR, under
    every interleaving of the internal steps of all environments. -/
theorem C03_roster_every_failure_to_error_code (W : World) (k : Kind) (ts : List (Nat × RTask × Bool)) (e : Nat) (s : Sys)
    (ls : List (Nat × Label)) (hs : W.envs[e]? = some s) (hlive : Live s) (hk : k.exitZero = false)
    (hcrit : ∃ i t r, (i, t, r) ∈ ts ∧ t.owner = some e ∧ critLeafAt s.f t.path = true)
    (hv : wvalid codeCfg (hitAll codeWalk codeCfg k W ts) ls = true) (hch : s.chan = none)
    (hq : wquiescent (wrun codeCfg (hitAll codeWalk codeCfg k W ts) ls) = true) :
    ∃ s', (wrun codeCfg (hitAll codeWalk codeCfg k W ts) ls).envs[e]? = some s' ∧ s'.env.st = .ERROR :=
  C03_roster_critical_to_error_code W k ts e s ls hs hlive (drives_code k s.env.st hk) hcrit hv (Or.inl hch) hq

/-- An environment none of whose tasks is in the snapshot is not touched by the failure — under
    ANY walk — and its part of every later run of the world is what it would have been. -/
theorem C03_roster_untouched_env (wk : Walk) (c : Cfg) (k : Kind) (W : World) (ts : List (Nat × RTask × Bool)) (e : Nat)
    (h : ∀ x ∈ ts, x.2.1.owner ≠ some e) :
    (hitAll wk c k W ts).envs[e]? = W.envs[e]? ∧
    (∀ ls, (wrun c (hitAll wk c k W ts) ls).envs[e]? = (W.envs[e]?).map (fun s => irun c s (labelsOf e ls))) := by
  have h1 := hitAll_env_untouched wk c k e ts h W
  exact ⟨h1, fun ls => by rw [wrun_env, h1]⟩

/-- `fail` on non-critical victims only, kind quiet: nothing but those tasks' own roles changes. -/
theorem fail_plain_inert (c : Cfg) (k : Kind) (vs : List (List Nat × Bool)) :
    ∀ s : Sys, (∀ p r, (p, r) ∈ vs → plainLeafAt s.f p = true) → k.quiet c s.env.st false = true →
      (fail c k s vs).env = s.env ∧ (fail c k s vs).w = s.w ∧ (fail c k s vs).chan = s.chan ∧
      (fail c k s vs).inflight = s.inflight ∧ (fail c k s vs).stopReq = s.stopReq ∧ (fail c k s vs).dropped = s.dropped ∧
      S (fail c k s vs).f = S s.f ∧ (∀ l, enabled (fail c k s vs) l = enabled s l) := by
  induction vs with
  | nil => intro s _ _; exact ⟨rfl, rfl, rfl, rfl, rfl, rfl, rfl, fun _ => rfl⟩
  | cons v vs ih =>
    intro s hp hq
    obtain ⟨p, r⟩ := v
    obtain ⟨a1, a2, a3, a4, a5, a6, a7, a8, _⟩ :=
      C03_noncritical_inert_partial c s k p r (hp p r (List.mem_cons_self ..)) hq
    have hp' : ∀ q r', (q, r') ∈ vs → plainLeafAt (failOne c k s p r).f q = true := fun q r' hm => by
      rw [failOne_plainLeafAt]; exact hp q r' (List.mem_cons_of_mem _ hm)
    obtain ⟨b1, b2, b3, b4, b5, b6, b7, b8⟩ := ih (failOne c k s p r) hp' (by rw [a1]; exact hq)
    simp only [fail]
    exact ⟨b1.trans a1, b2.trans a2, b3.trans a3, b4.trans a4, b5.trans a5, b6.trans a6, b7.trans a7,
      fun l => (b8 l).trans (a8 l)⟩

/-- **An environment none of whose CRITICAL tasks failed stays where it is**: if the entries of
    the snapshot that belong to `e` are all non-critical (and the kind queues no STOP for a
    non-critical task — in the code as it is no kind does: `C03_roster_noncritical_inert_code`), then
    after the walk `e`'s environment machine, watcher, channel, mutex holder and queued requests
    are what they were, the fold of its critical leaves is unchanged, exactly the same internal
    steps are enabled, and an `e` at rest stays at rest: its state can never change as a
    consequence — whatever happened to the other environments and to the tasks of nobody. -/
theorem C03_roster_noncritical_inert (c : Cfg) (k : Kind) (W : World) (ts : List (Nat × RTask × Bool)) (e : Nat) (s : Sys)
    (hs : W.envs[e]? = some s)
    (hplain : ∀ i t r, (i, t, r) ∈ ts → t.owner = some e → plainLeafAt s.f t.path = true)
    (hq : k.quiet c s.env.st false = true) :
    ∃ s1, (hitAll codeWalk c k W ts).envs[e]? = some s1 ∧
      s1.env = s.env ∧ s1.w = s.w ∧ s1.chan = s.chan ∧ s1.inflight = s.inflight ∧ s1.stopReq = s.stopReq ∧
      S s1.f = S s.f ∧ (∀ l, enabled s1 l = enabled s l) ∧ quiescent s1 = quiescent s := by
  have hp : ∀ p r, (p, r) ∈ victimsFor e ts → plainLeafAt s.f p = true := fun p r hm => by
    obtain ⟨i, t, h1, h2, h3⟩ := victimsFor_mem_inv e ts p r hm
    rw [← h3]; exact hplain i t r h1 h2
  obtain ⟨b1, b2, b3, b4, b5, _, b7, b8⟩ := fail_plain_inert c k (victimsFor e ts) s hp hq
  refine ⟨fail c k s (victimsFor e ts), by rw [hitAll_env, hs]; rfl, b1, b2, b3, b4, b5, b7, b8, ?_⟩
  simp only [quiescent, b8]

/-- The same for the code as it is with NO hypothesis about the kind: whatever fails — also a
    non-critical task announcing TASK_INTERNAL_ERROR while its environment is RUNNING. -/
theorem C03_roster_noncritical_inert_code (k : Kind) (W : World) (ts : List (Nat × RTask × Bool)) (e : Nat) (s : Sys)
    (hs : W.envs[e]? = some s)
    (hplain : ∀ i t r, (i, t, r) ∈ ts → t.owner = some e → plainLeafAt s.f t.path = true) :
    ∃ s1, (hitAll codeWalk codeCfg k W ts).envs[e]? = some s1 ∧
      s1.env = s.env ∧ s1.w = s.w ∧ s1.chan = s.chan ∧ s1.inflight = s.inflight ∧ s1.stopReq = s.stopReq ∧
      S s1.f = S s.f ∧ (∀ l, enabled s1 l = enabled s l) ∧ quiescent s1 = quiescent s :=
  C03_roster_noncritical_inert codeCfg k W ts e s hs hplain (quiet_code k s.env.st)

/-- What the per-task body does to an entry WITHOUT a parent role: no environment is touched;
    the entry's own state/status change as `looseEffect` says (executor / agent lost: ERROR,
    INACTIVE), owner, parent path, agent and executor of the entry stay; every other entry of
    the roster is unchanged. -/
theorem C03_roster_loose_entry (c : Cfg) (k : Kind) (W : World) (i : Nat) (t : RTask) (r : Bool) (h : t.owner = none) :
    (hit c k W i t r).envs = W.envs ∧
    (hit c k W i t r).roster[i]? = (W.roster[i]?).map (fun t' => t'.hitLoose k) ∧
    (∀ j, j ≠ i → (hit c k W i t r).roster[j]? = W.roster[j]?) ∧
    (∀ t' : RTask, (t'.hitLoose k).owner = t'.owner ∧ (t'.hitLoose k).path = t'.path ∧
      (t'.hitLoose k).agent = t'.agent ∧ (t'.hitLoose k).exec = t'.exec) ∧
    (∀ t' : RTask, (k = .EXEC ∨ k = .EXEC0 ∨ k = .AGENT ∨ k = .AGENT0) →
      (t'.hitLoose k).st = .ERROR ∧ (t'.hitLoose k).su = .INACTIVE) := by
  refine ⟨hit_loose_envs c k W i t r h, ?_, ?_, fun t' => ⟨rfl, rfl, rfl, rfl⟩, ?_⟩
  · unfold hit
    simp only [h]
    cases hr : W.roster[i]? with
    | none => simp [hr]
    | some t' =>
      have hlt : i < W.roster.length := by
        rcases Nat.lt_or_ge i W.roster.length with h1 | h1
        · exact h1
        · rw [List.getElem?_eq_none h1] at hr; cases hr
      simp [List.getElem?_set_self hlt]
  · intro j hj
    unfold hit
    simp only [h]
    split
    · simp [List.getElem?_set_ne (Ne.symm hj)]
    · rfl
  · intro t' hk
    rcases hk with hk | hk | hk | hk <;> subst hk <;> exact ⟨rfl, rfl⟩

/-- Two environments on one agent (each: a critical and a non-critical task) and two tasks of
    nobody, one older than everything, one younger. -/
def wShared : World :=
  { envs := [wConfigured, wRunning],
    roster := [{ owner := none, agent := 1, exec := 1 },
               { owner := some 0, path := [0, 0], agent := 1, exec := 1 }, { owner := some 0, path := [0, 1], agent := 2, exec := 2 },
               { owner := some 1, path := [0, 0], agent := 1, exec := 1 }, { owner := some 1, path := [0, 1], agent := 1, exec := 1 },
               { owner := none, agent := 1, exec := 1 }] }

/-- **The walk must cover every entry**: with a walk that ends at the first entry without a
    parent role, the agent of a critical task is lost, the older task of nobody stands before
    it in the roster — and nothing ever happens: no internal step is enabled, the environment
    keeps reporting CONFIGURED with its critical task dead. (That entry itself was marked
    ERROR / INACTIVE; the walk of the code brings both environments to ERROR: example below.) -/
theorem C03_walk_must_cover_every_task : ¬ C03_roster_critical_to_error_full stoppingWalk codeCfg := by
  intro h
  obtain ⟨s', h1, h2⟩ := h wShared .AGENT0 ((affected (.agent 1) wShared.roster).map (fun x => (x.1, x.2, true))) 0 wConfigured []
    rfl wConfigured_live (by decide) ⟨1, { owner := some 0, path := [0, 0], agent := 1, exec := 1 }, true, by decide, rfl, by decide⟩
    (by decide) (Or.inl rfl) (by decide)
  have h0 : (wrun codeCfg (hitAll stoppingWalk codeCfg .AGENT0 wShared
      ((affected (.agent 1) wShared.roster).map (fun x => (x.1, x.2, true)))) []).envs[0]? = some wConfigured := rfl
  rw [h0] at h1
  cases h1
  revert h2; decide

/-- Non-vacuity of the roster theorems, and the picture the harness sees: agent 1 of `wShared` is
    lost. Snapshot = five entries (both tasks of nobody, the critical task of environment 0, both
    tasks of environment 1). Walk of the code, then every environment under the wall-clock
    schedule: both environments in ERROR (the RUNNING one with both stamps), environment 0's
    task on the other agent untouched, both tasks of nobody ERROR / INACTIVE. The stopping walk
    marks the first entry and leaves everything else as it was. -/
example :
    let ts := (affected (.agent 1) wShared.roster).map (fun x => (x.1, x.2, true))
    let W1 := wsettle codeCfg 16 (worldFail codeWalk codeCfg .AGENT0 wShared (.agent 1))
    let W2 := worldFail stoppingWalk codeCfg .AGENT0 wShared (.agent 1)
    ts.map (·.1) = [0, 1, 3, 4, 5] ∧
    victimsFor 0 ts = [([0, 0], true)] ∧ victimsFor 1 ts = [([0, 0], true), ([0, 1], true)] ∧
    wquiescent W1 = true ∧ W1.envs.map (·.env.st) = [.ERROR, .ERROR] ∧
    W1.envs.map (fun s => (leaves s.f).map (·.2.1)) = [[.ERROR, .CONFIGURED], [.ERROR, .ERROR]] ∧
    ((W1.envs.drop 1).map (fun s => decide (s.env.vars.soeor ≠ .empty) && decide (s.env.vars.eoeor ≠ .empty))) = [true] ∧
    W1.roster.map (fun t => (t.st, t.su)) = [(.ERROR, .INACTIVE), (.STANDBY, .ACTIVE), (.STANDBY, .ACTIVE), (.STANDBY, .ACTIVE),
      (.STANDBY, .ACTIVE), (.ERROR, .INACTIVE)] ∧
    wquiescent W2 = true ∧ W2.envs.map (·.env.st) = [.CONFIGURED, .RUNNING] ∧
    W2.roster.map (fun t => t.st) = [.ERROR, .STANDBY, .STANDBY, .STANDBY, .STANDBY, .STANDBY] := by
  decide

/-! ## C03: whatever the labels of the messages say — THAT environment goes to ERROR

  Every message about a task carries the label `environmentId` = the environment the executor
  launched the task FOR (stamped once). For a task that was released by that environment
  (destroyed with keepTasks) and belongs to a later one now (claimed: reuseUnlockedTasks), or
  whose executor sends no such label, the label names no environment of the world — or
  another live one. The property speaks about the environment the task belongs to. -/

/-- `codeCfg.envByTask` IS the TASK_INTERNAL_ERROR case of handleDeviceEvent: exactly one call
    `envs.environment(X)` in the case; X is `<t>.GetEnvironmentId()` with `<t>` the variable
    defined once by `….GetTask(…)` (the task's CURRENT environment: its parent role's) and is NOT
    derived from the event's labels (`GetEnvironmentIdFromLabelerType(evt)`, `GetLabels()`); the
    variable that lookup defines is the receiver of every `CurrentState()` and `TryTransition(…)`
    of the case; and the role that is told ERROR is `<t>.GetParent()` of the same `<t>`. Feeding
    the lookup with the id parsed from the labels makes this theorem false. -/
theorem C03_internal_env_is_code :
    Gen.C03.internalEnvLookups = 1 ∧ Gen.C03.internalEnvByTask = codeCfg.envByTask ∧
    Gen.C03.internalEnvByLabel = !codeCfg.envByTask ∧ Gen.C03.internalEnvIsTheOneUsed = true ∧
    Gen.C03.internalRoleOfSameTask = true := by
  decide

/-- **The labels are irrelevant for a core that finds the environment through the task** (every
    configuration with `envByTask`, the code as it is among them): for every world, kind, walk and
    labelled snapshot the result is the unlabelled walk's — so every theorem of this file about
    `hitAll` / `worldFail` holds whatever the messages' labels name; and two messages that differ
    only in their label have the same effect. -/
theorem C03_label_irrelevant (c : Cfg) (hc : c.envByTask = true) (wk : Walk) (k : Kind) (W : World)
    (ts : List (Nat × RTask × Bool × Option Nat)) :
    hitAllTagged wk c k W ts = hitAll wk c k W (untag ts) ∧
    (∀ i t r lab lab', hitTagged c k W i t r lab = hitTagged c k W i t r lab') ∧
    (∀ sc lab, worldFailTagged wk c k W sc lab = worldFail wk c k W sc) := by
  refine ⟨hitAllTagged_byTask wk c hc k ts W, fun i t r lab lab' => ?_, fun sc lab => ?_⟩
  · rw [hitTagged_byTask c hc, hitTagged_byTask c hc]
  · unfold worldFailTagged worldFail
    rw [hitAllTagged_byTask wk c hc]
    simp [untag, List.map_map, Function.comp_def]

/-- … in particular for the code as it is. -/
theorem C03_label_irrelevant_code (wk : Walk) (k : Kind) (W : World) (ts : List (Nat × RTask × Bool × Option Nat)) :
    hitAllTagged wk codeCfg k W ts = hitAll wk codeCfg k W (untag ts) :=
  (C03_label_irrelevant codeCfg rfl wk k W ts).1

/-- Why ordinary worlds cannot tell the two ways of resolving apart: as long as every task runs
    in the environment it was launched for (label = owner) — and for every kind but
    TASK_INTERNAL_ERROR whatever the labels — BOTH give the unlabelled walk. -/
theorem C03_own_label_is_harmless (c : Cfg) (wk : Walk) (k : Kind) (W : World) (ts : List (Nat × RTask × Bool × Option Nat))
    (h : k ≠ .INTERNAL ∨ ∀ x ∈ ts, x.2.2.2 = x.2.1.owner) :
    hitAllTagged wk c k W ts = hitAll wk c k W (untag ts) := by
  rcases h with h | h
  · induction ts generalizing W with
    | nil => rfl
    | cons x ts ih =>
      obtain ⟨i, t, r, lab⟩ := x
      have h1 : hitTagged c k W i t r lab = hit c k W i t r := by
        unfold hitTagged; cases k <;> first | rfl | exact absurd rfl h
      simp only [hitAllTagged, untag, List.map_cons, hitAll, h1]
      split
      · rfl
      · exact ih _
  · exact hitAllTagged_own wk c k ts h W

/-- FULL-STRENGTH statement with labels: every world, every kind that drives, every snapshot whose
    entries carry ARBITRARY labels, every live environment `e` with a critical task among the
    entries (`t.owner = some e`: the task's environment NOW), every interleaving of the internal
    steps of all environments: once nothing is enabled, `e` is in ERROR. TRUE for the code
    (`C03_tagged_critical_to_error_code`), FALSE for a core that looks the environment up by
    the label (`C03_env_must_be_resolved_by_task`). -/
def C03_tagged_critical_to_error_full (c : Cfg) : Prop :=
  ∀ (W : World) (k : Kind) (ts : List (Nat × RTask × Bool × Option Nat)) (e : Nat) (s : Sys) (ls : List (Nat × Label)),
    W.envs[e]? = some s → Live s → k.drives c s.env.st = true →
    (∃ i t r lab, (i, t, r, lab) ∈ ts ∧ t.owner = some e ∧ critLeafAt s.f t.path = true) →
    wvalid c (hitAllTagged codeWalk c k W ts) ls = true →
    (s.chan = none ∨ rootHolds c (fail c k s (victimsFor e (untag ts))) (labelsOf e ls) = true) →
    wquiescent (wrun c (hitAllTagged codeWalk c k W ts) ls) = true →
    ∃ s', (wrun c (hitAllTagged codeWalk c k W ts) ls).envs[e]? = some s' ∧ s'.env.st = .ERROR

/-- **A failed critical task of a live environment drives THAT environment to ERROR, whatever
    the labels of the messages say** — the full-strength statement for the code as it is. -/
theorem C03_tagged_critical_to_error_code : C03_tagged_critical_to_error_full codeCfg := by
  intro W k ts e s ls hs hlive hk hcrit hv hprem hq
  rw [C03_label_irrelevant_code] at hv hq ⊢
  obtain ⟨i, t, r, lab, hm, ho, hc⟩ := hcrit
  exact C03_roster_critical_to_error_code W k (untag ts) e s ls hs hlive hk
    ⟨i, t, r, untag_mem ts i t r lab hm, ho, hc⟩ hv hprem hq

/-- The same with no hypothesis about the kind (every failure but exit status 0,
    TASK_INTERNAL_ERROR in any environment state and under any label included) and the step bound:
    `e` takes at most budget + 3·|snapshot| + 2 internal steps. -/
theorem C03_tagged_every_failure_to_error_code (W : World) (k : Kind) (ts : List (Nat × RTask × Bool × Option Nat))
    (e : Nat) (s : Sys) (ls : List (Nat × Label)) (hs : W.envs[e]? = some s) (hlive : Live s) (hk : k.exitZero = false)
    (hcrit : ∃ i t r lab, (i, t, r, lab) ∈ ts ∧ t.owner = some e ∧ critLeafAt s.f t.path = true)
    (hv : wvalid codeCfg (hitAllTagged codeWalk codeCfg k W ts) ls = true) (hch : s.chan = none) :
    (labelsOf e ls).length ≤ budget s + 3 * ts.length + 2 ∧
    (wquiescent (wrun codeCfg (hitAllTagged codeWalk codeCfg k W ts) ls) = true →
      ∃ s', (wrun codeCfg (hitAllTagged codeWalk codeCfg k W ts) ls).envs[e]? = some s' ∧ s'.env.st = .ERROR) := by
  rw [C03_label_irrelevant_code] at hv ⊢
  obtain ⟨i, t, r, lab, hm, ho, hc⟩ := hcrit
  have h := (C03_roster_critical_to_error W k (untag ts) e s hs hlive (drives_code k s.env.st hk)
    ⟨i, t, r, untag_mem ts i t r lab hm, ho, hc⟩).2.1 ls hv
  rw [untag_length] at h
  exact ⟨h.1, h.2 (Or.inl hch)⟩

/-- An environment none of whose CRITICAL tasks failed stays where it is — whatever the labels
    name, also the label of another environment's failing task that names THIS environment. -/
theorem C03_tagged_noncritical_inert_code (k : Kind) (W : World) (ts : List (Nat × RTask × Bool × Option Nat)) (e : Nat) (s : Sys)
    (hs : W.envs[e]? = some s)
    (hplain : ∀ i t r lab, (i, t, r, lab) ∈ ts → t.owner = some e → plainLeafAt s.f t.path = true) :
    ∃ s1, (hitAllTagged codeWalk codeCfg k W ts).envs[e]? = some s1 ∧
      s1.env = s.env ∧ s1.w = s.w ∧ s1.chan = s.chan ∧ s1.inflight = s.inflight ∧ s1.stopReq = s.stopReq ∧
      S s1.f = S s.f ∧ (∀ l, enabled s1 l = enabled s l) ∧ quiescent s1 = quiescent s := by
  rw [C03_label_irrelevant_code]
  refine C03_roster_noncritical_inert_code k W (untag ts) e s hs (fun i t r hm ho => ?_)
  obtain ⟨⟨i', t', r', lab⟩, hx, he⟩ := List.mem_map.mp hm
  simp only [Prod.mk.injEq] at he
  obtain ⟨rfl, rfl, rfl⟩ := he
  exact hplain _ _ _ lab hx ho

/-- One CONFIGURED environment with a critical and a non-critical task; both in the roster. -/
def wReused : World :=
  { envs := [wConfigured],
    roster := [{ owner := some 0, path := [0, 0], agent := 1, exec := 1 }, { owner := some 0, path := [0, 1], agent := 1, exec := 1 }] }

/-- **The environment must be found through the task, not through the label**: for a core that
    looks the environment up by the event's label, a critical task whose label names no
    environment (launched for an earlier environment that is gone, or no label at all)
    announces TASK_INTERNAL_ERROR — the lookup fails, the event is dropped, no internal step is
    enabled: the environment keeps reporting CONFIGURED with its critical task in ERROR. -/
theorem C03_env_must_be_resolved_by_task : ¬ C03_tagged_critical_to_error_full { codeCfg with envByTask := false } := by
  intro h
  obtain ⟨s', h1, h2⟩ := h wReused .INTERNAL [(0, { owner := some 0, path := [0, 0], agent := 1, exec := 1 }, true, none)] 0 wConfigured []
    rfl wConfigured_live (by decide) ⟨0, _, true, none, List.mem_cons_self .., rfl, by decide⟩ (by decide) (Or.inl rfl) (by decide)
  have h0 : (wrun { codeCfg with envByTask := false } (hitAllTagged codeWalk { codeCfg with envByTask := false } .INTERNAL wReused
      [(0, { owner := some 0, path := [0, 0], agent := 1, exec := 1 }, true, none)]) []).envs[0]? = some wConfigured := rfl
  rw [h0] at h1
  cases h1
  revert h2; decide

/-- The pictures (non-vacuity of the labelled model). `wReused`, the critical task announces
    TASK_INTERNAL_ERROR with a label that names no environment: the code as it is ends in ERROR
    (role ERROR, status untouched); the label-resolving core does nothing at all. `wShared`
    (environment 0 CONFIGURED, environment 1 RUNNING), label-resolving core: the critical task of
    the RUNNING environment, labelled with the CONFIGURED one — its role is told, environment 1
    goes to ERROR, but the run is not stopped first (transition bodies run in environment 1: one,
    GO_ERROR; the code: two, STOP_ACTIVITY then GO_ERROR);
    the critical task of the CONFIGURED environment, labelled with the RUNNING one — environment 0
    goes to ERROR and the STOP request lands in environment 1: a healthy environment's run is
    stopped because of another environment's task. The code as it is: environment 1 untouched. -/
theorem C03_foreign_label_witness :
    let byLabel : Cfg := { codeCfg with envByTask := false }
    let a := wsettle codeCfg 16 (worldFailTagged codeWalk codeCfg .INTERNAL wReused (.task 0) none)
    let b := worldFailTagged codeWalk byLabel .INTERNAL wReused (.task 0) none
    let c1 := wsettle byLabel 16 (worldFailTagged codeWalk byLabel .INTERNAL wShared (.task 3) (some 0))
    let c0 := wsettle codeCfg 16 (worldFailTagged codeWalk codeCfg .INTERNAL wShared (.task 3) (some 0))
    let d1 := wsettle byLabel 16 (worldFailTagged codeWalk byLabel .INTERNAL wShared (.task 1) (some 1))
    let d0 := wsettle codeCfg 16 (worldFailTagged codeWalk codeCfg .INTERNAL wShared (.task 1) (some 1))
    (wquiescent a = true ∧ a.envs.map (·.env.st) = [.ERROR] ∧
      a.envs.map (fun s => (leaves s.f).map (·.2)) = [[(.ERROR, .ACTIVE), (.CONFIGURED, .ACTIVE)]]) ∧
    (wquiescent b = true ∧ b.envs.map (·.env.st) = [.CONFIGURED] ∧
      b.envs.map (fun s => (leaves s.f).map (·.2)) = [[(.CONFIGURED, .ACTIVE), (.CONFIGURED, .ACTIVE)]]) ∧
    (c1.envs.map (·.env.st) = [.CONFIGURED, .ERROR] ∧ c0.envs.map (·.env.st) = [.CONFIGURED, .ERROR] ∧
      (c1.envs.map (fun s => (s.log.filter isBody).length)) = [0, 1] ∧ (c0.envs.map (fun s => (s.log.filter isBody).length)) = [0, 2]) ∧
    (d1.envs.map (·.env.st) = [.ERROR, .CONFIGURED] ∧ d0.envs.map (·.env.st) = [.ERROR, .RUNNING] ∧
      d1.envs.map (·.stopped) = [[], [[0, 0], [0, 1]]] ∧ d0.envs.map (·.stopped) = [[], []]) := by
  decide
