/-
  Props/C04 — "A task or detector belongs to at most one environment".

  Property theorems only (names `C04_*` are the proof obligations counted in the
  evidence file); the model is Model/Own.lean, the predicates Spec/C04.lean, the
  lemmas Proofs/Own.lean.

  The theorems quantify over ALL step sequences (`Own.Step`): creations cut into
  their atomic parts (detector snapshot · pre-deployment cleanup · load, detector
  check and insertion · [claim] · deployment, configuration and failure tail),
  control requests, destroys with every flag, cleanups, with arbitrary oracles
  for everything the code leaves to the scheduler or to the tasks. The model is
  tied to the real core by the correspondence run (harness/props/c04: the real
  core behind the whole-core simulator, monitor Driver/OwnCommon).

  Two statements do NOT hold of the code as it is; they are kept visible as
  `…_full`, proved under the hypothesis that excludes the offending schedules,
  and refuted on a schedule that the real core was seen to follow:
    * detector exclusivity needs the detector check and the insertion not to
      interleave with another creation's (finding create_race);
    * with reuseUnlockedTasks a creation that claims a task for every one of its
      roles kills the core process (finding reuse_full_claim_crash).
-/
import ControlModel.Proofs.Own

open Own

/-! ## ownership of tasks -/

/-- **Every task is referenced by at most one live environment, and a task an
    environment references is owned by it or by nobody** — after any sequence of
    steps (any interleaving of the atomic parts of creations with control
    requests, destroys and cleanups, any oracles), with or without
    reuseUnlockedTasks, as long as acquireTasks' claim and commit are not
    separated by other steps (see `C04_claim_race_schedule`). -/
theorem C04_inv (reuse : Bool) (hosts : List Host) (steps : List Step) (h : noClaimSteps steps = true) :
    exclusiveTasks (viewOf (run (init reuse hosts) steps)) = true :=
  exclusiveTasks_of_inv _ (inv_run _ steps h (inv_init reuse hosts))

/-- The structural invariant behind it (roster ids unique, task ids fresh, environment ids
    never reused, a live environment's tasks carry its id as parent, …). -/
theorem C04_invariant (reuse : Bool) (hosts : List Host) (steps : List Step) (h : noClaimSteps steps = true) :
    Inv (run (init reuse hosts) steps) :=
  inv_run _ steps h (inv_init reuse hosts)

/-- **Every KILL call names a task that has no owner at that instant**: whatever
    the schedule (claim steps included), every entry of the kill log carries owner `none`. -/
theorem C04_kill_only_unlocked (reuse : Bool) (hosts : List Host) (steps : List Step) :
    ∀ e ∈ (run (init reuse hosts) steps).killLog, e.2 = none :=
  killOk_run _ steps (by intro e he; simp [init] at he)

/-- Cleanup and KillTasks never pick a locked task: the tasks they hand to doKillTasks are
    all unlocked, whatever the roster looks like. -/
theorem C04_cleanup_spares_owned (s : State) (ids : List TaskId) :
    (∀ t ∈ s.roster.filter (fun t => !t.isLocked), t.isLocked = false) ∧
    (∀ t ∈ s.roster.filter (fun t => !t.isLocked && decide (t.id ∈ ids)), t.isLocked = false) ∧
    (∀ t ∈ (cleanup s).roster, t ∈ s.roster) ∧
    (∀ t ∈ s.roster, t.isLocked = true → (s.roster.map (·.id)).Nodup → t ∈ (cleanup s).roster) := by
  refine ⟨?_, ?_, ?_, ?_⟩
  · intro t ht; simpa using (List.mem_filter.mp ht).2
  · intro t ht
    have := (List.mem_filter.mp ht).2
    simp only [Bool.and_eq_true, Bool.not_eq_true', decide_eq_true_eq] at this
    exact this.1
  · intro t ht; exact (List.mem_filter.mp ht).1
  · intro t ht hl hnd
    simp only [cleanup, doKill, List.mem_filter, decide_eq_true_eq, List.mem_map, not_exists, not_and]
    refine ⟨ht, ?_⟩
    intro u hu hid
    obtain ⟨hum, hul⟩ := hu
    have : u = t := eq_of_nodup_map _ _ hnd hum ht hid
    subst this
    simp [hl] at hul

/-- **Release refuses a task locked by another environment** and leaves it exactly as it
    was; a task of the releasing environment (or of nobody) is released. -/
theorem C04_release_foreign_refused (e : EnvId) (t : Task) :
    (t.isLocked = true → t.parent ≠ some e → releaseTask e t = (t, false)) ∧
    ((t.parent = some e ∨ t.isLocked = false) → releaseTask e t = ({ t with parent := none }, true)) := by
  constructor
  · intro hl hp
    simp [releaseTask, releaseOk, hl, hp]
  · intro h
    rcases h with h | h
    · simp [releaseTask, releaseOk, h]
    · simp [releaseTask, releaseOk, h]

/-- At the level of a ReleaseTasks message: tasks locked by another environment are counted as
    release errors and stay untouched. -/
theorem C04_release_message_foreign (s : State) (e : EnvId) (ids : List TaskId) (t : Task) (ht : t ∈ s.roster)
    (hl : t.isLocked = true) (hp : t.parent ≠ some e) :
    t ∈ (releaseTasks s e ids).1.roster ∧ (t.id ∈ ids → (releaseTasks s e ids).2 > 0) := by
  have hrel : (releaseTask e t).1 = t := by rw [(C04_release_foreign_refused e t).1 hl hp]
  constructor
  · simp only [releaseTasks, List.mem_map]
    refine ⟨t, ht, ?_⟩
    by_cases hi : t.id ∈ ids <;> simp [hi, hrel]
  · intro hi
    simp only [releaseTasks, gt_iff_lt, List.length_pos_iff_exists_mem]
    refine ⟨t, List.mem_filter.mpr ⟨ht, ?_⟩⟩
    simp [hi, releaseOk, hl, hp]

/-! ## detectors -/

/-- **Creating an environment that needs a detector already in use fails at the detector
    check and disturbs nothing that is owned**: as one uninterrupted call, the creation
    answers "detector in use", the listing is what it was, every locked task is still in the
    roster unchanged and the master's table was touched only in rows of tasks that were
    unlocked (the pre-deployment cleanup). -/
theorem C04_create_conflict_inert (s : State) (k : EnvId) (spec : EnvSpec) (o : SettleOracle)
    (hinv : Inv s) (hfresh : k ∉ s.used) (hok : spec.bad = .ok)
    (hconf : ∃ d ∈ spec.dets, d ∈ s.activeDets) :
    (create s k spec o).2 = .errDetector ∧
    (create s k spec o).1.envs = s.envs ∧
    (∀ t ∈ s.roster, t.isLocked = true → t ∈ (create s k spec o).1.roster) ∧
    (∀ m ∈ s.master, (∀ t ∈ s.roster, t.id = m.id → t.isLocked = true) → m ∈ (create s k spec o).1.master) := by
  obtain ⟨h1, h2, h3, h4⟩ := create_conflict_fields s k spec o hfresh hok hconf
  refine ⟨h1, h2, ?_, ?_⟩
  · intro t ht hl
    rw [h3]
    exact (C04_cleanup_spares_owned s []).2.2.2 t ht hl hinv.rosterNodup
  · intro m hm hall
    rw [h4]
    simp only [cleanup, doKill, killMany, List.mem_map]
    refine ⟨m, hm, ?_⟩
    have : m.id ∉ List.map (fun x => x.id) (List.filter (fun x => x.active) (List.filter (fun t => !t.isLocked) s.roster)) := by
      intro hmem
      obtain ⟨u, hu, hid⟩ := List.mem_map.mp hmem
      have hu2 := (List.mem_filter.mp (List.mem_filter.mp hu).1)
      have := hall u hu2.1 hid
      simp [this] at hu2
    rw [if_neg (by simpa [List.mem_map] using this)]

/-- The full-strength detector claim: after any step sequence no detector is part of two listed environments. -/
def C04_det_excl_full : Prop :=
  ∀ (reuse : Bool) (hosts : List Host) (steps : List Step), exclusiveDets (viewOf (run (init reuse hosts) steps)) = true

/-- **No detector is part of two listed environments** after any step sequence in which every
    detector check-and-insert happens while no other creation sits between its detector
    snapshot and its own check (`overlapFree`: what holding one lock from the snapshot to the
    insertion would guarantee). -/
theorem C04_det_excl_partial (reuse : Bool) (hosts : List Host) (steps : List Step)
    (h : overlapFree (init reuse hosts) steps = true) :
    exclusiveDets (viewOf (run (init reuse hosts) steps)) = true :=
  exclusiveDets_of_detOk _ (det_run _ steps h (by intro a ha; simp [init] at ha) (by intro p hp; simp [init] at hp))

/-- Two creations that need detector 0, on different hosts. -/
def raceSpec (cls : Cls) (host : Host) : EnvSpec :=
  { bad := .ok, dets := [0], roles := [{ kind := .task, cls := cls, host := host }] }

/-- Both read the active detectors before either is entered in the map (the schedule the real
    core follows when two NewEnvironment requests arrive together: witness of finding create_race). -/
def raceSchedule : List Step :=
  [.createBegin 0 (raceSpec 1 1), .createBegin 1 (raceSpec 2 2),
   .createCleanup 0, .createCleanup 1, .createInsert 0, .createInsert 1,
   .createSettle 0 {}, .createSettle 1 {}]

/-- **Finding create_race**: CreateEnvironment reads the active detectors at its very
    beginning and enters the environment in the map much later, holding no lock in between:
    on `raceSchedule` both creations succeed and detector 0 is part of two listed
    environments. -/
theorem C04_finding_create_race : ¬ C04_det_excl_full := by
  intro h
  have := h false [1, 2, 3, 4] raceSchedule
  revert this
  decide

/-- The schedule is excluded by the hypothesis of `C04_det_excl_partial`, as it must be. -/
theorem C04_race_schedule_overlaps : overlapFree (init false [1, 2, 3, 4]) raceSchedule = false := by decide

/-! ## reuse of unlocked tasks -/

/-- The full-strength claim about the process: no step sequence kills the core. -/
def C04_no_crash_full : Prop :=
  ∀ (reuse : Bool) (hosts : List Host) (steps : List Step), (run (init reuse hosts) steps).crashed = false

/-- Without reuseUnlockedTasks no step sequence kills the core. -/
theorem C04_no_crash_partial (hosts : List Host) (steps : List Step) :
    (run (init false hosts) steps).crashed = false := by
  have key : ∀ (s : State), s.reuse = false → s.crashed = false → ∀ st, (step s st).1.reuse = false ∧ (step s st).1.crashed = false := by
    intro s hr hc st
    have hsub : ∀ s' : State, s'.reuse = s.reuse → s'.crashed = s.crashed → s'.reuse = false ∧ s'.crashed = false :=
      fun s' a b => ⟨a.trans hr, b.trans hc⟩
    unfold step
    rw [hc]
    simp only [Bool.false_eq_true, if_false]
    cases st with
    | createBegin k spec => simp only [createBegin]; split; exact ⟨hr, hc⟩; split <;> exact ⟨hr, hc⟩
    | createCleanup k => simp only [createCleanup]; split <;> exact ⟨hr, hc⟩
    | createInsert k =>
      simp only [createInsert]; split; exact ⟨hr, hc⟩; split; exact ⟨hr, hc⟩; split <;> exact ⟨hr, hc⟩
    | createClaim k => simp only [createClaim]; split <;> exact ⟨hr, hc⟩
    | createSettle k o => exact crash_free_settle s k o hr hc
    | control k ev fails pre => exact crash_free_control s k ev fails pre hr hc
    | destroy k f a kp o => exact crash_free_destroy s k f a kp o hr hc
    | cleanup => exact ⟨hr, hc⟩
    | killIds ids => simp only [cleanupTasks]; split <;> exact ⟨hr, hc⟩
    | mesosStart k => exact ⟨hr, hc⟩
    | execLost h => exact ⟨hr, hc⟩
    | agentLost h => exact ⟨hr, hc⟩
    | watchError k fails => simp only [watchError]; split; exact ⟨hr, hc⟩; split <;> exact ⟨hr, hc⟩
  have : ∀ (steps : List Step) (s : State), s.reuse = false → s.crashed = false → (run s steps).crashed = false := by
    intro steps
    induction steps with
    | nil => intro s _ hc; exact hc
    | cons st rest ih => intro s hr hc; exact ih _ (key s hr hc st).1 (key s hr hc st).2
  exact this steps _ rfl rfl

/-- An environment is destroyed with keepTasks while a second one, with the same task class on
    the same host, is between its pre-deployment cleanup and its acquireTasks. -/
def crashSchedule : List Step :=
  [.createBegin 0 { bad := .ok, dets := [0], roles := [{ kind := .task, cls := 1, host := 1 }] },
   .createCleanup 0, .createInsert 0, .createSettle 0 {},
   .control 0 .RESET [] false,
   .createBegin 1 { bad := .ok, dets := [1], roles := [{ kind := .task, cls := 1, host := 1 }] },
   .createCleanup 1,
   .destroy 0 false false true {},
   .createInsert 1, .createSettle 1 {}]

/-- **Finding reuse_full_claim_crash**: with reuseUnlockedTasks, acquireTasks skips
    `deployMu.Lock()` when every descriptor was satisfied by a claimed task, but not the
    `deployMu.Unlock()` that follows: "fatal error: sync: unlock of unlocked mutex" ends the
    core, and with it every environment. -/
theorem C04_finding_reuse_full_claim_crash : ¬ C04_no_crash_full := by
  intro h
  have := h true [1, 2, 3, 4] crashSchedule
  revert this
  decide

/-- With the claim of acquireTasks run as a step of its own (it holds no lock), two creations
    can claim the same unlocked task; both commit, and the task is referenced by two live
    environments. Seen on the model only: the real core was not caught in this window
    (the crash above ends such runs first when the claim is complete). -/
def claimRaceSchedule : List Step :=
  [.createBegin 0 { bad := .ok, dets := [0], roles := [{ kind := .task, cls := 1, host := 1 }] },
   .createCleanup 0, .createInsert 0, .createSettle 0 {},
   .control 0 .RESET [] false,
   .createBegin 1 { bad := .ok, dets := [1], roles := [{ kind := .task, cls := 1, host := 1 }, { kind := .task, cls := 2, host := 2 }] },
   .createBegin 2 { bad := .ok, dets := [2], roles := [{ kind := .task, cls := 1, host := 1 }, { kind := .task, cls := 3, host := 3 }] },
   .createCleanup 1, .createCleanup 2,
   .destroy 0 false false true {},
   .createInsert 1, .createInsert 2,
   .createClaim 1, .createClaim 2,
   .createSettle 1 {}, .createSettle 2 {}]

theorem C04_claim_race_schedule :
    exclusiveTasks (viewOf (run (init true [1, 2, 3, 4]) claimRaceSchedule)) = false := by decide
