/-
  Props/C04 — "A task or detector belongs to at most one environment".

  Property theorems only (names `C04_*` are the proof obligations counted in the
  evidence file); the model is Model/Own.lean, the predicates Spec/C04.lean, the
  lemmas Proofs/Own.lean.

  The theorems quantify over ALL step sequences (`Own.Step`): creations cut into
  their atomic parts (detector snapshot · pre-deployment cleanup · load, detector
  check and insertion · [claim] · deployment, configuration and failure tail),
  control requests, destroys with every flag, cleanups, with arbitrary oracles
  for everything the code leaves to the scheduler or to the tasks. The model is
  tied to the real core by the correspondence run (harness/props/c04: the real
  core behind the whole-core simulator, monitor Driver/OwnCommon).

  A state carries the configuration it runs under (`Own.Cfg`): `codeCfg` is the code
  as it is, `legacyCfg` the code before the repairs notes/C04.fix-1, C06.fix-1 and C06.fix-2.
  Theorems that do not depend on it are stated for every configuration.

  Two statements do NOT hold of the code as it is; each is kept visible as
  `…_full`, proved under the hypothesis that excludes the offending schedules,
  and refuted on a schedule that the real core was seen to follow:
    * detector exclusivity needs the detector check and the insertion not to
      interleave with another creation's (finding create_race);
    * with reuseUnlockedTasks two creations whose DEPLOY sections overlap can both commit
      an unlocked task both had earmarked (acquireTasks' reuse loop and its final SetParent
      hold no lock): two live environments reference one task, and the loser of the commit
      stays listed in ERROR for ever (finding reuse_claim_race: `C04_overlapping_deploy_full`,
      `C04_overlapping_deploy_partial`, `C04_finding_reuse_claim_race`,
      `C04_claim_race_leaves_zombie`).
  A creation — failed or not — never changes the owner of a task of another live environment
  (`C04_create_spares_foreign_tasks`, `C04_failed_create_keeps_foreign_locked`; go/ast tie
  `C04_failed_create_unparents_only_own_is_code`: the failure branch of acquireTasks un-parents
  only the tasks it launched).
  One statement did not hold and does now (finding reuse_full_claim_crash, fixed):
    * with reuseUnlockedTasks a creation that claimed a task for every one of its
      roles killed the core process: acquireTasks called deployMu.Unlock() outside the
      block that takes the lock. `C04_no_crash_code` proves `C04_no_crash_full codeCfg`,
      `C04_finding_reuse_full_claim_crash` refutes `C04_no_crash_full legacyCfg`, and
      `C04_deployMu_is_code` ties `codeCfg.unlockUnpaired` to the go/ast fact read from
      core/task/manager.go.

  STATUS UPDATES WHOSE OPTIONAL FIELDS ARE ABSENT (last section). A task belongs to its environment until it is
  released — whatever the master tells the core about it in between. `Own.Step.statusUpdate t u` is updateTaskStatus for
  a running task: TASK_RUNNING or a state the switch has no case for, with agent_id / executor_id present or not (an
  update built by the master, e.g. the answer to a reconciliation after a re-subscription, need not carry them; the
  AliECS executor's always do). It is a step like any other, so `C04_inv`, `C04_invariant`, `C04_kill_only_unlocked`
  quantify over histories that contain any number of them. On top: the step changes NOTHING an observer of ownership
  can see (`C04_status_update_invisible`), entry by entry it keeps owner and lock and makes no owned task claimable
  (`C04_status_update_keeps_lock`), and a sweep of unowned tasks or a KillTasks request that follows it spares every
  task that was locked before it (`C04_status_then_sweep_spares_owned`). This rests on the two nil guards in front of
  the id copies of updateTaskStatus (Model/TaskIds.lean `Guards`; `C04_status_id_copy_is_code` ties `idGuardsInCode` to
  go/ast facts regenerated on every run, incl. the list of ALL writers of the two ids in package core/task):
  `C04_id_guards_needed` — a guard configuration keeps every locked task locked under every update iff it is the
  code's —, `C04_unguarded_id_copy_unlocks_owned` — without the guards (NOT the code) one TASK_RUNNING without
  executor_id un-owns a task of a live environment, the next Cleanup kills it, with reuseUnlockedTasks it is
  claimable: Spec.C04 rejects both rounds —, `C04_complete_updates_hide_the_difference` — complete updates cannot tell
  the two apart, which is why ordinary operation never shows it.
-/
import ControlModel.Proofs.OwnOverlap
import ControlModel.Gen.C04Facts
import ControlModel.Gen.TaskIdFacts

open Own

/-! ## ownership of tasks -/

/-- **Every task is referenced by at most one live environment, and a task an
    environment references is owned by it or by nobody** — after any sequence of
    steps (any interleaving of the atomic parts of creations with control
    requests, destroys and cleanups, any oracles), with or without
    reuseUnlockedTasks, as long as acquireTasks' claim and commit are not
    separated by other steps (see `C04_claim_race_schedule`). -/
theorem C04_inv (reuse : Bool) (hosts : List Host) (c : Cfg) (steps : List Step) (h : noClaimSteps steps = true) :
    exclusiveTasks (viewOf (run (init reuse hosts c) steps)) = true :=
  exclusiveTasks_of_inv _ (inv_run _ steps h (inv_init reuse hosts c))

/-- The structural invariant behind it (roster ids unique, task ids fresh, environment ids
    never reused, a live environment's tasks carry its id as parent, …). -/
theorem C04_invariant (reuse : Bool) (hosts : List Host) (c : Cfg) (steps : List Step) (h : noClaimSteps steps = true) :
    Inv (run (init reuse hosts c) steps) :=
  inv_run _ steps h (inv_init reuse hosts c)

/-- **Every KILL call names a task that has no owner at that instant**: whatever
    the schedule (claim steps included), every entry of the kill log carries owner `none`. -/
theorem C04_kill_only_unlocked (reuse : Bool) (hosts : List Host) (c : Cfg) (steps : List Step) :
    ∀ e ∈ (run (init reuse hosts c) steps).killLog, e.2 = none :=
  killOk_run _ steps (by intro e he; simp [init] at he)

/-- Cleanup and KillTasks never pick a locked task: the tasks they hand to doKillTasks are
    all unlocked, whatever the roster looks like. -/
theorem C04_cleanup_spares_owned (s : State) (ids : List TaskId) :
    (∀ t ∈ s.roster.filter (fun t => !t.isLocked), t.isLocked = false) ∧
    (∀ t ∈ s.roster.filter (fun t => !t.isLocked && decide (t.id ∈ ids)), t.isLocked = false) ∧
    (∀ t ∈ (cleanup s).roster, t ∈ s.roster) ∧
    (∀ t ∈ s.roster, t.isLocked = true → (s.roster.map (·.id)).Nodup → t ∈ (cleanup s).roster) := by
  refine ⟨?_, ?_, ?_, ?_⟩
  · intro t ht; simpa using (List.mem_filter.mp ht).2
  · intro t ht
    have := (List.mem_filter.mp ht).2
    simp only [Bool.and_eq_true, Bool.not_eq_true', decide_eq_true_eq] at this
    exact this.1
  · intro t ht; exact mem_doKill_roster List.filter_sublist ht
  · intro t ht hl hnd
    unfold cleanup
    rw [doKill_roster]
    refine List.mem_append.mpr (Or.inl ?_)
    simp only [List.mem_filter, decide_eq_true_eq, List.mem_map, not_exists, not_and]
    refine ⟨ht, ?_⟩
    intro u hu hid
    obtain ⟨hum, hul⟩ := hu
    have : u = t := eq_of_nodup_map _ _ hnd hum ht hid
    subst this
    simp [hl] at hul

/-- **Release refuses a task locked by another environment** and leaves it exactly as it
    was; a task of the releasing environment (or of nobody) is released. -/
theorem C04_release_foreign_refused (e : EnvId) (t : Task) :
    (t.isLocked = true → t.parent ≠ some e → releaseTask e t = (t, false)) ∧
    ((t.parent = some e ∨ t.isLocked = false) → releaseTask e t = ({ t with parent := none }, true)) := by
  constructor
  · intro hl hp
    simp [releaseTask, releaseOk, hl, hp]
  · intro h
    rcases h with h | h
    · simp [releaseTask, releaseOk, h]
    · simp [releaseTask, releaseOk, h]

/-- At the level of a ReleaseTasks message: tasks locked by another environment are counted as
    release errors and stay untouched. -/
theorem C04_release_message_foreign (s : State) (e : EnvId) (ids : List TaskId) (t : Task) (ht : t ∈ s.roster)
    (hl : t.isLocked = true) (hp : t.parent ≠ some e) :
    t ∈ (releaseTasks s e ids).1.roster ∧ (t.id ∈ ids → (releaseTasks s e ids).2 > 0) := by
  have hrel : (releaseTask e t).1 = t := by rw [(C04_release_foreign_refused e t).1 hl hp]
  constructor
  · simp only [releaseTasks, List.mem_map]
    refine ⟨t, ht, ?_⟩
    by_cases hi : t.id ∈ ids <;> simp [hi, hrel]
  · intro hi
    simp only [releaseTasks, gt_iff_lt, List.length_pos_iff_exists_mem]
    refine ⟨t, List.mem_filter.mpr ⟨ht, ?_⟩⟩
    simp [hi, releaseOk, hl, hp]

/-! ## detectors -/

/-- **Creating an environment that needs a detector already in use fails at the detector
    check and disturbs nothing that is owned**: as one uninterrupted call, the creation
    answers "detector in use", the listing is what it was, every locked task is still in the
    roster unchanged and the master's table was touched only in rows of tasks that were
    unlocked (the pre-deployment cleanup). -/
theorem C04_create_conflict_inert (s : State) (k : EnvId) (spec : EnvSpec) (o : SettleOracle)
    (hinv : Inv s) (hfresh : k ∉ s.used) (hok : spec.bad = .ok)
    (hconf : ∃ d ∈ spec.dets, d ∈ s.activeDets) :
    (create s k spec o).2 = .errDetector ∧
    (create s k spec o).1.envs = s.envs ∧
    (∀ t ∈ s.roster, t.isLocked = true → t ∈ (create s k spec o).1.roster) ∧
    (∀ m ∈ s.master, (∀ t ∈ s.roster, t.id = m.id → t.isLocked = true) → m ∈ (create s k spec o).1.master) := by
  obtain ⟨h1, h2, h3, h4⟩ := create_conflict_fields s k spec o hfresh hok hconf
  refine ⟨h1, h2, ?_, ?_⟩
  · intro t ht hl
    rw [h3]
    exact (C04_cleanup_spares_owned s []).2.2.2 t ht hl hinv.rosterNodup
  · intro m hm hall
    rw [h4]
    simp only [cleanup, doKill, killMany, List.mem_map]
    refine ⟨m, hm, ?_⟩
    have : m.id ∉ List.map (fun x => x.id) (List.filter (fun t => decide (t.id ∉ s.refusing))
        (List.filter (fun x => x.active) (List.filter (fun t => !t.isLocked) s.roster))) := by
      intro hmem
      obtain ⟨u, hu, hid⟩ := List.mem_map.mp hmem
      have hu2 := (List.mem_filter.mp (List.mem_filter.mp (List.mem_filter.mp hu).1).1)
      have := hall u hu2.1 hid
      simp [this] at hu2
    rw [if_neg (by simpa [List.mem_map] using this)]

/-- The full-strength detector claim: after any step sequence no detector is part of two listed environments. -/
def C04_det_excl_full (c : Cfg) : Prop :=
  ∀ (reuse : Bool) (hosts : List Host) (steps : List Step), exclusiveDets (viewOf (run (init reuse hosts c) steps)) = true

/-- **No detector is part of two listed environments** after any step sequence in which every
    detector check-and-insert happens while no other creation sits between its detector
    snapshot and its own check (`overlapFree`: what holding one lock from the snapshot to the
    insertion would guarantee). -/
theorem C04_det_excl_partial (reuse : Bool) (hosts : List Host) (c : Cfg) (steps : List Step)
    (h : overlapFree (init reuse hosts c) steps = true) :
    exclusiveDets (viewOf (run (init reuse hosts c) steps)) = true :=
  exclusiveDets_of_detOk _ (det_run _ steps h (by intro a ha; simp [init] at ha) (by intro p hp; simp [init] at hp))

/-- Two creations that need detector 0, on different hosts. -/
def raceSpec (cls : Cls) (host : Host) : EnvSpec :=
  { bad := .ok, dets := [0], roles := [{ kind := .task, cls := cls, host := host }] }

/-- Both read the active detectors before either is entered in the map (the schedule the real
    core follows when two NewEnvironment requests arrive together: witness of finding create_race). -/
def raceSchedule : List Step :=
  [.createBegin 0 (raceSpec 1 1), .createBegin 1 (raceSpec 2 2),
   .createCleanup 0, .createCleanup 1, .createInsert 0, .createInsert 1,
   .createSettle 0 {}, .createSettle 1 {}]

/-- **Finding create_race**: CreateEnvironment reads the active detectors at its very
    beginning and enters the environment in the map much later, holding no lock in between:
    on `raceSchedule` both creations succeed and detector 0 is part of two listed
    environments — in the code as it is. -/
theorem C04_finding_create_race : ¬ C04_det_excl_full codeCfg := by
  intro h
  have := h false [1, 2, 3, 4] raceSchedule
  revert this
  decide

/-- The schedule is excluded by the hypothesis of `C04_det_excl_partial`, as it must be. -/
theorem C04_race_schedule_overlaps : overlapFree (init false [1, 2, 3, 4]) raceSchedule = false := by decide

/-! ## reuse of unlocked tasks -/

/-- The full-strength claim about the process: no step sequence kills the core. -/
def C04_no_crash_full (c : Cfg) : Prop :=
  ∀ (reuse : Bool) (hosts : List Host) (steps : List Step), (run (init reuse hosts c) steps).crashed = false

/-- **No step sequence kills the core** — the code as it is, with or without
    reuseUnlockedTasks: acquireTasks unlocks deployMu inside the block that locks it, so a
    deployment with nothing to run (every descriptor claimed) touches the mutex not at all. -/
theorem C04_no_crash_code : C04_no_crash_full codeCfg := by
  intro reuse hosts steps
  exact (rc_run steps (init reuse hosts codeCfg) (Or.inr rfl)).2.1

/-- Without reuseUnlockedTasks no step sequence kills the core, whatever the configuration. -/
theorem C04_no_crash_partial (hosts : List Host) (c : Cfg) (steps : List Step) :
    (run (init false hosts c) steps).crashed = false :=
  (rc_run steps (init false hosts c) (Or.inl rfl)).2.1

/-- The configuration and the flag never change in a run that does not crash (and `run` does
    nothing after a crash): every state of a run is judged by the configuration it started in. -/
theorem C04_cfg_constant (reuse : Bool) (hosts : List Host) (steps : List Step) :
    (run (init reuse hosts codeCfg) steps).cfg = codeCfg ∧ (run (init reuse hosts codeCfg) steps).reuse = reuse :=
  ⟨(rc_run steps (init reuse hosts codeCfg) (Or.inr rfl)).2.2, (rc_run steps (init reuse hosts codeCfg) (Or.inr rfl)).1⟩

/-- **The model's acquireTasks is the code's**: go/ast of core/task/manager.go finds every
    `m.deployMu.Lock()` of acquireTasks followed by its `m.deployMu.Unlock()` in the same
    block, with no way out of the block in between, and no other Lock/Unlock of deployMu in
    the function (`Gen.lockUnlockPaired`). Reverting notes/C04.fix-1.patch breaks this theorem. -/
theorem C04_deployMu_is_code : codeCfg.unlockUnpaired = !Gen.lockUnlockPaired ∧
    Gen.deployMuLocks = 1 ∧ Gen.deployMuUnlocks = 1 := by decide

/-! ## a creation and the tasks of the other environments -/

/-- **The settling of a creation — DEPLOY (acquireTasks: claim of unlocked tasks, launches), CONFIGURE and, if either
    fails, the failure tail (GO_ERROR, forced teardown, KillTasks) — never changes the owner of a task that another
    live environment references**: in every state of every run (`Inv`), for every oracle, with or without
    reuseUnlockedTasks, whether the creation of `k` succeeds or fails, a roster task referenced by a listed
    environment `E ≠ k` is owned by `E` before and after; `E`'s record is the very same afterwards. In particular a
    FAILED creation un-parents nothing but what it launched or claimed itself. -/
theorem C04_create_spares_foreign_tasks (s : State) (k : EnvId) (o : SettleOracle) (h : Inv s)
    (E : Env) (hE : E ∈ s.envs) (hne : E.id ≠ k) (hte : E.tearing = false) :
    E ∈ (createSettle s k o).1.envs ∧
    (∀ t ∈ s.roster, t.id ∈ E.tasks → t.parent = some E.id) ∧
    (∀ t' ∈ (createSettle s k o).1.roster, t'.id ∈ E.tasks → t'.parent = some E.id) :=
  ⟨keepsOthers_createSettle s k o E hE hne, (createSettle_spares_foreign s k o h E hE hne hte).1,
   (createSettle_spares_foreign s k o h E hE hne hte).2⟩

/-- … and a task locked by a live environment is never taken out of the roster by it: the KillTasks of the failure
    tail (like every Cleanup / KillTasks, `C04_cleanup_spares_owned`) only picks unlocked tasks, and a creation claims
    only tasks that are claimable — unlocked — at that moment (`computeClaims_sound`). Stated for the failure tail:
    a task locked by an environment other than `k` is in the roster after `createFail`, exactly as it was. -/
theorem C04_failed_create_keeps_foreign_locked (s : State) (k : EnvId) (ids : List TaskId) (late : Bool) (res : Res)
    (hf : List TaskId) (hnd : (s.roster.map (·.id)).Nodup) (t : Task) (ht : t ∈ s.roster) (hl : t.isLocked = true)
    (hp : t.parent ≠ some k) : t ∈ (createFail s k ids late res hf).1.roster := by
  -- the forced teardown of k leaves t as it is
  have hrel : ∀ (s' : State) (ids' : List TaskId), t ∈ s'.roster → t ∈ (releaseTasks s' k ids').1.roster := by
    intro s' ids' ht'
    exact (C04_release_message_foreign s' k ids' t ht' hl hp).1
  have htd : ∀ (s' : State), t ∈ s'.roster → t ∈ (teardown s' k true late hf).1.roster := by
    intro s' ht'
    unfold teardown
    split
    · exact ht'
    · split
      · exact ht'
      split
      · exact ht'
      split
      · exact ht'
      simp only []
      split
      · exact hrel _ _ ht'
      · rename_i E _ _ _ _ _
        have h1 := hrel s' (tdPlain E) ht'
        unfold tdFinish
        simp only []
        split
        · exact h1
        · have h2 : t ∈ (releaseTasks (tdCancel (releaseTasks s' k (tdPlain E)).1 k E) k (tdMsg (releaseTasks s' k (tdPlain E)).1 E)).1.roster :=
            hrel _ _ h1
          split
          · exact h2
          · exact h2
  have h1 : t ∈ (teardown (setEnv s k (fun X => { X with state := .ERROR })) k true late hf).1.roster := htd _ ht
  have hnd1 : ((teardown (setEnv s k (fun X => { X with state := .ERROR })) k true late hf).1.roster.map (·.id)).Nodup := by
    have : ∀ (s' : State), (s'.roster.map (·.id)).Nodup → ((teardown s' k true late hf).1.roster.map (·.id)).Nodup := by
      intro s' hnd'
      have hr : ∀ (s'' : State) (ids' : List TaskId), (s''.roster.map (·.id)).Nodup → ((releaseTasks s'' k ids').1.roster.map (·.id)).Nodup := by
        intro s'' ids' h''
        simp only [releaseTasks, List.map_map]
        have : ((fun (x : Task) => x.id) ∘ fun t => if t.id ∈ ids' then (releaseTask k t).1 else t) = fun x => x.id := by
          funext x
          simp only [Function.comp]
          split
          · exact (releaseTask_props k x).1
          · rfl
        rw [this]; exact h''
      unfold teardown
      split
      · exact hnd'
      · split
        · exact hnd'
        split
        · exact hnd'
        split
        · exact hnd'
        simp only []
        split
        · exact hr _ _ hnd'
        · unfold tdFinish
          simp only []
          split
          · exact hr _ _ hnd'
          · split
            · exact hr _ _ (hr _ _ hnd')
            · exact hr _ _ (hr _ _ hnd')
    exact this _ hnd
  unfold createFail
  simp only []
  split
  · exact h1
  · -- KillTasks picks unlocked tasks only
    unfold killTasks
    rw [doKill_roster]
    refine List.mem_append.mpr (Or.inl (List.mem_filter.mpr ⟨h1, ?_⟩))
    simp only [decide_eq_true_eq, List.mem_map, not_exists, not_and]
    intro u hu hid
    obtain ⟨hum, hul⟩ := List.mem_filter.mp hu
    have : u = t := eq_of_nodup_map _ _ hnd1 hum h1 hid
    subst this
    simp [hl] at hul

/-- Environment 0 (one task on host 1) is live; environment 1 (same class, same host, reuseUnlockedTasks on) is
    inserted and about to deploy. -/
def foreignState : State :=
  run (init true [1, 2, 3, 4])
    [.createBegin 0 { bad := .ok, dets := [0], roles := [{ kind := .task, cls := 1, host := 1 }] },
     .createCleanup 0, .createInsert 0, .createSettle 0 {},
     .createBegin 1 { bad := .ok, dets := [1], roles := [{ kind := .task, cls := 1, host := 1 }, { kind := .task, cls := 2, host := 2 }] },
     .createCleanup 1, .createInsert 1]

/-- Non-vacuity of `C04_create_spares_foreign_tasks`: the second creation fails at deployment (its second task dies at
    launch); its failure tail releases and kills what it launched (tasks 2 and 3), and task 1 is environment 0's,
    locked, CONFIGURED, exactly as before. -/
example :
    (foreignState.envs.map (fun E => (E.id, E.tasks))) = [(0, [1]), (1, [])] ∧
    (createSettle foreignState 1 { launches := [(1, { mesos := .terminal, active := false })] }).2 = .errDeploy ∧
    (viewOf (createSettle foreignState 1 { launches := [(1, { mesos := .terminal, active := false })] }).1).roster =
      [{ task := 1, owner := some 0, locked := true, state := some .CONFIGURED }] ∧
    (viewOf (createSettle foreignState 1 { launches := [(1, { mesos := .terminal, active := false })] }).1).envs.map (·.env) = [0] := by
  decide

/-- **The model's failure branch of acquireTasks is the code's**: go/ast of core/task/manager.go finds every
    `SetParent(nil)` of acquireTasks applied to the key of a range over `deployedTasks` — which is only ever
    `make(DeploymentMap)` or `roOutcome.deployed`: the tasks this very call launched — and every SetParent on a key of
    `tasksAlreadyRunning` (the unlocked roster tasks the call had merely earmarked for reuse) carrying a role, under
    `if deploymentSuccess`. A failed acquisition therefore touches the parent of no task it did not launch — in
    particular not of a reuse candidate that another environment has taken over since it was earmarked (the model:
    `C04_create_spares_foreign_tasks`; through the API the window cannot be held open in this code base: a creation that
    claims a task never gets past DEPLOY, `C04_full_claim_times_out`). -/
theorem C04_failed_create_unparents_only_own_is_code :
    Gen.failedAcquireUnparentsOnlyDeployed = true ∧ Gen.acquireSetParentCounts = (1, 1, 1, 1) := by decide

/-- An environment is destroyed with keepTasks while a second one, with the same task class on
    the same host, is between its pre-deployment cleanup and its acquireTasks. -/
def crashSchedule : List Step :=
  [.createBegin 0 { bad := .ok, dets := [0], roles := [{ kind := .task, cls := 1, host := 1 }] },
   .createCleanup 0, .createInsert 0, .createSettle 0 {},
   .control 0 .RESET [] false,
   .createBegin 1 { bad := .ok, dets := [1], roles := [{ kind := .task, cls := 1, host := 1 }] },
   .createCleanup 1,
   .destroy 0 false false true {},
   .createInsert 1, .createSettle 1 {}]

/-- **Finding reuse_full_claim_crash** (fixed; a statement about the code as it was): with
    reuseUnlockedTasks, acquireTasks skipped `deployMu.Lock()` when every descriptor was
    satisfied by a claimed task, but not the `deployMu.Unlock()` that followed: "fatal error:
    sync: unlock of unlocked mutex" ended the core, and with it every environment. -/
theorem C04_finding_reuse_full_claim_crash : ¬ C04_no_crash_full legacyCfg := by
  intro h
  have := h true [1, 2, 3, 4] crashSchedule
  revert this
  decide

/-- On the same schedule the code as it is survives — and gives the creation up: the claimed
    task got the new environment's role as parent, but the role never learns that its task is
    ACTIVE (no status update comes for a task that is already running), DEPLOY times out, and the
    failure tail releases and kills the task. Seen on the real core (scenario tag
    `fixed-reuse-claim`): with reuseUnlockedTasks a creation that claims anything fails. -/
theorem C04_full_claim_times_out :
    (step (run (init true [1, 2, 3, 4]) (crashSchedule.take 9)) (.createSettle 1 {})).2 = .errDeploy ∧
    (run (init true [1, 2, 3, 4]) crashSchedule).crashed = false ∧
    (viewOf (run (init true [1, 2, 3, 4]) crashSchedule)).envs = [] ∧
    (viewOf (run (init true [1, 2, 3, 4]) crashSchedule)).roster = [] ∧
    (viewOf (run (init true [1, 2, 3, 4]) crashSchedule)).master =
      [{ task := 1, label := 0, mesos := .terminal, killed := true }] := by decide

/-- With the claim of acquireTasks run as a step of its own (it holds no lock), two creations
    can claim the same unlocked task: after both claim steps both pending creations hold task 1.
    Both commit (the second SetParent overwrites the first); in the model — where the wait for
    the workflow to become ACTIVE is part of the settling step — each then times out at DEPLOY
    and is torn down, so no snapshot shows the task under two environments; on the real core
    the two environments are alive side by side, both referencing the task, for the length of
    the deploy timeout. Seen on the model only: the real core was not caught in this window. -/
def claimRaceSchedule : List Step :=
  [.createBegin 0 { bad := .ok, dets := [0], roles := [{ kind := .task, cls := 1, host := 1 }] },
   .createCleanup 0, .createInsert 0, .createSettle 0 {},
   .control 0 .RESET [] false,
   .createBegin 1 { bad := .ok, dets := [1], roles := [{ kind := .task, cls := 1, host := 1 }, { kind := .task, cls := 2, host := 2 }] },
   .createBegin 2 { bad := .ok, dets := [2], roles := [{ kind := .task, cls := 1, host := 1 }, { kind := .task, cls := 3, host := 3 }] },
   .createCleanup 1, .createCleanup 2,
   .destroy 0 false false true {},
   .createInsert 1, .createInsert 2,
   .createClaim 1, .createClaim 2,
   .createSettle 1 {}, .createSettle 2 {}]

theorem C04_claim_race_schedule :
    (run (init true [1, 2, 3, 4]) (claimRaceSchedule.take 14)).creating.map (fun p => (p.id, p.claims)) =
      [(2, some [(0, 1)]), (1, some [(0, 1)])] ∧
    (step (run (init true [1, 2, 3, 4]) (claimRaceSchedule.take 14)) (.createSettle 1 {})).2 = .errDeploy ∧
    (step (run (init true [1, 2, 3, 4]) (claimRaceSchedule.take 15)) (.createSettle 2 {})).2 = .errDeploy ∧
    (viewOf (run (init true [1, 2, 3, 4]) claimRaceSchedule)).envs = [] := by decide

/-! ## two creations whose DEPLOY sections overlap -/

/-- The full-strength claim for creations that overlap in their DEPLOY sections (each environment has its own
    transition mutex; acquireTasks' reuse loop and its final `SetParent` hold no lock): in every state such a pair of
    creations passes through — after the first DEPLOY, after the second, after what follows DEPLOY for either, in either
    order —, from any state of any run of the code as it is with reuseUnlockedTasks, every task is referenced by at most
    one live environment and owned by it or by nobody. -/
def C04_overlapping_deploy_full : Prop :=
  ∀ (hosts : List Host) (steps : List Step) (k1 k2 : EnvId) (o1 o2 : SettleOracle) (firstRest : Bool),
    ∀ st ∈ settleOverlapStates (run (init true hosts codeCfg) steps) k1 k2 o1 o2 firstRest, exclusiveTasks (viewOf st) = true

/-- **It holds when the claims are made inside the DEPLOY sections** (no free-standing claim step before: the reuse loop
    and the commit of one acquireTasks are not separated by the commit of another): the second DEPLOY finds the task the
    first one took locked and does not claim it — every state passed through satisfies the invariant. With or without
    reuseUnlockedTasks, every configuration. -/
theorem C04_overlapping_deploy_partial (reuse : Bool) (hosts : List Host) (c : Cfg) (steps : List Step)
    (h : noClaimSteps steps = true) (k1 k2 : EnvId) (o1 o2 : SettleOracle) (firstRest : Bool) :
    ∀ st ∈ settleOverlapStates (run (init reuse hosts c) steps) k1 k2 o1 o2 firstRest, exclusiveTasks (viewOf st) = true :=
  fun st hst => exclusiveTasks_of_inv st
    (inv_settleOverlapStates _ k1 k2 o1 o2 firstRest (inv_run _ steps h (inv_init reuse hosts c)) st hst)

/-- **Finding reuse_claim_race**: with reuseUnlockedTasks, two creations that both earmarked the unlocked task 1
    (`claimRaceSchedule` up to the two claim steps: acquireTasks' reuse loop holds no lock) both commit it in their
    DEPLOY — the second `SetParent` overwrites the first: environments 1 and 2 are listed side by side, both
    referencing task 1, which is locked by environment 2. Seen on the real core (scenario tag
    `fixed-reuse-claim-overlap`). -/
theorem C04_finding_reuse_claim_race : ¬ C04_overlapping_deploy_full := by
  intro h
  have := h [1, 2, 3, 4] (claimRaceSchedule.take 14) 1 2 {} {} true
  revert this
  decide

/-- … and what it leaves behind for good. Both creations time out at DEPLOY (a claimed role never becomes ACTIVE).
    The failure tail of environment 1, the loser of the commit, runs first: its forced teardown asks for the release of
    task 1, which is locked by environment 2 — a release error; TeardownEnvironment gives up, CreateEnvironment drops the
    error, and environment 1 stays listed, in ERROR, for ever, still referencing task 1. Then the failure tail of
    environment 2 releases task 1 and kills it. End state: one environment left that nobody can use, referencing a task
    that was killed under it; every detector it includes stays taken. (What the real core showed, three runs in four.) -/
theorem C04_claim_race_leaves_zombie :
    (settleOverlapStates (run (init true [1, 2, 3, 4]) (claimRaceSchedule.take 14)) 1 2 {} {} true).map
      (fun st => (viewOf st).envs.map (fun E => (E.env, E.tasks))) =
      [[(1, [1, 2]), (2, [])], [(1, [1, 2]), (2, [1, 3])], [(1, [1, 2]), (2, [1, 3])], [(1, [1, 2])]] ∧
    (settleOverlapStates (run (init true [1, 2, 3, 4]) (claimRaceSchedule.take 14)) 1 2 {} {} true).map
      (fun st => (viewOf st).roster.map (fun r => (r.task, r.owner))) =
      [[(1, some 1), (2, some 1)], [(1, some 2), (2, some 1), (3, some 2)], [(1, some 2), (3, some 2)], []] ∧
    (settleOverlapStates (run (init true [1, 2, 3, 4]) (claimRaceSchedule.take 14)) 1 2 {} {} true).map
      (fun st => (viewOf st).master.map (fun m => m.killed)) =
      [[false, false], [false, false, false], [false, true, false], [true, true, true]] ∧
    (settleOverlapStates (run (init true [1, 2, 3, 4]) (claimRaceSchedule.take 14)) 1 2 {} {} true).map
      (fun st => (viewOf st).envs.map (fun E => E.state)) =
      [[.STANDBY, .STANDBY], [.STANDBY, .STANDBY], [.ERROR, .STANDBY], [.ERROR]] := by decide

/-- The witness violates exactly the hypothesis of `C04_overlapping_deploy_partial`. -/
theorem C04_claim_race_has_claim_steps : noClaimSteps (claimRaceSchedule.take 14) = false := by decide

/-! ## status updates whose optional fields are absent -/

/-- **The guards of the model are the guards of the code.** In updateTaskStatus both id copies stand in the
    TASK_RUNNING clause, each under `if status.Get…ID() != nil` (go/ast, regenerated on every run), and nothing else in
    package core/task writes `agentId` / `executorId` of a task but HandleAgentFailed / HandleExecutorFailed, which blank
    one of them for the tasks of a lost agent / executor (the model's `Task.lose`). -/
theorem C04_status_id_copy_is_code :
    idGuardsInCode = { agent := Gen.TaskIds.agentIdCopy == "guarded", executor := Gen.TaskIds.executorIdCopy == "guarded" } ∧
    Gen.TaskIds.copiesUnderRunningOnly = true ∧
    Gen.TaskIds.idWriteSites = ["HandleAgentFailed:agentId:blank", "HandleExecutorFailed:executorId:blank",
                                "updateTaskStatus:agentId:status", "updateTaskStatus:executorId:status"] := by decide

/-- **A status update is invisible to ownership.** Whatever it omits (agent_id, executor_id, both, nothing), whatever
    task it names, in ANY state: the listing, every roster row (owner, lock, role state), the active detectors, the
    master's table — the whole observable view — and the KILL log are what they were. -/
theorem C04_status_update_invisible (s : State) (t : TaskId) (u : StatusUpd) :
    viewOf (step s (.statusUpdate t u)).1 = viewOf s ∧ (step s (.statusUpdate t u)).1.killLog = s.killLog := by
  unfold step
  split
  · exact ⟨rfl, rfl⟩
  · exact ⟨view_statusUpdate s t u, rfl⟩

/-- Entry by entry: the roster after the update is the old one with, per entry, the same id, parent, owner and lock;
    an entry that was locked is locked and NOT claimable, an ACTIVE one stays ACTIVE. -/
theorem C04_status_update_keeps_lock (s : State) (x : TaskId) (u : StatusUpd) :
    ∃ g : Task → Task, (statusUpdate idGuardsInCode s x u).roster = s.roster.map g ∧
      ∀ t, (g t).id = t.id ∧ (g t).parent = t.parent ∧ (g t).owner = t.owner ∧ (g t).isLocked = t.isLocked ∧
           (t.isLocked = true → (g t).claimable = false) ∧ (t.active = true → (g t).active = true) := by
  refine ⟨fun t => if decide (t.id = x) && t.agent && t.executor then t.onStatus TaskIds.codeGuards u else t, rfl, ?_⟩
  intro t
  have e := statusUpdate_code_entry x u t
  refine ⟨e.1, e.2.1, e.2.2.2.2.1, e.2.2.2.1, ?_, e.2.2.2.2.2.2.2.2.2⟩
  intro hl
  simp only [Task.claimable, e.2.2.2.1, hl, Bool.not_true, Bool.false_and]

/-- **After any status update, sparse or not, Cleanup and KillTasks from elsewhere do not touch an owned task.** In a
    state of a run (`Inv`): a task locked before the update is, after the update AND a following sweep of unowned tasks
    (`ids = []`: Cleanup — the start of every CreateEnvironment, the CleanupTasks RPC) or KillTasks request naming any
    ids, still in the roster, with the same owner, locked, not claimable; its row at the master is untouched and no
    KILL was logged for it. -/
theorem C04_status_then_sweep_spares_owned (s : State) (h : Inv s) (x : TaskId) (u : StatusUpd) (ids : List TaskId)
    (t : Task) (ht : t ∈ s.roster) (hl : t.isLocked = true) :
    (∃ t' ∈ (cleanupTasks (statusUpdate idGuardsInCode s x u) ids).roster,
        t'.id = t.id ∧ t'.owner = t.owner ∧ t'.isLocked = true ∧ t'.claimable = false) ∧
    (∀ m ∈ s.master, m.id = t.id → m ∈ (cleanupTasks (statusUpdate idGuardsInCode s x u) ids).master) ∧
    (∀ e ∈ (cleanupTasks (statusUpdate idGuardsInCode s x u) ids).killLog, e ∈ s.killLog ∨ e.1 ≠ t.id) := by
  have e := statusUpdate_code_entry x u t
  have h1 : Inv (statusUpdate idGuardsInCode s x u) := inv_statusUpdate s x u h
  have hm : (if decide (t.id = x) && t.agent && t.executor then t.onStatus TaskIds.codeGuards u else t)
      ∈ (statusUpdate idGuardsInCode s x u).roster := List.mem_map.mpr ⟨t, ht, rfl⟩
  have hl' := e.2.2.2.1.trans hl
  obtain ⟨a, b, c⟩ := locked_survives_cleanupTasks _ ids h1.rosterNodup _ hm hl'
  refine ⟨⟨_, a, e.1, e.2.2.2.2.1, hl', ?_⟩, ?_, ?_⟩
  · simp only [Task.claimable, hl', Bool.not_true, Bool.false_and]
  · intro m hmm hid; exact b m hmm (hid.trans e.1.symm)
  · intro k hk
    rcases c k hk with c1 | c2
    · exact Or.inl c1
    · exact Or.inr (fun hh => c2 (hh.trans e.1.symm))

/-- **Both guards are needed**: a guard configuration keeps every locked roster entry locked under every status update
    iff it is the code's. -/
theorem C04_id_guards_needed (g : TaskIds.Guards) :
    (∀ (t : Task) (u : StatusUpd), t.isLocked = true → (t.onStatus g u).isLocked = true) ↔ g = idGuardsInCode := by
  constructor
  · intro h
    obtain ⟨ga, ge⟩ := g
    have h1 := h { id := 1, cls := 0, host := 1, agent := true, offer := true, executor := true, parent := some 0,
                   active := true, state := .CONFIGURED } { running := true, agent := false, executor := true } rfl
    have h2 := h { id := 1, cls := 0, host := 1, agent := true, offer := true, executor := true, parent := some 0,
                   active := true, state := .CONFIGURED } { running := true, agent := true, executor := false } rfl
    cases ga <;> cases ge <;> simp_all [Task.onStatus, TaskIds.copyId, Task.isLocked, Task.idsOk, idGuardsInCode, TaskIds.codeGuards]
  · rintro rfl t u hl
    rw [isLocked_onStatus _ u t hl]
    cases hr : u.running <;> simp [TaskIds.unlocks, idGuardsInCode, TaskIds.codeGuards, StatusUpd.kind, hr]

/-- A complete update — both optional fields present, what the AliECS executor always sends — is handled alike with
    and without the guards: deployments, transitions and teardowns driven by executor updates cannot tell the
    configurations apart. -/
theorem C04_complete_updates_hide_the_difference (g : TaskIds.Guards) (s : State) (x : TaskId) (r : Bool) :
    statusUpdate g s x (StatusUpd.complete r) = statusUpdate idGuardsInCode s x (StatusUpd.complete r) := by
  have h : ∀ t : Task, t.onStatus g (StatusUpd.complete r) = t.onStatus idGuardsInCode (StatusUpd.complete r) :=
    fun t => onStatus_complete g r t
  simp only [statusUpdate, h]

/-- Environment 0 with one task (task 1, class 1 on host 1), CONFIGURED. -/
def sparseVictim : State :=
  run (init true [1, 2, 3, 4])
    [.createBegin 0 { bad := .ok, dets := [0], roles := [{ kind := .task, cls := 1, host := 1 }] },
     .createCleanup 0, .createInsert 0, .createSettle 0 {}]

/-- A TASK_RUNNING update for task 1 without executor_id (a master-built reconciliation answer). -/
def sparseRunning : StatusUpd := { running := true, agent := true, executor := false }

/-- **Without the guards (NOT the code) one sparse update un-owns a task of a live environment.** On `sparseVictim`:
    with the code's guards nothing moves. With the copies unguarded the task keeps its parent (environment 0 still
    references it, GetTask still names environment 0) but is no longer locked: Spec.C04's frame clause rejects the
    round although nothing was asked of environment 0; the next sweep of unowned tasks — the pre-deployment Cleanup of
    ANY creation, the CleanupTasks RPC — kills it and drops it from the roster while environment 0 is listed and
    references it (`killsUnowned`, the whole round predicate: false); and after a RESET (task in STANDBY) it is
    claimable by another environment's acquireTasks (reuseUnlockedTasks). -/
theorem C04_unguarded_id_copy_unlocks_owned :
    (viewOf sparseVictim).roster = [{ task := 1, owner := some 0, locked := true, state := some .CONFIGURED }] ∧
    viewOf (statusUpdate idGuardsInCode sparseVictim 1 sparseRunning) = viewOf sparseVictim ∧
    viewOf (cleanup (statusUpdate idGuardsInCode sparseVictim 1 sparseRunning)) = viewOf sparseVictim ∧
    (viewOf (statusUpdate TaskIds.noGuards sparseVictim 1 sparseRunning)).roster =
      [{ task := 1, owner := some 0, locked := false, state := none }] ∧
    (viewOf (statusUpdate TaskIds.noGuards sparseVictim 1 sparseRunning)).envs.map (fun E => (E.env, E.tasks)) = [(0, [1])] ∧
    frameOk [] (viewOf sparseVictim) (viewOf (statusUpdate TaskIds.noGuards sparseVictim 1 sparseRunning)) = false ∧
    (viewOf (cleanup (statusUpdate TaskIds.noGuards sparseVictim 1 sparseRunning))).roster = [] ∧
    (viewOf (cleanup (statusUpdate TaskIds.noGuards sparseVictim 1 sparseRunning))).master =
      [{ task := 1, label := 0, mesos := .terminal, killed := true }] ∧
    (cleanup (statusUpdate TaskIds.noGuards sparseVictim 1 sparseRunning)).killLog = [(1, none)] ∧
    killsUnowned (viewOf (statusUpdate TaskIds.noGuards sparseVictim 1 sparseRunning))
      (viewOf (cleanup (statusUpdate TaskIds.noGuards sparseVictim 1 sparseRunning))) = false ∧
    specC04Round [] (viewOf (statusUpdate TaskIds.noGuards sparseVictim 1 sparseRunning))
      (viewOf (cleanup (statusUpdate TaskIds.noGuards sparseVictim 1 sparseRunning))) = false ∧
    (statusUpdate TaskIds.noGuards (step sparseVictim (.control 0 .RESET [] false)).1 1 sparseRunning).roster.map (·.claimable) = [true] ∧
    (statusUpdate idGuardsInCode (step sparseVictim (.control 0 .RESET [] false)).1 1 sparseRunning).roster.map (·.claimable) = [false] := by
  decide

/-- Non-vacuity: the hypotheses of `C04_status_then_sweep_spares_owned` hold of a realistic state (two live
    environments, the update names a task of the first, the sweep is the pre-deployment Cleanup of a third creation),
    the update is sparse, and the step is taken (task 1 is in the roster with both ids). -/
example :
    let s := run (init false [1, 2, 3, 4])
      [.createBegin 0 { bad := .ok, dets := [0], roles := [{ kind := .task, cls := 1, host := 1 }, { kind := .task, cls := 2, host := 2 }] },
       .createCleanup 0, .createInsert 0, .createSettle 0 {},
       .createBegin 1 { bad := .ok, dets := [1], roles := [{ kind := .task, cls := 3, host := 3 }] },
       .createCleanup 1, .createInsert 1, .createSettle 1 {}, .control 0 .START [] false]
    (viewOf s).roster.map (fun r => (r.task, r.owner, r.locked)) = [(1, some 0, true), (2, some 0, true), (3, some 1, true)] ∧
    (viewOf (run s [.statusUpdate 1 { running := true, agent := false, executor := false },
                    .createBegin 2 { bad := .ok, dets := [2], roles := [{ kind := .task, cls := 4, host := 4 }] }, .createCleanup 2, .cleanup,
                    .killIds [1, 2, 3]])).roster = (viewOf s).roster ∧
    (run s [.statusUpdate 1 { running := true, agent := false, executor := false }, .cleanup, .killIds [1, 2, 3]]).killLog = [] := by
  decide
