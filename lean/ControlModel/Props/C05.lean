/-
  Props/C05 — "Tasks are placed only where constraints and resources allow".

  Property theorems only (`C05_*` = the proof obligations counted in the evidence
  file); lemmas live in Proofs/Placement.lean. The model (Model/Placement.lean)
  follows constraint/attributes.go, constraints.go, rolebase.go getConstraints,
  match.go, taskclass/port/range.go and the OFFERS handler of scheduler.go, and is
  tied to /repo by the correspondence run (harness/props/c05).

  Two functions exist in two behaviours (as coded at the pin / with the fix
  patches notes/C05.fix-satisfy|ranges.patch): `satisfyAsCoded` vs `satisfy`, and
  `parseRanges false` vs `parseRanges true`; a `Mode` says which one the round
  uses (probed from the linked code). The resource bookkeeping of
  makeTaskForMesosResources is a `Cfg` inside the `Mode`: `codeCfg` = the code as
  it is (notes/C05.fix-3/4/5.patch: emptiness test in front of `Min()`, static
  ranges claimed before the draws, cpus and mem subtracted), `legacyCfg` = the
  code as it was; `C05_bookkeeping_is_code` ties `codeCfg` to the source.
  Full-strength clauses are `def …_full (k : Cfg) : Prop`: proved for `codeCfg`
  (`…_code`), refuted for `legacyCfg` on a witness (`C05_finding_*`), and proved
  for every configuration under the excluded hypothesis (`…_partial`).
-/
import ControlModel.Gen.PlacementFacts
import ControlModel.Proofs.Placement
import ControlModel.Proofs.PlacementStore

open Placement

/-! ## the constants the code uses now -/

/-- The port floors of the model are the literals in makeTaskForMesosResources
    (re-read from the source on every run): data ports above 8999, control
    ports above 29999. -/
theorem C05_port_floors_are_code : [dataBelow, ctrlBelow] = Gen.Placement.removeEnds := by decide

/-- The bookkeeping configuration of the model is what makeTaskForMesosResources
    does (go/ast facts re-read from scheduler.go on every run): BOTH `X.Min()` calls
    stand behind an `if len(X) == 0 { …; return nil, nil }`; the static ranges
    are subtracted from `remainingResourcesInOffer` before the first draw; cpus
    and mem of the request are subtracted from it as soon as they are in the
    request. Reverting any of the three repairs makes this false. -/
theorem C05_bookkeeping_is_code :
    Gen.Placement.minGuards = [codeCfg.drawChecked, codeCfg.drawChecked] ∧
    Gen.Placement.staticClaimedFirst = codeCfg.staticReserved ∧
    Gen.Placement.scalarsSubtracted = codeCfg.scalarsSubtracted := by decide

/-! ## constraints -/

/-- Satisfy (intended behaviour): a positive answer means EVERY constraint holds on the agent. -/
theorem C05_constraints (as : Attrs) (cts : Constraints) (h : satisfy as cts = true) :
    ∀ c ∈ cts, holds as c = true :=
  satisfy_sound as cts h

/-- … and exactly when: no constraints, or all hold and at least one uses a supported operator. -/
theorem C05_satisfy_iff (as : Attrs) (cts : Constraints) :
    satisfy as cts = true ↔ cts = [] ∨ ((∀ c ∈ cts, holds as c = true) ∧ ∃ c ∈ cts, c.op = 0) :=
  satisfy_iff as cts

/-- FULL-STRENGTH statement for the loop as it stands in attributes.go — FALSE. -/
def C05_constraints_asCoded_full : Prop :=
  ∀ (as : Attrs) (cts : Constraints), satisfyAsCoded as cts = true → ∀ c ∈ cts, holds as c = true

/-- What the loop as coded computes: the last Equals constraint alone decides. -/
theorem C05_asCoded_last_decides (as : Attrs) (xs : Constraints) (c : Constraint) (hc : c.op = 0) :
    satisfyAsCoded as (xs ++ [c]) = holds as c := by
  unfold satisfyAsCoded
  rw [satLoop_append]
  simp [hc]

/-- Finding `satisfy_last_constraint_decides`: [machine_id=A, role=flp] is "satisfied" by {machine_id=B, role=flp}. -/
theorem C05_finding_satisfy_last_constraint_decides : ¬ C05_constraints_asCoded_full := by
  intro h
  have := h [("machine_id", "B"), ("role", "flp")] [⟨"machine_id", "A", 0⟩, ⟨"role", "flp", 0⟩] (by decide)
    ⟨"machine_id", "A", 0⟩ (by simp)
  revert this
  decide

/-- The loop as coded is right on every input on which it answers like the intended one. -/
theorem C05_constraints_asCoded_partial (as : Attrs) (cts : Constraints)
    (hyp : satisfyAsCoded as cts = satisfy as cts) (h : satisfyAsCoded as cts = true) :
    ∀ c ∈ cts, holds as c = true :=
  satisfy_sound as cts (hyp ▸ h)

/-- One MergeParent: for every attribute the child's (last) definition decides, else the parent's. -/
theorem C05_merge_child_overrides (child parent : Constraints) (a : String) :
    lookupC (mergeParent child parent) a =
      (match lastDef child a with | some c => some c | none => lookupC parent a) :=
  lookupC_mergeParent child parent a

/-- Along a chain of roles of ANY depth (nearest first) the constraint that
    decides an attribute is the nearest definition of it; and when no role lists
    an attribute twice, that is the ONLY constraint on the attribute that survives. -/
theorem C05_nearest_overrides (chain : List Constraints) :
    (∀ a, lookupC (effective chain) a = nearestDef chain a) ∧
    ((∀ l ∈ chain, noDupAttr l = true) →
      ∀ c ∈ effective chain, nearestDef chain c.attr = some c) := by
  refine ⟨lookupC_effective chain, ?_⟩
  intro hnd c hc
  rw [← lookupC_effective]
  exact noDup_unique _ (noDupAttr_effective chain hnd) c hc

/-- BuildDescriptorConstraints: the role's constraints override the task class's. -/
theorem C05_role_overrides_class (role cls : Constraints) (a : String) :
    lookupC (descriptorConstraints role (some cls)) a =
      (match lastDef role a with | some c => some c | none => lookupC cls a) :=
  lookupC_mergeParent role cls a

/-! ## resources -/

/-- Resources.Satisfy is sound: a positive answer means the resources cover the wants. -/
theorem C05_resources (r : Res) (w : Wants) (hvs : Valid w.static = true) (hvp : OValid r.ports = true)
    (h : resSatisfy r w = true) : covers r w = true :=
  resSatisfy_covers r w hvs hvp h

/-! ## static ranges exactly as written -/

/-- The intended parser reads back every list of ranges a template can write. -/
theorem C05_static_as_written (rs : Ranges) (h : ∀ x ∈ rs, x.1 < 2 ^ 64 ∧ x.2 < 2 ^ 64) :
    parseRanges true (printRanges rs) = some rs :=
  parseRanges_printRanges true rs (Or.inl rfl) h

/-- FULL-STRENGTH statement for RangesFromExpression as it stands — FALSE. -/
def C05_static_asCoded_full : Prop :=
  ∀ (rs : Ranges), (∀ x ∈ rs, x.1 < 2 ^ 64 ∧ x.2 < 2 ^ 64) → parseRanges false (printRanges rs) = some rs

/-- Finding `range_end_from_start`: "8000-8010" is read as {8000,8000}. -/
theorem C05_finding_range_end_from_start : ¬ C05_static_asCoded_full := by
  intro h
  have := h [(8000, 8010)] (by decide)
  revert this
  decide

/-- As coded, only lists of single ports survive. -/
theorem C05_static_asCoded_partial (rs : Ranges) (hyp : ∀ x ∈ rs, x.1 = x.2)
    (h : ∀ x ∈ rs, x.1 < 2 ^ 64 ∧ x.2 < 2 ^ 64) : parseRanges false (printRanges rs) = some rs :=
  parseRanges_printRanges false rs (Or.inr hyp) h

/-! ## ports drawn for one task -/

/-- makeTaskForMesosResources (any bookkeeping configuration): the dynamic ports
    (one per inbound TCP channel, ≥ 9000) and the control port (≥ 30000) come from
    the ports it was given, are pairwise distinct, and what is missing afterwards
    is exactly what the task claimed: the drawn ports and — when the static ranges
    are claimed first, as the code does — the static ports, none of which was drawn. -/
theorem C05_ports_from_offer_distinct (k : Cfg) (w : Wants) (ports : Option Ranges)
    (hvs : Valid w.static = true) (hv : OValid ports = true)
    (t : Task) (rest : Option Ranges) (h : makeTask k w ports = .ok t rest) :
    (∀ p ∈ t.drawn, omem p ports = true) ∧ t.drawn.Nodup ∧
    (∀ p ∈ t.dyn, 9000 ≤ p) ∧ 30000 ≤ t.ctrl ∧ t.dyn.length = tcpCount w.inbound ∧
    (∀ q, omem q rest = (omem q ports && !(t.drawn.contains q) && !(k.staticReserved && mem q w.static))) ∧
    (k.staticReserved = true → ∀ p ∈ t.drawn, mem p w.static = false) := by
  obtain ⟨k1, k2, k3, k4, k5, _, _, _, _, k10, k11⟩ := makeTask_spec k w ports hvs hv t rest h
  exact ⟨k1, k2, k3, k4, k5, k10, k11⟩

/-- FULL-STRENGTH: a port draw never finds the list empty (Resources.Satisfy
    counts ports but not where they lie, so makeTaskForMesosResources must look). -/
def C05_port_draw_full (k : Cfg) : Prop :=
  ∀ (r : Res) (w : Wants), OValid r.ports = true → resSatisfy r w = true →
    (makeTask k w r.ports).isPanic = false

/-- The code as it is never indexes an empty list: whatever the offer holds and
    whatever the template asks for (even without the preceding Satisfy). -/
theorem C05_port_draw_code : C05_port_draw_full codeCfg :=
  fun r w _ _ => makeTask_no_panic codeCfg rfl w r.ports

/-- Finding `port_draw_panics` (the code as it WAS): ports 9000-9003, one TCP
    channel: accepted, then `Ranges.Min()` of an empty list for the control port. -/
theorem C05_finding_port_draw_panics : ¬ C05_port_draw_full legacyCfg := by
  intro h
  have := h { cpu := some 4, mem := some 4, ports := some [(9000, 9003)] }
    { cpu := 1, mem := 0, static := [], inbound := [true] } (by decide) (by decide)
  revert this
  decide

/-- The emptiness tests are what it takes: a configuration without them panics on that witness. -/
theorem C05_port_draw_needs_check (k : Cfg) (hk : k.drawChecked = false) : ¬ C05_port_draw_full k := by
  intro h
  have := h { cpu := some 4, mem := some 4, ports := some [(9000, 9003)] }
    { cpu := 1, mem := 0, static := [], inbound := [true] } (by decide) (by decide)
  revert this
  obtain ⟨a, b, c, d⟩ := k
  simp only at hk
  subst hk
  cases b <;> cases c <;> cases d <;> decide

/-- Without the static claim (as the code was): no panic for a task without inbound
    TCP channels on resources that still hold a port above 29999. -/
theorem C05_port_draw_partial (k : Cfg) (hk : k.staticReserved = false)
    (w : Wants) (ports : Option Ranges) (hv : OValid ports = true)
    (hyp1 : tcpCount w.inbound = 0) (hyp2 : ∃ q, ctrlBelow < q ∧ omem q ports = true) :
    (makeTask k w ports).isPanic = false := by
  have hd : drawDyn k.drawChecked w.inbound ports = .ok [] ports := by
    have : ∀ l : List Bool, tcpCount l = 0 → drawDyn k.drawChecked l ports = .ok [] ports := by
      intro l
      induction l with
      | nil => intro _; rfl
      | cons b l ih =>
        cases b with
        | false => intro h; rw [tcpCount_cons_false] at h; simp only [drawDyn]; exact ih h
        | true => intro h; rw [tcpCount_cons_true] at h; omega
    exact this _ hyp1
  simp only [makeTask, hk, Bool.false_eq_true, if_false, makeDraws, hd]
  cases ports with
  | none => simp [drawPort, Made.isPanic]
  | some ps =>
    simp only [OValid] at hv
    obtain ⟨q, hq1, hq2⟩ := hyp2
    obtain ⟨hcN, hmN⟩ := normalize_spec ps hv
    obtain ⟨_, hmr⟩ := remove_spec (normalize ps) (0, ctrlBelow) (Nat.zero_le _) hcN
    simp only [drawPort]
    cases hrem : remove (normalize ps) (0, ctrlBelow) with
    | nil =>
      exfalso
      have := hmr q
      rw [hrem, hmN] at this
      simp only [omem] at hq2
      rw [hq2] at this
      have hnot : memR q (0, ctrlBelow) = false := by
        simp only [memR, Bool.and_eq_false_iff, decide_eq_false_iff_not]; omega
      rw [hnot] at this
      simp [mem] at this
    | cons r tl => simp [Made.isPanic]

/-- One whole round on the code as it is cannot crash: no offer goroutine indexes
    an empty list, whatever the offers, descriptors and lock order. -/
theorem C05_round_never_crashes_code (m : Mode) (hm : m.cfg = codeCfg)
    (offers : List Offer) (descs : List Desc) (order : List Offer) :
    (round m offers descs order).crashed = false :=
  round_no_crash m (by rw [hm]; rfl) offers descs order

/-! ## one OFFERS round

`validInputs m descs order` (decidable, Spec/C05): every port range of every
offer and of every template has begin ≤ end. -/

/-- Launched ⇒ constraints and resources: in every round (any offers, any
    descriptors, any order in which the per-offer goroutines take the lock), every
    task of every ACCEPT passed `Satisfy` on the agent it goes to, and the offer
    covers what its template asks for (each task on its own). -/
theorem C05_round_launched_where_allowed (m : Mode) (offers : List Offer) (descs : List Desc) (order : List Offer)
    (hv : validInputs m descs order = true) :
    ∀ a ∈ (round m offers descs order).accepts, ∃ o ∈ order, a.oid = o.oid ∧
      ∀ l ∈ a.launches, m.sat o.attrs l.desc.cts = true ∧
        ∃ c, l.desc.cls = some c ∧ covers o.res (c.wants m) = true ∧
          l.task.cpu = c.cpu ∧ l.task.mem = c.mem ∧ l.task.static = (c.wants m).static := by
  rw [validInputs_iff] at hv
  intro a ha
  obtain ⟨o, ho, hoid, hg, _⟩ := round_accepts m offers descs order hv.1 hv.2 a ha
  refine ⟨o, ho, hoid, ?_⟩
  intro l hl
  obtain ⟨g1, c, g2, _, g3, g4, g5, g6, _⟩ := hg l hl
  exact ⟨g1, c, g2, g3, g4, g5, g6⟩

/-- With the intended Satisfy: launched ⇒ every effective constraint (role chain
    merged over the task class) holds on the agent. -/
theorem C05_round_constraints (m : Mode) (hm : m.satFixed = true)
    (offers : List Offer) (descs : List Desc) (order : List Offer)
    (hv : validInputs m descs order = true) :
    ∀ a ∈ (round m offers descs order).accepts, ∃ o ∈ order, a.oid = o.oid ∧
      ∀ l ∈ a.launches, ∀ c ∈ l.desc.cts, holds o.attrs c = true := by
  intro a ha
  obtain ⟨o, ho, hoid, hl⟩ := C05_round_launched_where_allowed m offers descs order hv a ha
  refine ⟨o, ho, hoid, ?_⟩
  intro l hlm
  have := (hl l hlm).1
  simp only [Mode.sat, hm, if_true] at this
  exact satisfy_sound _ _ this

/-- With the intended parser: the static ranges of a launched task are the
    template's expression read with the intended grammar. -/
theorem C05_round_static_as_written (m : Mode) (hm : m.rngFixed = true)
    (offers : List Offer) (descs : List Desc) (order : List Offer)
    (hv : validInputs m descs order = true) :
    ∀ a ∈ (round m offers descs order).accepts, ∀ l ∈ a.launches,
      ∃ c, l.desc.cls = some c ∧ l.task.static = (parseRanges true c.portsExpr).getD [] := by
  intro a ha l hl
  obtain ⟨o, _, _, h⟩ := C05_round_launched_where_allowed m offers descs order hv a ha
  obtain ⟨_, c, hc, _, _, _, hs⟩ := h l hl
  exact ⟨c, hc, by rw [hs]; simp [Class.wants, hm]⟩

/-- Dynamic and control ports handed out on one offer come from that offer and
    are pairwise distinct ACROSS all tasks launched on it; one dynamic port
    (≥ 9000) per inbound TCP channel, one control port (≥ 30000) per task. -/
theorem C05_round_ports_from_offer_distinct (m : Mode) (offers : List Offer) (descs : List Desc) (order : List Offer)
    (hv : validInputs m descs order = true) :
    ∀ a ∈ (round m offers descs order).accepts, ∃ o ∈ order, a.oid = o.oid ∧
      (drawnOf a.launches).Nodup ∧ (∀ p ∈ drawnOf a.launches, omem p o.res.ports = true) ∧
      ∀ l ∈ a.launches, (∀ p ∈ l.task.dyn, 9000 ≤ p) ∧ 30000 ≤ l.task.ctrl ∧
        ∃ c, l.desc.cls = some c ∧ l.task.dyn.length = tcpCount c.inbound := by
  rw [validInputs_iff] at hv
  intro a ha
  obtain ⟨o, ho, hoid, hg, hnd, hfrom, _⟩ := round_accepts m offers descs order hv.1 hv.2 a ha
  refine ⟨o, ho, hoid, hnd, hfrom, ?_⟩
  intro l hl
  obtain ⟨_, c, g2, _, _, _, _, _, g7, g8, g9⟩ := hg l hl
  exact ⟨g8, g9, c, g2, g7⟩

/-- Unused offers are declined: every offer is either in the DECLINE call or
    answered by an ACCEPT call (Mesos treats an ACCEPT without operations as a
    decline), and an offer on which something is launched is not declined. -/
theorem C05_round_unused_declined (m : Mode) (offers : List Offer) (descs : List Desc) (order : List Offer)
    (hv : validInputs m descs order = true) :
    (∀ o ∈ offers, o.oid ∈ (round m offers descs order).declined ∨
        ∃ a ∈ (round m offers descs order).accepts, a.oid = o.oid) ∧
    (∀ a ∈ (round m offers descs order).accepts, a.launches ≠ [] → a.oid ∉ (round m offers descs order).declined) := by
  rw [validInputs_iff] at hv
  exact round_declines m offers descs order hv.1 hv.2

/-! ### what the code does not guarantee -/

/-- FULL-STRENGTH: what is requested on one offer stays within it (CPU and
    memory of every task launched on an offer must be taken out of what remains
    of it before the next descriptor is matched against it). -/
def C05_sum_within_offer_full (k : Cfg) : Prop :=
  ∀ (m : Mode), m.cfg = k →
    ∀ (offers : List Offer) (descs : List Desc) (order : List Offer), validInputs m descs order = true →
    ∀ a ∈ (round m offers descs order).accepts, ∃ o ∈ order, a.oid = o.oid ∧
      sumOk o.res (a.launches.map (·.task)) = true

/-- Whenever the scalars are subtracted, the sum stays within the offer: all
    offers, descriptors, lock orders, and whatever the other switches say. -/
theorem C05_sum_within_offer_when_subtracted (m : Mode) (hk : m.cfg.scalarsSubtracted = true)
    (offers : List Offer) (descs : List Desc) (order : List Offer) (hv : validInputs m descs order = true) :
    ∀ a ∈ (round m offers descs order).accepts, ∃ o ∈ order, a.oid = o.oid ∧
      sumOk o.res (a.launches.map (·.task)) = true := by
  rw [validInputs_iff] at hv
  intro a ha
  obtain ⟨o, ho, hoid, hg, _, _, hsum, _⟩ := round_accepts m offers descs order hv.1 hv.2 a ha
  refine ⟨o, ho, hoid, ?_⟩
  obtain ⟨s1, s2⟩ := hsum hk
  have e1 : ((a.launches.map (·.task)).map (·.cpu)) = a.launches.map (·.task.cpu) := by simp [List.map_map]
  have e2 : ((a.launches.map (·.task)).map (·.mem)) = a.launches.map (·.task.mem) := by simp [List.map_map]
  -- an offer without cpus or mem takes no task at all
  have hnone : (o.res.cpu = none ∨ o.res.mem = none) → a.launches = [] := by
    intro hn
    cases hls : a.launches with
    | nil => rfl
    | cons l ls =>
      obtain ⟨_, c, _, _, hcov, _⟩ := hg l (by rw [hls]; simp)
      obtain ⟨cc, mm, _, hc, hm, _⟩ := covers_scalars o.res _ hcov
      cases hn with
      | inl h => rw [h] at hc; cases hc
      | inr h => rw [h] at hm; cases hm
  unfold sumOk
  cases hc : o.res.cpu with
  | none => simp [hnone (Or.inl hc)]
  | some cc =>
    cases hm : o.res.mem with
    | none => simp [hnone (Or.inr hm)]
    | some mm =>
      rw [hc] at s1; rw [hm] at s2
      simp only [avail, Option.getD_some, cpuSum, memSum] at s1 s2
      simp only [e1, e2, Bool.and_eq_true, decide_eq_true_eq]
      exact ⟨s1, s2⟩

/-- The code as it is keeps the sum of what it requests on an offer within that offer. -/
theorem C05_sum_within_offer_code : C05_sum_within_offer_full codeCfg :=
  fun m hm offers descs order hv => C05_sum_within_offer_when_subtracted m (by rw [hm]; rfl) offers descs order hv

def C05_witnessClass (cpu : Nat) (expr : String) (inb : List Bool) : Class :=
  { cts := [], cpu := cpu, mem := 0, portsExpr := expr.toList, inbound := inb }

def C05_witnessOffer : Offer :=
  { oid := 0, attrs := [("machine_id", "m0")], res := { cpu := some 4, mem := some 4096, ports := some [(9000, 9100), (30000, 30100)] } }

/-- Finding `cpu_mem_not_subtracted` (the code as it WAS): an offer of 1 cpu takes two tasks of 0.75 cpu each. -/
theorem C05_finding_cpu_mem_not_subtracted : ¬ C05_sum_within_offer_full legacyCfg := by
  intro h
  have := h { satFixed := true, rngFixed := true, cfg := legacyCfg } rfl [C05_witnessOffer]
    [⟨0, [], some (C05_witnessClass 3 "" [])⟩, ⟨1, [], some (C05_witnessClass 3 "" [])⟩] [C05_witnessOffer] (by decide)
  revert this
  decide

/-- On the code as it is the second of those two tasks stays undeployed. -/
theorem C05_second_task_waits_code :
    let out := round { satFixed := true, rngFixed := true, cfg := codeCfg } [C05_witnessOffer]
      [⟨0, [], some (C05_witnessClass 3 "" [])⟩, ⟨1, [], some (C05_witnessClass 3 "" [])⟩] [C05_witnessOffer]
    out.accepts.map (fun a => a.launches.map (·.desc.id)) = [[1]] ∧ out.undeployed.map (·.id) = [0] ∧
    out.crashed = false := by decide

/-- Whatever the configuration: when at most one task is launched per offer, the sum stays within the offer. -/
theorem C05_sum_within_offer_partial (m : Mode) (offers : List Offer) (descs : List Desc) (order : List Offer)
    (hv : validInputs m descs order = true)
    (hyp : ∀ a ∈ (round m offers descs order).accepts, a.launches.length ≤ 1) :
    ∀ a ∈ (round m offers descs order).accepts, ∃ o ∈ order, a.oid = o.oid ∧
      sumOk o.res (a.launches.map (·.task)) = true := by
  intro a ha
  obtain ⟨o, ho, hoid, hl⟩ := C05_round_launched_where_allowed m offers descs order hv a ha
  refine ⟨o, ho, hoid, ?_⟩
  have hlen := hyp a ha
  match hls : a.launches, hlen with
  | [], _ =>
    unfold sumOk
    cases o.res.cpu <;> cases o.res.mem <;> simp
  | [l], _ =>
    obtain ⟨_, c, _, hcov, hcpu, hmem, _⟩ := hl l (by rw [hls]; simp)
    unfold covers at hcov
    unfold sumOk
    cases hc : o.res.cpu with
    | none => rw [hc] at hcov; simp at hcov
    | some cc =>
      cases hm : o.res.mem with
      | none => rw [hc, hm] at hcov; simp at hcov
      | some mm =>
        rw [hc, hm] at hcov
        cases hp : o.res.ports with
        | none => rw [hp] at hcov; simp at hcov
        | some ps =>
          rw [hp] at hcov
          simp only [Bool.and_eq_true, decide_eq_true_eq] at hcov
          simp only [List.map_cons, List.map_nil, List.sum_cons, List.sum_nil, Nat.add_zero, Bool.and_eq_true,
            decide_eq_true_eq, hcpu, hmem]
          exact ⟨hcov.1.1.1, hcov.1.1.2⟩
  | _ :: _ :: _, hlen => simp at hlen

/-- FULL-STRENGTH: ALL ports claimed on one offer — static ranges included — are
    from the offer and pairwise distinct (the static ranges must be taken out of
    the offer before dynamic ports are drawn, and stay out for later tasks). -/
def C05_all_claims_distinct_full (k : Cfg) : Prop :=
  ∀ (m : Mode), m.cfg = k →
    ∀ (offers : List Offer) (descs : List Desc) (order : List Offer), validInputs m descs order = true →
    ∀ a ∈ (round m offers descs order).accepts, ∃ o ∈ order, a.oid = o.oid ∧
      claimsOk (o.res.ports.getD []) (a.launches.map (·.task)) = true

/-- Whenever the static ranges are claimed first, every port claimed on an offer
    is from that offer and is claimed once: all offers, descriptors, lock orders. -/
theorem C05_all_claims_distinct_when_reserved (m : Mode) (hk : m.cfg.staticReserved = true)
    (offers : List Offer) (descs : List Desc) (order : List Offer) (hv : validInputs m descs order = true) :
    ∀ a ∈ (round m offers descs order).accepts, ∃ o ∈ order, a.oid = o.oid ∧
      claimsOk (o.res.ports.getD []) (a.launches.map (·.task)) = true := by
  rw [validInputs_iff] at hv
  intro a ha
  obtain ⟨o, ho, hoid, _, _, _, _, hcl⟩ := round_accepts m offers descs order hv.1 hv.2 a ha
  refine ⟨o, ho, hoid, ?_⟩
  obtain ⟨c1, c2⟩ := hcl hk
  have hflat : (a.launches.map (·.task)).flatMap Task.claims = claimsOf a.launches := by
    simp [claimsOf, List.flatMap_map]
  unfold claimsOk
  simp only [hflat, Bool.and_eq_true, List.all_eq_true, nodupNat_iff]
  refine ⟨?_, c1⟩
  intro p hp
  have := c2 p hp
  cases hports : o.res.ports with
  | none => rw [hports] at this; simp [omem] at this
  | some ps => rw [hports] at this; simpa [omem] using this

/-- The code as it is hands out every port of an offer at most once, static ranges included. -/
theorem C05_all_claims_distinct_code : C05_all_claims_distinct_full codeCfg :=
  fun m hm offers descs order hv => C05_all_claims_distinct_when_reserved m (by rw [hm]; rfl) offers descs order hv

/-- Finding `static_ports_not_reserved` (the code as it WAS): a template with static
    port 9000 and one inbound TCP channel is given 9000 again as its dynamic port. -/
theorem C05_finding_static_ports_not_reserved : ¬ C05_all_claims_distinct_full legacyCfg := by
  intro h
  have := h { satFixed := true, rngFixed := true, cfg := legacyCfg } rfl
    [C05_witnessOffer] [⟨0, [], some (C05_witnessClass 1 "9000" [true])⟩] [C05_witnessOffer] (by decide)
  revert this
  decide

/-- On the code as it is that task gets 9001, and a second task with the same
    static port is not put on the same offer. -/
theorem C05_static_port_kept_out_code :
    let m : Mode := { satFixed := true, rngFixed := true, cfg := codeCfg }
    let c := C05_witnessClass 1 "9000" [true]
    (round m [C05_witnessOffer] [⟨0, [], some c⟩] [C05_witnessOffer]).accepts.map
        (fun a => a.launches.map (·.task.dyn)) = [[[9001]]] ∧
    let out := round m [C05_witnessOffer] [⟨0, [], some c⟩, ⟨1, [], some c⟩] [C05_witnessOffer]
    out.accepts.map (fun a => a.launches.map (·.desc.id)) = [[1]] ∧ out.undeployed.map (·.id) = [0] := by decide

/-- Whatever the configuration: with one task per offer whose static ranges all end below the
    data-port floor, every claimed port is from the offer and no port is claimed twice. -/
theorem C05_all_claims_distinct_partial (m : Mode) (offers : List Offer) (descs : List Desc) (order : List Offer)
    (hv : validInputs m descs order = true)
    (hyp1 : ∀ a ∈ (round m offers descs order).accepts, a.launches.length ≤ 1)
    (hyp2 : ∀ a ∈ (round m offers descs order).accepts, ∀ l ∈ a.launches, ∀ r ∈ l.task.static, r.2 ≤ dataBelow) :
    ∀ a ∈ (round m offers descs order).accepts, ∃ o ∈ order, a.oid = o.oid ∧
      claimsOk (o.res.ports.getD []) (a.launches.map (·.task)) = true := by
  rw [validInputs_iff] at hv
  intro a ha
  obtain ⟨o, ho, hoid, hg, hnd, hfrom, _⟩ := round_accepts m offers descs order hv.1 hv.2 a ha
  refine ⟨o, ho, hoid, ?_⟩
  have hlen := hyp1 a ha
  have hst := hyp2 a ha
  match hls : a.launches, hlen with
  | [], _ => simp [claimsOk, nodupNat]
  | [l], _ =>
    rw [hls] at hg hnd hfrom hst
    obtain ⟨_, c, hcls, hvs, hcov, _, _, hstatic, _, hdyn, hctrl⟩ := hg l (by simp)
    rw [← hstatic] at hvs
    obtain ⟨hcn, hmn⟩ := normalize_spec l.task.static hvs
    have hdr : drawnOf [l] = l.task.drawn := by simp [drawnOf]
    rw [hdr] at hnd hfrom
    -- the offer's ports
    unfold covers at hcov
    cases hc : o.res.cpu with
    | none => rw [hc] at hcov; simp at hcov
    | some cc =>
      cases hm : o.res.mem with
      | none => rw [hc, hm] at hcov; simp at hcov
      | some mm =>
        cases hp : o.res.ports with
        | none => rw [hc, hm, hp] at hcov; simp at hcov
        | some ps =>
          rw [hc, hm, hp] at hcov
          simp only [Bool.and_eq_true, decide_eq_true_eq, List.all_eq_true] at hcov
          have hinside := hcov.1.2
          rw [hp] at hfrom
          simp only [omem] at hfrom
          have hstat_mem : ∀ x ∈ expand (normalize l.task.static), ∃ r ∈ l.task.static, memR x r = true := by
            intro x hx
            rw [mem_expand, hmn, mem_iff] at hx
            exact hx
          unfold claimsOk
          simp only [List.map_cons, List.map_nil, List.flatMap_cons, List.flatMap_nil, List.append_nil,
            Option.getD_some, Bool.and_eq_true, List.all_eq_true, Task.claims, nodupNat_iff]
          refine ⟨?_, ?_⟩
          · intro x hx
            rw [List.mem_append] at hx
            cases hx with
            | inl hx =>
              obtain ⟨r, hr, hxr⟩ := hstat_mem x hx
              rw [hstatic] at hr
              exact (rangeInside_iff ps r).1 (hinside r hr) x hxr
            | inr hx => exact hfrom x hx
          · rw [List.nodup_append]
            refine ⟨?_, hnd, ?_⟩
            · exact (expand_canon _ hcn).1.imp (fun h => Nat.ne_of_lt h)
            · intro x hx y hy hxy
              subst hxy
              obtain ⟨r, hr, hxr⟩ := hstat_mem x hx
              have hle := hst l (by simp) r hr
              rw [memR_iff] at hxr
              have hd : dataBelow = 8999 := rfl
              simp only [Task.drawn, List.mem_append, List.mem_singleton] at hy
              cases hy with
              | inl hy => have := hdyn x hy; omega
              | inr hy => subst hy; omega
  | _ :: _ :: _, hlen => simp at hlen

/-! ## the predicate the correspondence run evaluates

`roundVerdict` (Spec/C05) is what the driver computes on what the IMPLEMENTATION
did in a round. For the model of the code as it is (both functions behaving as
intended, bookkeeping `codeCfg`) EVERY clause is a theorem — there is no excluded
class left in a round: -/

theorem C05_round_spec (m : Mode) (hs : m.satFixed = true) (hr : m.rngFixed = true) (hc : m.cfg = codeCfg)
    (offers : List Offer) (descs : List Desc) (order : List Offer)
    (hv : validInputs m descs order = true)
    (huniq : (offers.map (·.oid)).Nodup) (hsub : ∀ o ∈ order, o ∈ offers)
    (hparse : ∀ a ∈ (round m offers descs order).accepts, ∀ l ∈ a.launches, ∀ c, l.desc.cls = some c →
      (parseRanges true c.portsExpr).isSome = true) :
    (roundVerdict offers (round m offers descs order)).all = true := by
  have hv' := (validInputs_iff m descs order).1 hv
  have hacc := round_accepts m offers descs order hv'.1 hv'.2
  have hdec := round_declines m offers descs order hv'.1 hv'.2
  have hcon := C05_round_constraints m hs offers descs order hv
  have hcrash := C05_round_never_crashes_code m hc offers descs order
  have hsums := C05_sum_within_offer_code m hc offers descs order hv
  have hclaims := C05_all_claims_distinct_code m hc offers descs order hv
  simp only [RoundVerdict.all, roundVerdict, Bool.and_eq_true]
  refine ⟨⟨⟨⟨⟨⟨?_, ?_⟩, ?_⟩, ?_⟩, ?_⟩, ?_⟩, ?_⟩
  · simp [hcrash]
  · rw [List.all_eq_true]
    intro a ha
    obtain ⟨o, ho, hoid, hl⟩ := hcon a ha
    rw [hoid, findOffer_unique offers o (hsub o ho) huniq]
    simp only [List.all_eq_true]
    exact fun l hlm c hc => hl l hlm c hc
  · rw [List.all_eq_true]
    intro a ha
    obtain ⟨o, ho, hoid, hg, _⟩ := hacc a ha
    rw [hoid, findOffer_unique offers o (hsub o ho) huniq]
    simp only [List.all_eq_true]
    intro l hlm
    obtain ⟨_, c, hcls, _, hcov, hcpu, hmem, hstatic, hlen, _, _⟩ := hg l hlm
    rw [hcls]
    have hp := hparse a ha l hlm c hcls
    have hw : (c.wants m).static = (parseRanges true c.portsExpr).getD [] := by simp [Class.wants, hr]
    simp only [Bool.and_eq_true]
    refine ⟨?_, ?_⟩
    · unfold asTemplate
      simp only [Bool.and_eq_true, decide_eq_true_eq]
      refine ⟨⟨⟨hcpu, hmem⟩, ?_⟩, hlen⟩
      rw [hstatic, hw]
      cases hx : parseRanges true c.portsExpr with
      | none => rw [hx] at hp; cases hp
      | some x => rfl
    · have : ({ cpu := c.cpu, mem := c.mem, static := (parseRanges true c.portsExpr).getD [], inbound := c.inbound } : Wants)
          = c.wants m := by simp [Class.wants, hr]
      rw [this]; exact hcov
  · rw [List.all_eq_true]
    intro a ha
    obtain ⟨o, ho, hoid, hg, hnd, hfrom, _⟩ := hacc a ha
    rw [hoid, findOffer_unique offers o (hsub o ho) huniq]
    unfold drawnOk
    have hflat : (a.launches.map (·.task)).flatMap Task.drawn = drawnOf a.launches := by
      simp [drawnOf, List.flatMap_map]
    simp only [hflat, Bool.and_eq_true, List.all_eq_true, nodupNat_iff, decide_eq_true_eq, List.mem_map,
      forall_exists_index, and_imp, forall_apply_eq_imp_iff₂]
    refine ⟨⟨?_, hnd⟩, ?_⟩
    · intro p hp
      have := hfrom p hp
      cases hports : o.res.ports with
      | none => rw [hports] at this; simp [omem] at this
      | some ps => rw [hports] at this; simpa [omem] using this
    · intro l hl
      obtain ⟨_, c, _, _, _, _, _, _, _, hdyn, hctrl⟩ := hg l hl
      exact ⟨hdyn, hctrl⟩
  · rw [List.all_eq_true]
    intro a ha
    obtain ⟨o, ho, hoid, h⟩ := hclaims a ha
    rw [hoid, findOffer_unique offers o (hsub o ho) huniq]
    exact h
  · rw [List.all_eq_true]
    intro a ha
    obtain ⟨o, ho, hoid, h⟩ := hsums a ha
    rw [hoid, findOffer_unique offers o (hsub o ho) huniq]
    exact h
  · simp only [Bool.or_eq_true, Bool.and_eq_true, List.all_eq_true, List.any_eq_true, decide_eq_true_eq,
      Bool.not_eq_true', List.contains_eq_mem, List.isEmpty_iff]
    right
    refine ⟨?_, ?_⟩
    · intro o ho
      cases hdec.1 o ho with
      | inl h => left; exact h
      | inr h => right; exact h
    · intro a ha
      by_cases hne : a.launches = []
      · left; exact hne
      · right
        have := hdec.2 a ha hne
        simpa using this

/-- Non-vacuity: the two-task witness round satisfies the hypotheses of `C05_round_spec`
    and its verdict is evaluated to true by the kernel. -/
example :
    let m : Mode := { satFixed := true, rngFixed := true, cfg := codeCfg }
    let ds : List Desc := [⟨0, [], some (C05_witnessClass 3 "9000" [true])⟩, ⟨1, [], some (C05_witnessClass 3 "9000" [true])⟩]
    validInputs m ds [C05_witnessOffer] = true ∧
    (roundVerdict [C05_witnessOffer] (round m [C05_witnessOffer] ds [C05_witnessOffer])).all = true := by decide

/-! ## the class store across workflow loads

"The constraints that apply to it (those of the task template …)" and "what the
task template asks for" mean the template AS LAST LOADED. `Manager.RefreshClasses`
hands every class a workflow needs to `Classes.UpdateClass`; `history` is a
sequence `load; place; reload (classes edited under the same key); place; …` on
one store. `latest steps n k` (Spec/C05) is the last definition of class `k`
among the loads of rounds `0..n` — defined without any reference to the store. -/

/-- The template on which `Class.Equals` is tabulated, and its one-place edits. -/
def C05_equalsBase : Class :=
  { cts := [⟨"role", "flp", 0⟩], cpu := 4, mem := 512, portsExpr := "8000-8002".toList, inbound := [true, false], cmd := "sleep 1" }

/-- What the MODEL's `Class.equalsCW` notices of a one-place edit. -/
def C05_equalsNoticesModel (rngFixed : Bool) : List (String × Bool) :=
  let b := C05_equalsBase
  [("command", !b.equalsCW rngFixed { b with cmd := "sleep 2" }),
   ("cpu", !b.equalsCW rngFixed { b with cpu := 8 }),
   ("memory", !b.equalsCW rngFixed { b with mem := 1024 }),
   ("ports", !b.equalsCW rngFixed { b with portsExpr := "8100-8102".toList }),
   ("constraints", !b.equalsCW rngFixed { b with cts := [⟨"role", "epn", 0⟩] }),
   ("bind", !b.equalsCW rngFixed { b with inbound := [true, false, true] }),
   ("nothing", !b.equalsCW rngFixed b)]

/-- The store of the model is the code's (facts re-read on every run): `UpdateClass`
    has one branch, `if held { *entry = *class } else { map[key] = class }`, no return
    and no assignment to its parameters — a held key is overwritten unconditionally
    (`codeCfg.storeOverwrites`); the loop of `RefreshClasses` hands every loaded class
    to it; and the linked `Class.Equals`, evaluated on a template and its one-place
    edits, notices exactly what `Class.equalsCW` notices: command, cpu, memory, ports —
    NOT constraints, NOT bind. (So a store that kept a held entry on `Equals` would
    be the store of `keepIfEqualCfg`, refuted below.) -/
theorem C05_class_store_is_code :
    Gen.Placement.updateOverwrites = codeCfg.storeOverwrites ∧
    Gen.Placement.refreshUpdatesEvery = true ∧
    ∀ rngFixed, Gen.Placement.equalsNotices = C05_equalsNoticesModel rngFixed := by
  refine ⟨by decide, by decide, ?_⟩
  intro f
  cases f <;> decide

/-- One workflow load on a store that overwrites: afterwards every class reads as
    its LAST definition in the load, and a class the load does not mention reads as before. -/
theorem C05_store_get_is_last_loaded (m : Mode) (hk : m.cfg.storeOverwrites = true)
    (s : Store) (defs : List (Key × Class)) (k : Key) :
    storeGet (storeLoad m s defs) k =
      (match lastLoaded defs k with | some c => some c | none => storeGet s k) := by
  -- `all` = everything in sight; irrelevant for a store that overwrites
  have hs : HeldFrom s (s ++ defs) := by
    intro k h hh
    have : ∀ (s : Store), storeGet s k = some h → (k, h) ∈ s := by
      intro s
      induction s with
      | nil => intro hh; simp [storeGet] at hh
      | cons x xs ih =>
        obtain ⟨e, c⟩ := x
        intro hh
        by_cases hek : e = k
        · simp only [storeGet, hek, if_true, Option.some.injEq] at hh
          subst hh; subst hek; exact List.mem_cons_self
        · simp only [storeGet, hek, if_false] at hh
          exact List.mem_cons_of_mem _ (ih hh)
    exact List.mem_append_left _ (this s hh)
  exact (storeLoad_spec m (s ++ defs) defs s (Or.inl hk) (fun d hd => List.mem_append_right _ hd) hs).1 k

/-- FULL-STRENGTH: in every history, round `n` answers exactly what the OFFERS
    handler answers for the round's descriptors with, for each class, its LAST
    definition among the loads of rounds `0..n` — whatever was loaded before under
    that key and whatever the edit touched. -/
def C05_history_follows_latest_full (k : Cfg) : Prop :=
  ∀ (m : Mode), m.cfg = k → ∀ (steps : List Step) (n : Nat),
    (history m [] steps)[n]? =
      steps[n]?.map fun st => round m st.offers (st.descs.map (resolveBy (latest steps n))) st.order

/-- Any store that overwrites follows the latest template: all histories, all rounds. -/
theorem C05_history_follows_latest (m : Mode) (hk : m.cfg.storeOverwrites = true) (steps : List Step) (n : Nat) :
    (history m [] steps)[n]? =
      steps[n]?.map fun st => round m st.offers (st.descs.map (resolveBy (latest steps n))) st.order :=
  history_getElem? m steps (Or.inl hk) n

/-- The code as it is follows the latest template. -/
theorem C05_history_follows_latest_code : C05_history_follows_latest_full codeCfg :=
  fun m hm steps n => C05_history_follows_latest m (by rw [hm]; rfl) steps n

/-- Placement in round `n` depends on the loads ONLY through the last definition of
    each class before `n`: two histories whose round `n` has the same offers,
    descriptors and lock order, and in which every class has the same latest
    definition at `n`, answer the same in round `n` — however they got there. -/
theorem C05_history_depends_only_on_latest (m : Mode) (hk : m.cfg.storeOverwrites = true)
    (steps₁ steps₂ : List Step) (n : Nat) (st₁ st₂ : Step)
    (h1 : steps₁[n]? = some st₁) (h2 : steps₂[n]? = some st₂)
    (ho : st₁.offers = st₂.offers) (hd : st₁.descs = st₂.descs) (hord : st₁.order = st₂.order)
    (hl : ∀ k, latest steps₁ n k = latest steps₂ n k) :
    (history m [] steps₁)[n]? = (history m [] steps₂)[n]? := by
  rw [C05_history_follows_latest m hk steps₁ n, C05_history_follows_latest m hk steps₂ n, h1, h2]
  have : latest steps₁ n = latest steps₂ n := funext hl
  simp [ho, hd, hord, this]

/-- Reloading classes exactly as they are held changes nothing — for ANY store
    configuration: the store is the same afterwards, so every later round of
    every continuation answers the same. -/
theorem C05_reload_identical_changes_nothing (m : Mode) (s : Store) (defs : List (Key × Class))
    (h : ∀ d ∈ defs, storeGet s d.1 = some d.2) (offers : List Offer) (descs : List DescRef) (order : List Offer)
    (rest : List Step) :
    storeLoad m s defs = s ∧
    history m s (⟨defs, offers, descs, order⟩ :: rest) = history m s (⟨[], offers, descs, order⟩ :: rest) := by
  have hs := storeLoad_held m defs s h
  refine ⟨hs, ?_⟩
  simp only [history, hs]
  rfl

/-- Two agents and a class whose reloaded copy differs in its constraints only. -/
def C05_flpOffer : Offer := { C05_witnessOffer with oid := 0, attrs := [("machine_id", "m0"), ("role", "flp")] }
def C05_epnOffer : Offer := { C05_witnessOffer with oid := 1, attrs := [("machine_id", "m1"), ("role", "epn")] }

def C05_reloadWitness (second : Class) : List Step :=
  let first : Class := { cts := [⟨"role", "flp", 0⟩], cpu := 1, mem := 0, portsExpr := [], inbound := [true], cmd := "run" }
  let os := [C05_flpOffer, C05_epnOffer]
  [⟨[(0, first)], os, [⟨0, [], some 0⟩], os⟩, ⟨[(0, second)], os, [⟨0, [], some 0⟩], os⟩]

/-- A store that keeps the held entry when `Class.Equals` finds command and wants
    unchanged does NOT follow the latest template: the class is loaded with
    `role = flp`, edited to `role = epn` (nothing else), loaded again — and the
    second deployment still goes to the flp agent. -/
theorem C05_keep_if_equal_goes_stale : ¬ C05_history_follows_latest_full keepIfEqualCfg := by
  intro h
  have := h { satFixed := true, rngFixed := true, cfg := keepIfEqualCfg } rfl
    (C05_reloadWitness { cts := [⟨"role", "epn", 0⟩], cpu := 1, mem := 0, portsExpr := [], inbound := [true], cmd := "run" }) 1
  have := congrArg (Option.map fun out => out.accepts.map fun a => (a.oid, a.launches.map (·.desc.id))) this
  revert this
  decide

/-- On the code as it is: after that reload the task goes to the epn agent; and
    after a reload that only adds an inbound TCP channel the task gets two dynamic ports. -/
theorem C05_reloaded_template_followed_code :
    let m : Mode := { satFixed := true, rngFixed := true, cfg := codeCfg }
    ((history m [] (C05_reloadWitness
        { cts := [⟨"role", "epn", 0⟩], cpu := 1, mem := 0, portsExpr := [], inbound := [true], cmd := "run" })).map
      fun out => out.accepts.map fun a => (a.oid, a.launches.map (·.desc.id))) = [[(0, [0]), (1, [])], [(0, []), (1, [0])]] ∧
    ((history m [] (C05_reloadWitness
        { cts := [⟨"role", "flp", 0⟩], cpu := 1, mem := 0, portsExpr := [], inbound := [true, true], cmd := "run" })).map
      fun out => out.accepts.map fun a => a.launches.map (·.task.dyn)) = [[[[9000]], []], [[[9000, 9001]], []]] := by decide

/-- Whatever the store does with classes `Class.Equals` finds equal: on every
    history in which `Class.Equals` tells apart any two different definitions of
    one class (no reload edits ONLY constraints, bind, … ), the latest template is followed. -/
theorem C05_history_follows_latest_partial (m : Mode) (steps : List Step)
    (hyp : ∀ a ∈ steps.flatMap (·.loads), ∀ b ∈ steps.flatMap (·.loads),
      a.1 = b.1 → a.2.equalsCW m.rngFixed b.2 = true → a.2 = b.2) (n : Nat) :
    (history m [] steps)[n]? =
      steps[n]?.map fun st => round m st.offers (st.descs.map (resolveBy (latest steps n))) st.order :=
  history_getElem? m steps (Or.inr hyp) n

/-- The predicate the correspondence run evaluates on a history (`histVerdict`:
    every clause of `roundVerdict` in every round, each task judged against the
    template as last loaded) is a theorem for the model of the code as it is. -/
theorem C05_history_spec (m : Mode) (hs : m.satFixed = true) (hr : m.rngFixed = true) (hc : m.cfg = codeCfg)
    (steps : List Step)
    (hsteps : ∀ x ∈ steps.zip (resolvedDescs [] steps),
      validInputs m x.2 x.1.order = true ∧ (x.1.offers.map (·.oid)).Nodup ∧ (∀ o ∈ x.1.order, o ∈ x.1.offers) ∧
      ∀ a ∈ (round m x.1.offers x.2 x.1.order).accepts, ∀ l ∈ a.launches, ∀ c, l.desc.cls = some c →
        (parseRanges true c.portsExpr).isSome = true) :
    histVerdict steps (history m [] steps) = true := by
  have hk : m.cfg.storeOverwrites = true := by rw [hc]; rfl
  have h := history_eq_resolved m (steps.flatMap (·.loads)) (Or.inl hk) steps [] []
    (fun st hst d hd => List.mem_flatMap.2 ⟨st, hst, hd⟩) (fun k h hh => by simp [storeGet] at hh) (fun k => rfl)
  unfold histVerdict
  rw [Bool.and_eq_true]
  refine ⟨by simp [history_length], ?_⟩
  rw [h]
  -- pair every step with its resolved descriptors
  have key : ∀ (A : List Step) (B : List (List Desc)),
      (∀ x ∈ A.zip B, (roundVerdict x.1.offers (round m x.1.offers x.2 x.1.order)).all = true) →
      (A.zip (List.zipWith (fun st ds => round m st.offers ds st.order) A B)).all
        (fun x => (roundVerdict x.1.offers x.2).all) = true := by
    intro A
    induction A with
    | nil => intro B _; simp
    | cons a as ih =>
      intro B hB
      cases B with
      | nil => simp
      | cons b bs =>
        simp only [List.zipWith_cons_cons, List.zip_cons_cons, List.all_cons, Bool.and_eq_true]
        refine ⟨hB (a, b) (by simp), ih bs (fun x hx => hB x (by simp [hx]))⟩
  apply key
  intro x hx
  obtain ⟨v1, v2, v3, v4⟩ := hsteps x hx
  exact C05_round_spec m hs hr hc x.1.offers x.2 x.1.order v1 v2 v3 v4

/-- Non-vacuity: the reload witness satisfies the hypotheses of `C05_history_spec`
    (evaluated), and its verdict is true. -/
example :
    let m : Mode := { satFixed := true, rngFixed := true, cfg := codeCfg }
    let steps := C05_reloadWitness { cts := [⟨"role", "epn", 0⟩], cpu := 1, mem := 0, portsExpr := [], inbound := [true, true], cmd := "run" }
    ((steps.zip (resolvedDescs [] steps)).all fun x => validInputs m x.2 x.1.order) = true ∧
    histVerdict steps (history m [] steps) = true := by decide
