/-
  Props/C06 — "Destroying or failing to create an environment leaves nothing behind".

  Property theorems only (names `C06_*` are the proof obligations counted in the
  evidence file); the model is Model/Own.lean, the predicates Spec/C06.lean, the
  lemmas Proofs/Own.lean. The model is tied to the real core by the
  correspondence run (harness/props/c06: the real core behind the whole-core
  simulator, monitor Driver/OwnCommon).

  `cleanAfter k keep v` (Spec/C06) is the predicate both sides are judged by: k is
  gone from the listing; no roster task is still owned by it; unless tasks were
  to be kept, every task launched for it was sent a KILL, or has ended, or sits
  unowned in the roster; every active detector belongs to a listed environment;
  the calls it had pending were cancelled.

  Executors and agents may be lost at any time (steps `execLost`, `agentLost`; the
  environment's watcher then reacts: `watchError`): the tasks they ran are unlocked
  (ids blanked) but keep their parent role. The clean-up theorems cover the states
  this leaves (`C06_loss_keeps_hypotheses`, `C06_destroyed_after_loss_clean_partial`,
  `C06_failed_create_after_loss_clean_partial`).

  Three statements do NOT hold of the code as it is. They are kept visible as
  `…_full`, proved under the hypothesis that excludes the offending inputs /
  schedules, and refuted on a witness the real core was seen to follow:
    * destroy_hooks_unreleased — TeardownEnvironment overwrites its second
      ReleaseTasks message in every iteration of the loop over the DESTROY
      weights, and only names hook tasks whose role is ACTIVE;
    * launch_pending_leak — doKillTasks only KILLs tasks whose status is ACTIVE;
      a task that was launched but has not yet reported TASK_RUNNING when its
      deployment is given up is dropped from the roster and keeps running;
    * teardown_registration_race — the event loop deletes the pending-teardown
      entry after handing the event over, possibly after TeardownEnvironment
      registered the entry for its second release: the call then waits for ever.
-/
import ControlModel.Proofs.Own

open Own

/-! ## a destroy that answers success -/

/-- **A destroy that answers success has taken the environment out of the listing** —
    equivalently: a destroy after which the environment is still listed did not answer
    success (it answered an error, "not found", or did not return). No hypothesis. -/
theorem C06_unhonoured_is_error (s : State) (k : EnvId) (force allow keep : Bool) (o : DOracle) :
    (destroy s k force allow keep o).2.1 = .ok → ∀ E ∈ (destroy s k force allow keep o).1.envs, E.id ≠ k :=
  destroy_ok_unlisted s k force allow keep o

/-- … and a request on an environment that is not listed answers "not found". -/
theorem C06_destroy_unknown_is_error (s : State) (k : EnvId) (force allow keep : Bool) (o : DOracle)
    (h1 : ∀ p ∈ s.creating, p.id ≠ k) (h : s.env? k = none) :
    (destroy s k force allow keep o).2.1 = .notfound ∧ (destroy s k force allow keep o).1 = s := by
  have : (s.creating.any fun p => decide (p.id = k)) = false := by
    simp only [List.any_eq_false, decide_eq_true_eq]; exact h1
  simp [destroy, this, h]

/-- The full-strength claim: whenever DestroyEnvironment answers success the environment is clean. -/
def C06_destroyed_clean_full : Prop :=
  ∀ (s : State) (k : EnvId) (force allow keep : Bool) (o : DOracle) (E : Env),
    s.env? k = some E → envWf s k E.tasks = true → (∀ h ∈ E.hooks, h.task ∈ E.tasks) →
    (destroy s k force allow keep o).2.1 = .ok →
    cleanAfter k keep (viewOf (destroy s k force allow keep o).1) = true

/-- **After a destroy that answered success the environment is clean** (`cleanAfter`): not
    listed, none of its tasks still owned by it, every task launched for it sent a KILL or
    ended (unless the caller asked to keep tasks), every active detector held by a listed
    environment, its pending calls cancelled — in every state (force or not, from any
    environment state, whichever of STOP / RESET / the first teardown attempt failed, with
    any oracle) whose bookkeeping is well-formed (`envWf`), provided
      * `hooksReleasable` : its DESTROY hooks sit at one weight at most and are ACTIVE, and
      * `statusFaithful`  : a task of it that the core believes inactive has really ended. -/
theorem C06_destroyed_clean_partial (s : State) (k : EnvId) (force allow keep : Bool) (o : DOracle) (E : Env)
    (hE : s.env? k = some E) (hwf : envWf s k E.tasks = true) (hhk : ∀ h ∈ E.hooks, h.task ∈ E.tasks)
    (hrel : hooksReleasable s E.hooks = true) (hfaith : statusFaithful s E.tasks = true)
    (hok : (destroy s k force allow keep o).2.1 = .ok) :
    cleanAfter k keep (viewOf (destroy s k force allow keep o).1) = true :=
  destroy_clean s k force allow keep o E hE hwf hfaith hrel hhk hok

/-! ### finding destroy_hooks_unreleased -/

/-- One task and two DESTROY hook tasks, at weights 10 and 20. -/
def hooks2Spec : EnvSpec :=
  { bad := .ok, dets := [0], roles := [{ kind := .task, cls := 1, host := 1 },
      { kind := .hook, cls := 2, host := 1, weight := 10 }, { kind := .hook, cls := 3, host := 2, weight := 20 }] }

def hooks2State : State :=
  run (init false [1, 2, 3, 4]) [.createBegin 0 hooks2Spec, .createCleanup 0, .createInsert 0, .createSettle 0 {}]

/-- The environment as listed in `hooks2State`. -/
def hooks2Env : Env :=
  { id := 0, state := .CONFIGURED, dets := [0], tasks := [1, 2, 3],
    hooks := [{ task := 2, weight := 10, after := false }, { task := 3, weight := 20, after := false }],
    calls := 0, pending := 0, started := 0, cancelled := 0, tearing := false }

/-- **Finding destroy_hooks_unreleased**: a plain destroy of a freshly created environment with
    DESTROY hooks at two weights answers success and leaves the weight-10 hook task locked by
    the deleted environment (never released, hence never killed: KillTasks and Cleanup skip
    locked tasks). -/
theorem C06_finding_destroy_hooks_unreleased : ¬ C06_destroyed_clean_full := by
  intro h
  have := h hooks2State 0 false false false {} hooks2Env (by decide) (by decide) (by decide) (by decide)
  revert this
  decide

/-- The witness violates exactly the hook hypothesis (its status is faithful). -/
theorem C06_hooks_witness_hypotheses :
    hooksReleasable hooks2State [{ task := 2, weight := 10, after := false }, { task := 3, weight := 20, after := false }] = false ∧
    statusFaithful hooks2State [1, 2, 3] = true := by decide

/-! ## a creation that fails -/

/-- Stages at which a creation can fail before the environment is entered in the map: nothing of it exists. -/
theorem C06_failed_create_early (s : State) (k : EnvId) (spec : EnvSpec) (o : SettleOracle)
    (hfresh : k ∉ s.used) (hbad : spec.bad = .nowf) :
    (create s k spec o).2 = .errLoad ∧ (create s k spec o).1.envs = s.envs ∧
    (create s k spec o).1.roster = s.roster ∧ (create s k spec o).1.master = s.master := by
  simp [create, createBegin, hfresh, hbad]

/-- A creation refused at the detector check (or for a missing task class) has only run the
    pre-deployment cleanup: the listing is unchanged and nothing was launched for it. -/
theorem C06_failed_create_detector (s : State) (k : EnvId) (spec : EnvSpec) (o : SettleOracle)
    (hfresh : k ∉ s.used) (hok : spec.bad = .ok) (hconf : ∃ d ∈ spec.dets, d ∈ s.activeDets) :
    (create s k spec o).2 = .errDetector ∧ (create s k spec o).1.envs = s.envs ∧
    (create s k spec o).1.roster = (cleanup s).roster ∧ (create s k spec o).1.master = (cleanup s).master :=
  create_conflict_fields s k spec o hfresh hok hconf

/-- The full-strength claim for the failure tail of CreateEnvironment (deployment or
    configuration failed: GO_ERROR, forced teardown, KillTasks): unless it hangs, it leaves
    the environment clean. -/
def C06_failed_create_clean_full : Prop :=
  ∀ (s : State) (k : EnvId) (late : Bool) (res : Res) (hf : List TaskId) (E : Env),
    s.env? k = some E → E.tearing = false → envWf s k E.tasks = true → (∀ h ∈ E.hooks, h.task ∈ E.tasks) →
    (createFail s k E.tasks late res hf).2 ≠ .hang →
    cleanAfter k false (viewOf (createFail s k E.tasks late res hf).1) = true

/-- **The failure tail of a creation (deployment or configuration failed) leaves the
    environment clean** unless it hangs, under the same two hypotheses as a destroy. -/
theorem C06_failed_create_clean_partial (s : State) (k : EnvId) (late : Bool) (res : Res) (hf : List TaskId) (E : Env)
    (hE : s.env? k = some E) (hte : E.tearing = false) (hwf : envWf s k E.tasks = true)
    (hhk : ∀ h ∈ E.hooks, h.task ∈ E.tasks)
    (hrel : hooksReleasable s E.hooks = true) (hfaith : statusFaithful s E.tasks = true)
    (hnh : (createFail s k E.tasks late res hf).2 ≠ .hang) :
    cleanAfter k false (viewOf (createFail s k E.tasks late res hf).1) = true :=
  createFail_clean s k late res hf E hE hte hwf hhk hrel hfaith hnh

/-! ### finding launch_pending_leak -/

def leakSpec : EnvSpec :=
  { bad := .ok, dets := [0], roles := [{ kind := .task, cls := 1, host := 1 }, { kind := .task, cls := 2, host := 2 }] }

/-- Task 1 dies at launch while task 2 is still starting; later task 2 comes up. -/
def leakSchedule : List Step :=
  [.createBegin 0 leakSpec, .createCleanup 0, .createInsert 0,
   .createSettle 0 { launches := [(0, { mesos := .terminal, active := false }), (1, { mesos := .staging, active := false })] },
   .mesosStart 0]

/-- The full-strength claim over whole runs: after any step sequence, an environment that is no
    longer listed and not being created has left no task running unknown to the core. -/
def C06_no_leak_full : Prop :=
  ∀ (steps : List Step) (k : EnvId), k ∈ (run (init false [1, 2, 3, 4]) steps).used →
    (∀ E ∈ (run (init false [1, 2, 3, 4]) steps).envs, E.id ≠ k) →
    (∀ p ∈ (run (init false [1, 2, 3, 4]) steps).creating, p.id ≠ k) →
    cleanAfter k false (viewOf (run (init false [1, 2, 3, 4]) steps)) = true

/-- **Finding launch_pending_leak**: the creation fails, the environment is gone, and task 2 —
    launched for it, locked by it until the failure tail released it — is neither killed nor
    ended nor in the roster: it runs on, unknown to the core, out of reach of every cleanup. -/
theorem C06_finding_launch_pending_leak : ¬ C06_no_leak_full := by
  intro h
  have := h leakSchedule 0 (by decide) (by decide) (by decide)
  revert this
  decide

/-! ## a lost executor or agent before the destroy / before the failure tail -/

/-- **A lost executor / agent unlocks the task without taking it from its environment**
    (HandleExecutorFailed / HandleAgentFailed blank executorId / agentId and leave the parent
    role): every roster entry the failure names is afterwards not locked, INACTIVE, and has
    the parent it had. This is the state a later destroy has to clean up. -/
theorem C06_lost_task_unlocked_still_owned (s : State) (h : Host) (agent : Bool) (t : Task) (ht : t ∈ s.roster)
    (hhit : t.hitBy agent h = true) :
    ∃ t' ∈ (hostLost s h agent).roster, t'.id = t.id ∧ t'.isLocked = false ∧ t'.active = false ∧ t'.parent = t.parent := by
  refine ⟨t.lose agent, ?_, (lose_props agent t).1, ?_, (lose_props agent t).2.2.2.2, (lose_props agent t).2.2.1⟩
  · rw [hostLost_roster]
    exact List.mem_map.mpr ⟨t, ht, by simp [hhit]⟩
  · cases agent <;> simp [Task.lose, Task.isLocked, Task.idsOk]

/-- … and releaseTask releases such a task all the same: a task whose parent role belongs to
    the releasing environment (or to nobody) is released whether or not it is locked. -/
theorem C06_release_unlocked_own (e : EnvId) (t : Task) (h : t.parent = some e ∨ t.parent = none) :
    releaseTask e t = ({ t with parent := none }, true) := by
  simp [releaseTask, releaseOk_of_parent e t h]

/-- **Lost executors / agents and the watcher's reactions keep the hypotheses of the
    clean-destroy theorem** (any number of them, on any hosts, with any STOP failures): the
    environment stays listed with the same task and hook references, its bookkeeping stays
    well-formed (`envWf`), roster and master still agree on the hosts, and a task of it that
    the core believes inactive has really ended (`statusFaithful`: the lost tasks have). -/
theorem C06_loss_keeps_hypotheses (s : State) (steps : List Step) (hl : steps.all Step.isLoss = true)
    (k : EnvId) (tasks : List TaskId) (hooks : List HookRef) (h : LossKeeps s k tasks hooks) :
    LossKeeps (run s steps) k tasks hooks :=
  lossKeeps_run steps hl s k tasks hooks h

/-- **After a destroy that answered success the environment is clean, also when executors or
    agents of its tasks were lost before** (and its watcher took it to ERROR or not): same
    statement and hypotheses as `C06_destroyed_clean_partial`, stated on the state before the
    losses, plus `hostsAgree`; only the hook hypothesis has to hold at the destroy (a lost
    DESTROY hook task is no longer ACTIVE: that is finding destroy_hooks_unreleased again). -/
theorem C06_destroyed_after_loss_clean_partial (s : State) (steps : List Step) (hl : steps.all Step.isLoss = true)
    (k : EnvId) (force allow keep : Bool) (o : DOracle) (E : Env)
    (hE : s.env? k = some E) (hte : E.tearing = false) (hwf : envWf s k E.tasks = true) (hag : hostsAgree s E.tasks = true)
    (hfaith : statusFaithful s E.tasks = true) (hhk : ∀ h ∈ E.hooks, h.task ∈ E.tasks)
    (hrel : hooksReleasable (run s steps) E.hooks = true)
    (hok : (destroy (run s steps) k force allow keep o).2.1 = .ok) :
    cleanAfter k keep (viewOf (destroy (run s steps) k force allow keep o).1) = true :=
  destroy_after_loss_clean s steps hl k force allow keep o E hE hte hwf hag hfaith hhk hrel hok

/-- The same for the failure tail of a creation. -/
theorem C06_failed_create_after_loss_clean_partial (s : State) (steps : List Step) (hl : steps.all Step.isLoss = true)
    (k : EnvId) (late : Bool) (res : Res) (hf : List TaskId) (E : Env)
    (hE : s.env? k = some E) (hte : E.tearing = false) (hwf : envWf s k E.tasks = true) (hag : hostsAgree s E.tasks = true)
    (hfaith : statusFaithful s E.tasks = true) (hhk : ∀ h ∈ E.hooks, h.task ∈ E.tasks)
    (hrel : hooksReleasable (run s steps) E.hooks = true)
    (hnh : (createFail (run s steps) k E.tasks late res hf).2 ≠ .hang) :
    cleanAfter k false (viewOf (createFail (run s steps) k E.tasks late res hf).1) = true :=
  createFail_after_loss_clean s steps hl k late res hf E hE hte hwf hag hfaith hhk hrel hnh

/-- Two tasks on hosts 1 and 2, created and configured. -/
def lossSpec : EnvSpec :=
  { bad := .ok, dets := [0], roles := [{ kind := .task, cls := 1, host := 1 }, { kind := .task, cls := 2, host := 2 }] }

def lossState : State :=
  run (init false [1, 2, 3, 4]) [.createBegin 0 lossSpec, .createCleanup 0, .createInsert 0, .createSettle 0 {}]

def lossEnv : Env :=
  { id := 0, state := .CONFIGURED, dets := [0], tasks := [1, 2], hooks := [],
    calls := 0, pending := 0, started := 0, cancelled := 0, tearing := false }

/-- The hypotheses are satisfiable and the loss is not a no-op: the executor on host 1 is
    lost, the watcher takes the environment to ERROR; task 1 is then unlocked but still
    parented by environment 0; a forced destroy that keeps the tasks answers success and
    leaves no roster entry with environment 0 as owner. -/
example :
    lossState.env? 0 = some lossEnv ∧ envWf lossState 0 [1, 2] = true ∧ hostsAgree lossState [1, 2] = true ∧
    statusFaithful lossState [1, 2] = true ∧
    (viewOf (run lossState [.execLost 1, .watchError 0 []])).roster =
      [{ task := 1, owner := some 0, locked := false, state := none },
       { task := 2, owner := some 0, locked := true, state := some .CONFIGURED }] ∧
    (destroy (run lossState [.execLost 1, .watchError 0 []]) 0 true false true {}).2.1 = .ok ∧
    (viewOf (destroy (run lossState [.execLost 1, .watchError 0 []]) 0 true false true {}).1).roster =
      [{ task := 1, owner := none, locked := false, state := none },
       { task := 2, owner := none, locked := false, state := none }] := by decide

/-- `cleanAfter` rejects what a release that skips unlocked tasks would leave: the same view
    with task 1 still owned by the destroyed environment. -/
example : cleanAfter 0 true
    { roster := [{ task := 1, owner := some 0, locked := false, state := none },
                 { task := 2, owner := none, locked := false, state := none }] } = false := by decide

/-! ## order inside a teardown -/

/-- **DESTROY hooks run only after the other tasks were released**: if a teardown triggers a
    DESTROY hook at all, then the first thing it did was the ReleaseTasks message naming every
    task of the environment that is not a DESTROY hook, that message met no release error, and in
    the state the hooks run in none of those tasks is locked any more. -/
theorem C06_destroy_hooks_after_release (s : State) (k : EnvId) (force late : Bool) (hf : List TaskId) (E : Env)
    (hE : s.env? k = some E) (hs : List TaskId) (hh : TEv.hooks hs ∈ (teardown s k force late hf).2.2) :
    (teardown s k force late hf).2.2.head? = some (.release (tdPlain E)) ∧
    (releaseTasks s k (tdPlain E)).2 = 0 ∧
    (∀ t ∈ (releaseTasks s k (tdPlain E)).1.roster, t.id ∈ tdPlain E → t.isLocked = false) ∧
    (∀ x ∈ E.tasks, x ∉ effHooks E.hooks → x ∈ tdPlain E) :=
  teardown_hooks_after_release s k force late hf E hE hs hh

/-! ## the rendezvous between TeardownEnvironment and the event loop -/

/-- The full-strength liveness claim: every maximal schedule of the rendezvous ends with
    TeardownEnvironment returned. -/
def C06_teardown_returns_full : Prop :=
  ∀ st ∈ Rdv.reach false 12 [{}], Rdv.stuck false st = true → Rdv.done st = true

/-- **Finding teardown_registration_race**: the schedule register · send · recv · handoff ·
    *register* · delete · send · recv is a run of the code (the loop's `delete` falls after
    TeardownEnvironment's second `register`); it ends with the second event dropped and
    TeardownEnvironment waiting for ever at its second `<-pendingCh`. -/
theorem C06_finding_teardown_registration_race : ¬ C06_teardown_returns_full := by
  intro h
  have hrun : Rdv.run false {} [.register, .send, .recv, .handoff, .register, .delete, .send, .recv] =
      some { entry := none, nextCh := 3, queue := 0, loop := .idle, td := 5, waitCh := 2 } := by decide
  have hmem : ({ entry := none, nextCh := 3, queue := 0, loop := .idle, td := 5, waitCh := 2 } : Rdv.St) ∈ Rdv.reach false 12 [{}] := by decide
  have := h _ hmem (by decide)
  revert this
  decide

/-- With the entry taken out of the map in the critical section that looked it up (the
    proposed repair), every maximal schedule ends with TeardownEnvironment returned
    (all reachable states of the repaired protocol, enumerated). -/
theorem C06_teardown_returns_repaired :
    ∀ st ∈ Rdv.reach true 12 [{}], Rdv.stuck true st = true → Rdv.done st = true := by decide

/-- In the main model the race is the oracle `late`: without it a teardown never answers "hang"
    unless an earlier one already hung in the same environment. -/
theorem C06_teardown_returns_partial (s : State) (k : EnvId) (force : Bool) (hf : List TaskId)
    (h : ∀ E ∈ s.envs, E.tearing = false) : (teardown s k force false hf).2.1 ≠ .hang := by
  unfold teardown
  split
  · simp
  · rename_i E hE
    have := h E (env?_some hE).1
    simp only [this, Bool.false_eq_true, if_false]
    split
    · simp
    split
    · simp
    split
    · simp
    · unfold tdFinish
      simp only [Bool.false_eq_true, if_false]
      split
      · simp
      · split <;> simp
