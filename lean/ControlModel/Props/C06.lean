/-
  Props/C06 — "Destroying or failing to create an environment leaves nothing behind".

  Property theorems only (names `C06_*` are the proof obligations counted in the
  evidence file); the model is Model/Own.lean, the predicates Spec/C06.lean, the
  lemmas Proofs/Own.lean. The model is tied to the real core by the
  correspondence run (harness/props/c06: the real core behind the whole-core
  simulator, monitor Driver/OwnCommon).

  `cleanAfter k keep v` (Spec/C06) is the predicate both sides are judged by: k is
  gone from the listing; no roster task is still owned by it; unless tasks were
  to be kept, every task launched for it was sent a KILL, or has ended, or sits
  unowned in the roster; every active detector belongs to a listed environment;
  the calls it had pending were cancelled. It is what a creation that FAILED obliges.
  A destroy request that answered SUCCESS obliges `destroyedClean k keep v`: `cleanAfter`
  and — unless tasks were to be kept — `allKilled`: every task launched for k was sent a
  KILL (one the master accepted) or has ended. A KILL call may fail (`State.refusing`,
  fault step `killFault`): doKillTasks puts the task back into the roster, unowned and
  still running, and reports an error that no later kill of the same loop resets; a
  destroy whose clean-up met such a failure answers an error — "a destroy request that
  cannot be honoured returns an error rather than success" (section "a KILL call that
  fails"; tie `C06_kill_error_is_code`).

  Executors and agents may be lost at any time (steps `execLost`, `agentLost`; the
  environment's watcher then reacts: `watchError`): the tasks they ran are unlocked
  (ids blanked) but keep their parent role. The clean-up theorems cover the states
  this leaves (`C06_loss_keeps_hypotheses`, `C06_destroyed_after_loss_clean_partial`,
  `C06_failed_create_after_loss_clean_partial`).

  A state carries the configuration it runs under (`Own.Cfg`): `codeCfg` is the code
  as it is, `legacyCfg` the code before the repairs notes/C06.fix-1 and C06.fix-2
  (and C04.fix-1). `…_code` theorems are about `codeCfg`, the refutations of the two
  fixed findings about `legacyCfg`, `…_partial` theorems about every configuration.

  Two statements do NOT hold of the code as it is. Each is kept visible as `…_full`,
  proved under the hypothesis that excludes the offending inputs, and refuted on a
  witness the real core was seen to follow:
    * teardown_recursive_rlock — TeardownEnvironment read-locks the environment manager's
      mutex and calls `envs.environment()`, which read-locks it again; a writer whose Lock()
      falls between the two (another teardown, a creation entering its environment in the map,
      the event loop) deadlocks the mutex: the requests involved, and every later one, never
      return (`C06_lookup_returns_full`, `C06_finding_teardown_recursive_rlock`,
      `C06_lookup_returns_partial`, `C06_lookup_returns_repaired`, tie `C06_lookup_is_code`).
      Seen on the real core when a destroy waits for a creation that then fails: the destroy's
      teardown and the creation's own teardown start at the same instant (about one run in 150).
    * launch_pending_leak — doKillTasks only KILLs tasks whose status is ACTIVE;
      a task that was launched but has not yet reported TASK_RUNNING when its
      deployment is given up is dropped from the roster and keeps running
      (hypothesis `statusFaithful` of the clean-up theorems).
  Two statements did not hold and do now (findings fixed):
    * destroy_hooks_unreleased — TeardownEnvironment overwrote its second
      ReleaseTasks message in every iteration of the loop over the DESTROY
      weights, and only named hook tasks whose role was ACTIVE. Now the hook tasks of
      all weights are released together: `C06_destroyed_clean_code`,
      `C06_failed_create_clean_code` (+ the two `…_after_loss_clean_code`) need no
      hook hypothesis; tie `C06_hook_release_is_code`;
    * teardown_registration_race — the event loop deleted the pending-teardown
      entry after handing the event over, possibly after TeardownEnvironment had
      registered the entry for its second release: the call then waited for ever. Now
      the entry is removed in the critical section that looks it up:
      `C06_teardown_returns_code`, `C06_teardown_never_hangs_code`; tie
      `C06_rendezvous_is_code`.

  A destroy may arrive WHILE the environment is being created (it is addressable from the moment
  CreateEnvironment entered it in the map; DEPLOY, CONFIGURE and the failure tail's GO_ERROR and
  teardown each take the environment's transition mutex for themselves). Such a destroy goes
  straight to doTeardownAndCleanup and its TeardownEnvironment waits for the mutex: it is served
  at a later section boundary and must work on the environment as it is THEN. Section "a destroy
  that overlaps the creation": the creation cut at its critical sections is `createSettle`
  (`C06_settle_pieces`), doTeardownAndCleanup is an attempt and a forced retry
  (`C06_teardown_and_cleanup_is_attempts`), whichever attempt answers success — in whatever
  well-formed state it is served — leaves the environment clean (`C06_overlapping_destroy_clean_code`),
  an attempt served after the environment was taken away answers "not found"
  (`C06_overlapping_destroy_gone`); the coarse rule of `destroy` / `control` (`C06_destroy_waits_for_creation`,
  `C06_overlap_is_sequential`, `C06_forced_overlap_is_sequential_destroy`); from the state BEFORE the
  creation, with no hypothesis about the state the destroy finds: `C06_created_then_destroyed_clean_code`
  (sequential destroy, and waiting destroy served after the creation settled),
  `C06_destroyed_after_deploy_clean_code` (waiting destroy served right after DEPLOY); tie
  `C06_teardown_reads_under_mutex_is_code`.

  A creation may fail in acquireTasks' OWN TAIL, after every requested task was launched: its lock loop meets a new task
  that cannot be locked because its placement data is incomplete (the offer carried no hostname: `SettleOracle.blank`;
  "cannot be locked" = Model/TaskIds `Fields.locked` on the record with its parent set). The block `if !deploymentSuccess`
  then un-parents EVERY deployed task — the siblings that did lock included —, all of them go into the roster, no role gets
  its task, and the failure tail of CreateEnvironment finds no task of the environment to release or kill. Section "a
  deployment that fails in acquireTasks' own tail": `C06_lock_failure_iff`, `C06_lock_failure_detaches_all_code` (nothing the
  failed lock loop appended to the roster has a parent), `C06_failed_in_lock_loop_clean_code` / `_partial` (the creation answers
  the deployment error and leaves the environment clean: not listed, NO roster task owned by it, every task launched for it
  unowned in the roster), `C06_lock_failure_leftovers_fall_to_cleanup` (where the next Cleanup reaches every one of them),
  `C06_detach_on_spot_leaves_owned` (the variant `Cfg.detachOnSpot` — detach only the task that cannot be locked, on the spot —
  is refuted: the siblings stay locked to an environment that no longer exists, out of reach of Cleanup and KillTasks), tie
  `C06_lock_failure_unparents_all_is_code`; over whole runs: `C06_owner_always_listed` (no roster task is ever parented by an
  environment that is not listed and does not reference it), `C06_locked_means_listed_code`, `C06_owner_listed_needs_blanket_unparent`.
-/
import ControlModel.Proofs.OwnListed
import ControlModel.Gen.C06Facts
import ControlModel.Gen.C06LockFacts

open Own

/-! ## a destroy that answers success -/

/-- **A destroy that answers success has taken the environment out of the listing** —
    equivalently: a destroy after which the environment is still listed did not answer
    success (it answered an error, "not found", or did not return). No hypothesis. -/
theorem C06_unhonoured_is_error (s : State) (k : EnvId) (force allow keep : Bool) (o : DOracle) :
    (destroy s k force allow keep o).2.1 = .ok → ∀ E ∈ (destroy s k force allow keep o).1.envs, E.id ≠ k :=
  destroy_ok_unlisted s k force allow keep o

/-- … and a request on an environment that is not listed answers "not found". -/
theorem C06_destroy_unknown_is_error (s : State) (k : EnvId) (force allow keep : Bool) (o : DOracle)
    (h1 : ∀ p ∈ s.creating, p.id ≠ k) (h : s.env? k = none) :
    (destroy s k force allow keep o).2.1 = .notfound ∧ (destroy s k force allow keep o).1 = s := by
  have : (s.creating.any fun p => decide (p.id = k)) = false := by
    simp only [List.any_eq_false, decide_eq_true_eq]; exact h1
  simp [destroy, this, h]

/-- The full-strength claim: whenever DestroyEnvironment answers success the environment is clean
    (configuration `c`). It still fails for the code as it is, for the reason of finding
    launch_pending_leak alone (`C06_destroyed_clean_needs_faithful`). -/
def C06_destroyed_clean_full (c : Cfg) : Prop :=
  ∀ (s : State) (k : EnvId) (force allow keep : Bool) (o : DOracle) (E : Env), s.cfg = c →
    s.env? k = some E → envWf s k E.tasks = true → (∀ h ∈ E.hooks, h.task ∈ E.tasks) →
    (destroy s k force allow keep o).2.1 = .ok →
    destroyedClean k keep (viewOf (destroy s k force allow keep o).1) = true

/-- The same claim for the states in which a task the core believes inactive has really ended
    (`statusFaithful`, the hypothesis of the open finding launch_pending_leak) — with NO
    hypothesis about the DESTROY hooks: the part of the full claim that finding
    destroy_hooks_unreleased refuted. -/
def C06_destroyed_clean_hooks_full (c : Cfg) : Prop :=
  ∀ (s : State) (k : EnvId) (force allow keep : Bool) (o : DOracle) (E : Env), s.cfg = c →
    s.env? k = some E → envWf s k E.tasks = true → (∀ h ∈ E.hooks, h.task ∈ E.tasks) →
    statusFaithful s E.tasks = true →
    (destroy s k force allow keep o).2.1 = .ok →
    destroyedClean k keep (viewOf (destroy s k force allow keep o).1) = true

/-- **After a destroy that answered success the environment is clean** (`destroyedClean` =
    `cleanAfter` and, unless tasks were kept, `allKilled`: whatever KILL calls fail — `s.refusing`
    is arbitrary — a destroy that answers success met no such failure): not
    listed, none of its tasks still owned by it — DESTROY / after_DESTROY hook tasks at any
    number of weights, ACTIVE or not, included —, every task launched for it sent a KILL or
    ended (unless the caller asked to keep tasks), every active detector held by a listed
    environment, its pending calls cancelled — the code as it is, in every state (force or
    not, from any environment state, whichever of STOP / RESET / the first teardown attempt
    failed, with any oracle) whose bookkeeping is well-formed (`envWf`), provided
      * `statusFaithful`  : a task of it that the core believes inactive has really ended. -/
theorem C06_destroyed_clean_code : C06_destroyed_clean_hooks_full codeCfg := by
  intro s k force allow keep o E hc hE hwf hhk hfaith hok
  exact destroy_clean s k force allow keep o E hE hwf hfaith (by simp [hooksOk, hc, codeCfg]) hhk hok

/-- The same in every configuration (the code as it was included), provided also
      * `hooksReleasable` : its DESTROY hooks sit at one weight at most and are ACTIVE. -/
theorem C06_destroyed_clean_partial (s : State) (k : EnvId) (force allow keep : Bool) (o : DOracle) (E : Env)
    (hE : s.env? k = some E) (hwf : envWf s k E.tasks = true) (hhk : ∀ h ∈ E.hooks, h.task ∈ E.tasks)
    (hrel : hooksReleasable s E.hooks = true) (hfaith : statusFaithful s E.tasks = true)
    (hok : (destroy s k force allow keep o).2.1 = .ok) :
    destroyedClean k keep (viewOf (destroy s k force allow keep o).1) = true :=
  destroy_clean s k force allow keep o E hE hwf hfaith (by simp [hooksOk, hrel]) hhk hok

/-! ### finding destroy_hooks_unreleased (fixed) -/

/-- One task and two DESTROY hook tasks, at weights 10 and 20. -/
def hooks2Spec : EnvSpec :=
  { bad := .ok, dets := [0], roles := [{ kind := .task, cls := 1, host := 1 },
      { kind := .hook, cls := 2, host := 1, weight := 10 }, { kind := .hook, cls := 3, host := 2, weight := 20 }] }

def hooks2State (c : Cfg := codeCfg) : State :=
  run (init false [1, 2, 3, 4] c) [.createBegin 0 hooks2Spec, .createCleanup 0, .createInsert 0, .createSettle 0 {}]

/-- The environment as listed in `hooks2State`. -/
def hooks2Env : Env :=
  { id := 0, state := .CONFIGURED, dets := [0], tasks := [1, 2, 3],
    hooks := [{ task := 2, weight := 10, after := false }, { task := 3, weight := 20, after := false }],
    calls := 0, pending := 0, started := 0, cancelled := 0, tearing := false }

/-- **Finding destroy_hooks_unreleased** (fixed; a statement about the code as it was): a plain
    destroy of a freshly created environment with DESTROY hooks at two weights answered success
    and left the weight-10 hook task locked by the deleted environment (never released, hence
    never killed: KillTasks and Cleanup skip locked tasks). -/
theorem C06_finding_destroy_hooks_unreleased : ¬ C06_destroyed_clean_hooks_full legacyCfg := by
  intro h
  have := h (hooks2State legacyCfg) 0 false false false {} hooks2Env (by decide) (by decide) (by decide) (by decide) (by decide) (by decide)
  revert this
  decide

/-- The witness violates exactly the hook hypothesis (its status is faithful). -/
theorem C06_hooks_witness_hypotheses :
    hooksReleasable (hooks2State legacyCfg) [{ task := 2, weight := 10, after := false }, { task := 3, weight := 20, after := false }] = false ∧
    statusFaithful (hooks2State legacyCfg) [1, 2, 3] = true := by decide

/-- On the same input the code as it is releases both hook tasks: the destroy answers success,
    its second ReleaseTasks message names tasks 2 and 3, and the roster holds nothing any more. -/
theorem C06_hooks_witness_repaired :
    (hooks2State).env? 0 = some hooks2Env ∧
    (destroy hooks2State 0 false false false {}).2.1 = .ok ∧
    (destroy hooks2State 0 false false false {}).2.2.getLast? = some (.release [2, 3]) ∧
    (viewOf (destroy hooks2State 0 false false false {}).1).roster = [] ∧
    cleanAfter 0 false (viewOf (destroy hooks2State 0 false false false {}).1) = true := by decide

/-- A listed environment whose task the core believes inactive while it is running. -/
def unfaithfulState : State :=
  { reuse := false, hosts := [1],
    roster := [{ id := 1, cls := 1, host := 1, agent := true, offer := true, executor := true, parent := some 0,
                 active := false, state := .STANDBY }],
    envs := [{ id := 0, state := .DEPLOYED, dets := [0], tasks := [1], hooks := [], pending := 0, tearing := false }],
    master := [{ id := 1, label := 0, role := 0, host := 1, mesos := .running, killed := false }],
    used := [0], nextTask := 2 }

/-- `statusFaithful` cannot be dropped from `C06_destroyed_clean_code`: in a (constructed) state
    that violates it the destroy answers success, drops the task from the roster without a KILL
    (doKillTasks only KILLs ACTIVE tasks) and leaves it running. This is the mechanism of the
    open finding launch_pending_leak, whose reachable witness is `leakSchedule` below. -/
theorem C06_destroyed_clean_needs_faithful : ¬ C06_destroyed_clean_full codeCfg := by
  intro h
  have := h unfaithfulState 0 false false false {}
    { id := 0, state := .DEPLOYED, dets := [0], tasks := [1], hooks := [], pending := 0, tearing := false }
    (by decide) (by decide) (by decide) (by decide) (by decide)
  revert this
  decide

/-! ## a creation that fails -/

/-- Stages at which a creation can fail before the environment is entered in the map: nothing of it exists. -/
theorem C06_failed_create_early (s : State) (k : EnvId) (spec : EnvSpec) (o : SettleOracle)
    (hfresh : k ∉ s.used) (hbad : spec.bad = .nowf) :
    (create s k spec o).2 = .errLoad ∧ (create s k spec o).1.envs = s.envs ∧
    (create s k spec o).1.roster = s.roster ∧ (create s k spec o).1.master = s.master := by
  simp [create, createBegin, hfresh, hbad]

/-- A creation refused at the detector check (or for a missing task class) has only run the
    pre-deployment cleanup: the listing is unchanged and nothing was launched for it. -/
theorem C06_failed_create_detector (s : State) (k : EnvId) (spec : EnvSpec) (o : SettleOracle)
    (hfresh : k ∉ s.used) (hok : spec.bad = .ok) (hconf : ∃ d ∈ spec.dets, d ∈ s.activeDets) :
    (create s k spec o).2 = .errDetector ∧ (create s k spec o).1.envs = s.envs ∧
    (create s k spec o).1.roster = (cleanup s).roster ∧ (create s k spec o).1.master = (cleanup s).master :=
  create_conflict_fields s k spec o hfresh hok hconf

/-- The full-strength claim for the failure tail of CreateEnvironment (deployment or
    configuration failed: GO_ERROR, forced teardown, KillTasks): it returns and leaves the
    environment clean. `res`: the error the creation answers with. -/
def C06_failed_create_clean_full (c : Cfg) : Prop :=
  ∀ (s : State) (k : EnvId) (late : Bool) (res : Res) (hf : List TaskId) (E : Env), s.cfg = c →
    s.env? k = some E → E.tearing = false → envWf s k E.tasks = true → (∀ h ∈ E.hooks, h.task ∈ E.tasks) →
    res ≠ .hang →
    (createFail s k E.tasks late res hf).2 ≠ .hang ∧
    cleanAfter k false (viewOf (createFail s k E.tasks late res hf).1) = true

/-- The same for the states satisfying `statusFaithful` (hypothesis of the open finding
    launch_pending_leak), with no hypothesis about hooks or the rendezvous: the part of the full
    claim that the findings destroy_hooks_unreleased and teardown_registration_race refuted. -/
def C06_failed_create_clean_hooks_full (c : Cfg) : Prop :=
  ∀ (s : State) (k : EnvId) (late : Bool) (res : Res) (hf : List TaskId) (E : Env), s.cfg = c →
    s.env? k = some E → E.tearing = false → envWf s k E.tasks = true → (∀ h ∈ E.hooks, h.task ∈ E.tasks) →
    statusFaithful s E.tasks = true → res ≠ .hang →
    (createFail s k E.tasks late res hf).2 ≠ .hang ∧
    cleanAfter k false (viewOf (createFail s k E.tasks late res hf).1) = true

/-- **The failure tail of a creation (deployment or configuration failed) returns and leaves
    the environment clean** — the code as it is, whatever the DESTROY hooks and whatever the
    oracle of the rendezvous says, under `statusFaithful` alone. -/
theorem C06_failed_create_clean_code : C06_failed_create_clean_hooks_full codeCfg := by
  intro s k late res hf E hc hE hte hwf hhk hfaith hres
  have hnh : (createFail s k E.tasks late res hf).2 ≠ .hang :=
    createFail_not_hang s k E.tasks late res hf
      (by intro E' hE'; rw [hE] at hE'; injection hE' with hE'; subst hE'; exact hte) (by simp [hc, codeCfg]) hres
  exact ⟨hnh, createFail_clean s k late res hf E hE hte hwf hhk (by simp [hooksOk, hc, codeCfg]) hfaith hnh⟩

/-- In every configuration: the failure tail leaves the environment clean unless it hangs,
    under the two hypotheses of `C06_destroyed_clean_partial`. -/
theorem C06_failed_create_clean_partial (s : State) (k : EnvId) (late : Bool) (res : Res) (hf : List TaskId) (E : Env)
    (hE : s.env? k = some E) (hte : E.tearing = false) (hwf : envWf s k E.tasks = true)
    (hhk : ∀ h ∈ E.hooks, h.task ∈ E.tasks)
    (hrel : hooksReleasable s E.hooks = true) (hfaith : statusFaithful s E.tasks = true)
    (hnh : (createFail s k E.tasks late res hf).2 ≠ .hang) :
    cleanAfter k false (viewOf (createFail s k E.tasks late res hf).1) = true :=
  createFail_clean s k late res hf E hE hte hwf hhk (by simp [hooksOk, hrel]) hfaith hnh

/-! ### finding launch_pending_leak -/

def leakSpec : EnvSpec :=
  { bad := .ok, dets := [0], roles := [{ kind := .task, cls := 1, host := 1 }, { kind := .task, cls := 2, host := 2 }] }

/-- Task 1 dies at launch while task 2 is still starting; later task 2 comes up. -/
def leakSchedule : List Step :=
  [.createBegin 0 leakSpec, .createCleanup 0, .createInsert 0,
   .createSettle 0 { launches := [(0, { mesos := .terminal, active := false }), (1, { mesos := .staging, active := false })] },
   .mesosStart 0]

/-- The full-strength claim over whole runs of the code as it is: after any step sequence, an
    environment that is no longer listed and not being created has left no task running unknown
    to the core. -/
def C06_no_leak_full : Prop :=
  ∀ (steps : List Step) (k : EnvId), k ∈ (run (init false [1, 2, 3, 4]) steps).used →
    (∀ E ∈ (run (init false [1, 2, 3, 4]) steps).envs, E.id ≠ k) →
    (∀ p ∈ (run (init false [1, 2, 3, 4]) steps).creating, p.id ≠ k) →
    cleanAfter k false (viewOf (run (init false [1, 2, 3, 4]) steps)) = true

/-- **Finding launch_pending_leak**: the creation fails, the environment is gone, and task 2 —
    launched for it, locked by it until the failure tail released it — is neither killed nor
    ended nor in the roster: it runs on, unknown to the core, out of reach of every cleanup. -/
theorem C06_finding_launch_pending_leak : ¬ C06_no_leak_full := by
  intro h
  have := h leakSchedule 0 (by decide) (by decide) (by decide)
  revert this
  decide

/-! ## a lost executor or agent before the destroy / before the failure tail -/

/-- **A lost executor / agent unlocks the task without taking it from its environment**
    (HandleExecutorFailed / HandleAgentFailed blank executorId / agentId and leave the parent
    role): every roster entry the failure names is afterwards not locked, INACTIVE, and has
    the parent it had. This is the state a later destroy has to clean up. -/
theorem C06_lost_task_unlocked_still_owned (s : State) (h : Host) (agent : Bool) (t : Task) (ht : t ∈ s.roster)
    (hhit : t.hitBy agent h = true) :
    ∃ t' ∈ (hostLost s h agent).roster, t'.id = t.id ∧ t'.isLocked = false ∧ t'.active = false ∧ t'.parent = t.parent := by
  refine ⟨t.lose agent, ?_, (lose_props agent t).1, ?_, (lose_props agent t).2.2.2.2, (lose_props agent t).2.2.1⟩
  · rw [hostLost_roster]
    exact List.mem_map.mpr ⟨t, ht, by simp [hhit]⟩
  · cases agent <;> simp [Task.lose, Task.isLocked, Task.idsOk]

/-- … and releaseTask releases such a task all the same: a task whose parent role belongs to
    the releasing environment (or to nobody) is released whether or not it is locked. -/
theorem C06_release_unlocked_own (e : EnvId) (t : Task) (h : t.parent = some e ∨ t.parent = none) :
    releaseTask e t = ({ t with parent := none }, true) := by
  simp [releaseTask, releaseOk_of_parent e t h]

/-- **Lost executors / agents and the watcher's reactions keep the hypotheses of the
    clean-destroy theorem** (any number of them, on any hosts, with any STOP failures): the
    environment stays listed with the same task and hook references, its bookkeeping stays
    well-formed (`envWf`), roster and master still agree on the hosts, and a task of it that
    the core believes inactive has really ended (`statusFaithful`: the lost tasks have). -/
theorem C06_loss_keeps_hypotheses (s : State) (steps : List Step) (hl : steps.all Step.isLoss = true)
    (k : EnvId) (tasks : List TaskId) (hooks : List HookRef) (h : LossKeeps s k tasks hooks) :
    LossKeeps (run s steps) k tasks hooks :=
  lossKeeps_run steps hl s k tasks hooks h

/-- **After a destroy that answered success the environment is clean, also when executors or
    agents of its tasks were lost before** (and its watcher took it to ERROR or not) — the code
    as it is: same statement as `C06_destroyed_clean_code`, hypotheses stated on the state
    before the losses, plus `hostsAgree`. A lost DESTROY hook task is no longer ACTIVE and is
    released all the same. -/
theorem C06_destroyed_after_loss_clean_code (s : State) (hc : s.cfg = codeCfg) (steps : List Step)
    (hl : steps.all Step.isLoss = true)
    (k : EnvId) (force allow keep : Bool) (o : DOracle) (E : Env)
    (hE : s.env? k = some E) (hte : E.tearing = false) (hwf : envWf s k E.tasks = true) (hag : hostsAgree s E.tasks = true)
    (hfaith : statusFaithful s E.tasks = true) (hhk : ∀ h ∈ E.hooks, h.task ∈ E.tasks)
    (hok : (destroy (run s steps) k force allow keep o).2.1 = .ok) :
    destroyedClean k keep (viewOf (destroy (run s steps) k force allow keep o).1) = true :=
  destroy_after_loss_clean s steps hl k force allow keep o E hE hte hwf hag hfaith hhk
    (by simp [hooksOk, run_loss_cfg steps hl s, hc, codeCfg]) hok

/-- The same for the failure tail of a creation, which also returns. -/
theorem C06_failed_create_after_loss_clean_code (s : State) (hc : s.cfg = codeCfg) (steps : List Step)
    (hl : steps.all Step.isLoss = true)
    (k : EnvId) (late : Bool) (res : Res) (hf : List TaskId) (E : Env)
    (hE : s.env? k = some E) (hte : E.tearing = false) (hwf : envWf s k E.tasks = true) (hag : hostsAgree s E.tasks = true)
    (hfaith : statusFaithful s E.tasks = true) (hhk : ∀ h ∈ E.hooks, h.task ∈ E.tasks) (hres : res ≠ .hang) :
    (createFail (run s steps) k E.tasks late res hf).2 ≠ .hang ∧
    cleanAfter k false (viewOf (createFail (run s steps) k E.tasks late res hf).1) = true := by
  have hcfg : (run s steps).cfg = codeCfg := (run_loss_cfg steps hl s).trans hc
  have hk := C06_loss_keeps_hypotheses s steps hl k E.tasks E.hooks ⟨⟨E, hE, rfl, rfl, hte⟩, hwf, hag, hfaith⟩
  have hnh : (createFail (run s steps) k E.tasks late res hf).2 ≠ .hang := by
    apply createFail_not_hang _ k E.tasks late res hf _ (by simp [hcfg, codeCfg]) hres
    intro E' hE'
    obtain ⟨E1, hE1, _, _, c⟩ := hk.listed
    rw [hE1] at hE'; injection hE' with hE'; subst hE'; exact c
  exact ⟨hnh, createFail_after_loss_clean s steps hl k late res hf E hE hte hwf hag hfaith hhk
    (by simp [hooksOk, hcfg, codeCfg]) hnh⟩

/-- In every configuration, with the hook hypothesis at the destroy (a lost DESTROY hook task
    is no longer ACTIVE: in the legacy configuration that was finding destroy_hooks_unreleased again). -/
theorem C06_destroyed_after_loss_clean_partial (s : State) (steps : List Step) (hl : steps.all Step.isLoss = true)
    (k : EnvId) (force allow keep : Bool) (o : DOracle) (E : Env)
    (hE : s.env? k = some E) (hte : E.tearing = false) (hwf : envWf s k E.tasks = true) (hag : hostsAgree s E.tasks = true)
    (hfaith : statusFaithful s E.tasks = true) (hhk : ∀ h ∈ E.hooks, h.task ∈ E.tasks)
    (hrel : hooksReleasable (run s steps) E.hooks = true)
    (hok : (destroy (run s steps) k force allow keep o).2.1 = .ok) :
    destroyedClean k keep (viewOf (destroy (run s steps) k force allow keep o).1) = true :=
  destroy_after_loss_clean s steps hl k force allow keep o E hE hte hwf hag hfaith hhk (by simp [hooksOk, hrel]) hok

/-- The same for the failure tail of a creation. -/
theorem C06_failed_create_after_loss_clean_partial (s : State) (steps : List Step) (hl : steps.all Step.isLoss = true)
    (k : EnvId) (late : Bool) (res : Res) (hf : List TaskId) (E : Env)
    (hE : s.env? k = some E) (hte : E.tearing = false) (hwf : envWf s k E.tasks = true) (hag : hostsAgree s E.tasks = true)
    (hfaith : statusFaithful s E.tasks = true) (hhk : ∀ h ∈ E.hooks, h.task ∈ E.tasks)
    (hrel : hooksReleasable (run s steps) E.hooks = true)
    (hnh : (createFail (run s steps) k E.tasks late res hf).2 ≠ .hang) :
    cleanAfter k false (viewOf (createFail (run s steps) k E.tasks late res hf).1) = true :=
  createFail_after_loss_clean s steps hl k late res hf E hE hte hwf hag hfaith hhk (by simp [hooksOk, hrel]) hnh

/-- Two tasks on hosts 1 and 2, created and configured. -/
def lossSpec : EnvSpec :=
  { bad := .ok, dets := [0], roles := [{ kind := .task, cls := 1, host := 1 }, { kind := .task, cls := 2, host := 2 }] }

def lossState : State :=
  run (init false [1, 2, 3, 4]) [.createBegin 0 lossSpec, .createCleanup 0, .createInsert 0, .createSettle 0 {}]

def lossEnv : Env :=
  { id := 0, state := .CONFIGURED, dets := [0], tasks := [1, 2], hooks := [],
    calls := 0, pending := 0, started := 0, cancelled := 0, tearing := false }

/-- The hypotheses are satisfiable and the loss is not a no-op: the executor on host 1 is
    lost, the watcher takes the environment to ERROR; task 1 is then unlocked but still
    parented by environment 0; a forced destroy that keeps the tasks answers success and
    leaves no roster entry with environment 0 as owner. -/
example :
    lossState.env? 0 = some lossEnv ∧ envWf lossState 0 [1, 2] = true ∧ hostsAgree lossState [1, 2] = true ∧
    statusFaithful lossState [1, 2] = true ∧
    (viewOf (run lossState [.execLost 1, .watchError 0 []])).roster =
      [{ task := 1, owner := some 0, locked := false, state := none },
       { task := 2, owner := some 0, locked := true, state := some .CONFIGURED }] ∧
    (destroy (run lossState [.execLost 1, .watchError 0 []]) 0 true false true {}).2.1 = .ok ∧
    (viewOf (destroy (run lossState [.execLost 1, .watchError 0 []]) 0 true false true {}).1).roster =
      [{ task := 1, owner := none, locked := false, state := none },
       { task := 2, owner := none, locked := false, state := none }] := by decide

/-- `cleanAfter` rejects what a release that skips unlocked tasks would leave: the same view
    with task 1 still owned by the destroyed environment. -/
example : cleanAfter 0 true
    { roster := [{ task := 1, owner := some 0, locked := false, state := none },
                 { task := 2, owner := none, locked := false, state := none }] } = false := by decide

/-! ## a KILL call that fails -/

/-- **A failing KILL call is reported, whatever comes after it in the loop**: the error of
    doKillTasks over a list is the disjunction of the errors over its parts — a failed kill
    followed by any number of successful ones still makes the call fail (and so does one
    preceded by successful ones). No hypothesis. -/
theorem C06_kill_error_not_reset (s : State) (a b : List Task) :
    killErr s (a ++ b) = (killErr s a || killErr s b) := by
  simp [killErr, List.any_append]

/-- … and it is reported exactly when some ACTIVE task of the list has its KILL call failing. -/
theorem C06_kill_error_iff (s : State) (tk : List Task) :
    killErr s tk = true ↔ ∃ t ∈ tk, t.active = true ∧ t.id ∈ s.refusing := by
  simp [killErr, List.any_eq_true]

/-- **A task whose KILL call failed is put back**: it is in the roster afterwards exactly as it
    was handed to doKillTasks (unlocked: Cleanup / KillTasks pick unlocked tasks only), the
    master's row for it is untouched (it keeps running, no KILL is counted), and the call
    reports the error. -/
theorem C06_failed_kill_put_back (s : State) (tk : List Task) (t : Task) (ht : t ∈ tk) (ha : t.active = true)
    (hr : t.id ∈ s.refusing) :
    t ∈ (doKill s tk).roster ∧ (∀ m ∈ s.master, m.id = t.id → m ∈ (doKill s tk).master) ∧ killErr s tk = true := by
  refine ⟨?_, ?_, (C06_kill_error_iff s tk).mpr ⟨t, ht, ha, hr⟩⟩
  · rw [doKill_roster]
    exact List.mem_append.mpr (Or.inr (List.mem_filter.mpr ⟨List.mem_filter.mpr ⟨ht, ha⟩, by simpa using hr⟩))
  · intro m hm hid
    simp only [doKill, killMany, List.mem_map]
    refine ⟨m, hm, ?_⟩
    have : m.id ∉ List.map (fun x => x.id) (List.filter (fun t => decide (t.id ∉ s.refusing)) (List.filter (fun x => x.active) tk)) := by
      intro hmem
      obtain ⟨u, hu, hu2⟩ := List.mem_map.mp hmem
      have := (List.mem_filter.mp hu).2
      simp only [decide_eq_true_eq] at this
      exact this (by rw [hu2, hid]; exact hr)
    rw [if_neg (by simpa [List.mem_map] using this)]

/-- **A clean-up that met a failing KILL call makes doTeardownAndCleanup answer an error** — after a
    teardown that completed, with tasks not to be kept; the environment is gone all the same
    (the state is the cleaned-up one). With keepTasks nothing is killed and nothing can fail. -/
theorem C06_failed_kill_is_error (s' : State) (ids : List TaskId) (tr : List TEv) :
    (cleanupTasksErr s' ids = true → (tcFin false ids s' .ok tr).2.1 = .err) ∧
    (cleanupTasksErr s' ids = false → (tcFin false ids s' .ok tr).2.1 = .ok) ∧
    (tcFin false ids s' .ok tr).1 = cleanupTasks s' ids ∧
    (tcFin true ids s' .ok tr) = (s', .ok, tr) := by
  refine ⟨fun h => by simp [tcFin, h], fun h => by simp [tcFin, h], by simp [tcFin], by simp [tcFin]⟩

/-- **A destroy that answers success killed every task of the environment** (unless asked to
    keep them) — the code as it is, whatever KILL calls fail: none of the environment's tasks is
    left running without a KILL, not even unowned in the roster. Contrapositive: a destroy that
    could not have one of the environment's tasks killed does not answer success. -/
theorem C06_success_means_all_killed (s : State) (hc : s.cfg = codeCfg) (k : EnvId) (force allow : Bool) (o : DOracle) (E : Env)
    (hE : s.env? k = some E) (hwf : envWf s k E.tasks = true) (hhk : ∀ h ∈ E.hooks, h.task ∈ E.tasks)
    (hfaith : statusFaithful s E.tasks = true)
    (hok : (destroy s k force allow false o).2.1 = .ok) :
    allKilled k (viewOf (destroy s k force allow false o).1) = true :=
  destroyedClean_killed (destroy_clean s k force allow false o E hE hwf hfaith (by simp [hooksOk, hc, codeCfg]) hhk hok)

/-- The environment of `lossState` when the KILL call for task 1 fails (and the one for task 2 does not). -/
def refusingState : State := (step lossState (.killFault [1])).1

/-- Non-vacuity, and the clause at work: the plain destroy completes its teardown (the environment
    is gone, both tasks released), task 2 is killed, the KILL call for task 1 fails: the task sits
    in the roster again, unowned, still running — and the request answers an error although a
    later kill of the same loop succeeded. `cleanAfter` accepts that view (it is what a failed
    creation may leave), `destroyedClean` — what a destroy that answered success would have to
    satisfy — rejects it. Without the fault the same destroy answers success and kills both. -/
example :
    (destroy refusingState 0 false false false {}).2.1 = .err ∧
    (viewOf (destroy refusingState 0 false false false {}).1).envs = [] ∧
    (viewOf (destroy refusingState 0 false false false {}).1).roster = [{ task := 1, owner := none, locked := false, state := none }] ∧
    (viewOf (destroy refusingState 0 false false false {}).1).master =
      [{ task := 1, label := 0, mesos := .running, killed := false }, { task := 2, label := 0, mesos := .terminal, killed := true }] ∧
    cleanAfter 0 false (viewOf (destroy refusingState 0 false false false {}).1) = true ∧
    destroyedClean 0 false (viewOf (destroy refusingState 0 false false false {}).1) = false ∧
    (destroy lossState 0 false false false {}).2.1 = .ok ∧
    destroyedClean 0 false (viewOf (destroy lossState 0 false false false {}).1) = true ∧
    -- the next cleanup, once the fault is over, finds the task
    (step (step (destroy refusingState 0 false false false {}).1 (.killFault [])).1 .cleanup).2 = .ok ∧
    (viewOf (step (step (destroy refusingState 0 false false false {}).1 (.killFault [])).1 .cleanup).1).roster = [] := by decide

/-- **The failure tail of a creation only logs a failing KILL call**: the creation answers its own
    error, and the task is back in the roster, unowned — `cleanAfter` holds (it falls to the next
    cleanup), which is all a failed creation obliges (`C06_failed_create_clean_code` is proved for
    every `s.refusing`). -/
example :
    (createFail refusingState 0 [1, 2] false .errConfigure).2 = .errConfigure ∧
    (viewOf (createFail refusingState 0 [1, 2] false .errConfigure).1).roster = [{ task := 1, owner := none, locked := false, state := none }] ∧
    cleanAfter 0 false (viewOf (createFail refusingState 0 [1, 2] false .errConfigure).1) = true ∧
    allKilled 0 (viewOf (createFail refusingState 0 [1, 2] false .errConfigure).1) = false := by decide

/-- **The model's doKillTasks error is the code's**: go/ast of core/task/manager.go finds, in
    doKillTasks, the result of every `m.doKillTask(task)` bound to a variable of the loop body (never to
    the function's result `err`), the result `err` assigned only inside the branch taken when
    that variable is not nil, only from a constructor call (`errors.New` / `fmt.Errorf`), with
    `m.roster.append(task)` in the same branch, every `return` of the function bare; Cleanup and
    KillTasks assign `err` from doKillTasks once and never again, doCleanupTasks assigns its `err`
    only from Cleanup / KillTasks, and doTeardownAndCleanup returns an error status in the branch
    `err != nil` after doCleanupTasks. An error that a later kill can reset breaks this theorem. -/
theorem C06_kill_error_is_code :
    Gen.killErrorSticky = true ∧ Gen.killErrorHandedOn = true ∧ Gen.killErrorCounts = (1, 1, 1, 0) := by decide

/-! ## order inside a teardown -/

/-- **DESTROY hooks run only after the other tasks were released**: if a teardown triggers a
    DESTROY hook at all, then the first thing it did was the ReleaseTasks message naming every
    task of the environment that is not a DESTROY hook, that message met no release error, and in
    the state the hooks run in none of those tasks is locked any more. -/
theorem C06_destroy_hooks_after_release (s : State) (k : EnvId) (force late : Bool) (hf : List TaskId) (E : Env)
    (hE : s.env? k = some E) (hs : List TaskId) (hh : TEv.hooks hs ∈ (teardown s k force late hf).2.2) :
    (teardown s k force late hf).2.2.head? = some (.release (tdPlain E)) ∧
    (releaseTasks s k (tdPlain E)).2 = 0 ∧
    (∀ t ∈ (releaseTasks s k (tdPlain E)).1.roster, t.id ∈ tdPlain E → t.isLocked = false) ∧
    (∀ x ∈ E.tasks, x ∉ effHooks E.hooks → x ∈ tdPlain E) :=
  teardown_hooks_after_release s k force late hf E hE hs hh

/-! ## the rendezvous between TeardownEnvironment and the event loop -/

/-- The full-strength liveness claim: every maximal schedule of the rendezvous, as configuration
    `c` runs it, ends with TeardownEnvironment returned. -/
def C06_teardown_returns_full (c : Cfg) : Prop :=
  ∀ st ∈ Rdv.reach (Rdv.atomicOf c) 12 [{}], Rdv.stuck (Rdv.atomicOf c) st = true → Rdv.done st = true

/-- **Every maximal schedule of the rendezvous ends with TeardownEnvironment returned** — the
    code as it is: the event loop takes the entry out of the map in the critical section that
    looked it up, so the only entry it ever removes is the one it hands the event to (all
    reachable states of the protocol, enumerated in the kernel). -/
theorem C06_teardown_returns_code : C06_teardown_returns_full codeCfg := by
  unfold C06_teardown_returns_full
  decide

/-- **Finding teardown_registration_race** (fixed; a statement about the code as it was): the
    schedule register · send · recv · handoff · *register* · delete · send · recv was a run of
    the code (the loop's `delete` fell after TeardownEnvironment's second `register`); it ended
    with the second event dropped and TeardownEnvironment waiting for ever at its second
    `<-pendingCh`. -/
theorem C06_finding_teardown_registration_race : ¬ C06_teardown_returns_full legacyCfg := by
  intro h
  have hrun : Rdv.run false {} [.register, .send, .recv, .handoff, .register, .delete, .send, .recv] =
      some { entry := none, nextCh := 3, queue := 0, loop := .idle, td := 5, waitCh := 2 } := by decide
  have hmem : ({ entry := none, nextCh := 3, queue := 0, loop := .idle, td := 5, waitCh := 2 } : Rdv.St) ∈
      Rdv.reach (Rdv.atomicOf legacyCfg) 12 [{}] := by decide
  have := h _ hmem (by decide)
  revert this
  decide

/-- **The model's event loop is the code's**: go/ast of core/environment/manager.go, `case
    *event.TasksReleasedEvent`, finds the one lookup of pendingTeardownsCh between `mu.Lock()`
    and the next `mu.Unlock()`, the one `delete(pendingTeardownsCh, …)` of the clause inside that
    section, and no channel send inside it. Reverting notes/C06.fix-1.patch breaks this theorem. -/
theorem C06_rendezvous_is_code : codeCfg.lateDelete = !Gen.entryRemovedInLookupSection ∧
    Rdv.atomicOf codeCfg = Gen.entryRemovedInLookupSection ∧ Gen.rendezvousCounts = (1, 1, 1, 0, true) := by decide

/-- **The model's second ReleaseTasks message is the code's**: go/ast of TeardownEnvironment
    finds `taskmanMessage` re-assigned once, outside every loop, from a list that is only ever
    appended to with the unfiltered `FilterTasks()` of a weight. Reverting notes/C06.fix-2.patch
    breaks this theorem. -/
theorem C06_hook_release_is_code : codeCfg.lastWeightOnly = !Gen.hookReleaseAllWeights ∧
    Gen.hookReleaseCounts = (1, 0) := by decide

/-- **In the main model a teardown of the code as it is never answers "hang"**, whatever the
    oracle `late` says, unless an earlier one already hung in the same environment (which, by
    this very theorem, no run of `codeCfg` produces). -/
theorem C06_teardown_never_hangs_code (s : State) (hc : s.cfg = codeCfg) (k : EnvId) (force late : Bool) (hf : List TaskId)
    (h : ∀ E ∈ s.envs, E.tearing = false) : (teardown s k force late hf).2.1 ≠ .hang :=
  teardown_not_hang s k force late hf (fun E hE => h E (env?_some hE).1) (by simp [hc, codeCfg])

/-- In every configuration the race is the oracle `late`: without it a teardown never answers
    "hang" unless an earlier one already hung in the same environment. -/
theorem C06_teardown_returns_partial (s : State) (k : EnvId) (force : Bool) (hf : List TaskId)
    (h : ∀ E ∈ s.envs, E.tearing = false) : (teardown s k force false hf).2.1 ≠ .hang :=
  teardown_not_hang s k force false hf (fun E hE => h E (env?_some hE).1) (by simp)

/-! ## a destroy that overlaps the creation -/

/-- **The creation cut at the critical sections of the transition mutex is `createSettle`**: DEPLOY,
    then CONFIGURE or — after a failed section — GO_ERROR, the forced teardown and KillTasks, run one
    after the other with nothing in between, are the one-step settle of the model, in every state
    of every run (`Inv`: an inserted pending creation's environment is listed). The monitor places
    the attempts of a waiting destroy between these sections. -/
theorem C06_settle_pieces (s : State) (k : EnvId) (o : SettleOracle) (h : Inv s) :
    settleSeq s k o = createSettle s k o :=
  settle_pieces_inv s k o h

/-- **doTeardownAndCleanup is a first TeardownEnvironment attempt and, if that one answered an
    error without being forced, a forced retry** on the state the first attempt left (state and answer). -/
theorem C06_teardown_and_cleanup_is_attempts (s : State) (k : EnvId) (ids : List TaskId) (force keep : Bool) (o : DOracle) :
    ((teardownAndCleanup s k ids force keep o).1, (teardownAndCleanup s k ids force keep o).2.1) =
      match lateAttempt s k ids force keep o with
      | some r => (r.1, r.2.1)
      | none => ((lateRetry (teardown s k force o.late1 o.hookFails).1 k ids keep o).1,
                 (lateRetry (teardown s k force o.late1 o.hookFails).1 k ids keep o).2.1) :=
  tac_attempts s k ids force keep o

/-- **A destroy that had to wait for the creation and answers success leaves the environment
    clean** — the code as it is. `s` is the state in which the attempt (the first one, or the forced
    retry) is SERVED, i.e. gets the transition mutex: right after DEPLOY, after CONFIGURE, after a
    failed section, after GO_ERROR; `E` is the environment as listed then — in particular with the
    task list it has then (the tasks acquireTasks handed to the roles at the very end of DEPLOY), not
    the one it had when the request arrived. Hypotheses as in `C06_destroyed_clean_code`, on `s`. -/
theorem C06_overlapping_destroy_clean_code (s : State) (hc : s.cfg = codeCfg) (k : EnvId) (force keep : Bool)
    (o : DOracle) (E : Env)
    (hE : s.env? k = some E) (hwf : envWf s k E.tasks = true) (hhk : ∀ h ∈ E.hooks, h.task ∈ E.tasks)
    (hfaith : statusFaithful s E.tasks = true) :
    (∀ r, lateAttempt s k (envTaskIds s k) force keep o = some r → r.2.1 = .ok → destroyedClean k keep (viewOf r.1) = true) ∧
    ((lateRetry s k (envTaskIds s k) keep o).2.1 = .ok →
      destroyedClean k keep (viewOf (lateRetry s k (envTaskIds s k) keep o).1) = true) :=
  ⟨fun r hr hok => lateAttempt_clean s k force keep o E hE hwf hfaith (by simp [hooksOk, hc, codeCfg]) hhk r hr hok,
   fun hok => lateRetry_clean s k keep o E hE hwf hfaith (by simp [hooksOk, hc, codeCfg]) hhk hok⟩

/-- The same in every configuration, with the hook hypothesis. -/
theorem C06_overlapping_destroy_clean_partial (s : State) (k : EnvId) (force keep : Bool)
    (o : DOracle) (E : Env)
    (hE : s.env? k = some E) (hwf : envWf s k E.tasks = true) (hhk : ∀ h ∈ E.hooks, h.task ∈ E.tasks)
    (hrel : hooksReleasable s E.hooks = true) (hfaith : statusFaithful s E.tasks = true) :
    (∀ r, lateAttempt s k (envTaskIds s k) force keep o = some r → r.2.1 = .ok → destroyedClean k keep (viewOf r.1) = true) ∧
    ((lateRetry s k (envTaskIds s k) keep o).2.1 = .ok →
      destroyedClean k keep (viewOf (lateRetry s k (envTaskIds s k) keep o).1) = true) :=
  ⟨fun r hr hok => lateAttempt_clean s k force keep o E hE hwf hfaith (by simp [hooksOk, hrel]) hhk r hr hok,
   fun hok => lateRetry_clean s k keep o E hE hwf hfaith (by simp [hooksOk, hrel]) hhk hok⟩

/-- **An attempt served after the environment was taken away** (by the failing creation's own
    teardown) **answers "not found" and changes nothing**: the destroy does not answer success for
    something it did not do. -/
theorem C06_overlapping_destroy_gone (s : State) (k : EnvId) (ids : List TaskId) (force keep : Bool) (o : DOracle)
    (h : s.env? k = none) :
    (lateRetry s k ids keep o).2.1 = .notfound ∧ (lateRetry s k ids keep o).1 = s ∧
    (∀ r, lateAttempt s k ids force keep o = some r → r.2.1 = .notfound ∧ r.1 = s) :=
  lateAttempt_gone s k ids force keep o h

/-- **The coarse rule**: a destroy or a control request on an environment whose creation is
    pending (begun, not yet settled) is not served — the model's `destroy` / `control` step leaves
    the state as it is and answers nothing (DEPLOY / CONFIGURE hold the transition mutex). -/
theorem C06_destroy_waits_for_creation (s : State) (k : EnvId) (h : ∃ p ∈ s.creating, p.id = k) :
    (∀ force allow keep o, destroy s k force allow keep o = (s, .noop, [])) ∧
    (∀ ev fails pre, control s k ev fails pre = (s, .noop)) :=
  ⟨fun f a kp o => destroy_pending_noop s k f a kp o h, fun ev fl pre => control_pending_noop s k ev fl pre h⟩

/-- … hence, in the coarse model, **a destroy issued between the insertion and the settling of a
    creation makes no difference**: the run with it is the run without it, whatever follows — the
    destroy that follows the settling is the one that counts. -/
theorem C06_overlap_is_sequential (s : State) (k : EnvId) (force allow keep : Bool) (o : DOracle) (rest : List Step)
    (hs : s.crashed = false) (h : ∃ p ∈ s.creating, p.id = k) :
    run s (.destroy k force allow keep o :: rest) = run s rest := by
  simp only [run, step, hs, Bool.false_eq_true, if_false]
  rw [destroy_pending_noop s k force allow keep o h]

/-- **A forced destroy that waited for the creation and is served once it has settled is the
    sequential forced destroy**: same state, same answer, same trace (a forced DestroyEnvironment
    goes straight to doTeardownAndCleanup whether or not it had to wait). For a destroy that is not
    forced the two differ in the way they take (the sequential one RESETs a CONFIGURED environment
    first, the waiting one evaluated its decision tree on STANDBY / DEPLOYED and retries forced);
    both leave the environment clean (`C06_destroyed_clean_code`, `C06_overlapping_destroy_clean_code`). -/
theorem C06_forced_overlap_is_sequential_destroy (s : State) (k : EnvId) (allow keep : Bool) (o : DOracle) (E : Env)
    (hp : ∀ p ∈ s.creating, p.id ≠ k) (hE : s.env? k = some E) (hte : E.tearing = false) :
    lateAttempt s k (envTaskIds s k) true keep o = some (destroy s k true allow keep o) := by
  have hany : (s.creating.any fun p => decide (p.id = k)) = false := by
    simp only [List.any_eq_false, decide_eq_true_eq]; exact hp
  have hids : envTaskIds s k = E.tasks := by unfold envTaskIds; rw [hE]
  unfold destroy lateAttempt teardownAndCleanup
  simp [hany, hE, hte, hids]

/-- **Created, then destroyed: nothing is left — from the state before the creation, with no
    hypothesis about the state the destroy finds.** `s0` is any state of any run (`Inv`) in which
    nothing refers to `k` yet (`freshEnv`: environment ids are fresh), without reuse of unlocked
    tasks; the creation of `k` (any workflow, any oracle that loses no executor while the tasks
    are configured) runs and succeeds. Then, the code as it is,
      * the destroy that follows it (any flags, any oracle) and answers success,
      * the destroy that was issued DURING the creation, waited for the transition mutex and is
        served once the creation has settled — its first attempt or its forced retry — and answers
        success
    leave the environment clean. The hypotheses `envWf` / `statusFaithful` of
    `C06_destroyed_clean_code` are established by the creation itself (`settle_ok_hyps`). -/
theorem C06_created_then_destroyed_clean_code (s0 : State) (h : Inv s0) (hc : s0.cfg = codeCfg) (hr : s0.reuse = false)
    (k : EnvId) (hfr : freshEnv s0 k = true) (spec : EnvSpec) (o : SettleOracle) (hl : o.lost = [])
    (hok : (createSettle (run s0 [.createBegin k spec, .createCleanup k, .createInsert k]) k o).2 = .okState .CONFIGURED)
    (force allow keep : Bool) (od : DOracle) :
    let s4 := (createSettle (run s0 [.createBegin k spec, .createCleanup k, .createInsert k]) k o).1
    ((destroy s4 k force allow keep od).2.1 = .ok → destroyedClean k keep (viewOf (destroy s4 k force allow keep od).1) = true) ∧
    (∀ r, lateAttempt s4 k (envTaskIds s4 k) force keep od = some r → r.2.1 = .ok → destroyedClean k keep (viewOf r.1) = true) ∧
    ((lateRetry s4 k (envTaskIds s4 k) keep od).2.1 = .ok →
      destroyedClean k keep (viewOf (lateRetry s4 k (envTaskIds s4 k) keep od).1) = true) := by
  intro s4
  have h3 : Inv (run s0 [.createBegin k spec, .createCleanup k, .createInsert k]) := inv_run s0 _ (by simp [noClaimSteps, Step.isClaim]) h
  have rc := rc_run [.createBegin k spec, .createCleanup k, .createInsert k] s0 (Or.inl hr)
  obtain ⟨hcfg, E, hE, _, hwf, hhk, hfa⟩ := settle_ok_hyps _ k o h3 (rc.1.trans hr) (freshEnv_prefix s0 k spec hfr) hl hok
  have hc4 : s4.cfg = codeCfg := (hcfg.trans rc.2.2).trans hc
  have ov := C06_overlapping_destroy_clean_code s4 hc4 k force keep od E hE hwf hhk hfa
  exact ⟨fun hd => C06_destroyed_clean_code s4 k force allow keep od E hc4 hE hwf hhk hfa hd, ov.1, ov.2⟩

/-- **… and the destroy that is served right after DEPLOY** — before the creation's CONFIGURE,
    which then finds the environment gone — **leaves it clean as well**: `s` is the state in which
    the creation of `k` has been inserted (nothing refers to `k` yet), `s1` / `m` what a successful
    DEPLOY leaves; the waiting destroy's attempt (or forced retry) served in `s1` that answers
    success has released and (unless asked to keep them) killed every task DEPLOY acquired. -/
theorem C06_destroyed_after_deploy_clean_code (s : State) (h : Inv s) (hc : s.cfg = codeCfg) (hr : s.reuse = false)
    (k : EnvId) (hfr : freshEnv s k = true) (o : SettleOracle) (s1 : State) (m : Mid) (r : Res)
    (hd : settleDeploy s k o = (s1, some m, r)) (hm : m.res = .noop) (force keep : Bool) (od : DOracle) :
    (∀ r', lateAttempt s1 k (envTaskIds s1 k) force keep od = some r' → r'.2.1 = .ok → destroyedClean k keep (viewOf r'.1) = true) ∧
    ((lateRetry s1 k (envTaskIds s1 k) keep od).2.1 = .ok →
      destroyedClean k keep (viewOf (lateRetry s1 k (envTaskIds s1 k) keep od).1) = true) := by
  obtain ⟨_, _, hcfg, E, hE, _, _, hwf, hhk, hfa⟩ := deploy_ok_hyps s k o h hr hfr s1 m r hd hm
  exact C06_overlapping_destroy_clean_code s1 (hcfg.trans hc) k force keep od E hE hwf hhk hfa

/-- **The model's teardown reads the environment under the transition mutex, as the code does**:
    go/ast of TeardownEnvironment finds the lookup, then `if !env.transitionMutex.TryLock() { …
    env.transitionMutex.Lock() … }` directly followed by `defer env.transitionMutex.Unlock()`, no use of
    `env.…` before that statement, and reads of `env.Workflow()` after it — whatever the teardown
    learns about the environment (state, task list, hooks) it learns about the environment as it
    is when the teardown is served, which is what `teardown s k` applied to the serve state `s`
    says. A read moved in front of the wait breaks this theorem. -/
theorem C06_teardown_reads_under_mutex_is_code :
    Gen.teardownReadsUnderMutex = true ∧ Gen.teardownMutexCounts.1 = 0 ∧ 0 < Gen.teardownMutexCounts.2 := by decide

/-- Non-vacuity of `C06_created_then_destroyed_clean_code`: its hypotheses hold of the initial
    state, the creation of `lossSpec` succeeds, and both a sequential plain destroy and a waiting
    destroy that is not forced (first attempt refused in CONFIGURED, forced retry) answer success. -/
example :
    freshEnv (init false [1, 2, 3, 4]) 0 = true ∧
    (createSettle (run (init false [1, 2, 3, 4]) [.createBegin 0 lossSpec, .createCleanup 0, .createInsert 0]) 0 {}).2 = .okState .CONFIGURED ∧
    (destroy lossState 0 false false false {}).2.1 = .ok ∧
    lateAttempt lossState 0 (envTaskIds lossState 0) false false {} = none ∧
    (lateRetry lossState 0 (envTaskIds lossState 0) false {}).2.1 = .ok := by decide

/-- Two tasks on hosts 1 and 2; the creation is past DEPLOY (both tasks acquired, handed to
    their roles) and has not entered CONFIGURE. -/
def overlapMid : State × Option Mid × Res :=
  settleDeploy (run (init false [1, 2, 3, 4]) [.createBegin 0 lossSpec, .createCleanup 0, .createInsert 0]) 0 {}

/-- Non-vacuity, on the schedule the real core was seen to follow least often and that matters
    most: the waiting destroy is served right after DEPLOY. The hypotheses hold of that state; the
    first attempt answers success, has released tasks 1 and 2 (the list the environment has THEN;
    when the request arrived it was empty) and killed them; CONFIGURE then finds the environment
    gone and the creation answers an error after a failure tail that has nothing left to do. -/
example :
    (∃ m, overlapMid.2.1 = some m ∧ m.res = .noop ∧ m.ids = [1, 2]) ∧
    (overlapMid.1.env? 0).map (·.tasks) = some [1, 2] ∧
    envWf overlapMid.1 0 [1, 2] = true ∧ statusFaithful overlapMid.1 [1, 2] = true ∧
    (∃ r, lateAttempt overlapMid.1 0 (envTaskIds overlapMid.1 0) false false {} = some r ∧ r.2.1 = .ok ∧
      r.2.2.head? = some (.release [1, 2]) ∧
      (viewOf r.1).envs = [] ∧ (viewOf r.1).roster = [] ∧
      (viewOf r.1).master = [{ task := 1, label := 0, mesos := .terminal, killed := true },
                             { task := 2, label := 0, mesos := .terminal, killed := true }] ∧
      cleanAfter 0 false (viewOf r.1) = true ∧
      (∀ m, overlapMid.2.1 = some m → (settleConfigure r.1 m).2.res = .errConfigure ∧
        (settleTail (settleConfigure r.1 m).1 (settleConfigure r.1 m).2).2 = .errConfigure ∧
        viewOf (settleTail (settleConfigure r.1 m).1 (settleConfigure r.1 m).2).1 = viewOf r.1)) := by
  refine ⟨⟨_, rfl, by decide, by decide⟩, by decide, by decide, by decide, ⟨_, rfl, by decide, by decide, by decide, by decide, by decide, by decide, ?_⟩⟩
  intro m hm
  have : m = (overlapMid.2.1).get (by decide) := by simp [hm]
  subst this
  decide

/-- `cleanAfter` rejects what a teardown working on the task list of the moment the request
    arrived (empty: DEPLOY had not handed the tasks over yet) leaves: the destroy answered success,
    the environment is gone, and both tasks are still locked by it. -/
example : cleanAfter 0 false
    { roster := [{ task := 1, owner := some 0, locked := true, state := some .CONFIGURED },
                 { task := 2, owner := some 0, locked := true, state := some .CONFIGURED }],
      master := [{ task := 1, label := 0, mesos := .running, killed := false },
                 { task := 2, label := 0, mesos := .running, killed := false }] } = false := by decide

/-! ## the lookup at the head of TeardownEnvironment and the environment manager's mutex -/

/-- The full-strength liveness claim for the lookup: every maximal schedule of a
    TeardownEnvironment's lookup (goroutine T) and a writer of `envs.mu` (goroutine W) ends with
    both through. `nested`: T takes the read lock twice, as the code does. -/
def C06_lookup_returns_full (nested : Bool) : Prop :=
  ∀ st ∈ Rw.reach nested 7 [{}], Rw.stuck nested st = true → Rw.done nested st = true

/-- **Finding teardown_recursive_rlock**: the schedule RLock (T) · Lock announced (W) is a run of
    the code; in the state it leads to T's second RLock waits for the writer, the writer waits
    for T's first read lock, and nothing else can move: the environment manager's mutex is dead. -/
theorem C06_finding_teardown_recursive_rlock : ¬ C06_lookup_returns_full true := by
  intro h
  have hrun : Rw.run true {} [.rlock, .wannounce] = some { readers := 1, pending := true, writer := false, t := 1, w := 1 } := by decide
  have hmem : ({ readers := 1, pending := true, writer := false, t := 1, w := 1 } : Rw.St) ∈ Rw.reach true 7 [{}] := by decide
  have := h _ hmem (by decide)
  revert this
  decide

/-- Without a writer around (W already through) every schedule of the nested lookup completes:
    the defect needs a `Lock()` between the two `RLock()`s. -/
theorem C06_lookup_returns_partial :
    ∀ st ∈ Rw.reach true 7 [{ w := 3 }], Rw.stuck true st = true → Rw.done true st = true := by decide

/-- With the outer `RLock` / `RUnlock` pair removed (`environment()` locks for itself) every
    maximal schedule ends with both goroutines through (all reachable states, enumerated in the kernel). -/
theorem C06_lookup_returns_repaired : C06_lookup_returns_full false := by
  unfold C06_lookup_returns_full
  decide

/-- **The look-up of TeardownEnvironment returns, for the code as it is** (`Rw.nestedInCode = false`
    since the `fix:` commit; tied to the source by `C06_lookup_is_code`): every maximal schedule of the
    read-lock protocol against a writer ends with the look-up done. -/
theorem C06_lookup_returns_code : C06_lookup_returns_full Rw.nestedInCode :=
  C06_lookup_returns_repaired

/-- **The model's lookup is the code's**: go/ast of core/environment/manager.go finds the call
    `envs.environment(…)` of TeardownEnvironment between `envs.mu.RLock()` and `envs.mu.RUnlock()`, and
    an `envs.mu.RLock()` inside `environment` itself. Removing either breaks this theorem (and
    closes the finding). -/
theorem C06_lookup_is_code : Rw.nestedInCode = Gen.teardownLookupNestedRLock ∧ Gen.teardownLookupLocks = (false, true) := by decide

/-- In the ownership model the deadlock is the two teardowns of environment `k` never returning:
    `k` stays listed, marked as being torn down for ever; nothing else changes. -/
theorem C06_wedge_keeps_everything (s : State) (k : EnvId) :
    (wedgeTeardowns s k).roster = s.roster ∧ (wedgeTeardowns s k).master = s.master ∧
    (wedgeTeardowns s k).envs.map (·.id) = s.envs.map (·.id) ∧
    (∀ E ∈ (wedgeTeardowns s k).envs, E.id = k → E.tearing = true) := by
  refine ⟨rfl, rfl, ?_, ?_⟩
  · simp only [wedgeTeardowns, setEnv, List.map_map]
    congr 1
    funext X
    by_cases hk : X.id = k <;> simp [hk]
  · intro E hE hk
    simp only [wedgeTeardowns, setEnv] at hE
    obtain ⟨X, _, rfl⟩ := List.mem_map.mp hE
    by_cases hX : X.id = k
    · simp [hX]
    · simp only [hX, if_false] at hk


/-! ## a deployment that fails in acquireTasks' own tail: a launched task that cannot be locked -/

/-- **When the lock loop fails**: some task of those launched cannot be locked iff some descriptor that was run is placed on
    a host whose offer carried no hostname (`blankHosts`) — every other identity field of a new task record is there
    (newTaskForMesosOffer: agent id and offer id from the offer, executor id from the offer or fresh, a fresh task id, the
    parent role set before `IsLocked()` is asked). -/
theorem C06_lock_failure_iff (s : State) (k : EnvId) (toRun : List (Nat × RoleSpec)) (o : SettleOracle) :
    lockFailure (launchedTasks s k toRun o) = true ↔ ∃ t ∈ launchedTasks s k toRun o, t.host ∈ blankHosts s o := by
  simp only [lockFailure, List.any_eq_true, Bool.not_eq_true']
  constructor
  · rintro ⟨t, ht, hl⟩
    have := (launched_locked s k toRun o t ht).1
    rw [hl] at this
    exact ⟨t, ht, by simpa using this.symm⟩
  · rintro ⟨t, ht, hb⟩
    refine ⟨t, ht, ?_⟩
    rw [(launched_locked s k toRun o t ht).1]
    simpa using hb

/-- … and `Fields.locked` on the record is `isLocked`, the predicate every ownership guard of the core reads. -/
theorem C06_cannot_be_locked_is_isLocked (t : Task) : t.isLocked = t.fields.locked := isLocked_fields t

/-- **The failed lock loop un-parents everything it launched** (every configuration with the code's blanket un-parenting):
    a roster entry after acquireTasks' failed tail is an old one, untouched, or a new one (fresh id) without a parent and
    unlocked — whether it had locked in the loop or not. The listing and the tasks the roles reference are as before. -/
theorem C06_lock_failure_detaches_all_code (s : State) (k : EnvId) (toRun : List (Nat × RoleSpec)) (o : SettleOracle)
    (hc : s.cfg.detachOnSpot = false) :
    (∀ t ∈ (acquireUnlocked s k toRun o).roster, t ∈ s.roster ∨ (t.parent = none ∧ t.isLocked = false ∧ s.nextTask ≤ t.id)) ∧
    (acquireUnlocked s k toRun o).envs = s.envs :=
  ⟨lockFail_unowned s k toRun o hc, rfl⟩

/-- The full-strength claim, for configuration `c`: a creation that fails in acquireTasks' lock loop — from the state in
    which the settling creation finds itself: a state of a run (`Inv`), the creation inserted, nothing referring to `k` yet
    (`freshEnv`), every wanted host offering, some launched task not lockable — answers the deployment error and leaves the
    environment clean; in particular no roster task has `k` as parent. -/
def C06_failed_in_lock_loop_clean_full (c : Cfg) : Prop :=
  ∀ (s : State) (k : EnvId) (o : SettleOracle) (p : Pending), Inv s → s.cfg = c → s.pending? k true = some p → freshEnv s k = true →
    (∀ d ∈ descriptors p.spec, d.2.host ∈ s.hosts) →
    lockFailure (launchedTasks (dropPending s k) k
      ((descriptors p.spec).filter (fun d => decide (d.1 ∉ (claimsOf (dropPending s k) p).map (·.1)))) o) = true →
    (createSettle s k o).2 = .errDeploy ∧ cleanAfter k false (viewOf (createSettle s k o).1) = true ∧
    (∀ t ∈ (createSettle s k o).1.roster, t.parent ≠ some k)

/-- **A creation that fails in acquireTasks' lock loop leaves nothing behind** — the code as it is, every state of a
    run, every oracle (which hosts' offers lacked the hostname, which of the launched tasks had reported when the roster is
    swept, the rendezvous oracle), with or without reuseUnlockedTasks: the creation answers the deployment error, `k` is
    not listed, NO roster task is owned by it — the siblings of the unlockable task, which did lock in the loop, included
    —, every task launched for it sits unowned in the roster, its detectors are free, its calls cancelled. -/
theorem C06_failed_in_lock_loop_clean_code : C06_failed_in_lock_loop_clean_full codeCfg := by
  intro s k o p h hc hp hfr hhosts hlf
  have hnc : s.reuse = false ∨ s.cfg.unlockUnpaired = false := Or.inr (by simp [hc, codeCfg])
  have hnh := settle_lockFail_not_hang s h (by simp [hc, codeCfg]) k o p hp hhosts hnc hlf
  exact settle_lockFail_clean s h (by simp [hc, codeCfg]) k o p hp hfr hhosts hnc hlf hnh

/-- The same in every configuration that has the code's blanket un-parenting (the code as it was included), unless the
    failure tail's teardown hangs (legacy: the rendezvous race) or the process died at a complete claim (legacy). -/
theorem C06_failed_in_lock_loop_clean_partial (s : State) (h : Inv s) (hc : s.cfg.detachOnSpot = false)
    (k : EnvId) (o : SettleOracle) (p : Pending) (hp : s.pending? k true = some p) (hfr : freshEnv s k = true)
    (hhosts : ∀ d ∈ descriptors p.spec, d.2.host ∈ s.hosts) (hnc : s.reuse = false ∨ s.cfg.unlockUnpaired = false)
    (hlf : lockFailure (launchedTasks (dropPending s k) k
      ((descriptors p.spec).filter (fun d => decide (d.1 ∉ (claimsOf (dropPending s k) p).map (·.1)))) o) = true)
    (hnh : (createSettle s k o).2 ≠ .hang) :
    (createSettle s k o).2 = .errDeploy ∧ cleanAfter k false (viewOf (createSettle s k o).1) = true ∧
    (∀ t ∈ (createSettle s k o).1.roster, t.parent ≠ some k) :=
  settle_lockFail_clean s h hc k o p hp hfr hhosts hnc hlf hnh

/-- **What the failed creation left falls to the next Cleanup**: in any later state whose roster is the one the failed
    lock loop left (and while no KILL call fails), a Cleanup takes every one of the appended entries out of the roster —
    what stays are old entries that are locked. -/
theorem C06_lock_failure_leftovers_fall_to_cleanup (s : State) (k : EnvId) (toRun : List (Nat × RoleSpec)) (o : SettleOracle)
    (hc : s.cfg.detachOnSpot = false) (s' : State) (hr : s'.roster = (acquireUnlocked s k toRun o).roster)
    (href : s'.refusing = []) :
    ∀ t ∈ (cleanup s').roster, t ∈ s.roster ∧ t.isLocked = true :=
  lockFail_next_cleanup s k toRun o hc s' hr href

/-- Three tasks on hosts 1, 2, 3. -/
def lockSpec : EnvSpec :=
  { bad := .ok, dets := [0], roles := [{ kind := .task, cls := 1, host := 1 }, { kind := .task, cls := 2, host := 2 },
                                       { kind := .task, cls := 3, host := 3 }] }

/-- The creation of `lockSpec` inserted, under configuration `c`. -/
def lockPre (c : Cfg := codeCfg) : State :=
  run (init false [1, 2, 3, 4] c) [.createBegin 0 lockSpec, .createCleanup 0, .createInsert 0]

/-- The offer for host 2 carried no hostname. -/
def lockOracle : SettleOracle := { blank := [2] }

/-- NOT the code: detach only the task that cannot be locked, on the spot. -/
def detachCfg : Cfg := { codeCfg with detachOnSpot := true }

/-- **The variant that is not the code is refuted**: with `detachOnSpot` the siblings of the unlockable task keep the
    parent role of an environment that is gone — the full-strength claim fails on the witness below (hypotheses: evaluated
    in the kernel; the invariant: `C04_invariant`'s lemma). The theorems above depend on the blanket un-parenting. -/
theorem C06_detach_on_spot_leaves_owned : ¬ C06_failed_in_lock_loop_clean_full detachCfg := by
  intro h
  have hinv : Inv (lockPre detachCfg) := inv_run _ _ (by decide) (inv_init false [1, 2, 3, 4] detachCfg)
  have := h (lockPre detachCfg) 0 lockOracle
    { id := 0, spec := lockSpec, snapshot := [], cleaned := true, inserted := true, claims := none }
    hinv (by decide) (by rfl) (by decide) (by decide) (by decide)
  revert this
  decide

/-- The witness under the code as it is: the creation answers the deployment error, the environment is gone, the three
    tasks — two of which had locked — sit in the roster unowned and unlocked, none was killed, `cleanAfter` holds; the next
    cleanup sends each of them a KILL. Under `detachCfg`: tasks 1 and 3 are still owned by environment 0 and locked,
    `cleanAfter` fails, and neither Cleanup nor KillTasks (the pre-deployment cleanup of every later creation, CleanupTasks
    with or without ids) ever touches them. -/
example :
    (createSettle lockPre 0 lockOracle).2 = .errDeploy ∧
    (viewOf (createSettle lockPre 0 lockOracle).1).envs = [] ∧
    (viewOf (createSettle lockPre 0 lockOracle).1).roster =
      [{ task := 1, owner := none, locked := false, state := none }, { task := 2, owner := none, locked := false, state := none },
       { task := 3, owner := none, locked := false, state := none }] ∧
    ((createSettle lockPre 0 lockOracle).1.master.map (fun m => (m.id, m.mesos, m.killed))) =
      [(1, .running, false), (2, .running, false), (3, .running, false)] ∧
    cleanAfter 0 false (viewOf (createSettle lockPre 0 lockOracle).1) = true ∧
    ((step (createSettle lockPre 0 lockOracle).1 .cleanup).1.master.map (fun m => (m.id, m.killed))) = [(1, true), (2, true), (3, true)] ∧
    (step (createSettle lockPre 0 lockOracle).1 .cleanup).1.roster = [] ∧
    -- NOT the code
    (createSettle (lockPre detachCfg) 0 lockOracle).2 = .errDeploy ∧
    (viewOf (createSettle (lockPre detachCfg) 0 lockOracle).1).envs = [] ∧
    (viewOf (createSettle (lockPre detachCfg) 0 lockOracle).1).roster =
      [{ task := 1, owner := some 0, locked := true, state := some .STANDBY }, { task := 2, owner := none, locked := false, state := none },
       { task := 3, owner := some 0, locked := true, state := some .STANDBY }] ∧
    cleanAfter 0 false (viewOf (createSettle (lockPre detachCfg) 0 lockOracle).1) = false ∧
    ((step (step (createSettle (lockPre detachCfg) 0 lockOracle).1 .cleanup).1 (.killIds [1, 2, 3])).1.roster.map (fun t => (t.id, t.parent, t.isLocked))) =
      [(1, some 0, true), (3, some 0, true)] := by
  decide

/-- **The model's failure block of acquireTasks is the code's**: go/ast of core/task/manager.go finds the lock loop
    (`X.SetParent(role); if !X.IsLocked() { … deploymentSuccess = false }` over deployedTasks, under `if deploymentSuccess`)
    detaching nothing, the one top-level `if !deploymentSuccess` un-parenting EVERY task of deployedTasks (`X.SetParent(nil)`
    directly in the body of the range, under no further condition), no other `SetParent(nil)` in the function, every deployed
    task appended to the roster unconditionally, and every `SetTask` under `if deploymentSuccess`. A SetParent(nil) moved into
    the lock loop, a condition around the one in the failure block, a role that gets its task on failure: each breaks this
    theorem. (Both configurations of the code, as it is and as it was, have the blanket un-parenting.) -/
theorem C06_lock_failure_unparents_all_is_code :
    codeCfg.detachOnSpot = !Gen.lockFailureUnparentsAll ∧ legacyCfg.detachOnSpot = !Gen.lockFailureUnparentsAll ∧
    Gen.acquireTailCounts = (1, 1, 1, 1, 1, 1, 1, 2, 2) := ⟨by decide, by decide, by rfl⟩


/-! ## over whole runs: no task is ever parented by an environment that is not listed -/

/-- **No roster task is ever parented by an environment that is not listed**: after ANY sequence of steps from the initial
    state — creations cut into their atomic parts and failing at any stage (the lock loop included), control requests,
    destroys with any flags and any inner failure, cleanups, lost executors and agents, watcher reactions, failing KILL calls,
    status updates with absent fields; any oracles — every roster task that has a parent role belongs to an environment that
    IS listed and references it. (Without reuseUnlockedTasks and free-standing claim steps, in every configuration that has the
    code's blanket un-parenting after a failed lock loop and its release of the DESTROY hook tasks of all weights — `codeCfg`
    among them; `legacyCfg` is not: finding destroy_hooks_unreleased left hook tasks parented by a deleted environment.) -/
theorem C06_owner_always_listed (hosts : List Host) (c : Cfg) (hd : c.detachOnSpot = false) (hl : c.lastWeightOnly = false)
    (steps : List Step) (h : noClaimSteps steps = true) :
    ∀ t ∈ (run (init false hosts c) steps).roster, ∀ e, t.parent = some e →
      ∃ E ∈ (run (init false hosts c) steps).envs, E.id = e ∧ t.id ∈ E.tasks :=
  ol_run steps h (init false hosts c) (inv_init false hosts c) rfl hd hl (by intro t ht; simp [init] at ht)

/-- … in particular in the code as it is: **a task that is locked is locked to a listed environment** — there is no state
    of a run in which Cleanup and KillTasks (which spare locked tasks) spare a task of an environment that no longer exists. -/
theorem C06_locked_means_listed_code (hosts : List Host) (steps : List Step) (h : noClaimSteps steps = true) :
    ∀ t ∈ (run (init false hosts) steps).roster, t.isLocked = true →
      ∃ E ∈ (run (init false hosts) steps).envs, t.owner = some E.id ∧ t.id ∈ E.tasks := by
  intro t ht hlk
  cases hp : t.parent with
  | none => simp [Task.isLocked, hp] at hlk
  | some e =>
    obtain ⟨E, hE, hid, hin⟩ := C06_owner_always_listed hosts codeCfg rfl rfl steps h t ht e hp
    exact ⟨E, hE, by simp [Task.owner, hlk, hp, hid], hin⟩

/-- **The blanket un-parenting is needed**: in the configuration that is NOT the code (`detachCfg`: only the task that cannot
    be locked is detached, on the spot) the creation of `lockSpec` with the offer for host 2 lacking the hostname ends with
    task 1 parented by — and locked to — environment 0, which is not listed any more. -/
theorem C06_owner_listed_needs_blanket_unparent :
    ¬ (∀ t ∈ (createSettle (lockPre detachCfg) 0 lockOracle).1.roster, ∀ e, t.parent = some e →
        ∃ E ∈ (createSettle (lockPre detachCfg) 0 lockOracle).1.envs, E.id = e ∧ t.id ∈ E.tasks) := by
  intro h
  obtain ⟨E, hE, _⟩ := h { id := 1, cls := 1, host := 1, hostOk := true, agent := true, offer := true, executor := true,
                            parent := some 0, active := true, state := .STANDBY } (by decide) 0 rfl
  have hnil : (createSettle (lockPre detachCfg) 0 lockOracle).1.envs = [] := by decide
  rw [hnil] at hE
  simp at hE
