/-
  Props/C07 — "Run numbers are unique and strictly increasing".

  Model: Model/RunNumber.lean (one Consul key with ModifyIndex; any number of callers running
  `read(consistent) ; cas(idx_read, value_read+1)`; foreign writers; HTTP failures; crashes).
  A schedule is ANY `List Step` — every interleaving of any number of callers, foreign writers
  and crash points is one such list; all theorems below quantify over all of them.

  Hypotheses, spelled out as decidable predicates over the schedule:
    * `ForeignMonotone` — nobody else lowers the counter. This is an assumption about the
      environment and cannot be dropped for ANY protocol whose only durable state is the key
      (`C07_foreign_lowering_duplicates`).
    * `NoWrap` — no caller increments 2^32−1. This one is FORCED by the code (uint32 `value++`):
      the full statements are refuted on witnesses (`C07_finding_uint32_wrap…`), the finding is
      `uint32_wrap`, and with the proposed guard (`Proto.guard`, notes/C07.fix.patch) the
      hypothesis disappears (`C07_unique_guarded`, `C07_monotone_guarded`).

  Tie to /repo: `C07_*_is_code` identify what the model assumes about the code with go/ast facts
  and an evaluation regenerated on every run (Gen/C07Facts.lean); the step semantics is tied by
  the correspondence run (harness/props/c07), which replays model schedules on the real
  `GetNextUInt32` / `NewRunNumber` against a Consul KV simulator that controls the interleaving.
-/
import ControlModel.Gen.C07Facts
import ControlModel.Proofs.RunNumber
import ControlModel.Proofs.RunAttempts
import ControlModel.Proofs.RunWrites
import ControlModel.Proofs.RunRemote
import ControlModel.Proofs.RunStartup

open RunNumber

/-! ## what the model assumes about the code IS what the code does now -/

/-- The write in `GetNextUInt32` is `kv.CAS` on the very pair that `kv.Get` returned (so the
    ModifyIndex that was read travels as `cas=`), and there is no `kv.Put` in the function. -/
theorem C07_write_is_cas_is_code :
    codeProto.useCas = (Gen.C07.writeIsCAS && Gen.C07.casPairIsReadPair) := by decide

/-- The boolean answer of CAS is turned into an error, and every error of Get/ParseUint/CAS is
    returned to the caller. -/
theorem C07_cas_answer_checked_is_code :
    codeProto.checkOk = (Gen.C07.casOkChecked && Gen.C07.errorsReturned) := by decide

/-- The read asks Consul for a consistent (linearizable) answer — the model's `read` step sees the
    current store, never an older one, only because of this. -/
theorem C07_read_consistent_is_code : Gen.C07.readRequiresConsistent = true := by decide

/-- Whether the code hands out 0 after 2^32−1 (EVALUATED on the linked code by `vh gen`) is what
    the model's `guard` switch says. Today: it refuses (fix commit in /repo); a regression to the
    wrapping increment makes this theorem false. -/
theorem C07_wrap_is_code :
    Gen.C07.wrapEvaluated = true ∧ codeProto.guard = !Gen.C07.wrapsAtMax := by decide

/-- `local.Service.NewRunNumber` is `GetNextUInt32` for a consul:// backend — the Consul branch
    consists of the single statement `return cSrc.GetNextUInt32(<key expression>)`: the call is
    made DIRECTLY, by every caller for itself (no wrapper, no closure, no other statement, the key
    expression calls nothing but `filepath.Join`/`getConsulRuntimePrefix`), which is why the model
    can be blind to the Service object a caller goes through — and
    `before_event START_ACTIVITY` cancels the transition (dropping the value) when it errs —
    which is what `adopted` models. -/
theorem C07_consumer_is_code :
    (Gen.C07.serviceDelegates && Gen.C07.startCancelledOnError) = true := by decide

/-- The CONSUMER obtains a fresh number for every start attempt: in the `before_event` callback
    of core/environment/environment.go the START_ACTIVITY branch is reached whenever the
    negative-weight hooks passed (the only `return` before it is the one that cancels on their
    error); inside the branch `the.ConfSvc().NewRunNumber()` is called UNCONDITIONALLY (a statement
    of the branch itself — not under a further `if`/`switch`/loop, no `return` before it; it is the
    only call in the callback); its result, never re-assigned, is what goes into
    `env.currentRunNumber`, the `run_number` variable and the Ev_RunEvent STARTED; and no other
    statement of package environment gives `currentRunNumber` a value other than 0. This is what
    `RunAttempts.codeEnvCfg.fresh` (every attempt that gets past the negative-weight hooks calls
    the protocol) stands for; a consumer that keeps a number it still holds makes this false. -/
theorem C07_start_obtains_fresh_number_is_code :
    RunAttempts.codeEnvCfg.fresh =
      (Gen.C07.startReachedAfterNegHooksOnly && Gen.C07.startCallUnconditional &&
       Gen.C07.startNumberAdopted && Gen.C07.onlyStartSetsNumber) := by decide

/-! ## the theorems -/

/-- The invariant holds after every schedule (real protocol, hypotheses on the schedule). -/
theorem C07_invariant (p : Proto) (hcas : p.useCas = true) (hchk : p.checkOk = true)
    (sched : List Step) (st : Store) (hwf : st.WF)
    (hfm : ForeignMonotone p sched (init st) = true) (hnw : NoWrap p sched (init st) = true) :
    Inv p st.level (run p sched (init st)) :=
  run_inv hcas hchk sched _ (inv_init p st hwf) hfm hnw

/-- FULL-STRENGTH uniqueness (kept visible; FALSE of the code as it stands, see the finding):
    no two callers are ever handed the same number, for every schedule in which foreign writers
    do not lower the counter. -/
def C07_unique_full (p : Proto) : Prop :=
  ∀ (sched : List Step) (st : Store), st.WF → ForeignMonotone p sched (init st) = true →
    ∀ a b na nb, a ≠ b →
      returned (run p sched (init st)) a = some na → returned (run p sched (init st)) b = some nb → na ≠ nb

/-- FULL-STRENGTH monotonicity: a call that completed before another started got the smaller number. -/
def C07_monotone_full (p : Proto) : Prop :=
  ∀ (sched : List Step) (st : Store), st.WF → ForeignMonotone p sched (init st) = true →
    ∀ a b na ta ea qa nb tb eb qb,
      (run p sched (init st)).callers a = .done na .ok ta ea qa →
      (run p sched (init st)).callers b = .done nb .ok tb eb qb →
      ea < tb → na < nb

/-- Uniqueness, for ALL schedules of ANY number of callers, foreign writers, failures and
    crashes, under `ForeignMonotone` and `NoWrap`. -/
theorem C07_unique (p : Proto) (hcas : p.useCas = true) (hchk : p.checkOk = true)
    (sched : List Step) (st : Store) (hwf : st.WF)
    (hfm : ForeignMonotone p sched (init st) = true) (hnw : NoWrap p sched (init st) = true)
    (a b na nb : Nat) (hab : a ≠ b)
    (ha : returned (run p sched (init st)) a = some na)
    (hb : returned (run p sched (init st)) b = some nb) : na ≠ nb := by
  have inv := C07_invariant p hcas hchk sched st hwf hfm hnw
  generalize run p sched (init st) = s at *
  unfold returned at ha hb
  cases hca : s.callers a with
  | done va ea ta ta' qa =>
    cases hcb : s.callers b with
    | done vb eb tb tb' qb =>
      rw [hca] at ha; rw [hcb] at hb
      cases ea <;> simp [adopted] at ha
      cases eb <;> simp [adopted] at hb
      subst ha; subst hb
      have la := inv.logged a _ _ _ _ hca
      have lb := inv.logged b _ _ _ _ hcb
      rcases pairwise_mem_cases inv.sorted la lb with heq | hlt | hgt
      · injection heq with h1; exact absurd h1 hab
      · exact Nat.ne_of_lt hlt.1
      · exact (Nat.ne_of_lt hgt.1).symm
    | idle => rw [hcb] at hb; simp [adopted] at hb
    | holding _ _ _ => rw [hcb] at hb; simp [adopted] at hb
    | dead _ => rw [hcb] at hb; simp [adopted] at hb
  | idle => rw [hca] at ha; simp [adopted] at ha
  | holding _ _ _ => rw [hca] at ha; simp [adopted] at ha
  | dead _ => rw [hca] at ha; simp [adopted] at ha

/-- Real-time monotonicity, same quantification: if call `a` completed (step index `ea`) before
    call `b` started (step index `tb`), then `a`'s number is smaller. -/
theorem C07_monotone (p : Proto) (hcas : p.useCas = true) (hchk : p.checkOk = true)
    (sched : List Step) (st : Store) (hwf : st.WF)
    (hfm : ForeignMonotone p sched (init st) = true) (hnw : NoWrap p sched (init st) = true)
    (a b na ta ea nb tb eb : Nat) (qa qb : Option Nat)
    (ha : (run p sched (init st)).callers a = .done na .ok ta ea qa)
    (hb : (run p sched (init st)).callers b = .done nb .ok tb eb qb)
    (hab : ea < tb) : na < nb := by
  have inv := C07_invariant p hcas hchk sched st hwf hfm hnw
  exact inv.monotone_prop _ _ (inv.logged a _ _ _ _ ha) (inv.logged b _ _ _ _ hb) hab

/-- Stronger than both: in completion order the numbers handed out strictly increase. -/
theorem C07_strictly_increasing (p : Proto) (hcas : p.useCas = true) (hchk : p.checkOk = true)
    (sched : List Step) (st : Store) (hwf : st.WF)
    (hfm : ForeignMonotone p sched (init st) = true) (hnw : NoWrap p sched (init st) = true) :
    ((run p sched (init st)).log.map (·.num)).Pairwise (· < ·) := by
  rw [List.pairwise_map]
  exact (C07_invariant p hcas hchk sched st hwf hfm hnw).sorted.imp (fun h => h.1)

/-- Across restarts: every number handed out is larger than the counter value found in Consul
    when the schedule began (so larger than anything handed out before, by the same theorem
    applied to the earlier schedule), and never larger than the value now stored. -/
theorem C07_above_initial (p : Proto) (hcas : p.useCas = true) (hchk : p.checkOk = true)
    (sched : List Step) (st : Store) (hwf : st.WF)
    (hfm : ForeignMonotone p sched (init st) = true) (hnw : NoWrap p sched (init st) = true)
    (c n : Nat) (hc : returned (run p sched (init st)) c = some n) :
    st.level < n ∧ n ≤ (run p sched (init st)).store.level := by
  have inv := C07_invariant p hcas hchk sched st hwf hfm hnw
  generalize run p sched (init st) = s at *
  unfold returned at hc
  cases hcc : s.callers c with
  | done v e t t' q =>
    rw [hcc] at hc
    cases e <;> simp [adopted] at hc
    subst hc
    have := inv.bound _ (inv.logged c _ _ _ _ hcc)
    exact ⟨this.2.1, this.1⟩
  | idle => rw [hcc] at hc; simp [adopted] at hc
  | holding _ _ _ => rw [hcc] at hc; simp [adopted] at hc
  | dead _ => rw [hcc] at hc; simp [adopted] at hc

/-- The decidable `Spec` the driver evaluates on the real code's answers holds of the model's log. -/
theorem C07_spec (p : Proto) (hcas : p.useCas = true) (hchk : p.checkOk = true)
    (sched : List Step) (st : Store) (hwf : st.WF)
    (hfm : ForeignMonotone p sched (init st) = true) (hnw : NoWrap p sched (init st) = true) :
    Spec st.level (run p sched (init st)).log = true :=
  (C07_invariant p hcas hchk sched st hwf hfm hnw).spec

/-- A refused CAS returns an error and no number, writes nothing and hands out nothing — in ANY
    state (no hypothesis on how it was reached). -/
theorem C07_cas_fail_is_error (p : Proto) (hcas : p.useCas = true) (hchk : p.checkOk = true)
    (s : Sys) (c v i t : Nat) (hc : s.callers c = .holding v i t) (hno : s.store.casOk i = false) :
    (step p (.cas c) s).callers c = .done (incr32 v) .cas t s.clock (some i) ∧
    returned (step p (.cas c) s) c = none ∧
    (step p (.cas c) s).store = s.store ∧ (step p (.cas c) s).log = s.log := by
  simp [step, act, hc, hcas, hchk, hno, returned, adopted]

/-- Every error class leaves the caller without a number (environment.go drops the value and
    cancels START_ACTIVITY), and only `err == nil` yields one. -/
theorem C07_start_cancelled_without_number (v : Nat) (e : Err) (t t' : Nat) (q : Option Nat) :
    (adopted (.done v e t t' q) = none ↔ e ≠ .ok) ∧ (e = .ok → adopted (.done v e t t' q) = some v) := by
  cases e <;> simp [adopted]

/-- A crash anywhere only loses numbers: the crash step itself touches neither the store, nor
    the numbers handed out, nor any other caller, and never turns into a number; and the dead
    caller's later steps do nothing at all (they only pass time). Uniqueness and monotonicity of
    the survivors is `C07_unique`/`C07_monotone`, whose schedules contain crashes anywhere. -/
theorem C07_crash_safe (p : Proto) (s : Sys) (c : Nat) :
    (step p (.crash c) s).store = s.store ∧ (step p (.crash c) s).log = s.log ∧
    (∀ d, d ≠ c → (step p (.crash c) s).callers d = s.callers d) ∧
    returned (step p (.crash c) s) c = returned s c ∧
    (∀ t st, s.callers c = .dead t → st.isOf c = true → step p st s = { s with clock := s.clock + 1 }) ∧
    (∀ t st, s.callers c = .dead t → (step p st s).callers c = .dead t) := by
  refine ⟨?_, ?_, ?_, ?_, ?_, ?_⟩
  · simp only [step, act]; split <;> rfl
  · simp only [step, act]; split <;> rfl
  · intro d hd
    simp only [step, act]
    split <;> first | rfl | exact setCaller_other _ _ _ _ hd
  · simp only [step, act, returned]
    cases hc : s.callers c <;> simp [adopted, hc]
  · intro t st hd hst; exact dead_step p s c t st hd hst
  · intro t st hd; exact dead_stays p s c t st hd

/-- A crashed caller's number is simply skipped: the next caller gets the next one (non-vacuity
    of `C07_crash_safe`: a crash between read and CAS loses nothing that was handed out). -/
example :
    let s := run codeProto [.read 0, .read 1, .crash 0, .cas 0, .cas 1, .read 2, .cas 2] (init ⟨none, 0⟩)
    returned s 0 = none ∧ returned s 1 = some 1 ∧ returned s 2 = some 2 := by decide

/-! ## every number is paid for by a write of the call that returns it

  Callers that overlap inside ONE `local.Service` (one apricot instance serves every environment
  of a core) are, in the model, just callers: each runs `read ; cas` itself. What that implies for
  the observation — and what a Service that answers one caller with another caller's result
  (request coalescing, a cached number, …) violates — is stated here for ALL schedules and ANY
  protocol setting, without any hypothesis on foreign writers. -/

/-- A number is handed only to a call whose OWN write request Consul processed, and that call
    owns the log entry carrying exactly this number. -/
theorem C07_number_needs_own_write (p : Proto) (sched : List Step) (st : Store) (c n : Nat)
    (hc : returned (run p sched (init st)) c = some n) :
    ∃ t t' i, (run p sched (init st)).callers c = .done n .ok t t' (some i) ∧
      ({ caller := c, num := n, started := t, ended := t' } : Ret) ∈ (run p sched (init st)).log := by
  have own := run_own p sched _ (own_init st)
  generalize run p sched (init st) = s at *
  unfold returned at hc
  cases hcc : s.callers c with
  | done v e t t' q =>
    rw [hcc] at hc
    cases e <;> simp [adopted] at hc
    subst hc
    obtain ⟨hq, hl⟩ := own c v t t' q hcc
    cases q with
    | none => cases hq
    | some i => exact ⟨t, t', i, rfl, hl⟩
  | idle => rw [hcc] at hc; simp [adopted] at hc
  | holding _ _ _ => rw [hcc] at hc; simp [adopted] at hc
  | dead _ => rw [hcc] at hc; simp [adopted] at hc

/-- The counter advances ONCE PER NUMBER: with the CAS answer checked, after any schedule the
    store's index has grown by exactly the count of numbers handed out plus the count of foreign
    writes/deletes. N numbers ⇒ N applied writes; N callers answered while the counter advanced
    once is not a behaviour of the protocol. -/
theorem C07_counter_advances_once_per_number (p : Proto) (hchk : p.checkOk = true)
    (sched : List Step) (st : Store) :
    (run p sched (init st)).store.raft =
      st.raft + (run p sched (init st)).log.length + foreignOps sched := by
  have := run_raft p hchk sched (init st)
  simpa [init] using this

/-- The model's observation satisfies the own-write clause of `SpecObs` — every schedule, every
    number of callers. -/
theorem C07_own_write_spec (p : Proto) (sched : List Step) (st : Store) (n : Nat) :
    ownWriteB (obsOf n (run p sched (init st))) = true :=
  ownWrite_obs n _ (run_own p sched _ (own_init st))

/-- …and `SpecObs` REJECTS every observation in which some call was answered with a number
    although Consul applied no write of that call — whatever the other calls did, whether or not
    the numbers happen to collide, with or without `ForeignMonotone`. -/
theorem C07_answer_without_own_write_rejected (fm : Bool) (L : Nat) (cs : List CallObs) (c : CallObs)
    (hc : c ∈ cs) (hok : c.ok.isSome = true) (hw : c.wrote = false) : SpecObs fm L cs = false := by
  have : ownWriteB cs = false := by
    cases hb : ownWriteB cs with
    | false => rfl
    | true =>
      simp only [ownWriteB, List.all_eq_true] at hb
      have h := hb c hc
      cases ho : c.ok with
      | none => simp [ho] at hok
      | some n => simp [ho, hw] at h
  simp [SpecObs, this]

/-- What a coalescing Service does (two calls overlap inside it, the second is handed the
    answer of the first and never reaches Consul): the observation is rejected by both clauses —
    no own write, and the numbers are not distinct — while the protocol on the same schedule
    (`read 0, read 1, cas 0, cas 1`) answers the second call with the CAS error. -/
theorem C07_shared_answer_is_rejected :
    let shared : List CallObs :=
      [{ caller := 0, ok := some 42, started := 0, ended := 2, refused := false, wrote := true },
       { caller := 1, ok := some 42, started := 1, ended := 3, refused := false, wrote := false }]
    let st : Store := { entry := some { raw := "41".toList, idx := 5 }, raft := 7 }
    let s := run codeProto [.read 0, .read 1, .cas 0, .cas 1] (init st)
    ownWriteB shared = false ∧ uniqueB (retsOf shared) = false ∧ SpecObs true 41 shared = false ∧
    returned s 0 = some 42 ∧ returned s 1 = none ∧ SpecObs true 41 (obsOf 2 s) = true := by decide

/-! ## the forced hypothesis: uint32 wrap (finding `uint32_wrap`) -/

/-- After the fix (guard on), `NoWrap` is not needed: uniqueness in full. -/
theorem C07_unique_guarded (p : Proto) (hcas : p.useCas = true) (hchk : p.checkOk = true)
    (hg : p.guard = true) : C07_unique_full p := by
  intro sched st hwf hfm a b na nb hab ha hb
  exact C07_unique p hcas hchk sched st hwf hfm
    (guard_noWrap hcas hchk hg sched _ (inv_init p st hwf) hfm) a b na nb hab ha hb

/-- After the fix, monotonicity in full. -/
theorem C07_monotone_guarded (p : Proto) (hcas : p.useCas = true) (hchk : p.checkOk = true)
    (hg : p.guard = true) : C07_monotone_full p := by
  intro sched st hwf hfm a b na ta ea qa nb tb eb qb ha hb hab
  exact C07_monotone p hcas hchk sched st hwf hfm
    (guard_noWrap hcas hchk hg sched _ (inv_init p st hwf) hfm) a b na ta ea nb tb eb qa qb ha hb hab

/-- **The property in full for the code as it stands** (`codeProto = guardedProto`, tied by
    `C07_wrap_is_code`, `C07_write_is_cas_is_code`, `C07_cas_checked_is_code`): for EVERY schedule,
    under `ForeignMonotone` alone, the numbers handed out are pairwise distinct … -/
theorem C07_unique_code : C07_unique_full codeProto :=
  C07_unique_guarded codeProto rfl rfl rfl

/-- … and monotone in real-time order. -/
theorem C07_monotone_code : C07_monotone_full codeProto :=
  C07_monotone_guarded codeProto rfl rfl rfl

/-- The former finding `uint32_wrap` (fixed in /repo), on the model of the code as it was
    (`wrappingProto`): counter at 2^32−2, two calls one after
    the other; the first gets 4294967295, the second gets 0. -/
theorem C07_finding_uint32_wrap : ¬ C07_monotone_full wrappingProto := by
  intro h
  have := h [.read 0, .cas 0, .read 1, .cas 1]
    { entry := some { raw := "4294967294".toList, idx := 5 }, raft := 5 } (by decide) (by decide)
    0 1 4294967295 0 1 (some 5) 0 2 3 (some 6) (by decide) (by decide) (by decide)
  revert this; decide

/-- …and uniqueness: somebody (monotonically!) sets the counter to 2^32−1 after number 1 was
    handed out; the next two calls get 0 and then 1 again. -/
theorem C07_finding_uint32_wrap_duplicate : ¬ C07_unique_full wrappingProto := by
  intro h
  have := h [.read 0, .cas 0, .foreign "4294967295".toList, .read 1, .cas 1, .read 2, .cas 2]
    { entry := none, raft := 0 } (by decide) (by decide) 0 2 1 1 (by decide) (by decide) (by decide)
  exact this rfl

/-! ## the gRPC hop of a remote apricot

  In production the core holds no `local.Service`: `the.ConfSvc()` is the apricot:// client
  (`remote.RemoteService`), one `NewRunNumber` is one unary RPC served by `RpcServer.NewRunNumber`
  in the apricot process, which calls the `local.Service` it fronts. Model/RunRemote.lean: the
  caller still runs `read ; cas` (inside apricot); what reaches `before_event START_ACTIVITY` is the
  call's `(value, err)` AFTER the hop. `GetNextUInt32` returns the incremented, never-stored
  CANDIDATE next to a CAS/HTTP error, so the hop is where "the start fails instead of reusing a
  number" is kept or lost. -/

/-- The hop of the model IS the hop of the code: handler and client each make ONE call as a
    top-level statement (no loop, no retry), the handler returns the service's error unchanged on
    every path after the call (no path answers OK after `err != nil`), the client returns the
    RPC's error and the literal 0 with it; on the success path the number travels unchanged
    (`RunNumberResponse{RunNumber: rn}` → `response.GetRunNumber()`). go/ast over apricot/remote,
    regenerated on every run; a handler that logs the error and answers OK makes this false. -/
theorem C07_remote_hop_is_code :
    codeHop.forwardsErr = (Gen.C07.rpcServerForwardsError && Gen.C07.rpcClientReturnsError) ∧
    (Gen.C07.rpcServerSingleCall && Gen.C07.rpcClientSingleCall &&
     Gen.C07.rpcServerForwardsNumber && Gen.C07.rpcClientReturnsNumber) = true := by decide

/-- **A caller that goes through the hop = the same protocol call.** For every schedule, every
    protocol setting, every assignment of callers to hops: what a caller behind the code's hop
    adopts is exactly what the protocol call made on its behalf adopts — so every theorem of this
    file about `returned` speaks about remote callers as well. -/
theorem C07_remote_hop_transparent (p : Proto) (sched : List Step) (st : Store) (remote : Routing) (c : Nat) :
    returnedVia codeHop remote (run p sched (init st)) c = returned (run p sched (init st)) c :=
  returnedVia_code remote _ c

/-- Error ⇒ no number, across the boundary: whatever value the service returned next to an error
    (the candidate), the remote caller holds `(0, that error)` and adopts nothing; a number that
    crossed the hop is the service's number. -/
theorem C07_remote_error_no_number (v : Nat) (e : Err) (t t' : Nat) (q : Option Nat) :
    (e ≠ .ok → viaHop codeHop (.done v e t t' q) = .done 0 e t t' q ∧
               adopted (viaHop codeHop (.done v e t t' q)) = none) ∧
    (e = .ok → viaHop codeHop (.done v e t t' q) = .done v .ok t t' q) := by
  cases e <;> simp [viaHop, codeHop, adopted]

/-- Uniqueness in full for the production layout: any schedule, any mix of callers behind hops
    and callers holding a Service themselves, `ForeignMonotone` alone. -/
theorem C07_remote_unique_code (sched : List Step) (st : Store) (hwf : st.WF)
    (hfm : ForeignMonotone codeProto sched (init st) = true) (remote : Routing)
    (a b na nb : Nat) (hab : a ≠ b)
    (ha : returnedVia codeHop remote (run codeProto sched (init st)) a = some na)
    (hb : returnedVia codeHop remote (run codeProto sched (init st)) b = some nb) : na ≠ nb := by
  rw [returnedVia_code] at ha hb
  exact C07_unique_code sched st hwf hfm a b na nb hab ha hb

/-- …and real-time monotonicity, on what the callers' own sides hold. -/
theorem C07_remote_monotone_code (sched : List Step) (st : Store) (hwf : st.WF)
    (hfm : ForeignMonotone codeProto sched (init st) = true) (remote : Routing)
    (a b na ta ea nb tb eb : Nat) (qa qb : Option Nat)
    (ha : seenBy codeHop remote (run codeProto sched (init st)) a = .done na .ok ta ea qa)
    (hb : seenBy codeHop remote (run codeProto sched (init st)) b = .done nb .ok tb eb qb)
    (hab : ea < tb) : na < nb :=
  C07_monotone_code sched st hwf hfm a b na ta ea qa nb tb eb qb (seenBy_code_ok ha) (seenBy_code_ok hb) hab

/-- A number that reached a remote caller was paid for by a write of the very call made on its
    behalf (any schedule, any protocol setting). -/
theorem C07_remote_number_needs_own_write (p : Proto) (sched : List Step) (st : Store)
    (remote : Routing) (c n : Nat)
    (hc : returnedVia codeHop remote (run p sched (init st)) c = some n) :
    ∃ t t' i, (run p sched (init st)).callers c = .done n .ok t t' (some i) ∧
      ({ caller := c, num := n, started := t, ended := t' } : Ret) ∈ (run p sched (init st)).log := by
  rw [returnedVia_code] at hc
  exact C07_number_needs_own_write p sched st c n hc

/-- The model's observation of a routed case (numbers as they came back through the hop, requests
    as Consul processed them) is the direct callers' observation, and satisfies the two
    per-call clauses of `SpecObs`: no number next to a refused write, no number without an own
    applied write — every schedule, every routing. -/
theorem C07_remote_obs_spec (p : Proto) (sched : List Step) (st : Store) (remote : Routing) (n : Nat) :
    obsVia codeHop remote n (run p sched (init st)) = obsOf n (run p sched (init st)) ∧
    refusedIsErr (obsVia codeHop remote n (run p sched (init st))) = true ∧
    ownWriteB (obsVia codeHop remote n (run p sched (init st))) = true := by
  rw [obsVia_code]
  exact ⟨rfl, refused_obs n _, C07_own_write_spec p sched st n⟩

/-- **The error must cross the boundary.** Through a hop that answers OK whatever the backend
    said, in ANY state a remote caller whose write Consul refuses — or whose write request fails —
    is handed the candidate `incr32 v` as its run number while store and log stay exactly as they
    were: a number without the counter having advanced. -/
theorem C07_swallowed_error_hands_out_candidate (p : Proto) (hcas : p.useCas = true) (hchk : p.checkOk = true)
    (remote : Routing) (s : Sys) (c v i t : Nat) (hr : remote c = true) (hc : s.callers c = .holding v i t) :
    (s.store.casOk i = false →
      returnedVia swallowingHop remote (step p (.cas c) s) c = some (incr32 v) ∧
      (step p (.cas c) s).store = s.store ∧ (step p (.cas c) s).log = s.log) ∧
    (returnedVia swallowingHop remote (step p (.fail c) s) c = some (incr32 v) ∧
      (step p (.fail c) s).store = s.store ∧ (step p (.fail c) s).log = s.log) :=
  ⟨fun hno => swallowed_cas p hcas hchk remote s c v i t hr hc hno, swallowed_fail p remote s c v i t hr hc⟩

/-- Witness: two starts of one core race through one remote apricot (`read 0, read 1, cas 0,
    cas 1` from "41"). With the code's hop the loser comes back with the CAS error and the
    observation is accepted; with the swallowing hop BOTH are handed 42 — the counter advanced
    once — and `SpecObs` rejects the observation (refused write next to a number, no own write,
    numbers not distinct). -/
theorem C07_hop_must_forward_error :
    let st : Store := { entry := some { raw := "41".toList, idx := 5 }, raft := 7 }
    let s := run codeProto [.read 0, .read 1, .cas 0, .cas 1] (init st)
    let all : Routing := fun _ => true
    returnedVia codeHop all s 0 = some 42 ∧ returnedVia codeHop all s 1 = none ∧
    SpecObs true 41 (obsVia codeHop all 2 s) = true ∧
    returnedVia swallowingHop all s 0 = some 42 ∧ returnedVia swallowingHop all s 1 = some 42 ∧
    s.store.raft = 8 ∧
    refusedIsErr (obsVia swallowingHop all 2 s) = false ∧ ownWriteB (obsVia swallowingHop all 2 s) = false ∧
    uniqueB (retsOf (obsVia swallowingHop all 2 s)) = false ∧
    SpecObs true 41 (obsVia swallowingHop all 2 s) = false := by decide

/-! ## service start-ups as steps of the schedule

  Model/RunStartup.lean: a schedule is any `List SStep` — the constructions of any number of apricot
  instances (`start j`) interleaved with the read/CAS steps of the callers (each asks the instance
  `home c`, and cannot be launched before that instance is up), with foreign writes, deletes of the
  key (the KV tree wiped), failed requests and crashes. Everything below is for ALL such schedules,
  every assignment of callers to instances, every well-formed initial key (absent, present, junk). -/

/-- **Constructing a Service sends nothing to Consul** — what `codeStart` says is what the code
    does: go/ast (`local.NewService` → `cfgbackend.NewSource` → `NewConsulSource` call nothing but
    constructors: no method of the backend, no go/defer/function literal) AND the linked
    constructor evaluated against the KV simulator, once with the counter key absent and once with
    it present, every request it could have sent being answered at once and recorded: none was.
    A constructor that probes, creates or repairs the counter makes this false. -/
theorem C07_startup_is_code :
    Gen.C07.ctorEvaluated = true ∧
    codeStart.ensuresCounter =
      !(Gen.C07.ctorBuildsOnly && Gen.C07.ctorSilentAbsent && Gen.C07.ctorSilentPresent) := by decide

/-- A start-up of the code, in ANY state: store, callers, numbers handed out and the record of own
    writes are exactly what they were — time passes and the instance is up. In particular the
    counter key is NOT created by a start-up; it is created by the first allocation's `cas=0`. -/
theorem C07_startup_touches_nothing (p : Proto) (home : Homes) (j : Nat) (s : SSys) :
    (sstep codeStart p home (.start j) s).base.store = s.base.store ∧
    (sstep codeStart p home (.start j) s).base.callers = s.base.callers ∧
    (sstep codeStart p home (.start j) s).base.log = s.base.log ∧
    (sstep codeStart p home (.start j) s).own = s.own ∧
    (s.inst j = .down → ((sstep codeStart p home (.start j) s).inst j).isUp = true) := by
  obtain ⟨hb, ho⟩ := sstep_start_code p home j s
  refine ⟨by rw [hb]; rfl, by rw [hb]; rfl, by rw [hb]; rfl, ho, ?_⟩
  intro hd
  simp [sstep, codeStart, hd, setInst, IState.isUp]

/-- An instance that is not up hands out nothing: a step that would launch a call on it does
    nothing at all (in any state, whatever the start-up does). -/
theorem C07_startup_down_instance_is_not_asked (cfg : StartCfg) (p : Proto) (home : Homes) (s : SSys) (c j : Nat)
    (hh : home c = some j) (hd : (s.inst j).isUp = false) (hc : s.base.callers c = .idle) :
    sstep cfg p home (.base (.read c)) s = { s with base := tick s.base } ∧
    sstep cfg p home (.base (.fail c)) s = { s with base := tick s.base } :=
  sstep_down_blocks cfg p home s c j hh hd hc

/-- The invariant of the protocol holds along every schedule with start-ups. -/
theorem C07_startup_invariant (p : Proto) (hcas : p.useCas = true) (hchk : p.checkOk = true) (hg : p.guard = true)
    (home : Homes) (sched : List SStep) (st : Store) (hwf : st.WF)
    (hfm : SForeignMonotone codeStart p home sched (sinit st) = true) :
    Inv p st.level (srun codeStart p home sched (sinit st)).base :=
  srun_inv hcas hchk hg home sched _ (inv_sinit p st hwf) hfm

/-- **Uniqueness across start-ups**: whichever instances come up whenever — before, between or
    during allocations of instances already up, on a key that is absent, present or deleted and
    re-created in between — no two callers are handed the same number (`ForeignMonotone` alone). -/
theorem C07_startup_unique_code (home : Homes) (sched : List SStep) (st : Store) (hwf : st.WF)
    (hfm : SForeignMonotone codeStart codeProto home sched (sinit st) = true)
    (a b na nb : Nat) (hab : a ≠ b)
    (ha : sreturned (srun codeStart codeProto home sched (sinit st)) a = some na)
    (hb : sreturned (srun codeStart codeProto home sched (sinit st)) b = some nb) : na ≠ nb :=
  (C07_startup_invariant codeProto rfl rfl rfl home sched st hwf hfm).unique_returned a b na nb hab ha hb

/-- **Monotonicity across start-ups**: a call that completed before another one started — on
    whatever instance, started whenever — got the smaller number. -/
theorem C07_startup_monotone_code (home : Homes) (sched : List SStep) (st : Store) (hwf : st.WF)
    (hfm : SForeignMonotone codeStart codeProto home sched (sinit st) = true)
    (a b na ta ea nb tb eb : Nat) (qa qb : Option Nat)
    (ha : (srun codeStart codeProto home sched (sinit st)).base.callers a = .done na .ok ta ea qa)
    (hb : (srun codeStart codeProto home sched (sinit st)).base.callers b = .done nb .ok tb eb qb)
    (hab : ea < tb) : na < nb := by
  have inv := C07_startup_invariant codeProto rfl rfl rfl home sched st hwf hfm
  exact inv.monotone_prop _ _ (inv.logged a _ _ _ _ ha) (inv.logged b _ _ _ _ hb) hab

/-- Every number handed out lies above the level the counter had when the history began (0 for an
    absent key), and at most at the level it has now. -/
theorem C07_startup_above_initial (home : Homes) (sched : List SStep) (st : Store) (hwf : st.WF)
    (hfm : SForeignMonotone codeStart codeProto home sched (sinit st) = true) (c n : Nat)
    (hc : sreturned (srun codeStart codeProto home sched (sinit st)) c = some n) :
    st.level < n ∧ n ≤ (srun codeStart codeProto home sched (sinit st)).base.store.level :=
  (C07_startup_invariant codeProto rfl rfl rfl home sched st hwf hfm).above_returned c n hc

/-- **Our own code never moves the counter backwards**: every write of a caller or of a start-up
    that Consul applied raised the counter by exactly one (start-ups contribute none). -/
theorem C07_startup_own_writes_raise_by_one (home : Homes) (sched : List SStep) (st : Store) (hwf : st.WF)
    (hfm : SForeignMonotone codeStart codeProto home sched (sinit st) = true) :
    ∀ ba ∈ (srun codeStart codeProto home sched (sinit st)).own, ba.2 = ba.1 + 1 :=
  srun_own rfl rfl rfl home sched _ (inv_sinit codeProto st hwf) (by intro ba h; cases h) hfm

/-- The decidable `SpecStart` the driver evaluates on what the real instances did holds of the
    model's log and own-write record, for all schedules with start-ups. -/
theorem C07_startup_spec (home : Homes) (sched : List SStep) (st : Store) (hwf : st.WF)
    (hfm : SForeignMonotone codeStart codeProto home sched (sinit st) = true) :
    Spec st.level (srun codeStart codeProto home sched (sinit st)).base.log = true ∧
    ownNeverLowersB (srun codeStart codeProto home sched (sinit st)).own = true :=
  ⟨(C07_startup_invariant codeProto rfl rfl rfl home sched st hwf hfm).spec,
   ownNeverLowers_of_ownOk _ (C07_startup_own_writes_raise_by_one home sched st hwf hfm)⟩

/-- **Only our own instances on the key** (no foreign write, no delete): however many instances
    come up however they interleave with the allocations, the numbers handed out are, in completion
    order, exactly `L+1, L+2, …, L+m` where `L` is the level found at the beginning, and the counter
    stands at `L+m`. -/
theorem C07_startup_counts_up (home : Homes) (sched : List SStep) (st : Store) (hwf : st.WF)
    (hnf : noForeign sched = true) :
    let s := srun codeStart codeProto home sched (sinit st)
    s.base.log.map (·.num) = List.range' (st.level + 1) s.base.log.length ∧
    s.base.store.level = st.level + s.base.log.length := by
  have := srun_cnt (p := codeProto) rfl rfl rfl home sched _ (inv_sinit codeProto st hwf) (cnt_sinit st) hnf
  exact ⟨this.2, this.1⟩

/-- **Absent key: the first number is 1, exactly once.** From a KV without the counter key and
    with only our own instances on it, if anything is handed out at all the first number is 1, the
    numbers are 1 … m, and no second caller is ever handed 1. -/
theorem C07_startup_absent_key_first_number_is_one_once (home : Homes) (sched : List SStep) (raft : Nat)
    (hnf : noForeign sched = true) :
    let s := srun codeStart codeProto home sched (sinit ⟨none, raft⟩)
    s.base.log.map (·.num) = List.range' 1 s.base.log.length ∧
    (∀ a b, a ≠ b → sreturned s a = some 1 → sreturned s b ≠ some 1) := by
  have hwf : (⟨none, raft⟩ : Store).WF := by intro e he; cases he
  refine ⟨(C07_startup_counts_up home sched ⟨none, raft⟩ hwf hnf).1, ?_⟩
  intro a b hab ha hb
  exact C07_startup_unique_code home sched ⟨none, raft⟩ hwf (noForeign_fm codeProto home sched _ hnf)
    a b 1 1 hab ha hb rfl

/-- **The start-up must not write the counter.** A constructor that "makes sure the counter
    exists" — `Exists(key)`, then an unconditional `Put(key, "0")` if it saw the key absent — with
    the protocol itself untouched: two instances come up on a KV without the key, both see it
    absent; instance 1 creates it and hands out 1; then instance 0's late `Put "0"` lands and the
    next allocation hands out 1 AGAIN (no foreign writer anywhere: the hypothesis of every theorem
    above holds). The record of own writes shows the counter moved from 1 back to 0, which
    `ownNeverLowersB` rejects; the code's start-up on the same schedule gives 1 and 2. -/
theorem C07_startup_must_not_write :
    let home : Homes := fun c => some c
    let sched : List SStep := [.start 0, .start 1, .start 1, .base (.read 1), .base (.cas 1), .start 0,
                               .base (.read 0), .base (.cas 0)]
    let bad := srun ensuringStart codeProto home sched (sinit ⟨none, 0⟩)
    let good := srun codeStart codeProto home sched (sinit ⟨none, 0⟩)
    noForeign sched = true ∧
    sreturned bad 0 = some 1 ∧ sreturned bad 1 = some 1 ∧
    bad.own = [(0, 0), (0, 1), (1, 0), (0, 1)] ∧ ownNeverLowersB bad.own = false ∧
    uniqueB bad.base.log = false ∧
    sreturned good 0 = some 2 ∧ sreturned good 1 = some 1 ∧ good.own = [(0, 1), (1, 2)] := by decide

/-- …while the same constructor is harmless when nothing overlaps its two requests (sequential
    start-ups, or the key already there): the defect needs concurrent start-ups on an absent key —
    which is why only schedules with start-ups AS STEPS can show it. -/
theorem C07_startup_ensuring_sequential_is_harmless :
    let home : Homes := fun c => some c
    let sched : List SStep := [.start 0, .start 0, .base (.read 0), .base (.cas 0), .start 1, .start 1,
                               .base (.read 1), .base (.cas 1)]
    let s := srun ensuringStart codeProto home sched (sinit ⟨none, 0⟩)
    sreturned s 0 = some 1 ∧ sreturned s 1 = some 2 ∧ ownNeverLowersB s.own = true := by decide

/-- Non-vacuity: a fresh deployment (no counter key). Core 0 comes up and starts a run; the
    apricot daemon (instance 1) comes up while that allocation is under way and loses the race for
    the `cas=0` creation; somebody restores the key from a backup taken a moment ago (same value);
    a third instance comes up late, one of its requests fails; a call is attempted on an instance
    that is still down (nothing happens). Numbers handed out: 1, 2, 3 — every hypothesis holds. -/
example :
    let home : Homes := fun c => some (c % 3)
    let sched : List SStep :=
      [.start 0, .base (.read 0), .start 1, .base (.read 1), .base (.read 2), .base (.cas 0), .base (.cas 1),
       .base (.foreign "1".toList), .base (.read 4), .base (.cas 4), .start 2, .base (.read 2), .base (.fail 5),
       .base (.cas 2), .start 2]
    let s := srun codeStart codeProto home sched (sinit ⟨none, 0⟩)
    SForeignMonotone codeStart codeProto home sched (sinit ⟨none, 0⟩) = true ∧
    s.base.log.map (·.num) = [1, 2, 3] ∧
    s.base.callers 1 = .done 1 .cas 3 6 (some 0) ∧
    s.own = [(0, 1), (1, 2), (2, 3)] ∧ (s.inst 2).isUp = true := by decide

/-! ## every ingredient is needed -/

/-- `ForeignMonotone` cannot be dropped — for this or any protocol whose only durable state is
    the key: a foreign writer that puts an older content back makes the protocol (a function of
    that content) hand out the same number again. Here: 1 is handed out, somebody writes "0",
    1 is handed out again; the schedule does not wrap. -/
theorem C07_foreign_lowering_duplicates :
    ∃ (sched : List Step) (st : Store), st.WF ∧ NoWrap codeProto sched (init st) = true ∧
      ForeignMonotone codeProto sched (init st) = false ∧
      returned (run codeProto sched (init st)) 0 = some 1 ∧ returned (run codeProto sched (init st)) 1 = some 1 :=
  ⟨[.read 0, .cas 0, .foreign "0".toList, .read 1, .cas 1], { entry := none, raft := 0 },
    by decide, by decide, by decide, by decide, by decide⟩

/-- With `Put` instead of `CAS` two racing callers get the same number (all hypotheses hold). -/
theorem C07_needs_cas :
    ∃ (sched : List Step) (st : Store), st.WF ∧
      NoWrap { codeProto with useCas := false } sched (init st) = true ∧
      ForeignMonotone { codeProto with useCas := false } sched (init st) = true ∧
      returned (run { codeProto with useCas := false } sched (init st)) 0 = some 8 ∧
      returned (run { codeProto with useCas := false } sched (init st)) 1 = some 8 :=
  ⟨[.read 0, .read 1, .cas 0, .cas 1], { entry := some { raw := "7".toList, idx := 3 }, raft := 4 },
    by decide, by decide, by decide, by decide, by decide⟩

/-- Ignoring the boolean answer of CAS has the same effect. -/
theorem C07_needs_ok_check :
    ∃ (sched : List Step) (st : Store), st.WF ∧
      NoWrap { codeProto with checkOk := false } sched (init st) = true ∧
      ForeignMonotone { codeProto with checkOk := false } sched (init st) = true ∧
      returned (run { codeProto with checkOk := false } sched (init st)) 0 = some 8 ∧
      returned (run { codeProto with checkOk := false } sched (init st)) 1 = some 8 :=
  ⟨[.read 0, .read 1, .cas 0, .cas 1], { entry := some { raw := "7".toList, idx := 3 }, raft := 4 },
    by decide, by decide, by decide, by decide, by decide⟩

/-! ## non-vacuity -/

/-- The hypotheses are met by a realistic, non-trivial schedule: the counter at 561234; three
    cores race (two lose their CAS), an operator bumps the counter, one caller dies between read
    and write, one request fails; the numbers handed out are 561235 and 600001. -/
example :
    let st : Store := { entry := some { raw := "561234".toList, idx := 90 }, raft := 97 }
    let sched : List Step :=
      [.read 0, .read 1, .read 2, .cas 1, .cas 0, .crash 2, .foreign "600000".toList,
       .read 3, .fail 4, .cas 2, .cas 3]
    st.WF ∧ ForeignMonotone codeProto sched (init st) = true ∧ NoWrap codeProto sched (init st) = true ∧
    (run codeProto sched (init st)).log.map (·.num) = [561235, 600001] ∧
    (run codeProto sched (init st)).callers 0 = .done 561235 .cas 0 4 (some 90) := by decide

/-! ## environment level: the numbers an environment hands to its successive start attempts

  Model/RunAttempts.lean composes the environment machine (Model/Env.lean: which requests of a
  history are START attempts that get as far as the call) with the protocol above: each such
  attempt is one complete call by a fresh caller on the durable store the previous one left. -/

open RunAttempts in
/-- **Any sequence of attempts** — whatever the calls are (made, failing, not made), from any
    well-formed counter, for any protocol with CAS, checked answer and guard: the numbers obtained
    strictly increase in the order of the attempts and all lie above the level the counter had when
    the history began. (Composition of the per-call invariant `C07_invariant` / `C07_above_initial`
    over the durable store: a complete call never lowers the level, and its number lies above the
    old level and at most at the new one.) -/
theorem C07_env_attempts_strictly_increasing (cfg : EnvCfg) (hf : cfg.fresh = true)
    (p : Proto) (hcas : p.useCas = true) (hchk : p.checkOk = true) (hg : p.guard = true)
    (as : List Att) (st : Store) (hwf : st.WF) (prev : Nat) :
    (obtained (attempts cfg p st prev as)).Pairwise (· < ·) ∧
    ∀ n ∈ obtained (attempts cfg p st prev as), st.level < n :=
  attempts_increasing cfg hf p hcas hchk hg as st prev hwf

open RunAttempts in
/-- **The property for the environment as it stands**: for EVERY hook set, every request history
    (transitions through TryTransition or the API glue, teardowns; failing hooks anywhere, failing
    bodies, failing calls) and every well-formed initial counter, the run numbers the environment
    hands to its successive start attempts strictly increase — a START retried after a START that
    was cancelled by a before_START_ACTIVITY / leave_CONFIGURED hook, or started after
    GO_ERROR → RECOVER → CONFIGURE, gets a number larger than every number handed out before. -/
theorem C07_env_strictly_increasing_code (hooks : List EnvM.Hook) (nTasks : Nat) (reqs : List EnvM.Req)
    (st : Store) (hwf : st.WF) :
    (obtained (numbers codeEnvCfg codeProto st hooks nTasks reqs)).Pairwise (· < ·) ∧
    ∀ n ∈ obtained (numbers codeEnvCfg codeProto st hooks nTasks reqs), st.level < n :=
  attempts_increasing codeEnvCfg rfl codeProto rfl rfl rfl _ st 0 hwf

open RunAttempts in
/-- … hence no number is handed to two attempts of a history. -/
theorem C07_env_unique_code (hooks : List EnvM.Hook) (nTasks : Nat) (reqs : List EnvM.Req)
    (st : Store) (hwf : st.WF) :
    distinctNums (obtained (numbers codeEnvCfg codeProto st hooks nTasks reqs)) = true :=
  distinct_of_pairwise_lt _ (C07_env_strictly_increasing_code hooks nTasks reqs st hwf).1

open RunAttempts in
/-- The decidable `SpecEnv` the driver evaluates on what the real Environment published holds of
    the model's numbers, for all histories. -/
theorem C07_env_spec (hooks : List EnvM.Hook) (nTasks : Nat) (reqs : List EnvM.Req) (st : Store) (hwf : st.WF) :
    SpecEnv ((numbers codeEnvCfg codeProto st hooks nTasks reqs).map Option.toList) = true :=
  specEnv_of_pairwise _ (C07_env_strictly_increasing_code hooks nTasks reqs st hwf).1

open RunAttempts in
/-- Which requests are attempts, tied to the environment machine shared with C01/C08/C09/C10: the
    machine's own run counter advances at a request exactly when the request is a START_ACTIVITY
    accepted by the FSM whose negative-weight before-hooks pass and whose call does not fail
    (`attOf … = .ok`) — one call per such attempt, none otherwise; and an attempt whose call fails
    is cancelled with the run-number error (no number, `C07_start_cancelled_without_number`). -/
theorem C07_env_attempt_calls_once (hooks : List EnvM.Hook) (nTasks : Nat) (env : EnvM.Env) (q : EnvM.Req) :
    (EnvM.step hooks nTasks env q).1.counter = env.counter + (if (attOf env hooks q).call = .ok then 1 else 0) ∧
    (∀ e b r, q = .try_ e b r → (attOf env hooks q).call = .fails →
      (EnvM.step hooks nTasks env q).2.2 = .cancelledRn) :=
  ⟨step_counter hooks nTasks env q, fun e b r hq hc => by subst hq; exact fsmEvent_fails env hooks e b r hc⟩

open RunAttempts in
/-- Over a whole history the machine's counter counts the calls that were made and did not fail. -/
theorem C07_env_counter_counts_calls (hooks : List EnvM.Hook) (nTasks : Nat) (reqs : List EnvM.Req) :
    (EnvM.finalEnv hooks nTasks {} reqs).counter = okCount (atts hooks nTasks {} reqs) := by
  have := finalEnv_counter hooks nTasks reqs {}
  simpa using this

open RunAttempts in
/-- The unconditional call is needed: a consumer that keeps the number it still holds
    (`fresh := false`) hands the number of a run that ended in ERROR to the run started after
    RECOVER and CONFIGURE — with the protocol itself untouched. -/
theorem C07_needs_unconditional_call :
    ∃ (hooks : List EnvM.Hook) (reqs : List EnvM.Req),
      obtained (numbers { fresh := false } codeProto ⟨none, 0⟩ hooks 0 reqs) = [1, 1] ∧
      obtained (numbers codeEnvCfg codeProto ⟨none, 0⟩ hooks 0 reqs) = [1, 2] :=
  ⟨[], [.try_ .DEPLOY true false, .try_ .CONFIGURE true false, .try_ .START_ACTIVITY true false,
        .try_ .GO_ERROR true false, .try_ .RECOVER true false, .try_ .CONFIGURE true false,
        .try_ .START_ACTIVITY true false], by decide, by decide⟩

open RunAttempts in
/-- Non-vacuity: a critical before_START_ACTIVITY hook of weight +5 fails its first execution (the
    start is cancelled AFTER number 1 was obtained), a negative-weight one fails its second (that
    attempt never calls), the third call fails, the fourth attempt runs and is stopped, the fifth
    runs: the numbers handed out are 1, 2, 3 at the requests 2, 5 and 7. -/
example :
    let hooks : List EnvM.Hook := [
      { id := 0, isTask := false, critical := true, trig := .before .START_ACTIVITY, tw := 5,
        await := .before .START_ACTIVITY, aw := 5, outcomes := [true] },
      { id := 1, isTask := false, critical := true, trig := .before .START_ACTIVITY, tw := -5,
        await := .before .START_ACTIVITY, aw := -5, outcomes := [false, true] }]
    numbers codeEnvCfg codeProto ⟨none, 0⟩ hooks 0
      [.try_ .DEPLOY true false, .try_ .CONFIGURE true false, .try_ .START_ACTIVITY true false,
       .try_ .START_ACTIVITY true false, .try_ .START_ACTIVITY true true, .try_ .START_ACTIVITY true false,
       .try_ .STOP_ACTIVITY true false, .try_ .START_ACTIVITY true false]
      = [none, none, some 1, none, none, some 2, none, some 3] := by decide
