/-
  Props/C08 — "Hooks run at their declared moment, in weight order, awaited where declared".

  Theorems about the model of handleHooks / Sm.Event in Model/Env.lean, for ALL hook
  sets (any triggers, awaits, weights, criticality, outcomes) and ALL environments
  (hence all histories that produced them). Tie to /repo: correspondence run through
  harness/envh with the trace monitor; the two pass predicates (`w < 0`, `w ≥ 0`) are
  exercised by negative, zero and positive weights in every run.
-/
import ControlModel.Proofs.EnvHooks

open EnvM

/-- The weights a pass visits are strictly ascending and all belong to the pass
    (negative pass: w < 0; the other pass: w ≥ 0; teardown: all). -/
theorem C08_weights_ascending (env : Env) (hooks : List Hook) (m : Moment) (p : Int → Bool) :
    Ascending (weightsFor env hooks m p) ∧ ∀ w ∈ weightsFor env hooks m p, p w = true :=
  weightsFor_ascending env hooks m p

/-- Within a moment hooks fire strictly by ascending weight: the weights carried by
    the start / await / task-hook steps of one pass never decrease along the pass,
    and every one of them is a weight of the pass. -/
theorem C08_weight_order (env : Env) (hooks : List Hook) (m : Moment) (p : Int → Bool) :
    Weakly (stepWeights (handleHooks env hooks m p).2.1) ∧
    ∀ w ∈ stepWeights (handleHooks env hooks m p).2.1, w ∈ weightsFor env hooks m p ∧ p w = true := by
  have h := handleWeights_stepWeights env hooks m _ (weightsFor_ascending env hooks m p).1
  exact ⟨h.1, fun w hw => ⟨h.2 w hw, (weightsFor_ascending env hooks m p).2 w (h.2 w hw)⟩⟩

/-- Hooks of equal weight are started together and never before their trigger point:
    one weight emits ONE start step holding exactly the call hooks whose trigger is this
    (moment, weight), then at most one await step, then ONE step holding exactly the task
    hooks of this (moment, weight). -/
theorem C08_started_together_at_trigger (env : Env) (hooks : List Hook) (m : Moment) (w : Int) :
    ∃ s1 s2 s3 : List Step,
      (handleWeight env hooks m w).2.1 = s1 ++ s2 ++ s3 ∧
      (s1 = [] ∨ ∃ is, s1 = [Step.start m w is] ∧
          is.map (·.hook) = ((hooks.filter (fun h => h.trig = m ∧ h.tw = w)).filter (fun h => !h.isTask)).map (·.id)) ∧
      (s2 = [] ∨ ∃ is, s2 = [Step.await m w is]) ∧
      (s3 = [] ∨ ∃ is, s3 = [Step.tasks m w is] ∧
          is.map (·.hook) = ((hooks.filter (fun h => h.trig = m ∧ h.tw = w)).filter (fun h => h.isTask)).map (·.id)) :=
  handleWeight_steps env hooks m w

/-- The await barrier: when a (moment, weight) point is handled, everything pending
    there is collected — nothing is left pending at that point afterwards. -/
theorem C08_await_barrier (env : Env) (hooks : List Hook) (m : Moment) (w : Int) :
    pendingAt (handleWeight env hooks m w).1 m w = [] :=
  handleWeight_barrier env hooks m w

/-- A call whose await point is its own trigger point (the default when `await` is
    omitted) is collected in the very step that started it. -/
theorem C08_own_point_awaited (env : Env) (hooks : List Hook) (m : Moment) (w : Int) (h : Hook)
    (hmem : h ∈ hooks) (hcall : h.isTask = false) (htrig : h.trig = m ∧ h.tw = w) (hawait : h.await = m ∧ h.aw = w) :
    ∃ is, Step.await m w is ∈ (handleWeight env hooks m w).2.1 ∧ ∃ i ∈ is, i.hook = h.id := by
  -- h's own instance is registered at (m, w) by phase 1
  have hreg : ∃ i, i.hook = h.id ∧ i ∈ pendingAt (phase1 env hooks m w).1 m w := by
    unfold phase1
    simp only
    have hin : h ∈ (hooks.filter (fun h => h.trig = m ∧ h.tw = w)).filter (fun h => !h.isTask) := by
      simp [List.mem_filter, hmem, htrig, hcall]
    generalize (hooks.filter (fun h => h.trig = m ∧ h.tw = w)).filter (fun h => !h.isTask) = calls at hin
    have hlen : (instantiate env calls).2.length = calls.length := by
      have := congrArg List.length (instantiate_insts env calls).1; simpa using this
    obtain ⟨n, hn, hget⟩ := List.getElem_of_mem hin
    have hn' : n < (instantiate env calls).2.length := by rw [hlen]; exact hn
    refine ⟨(instantiate env calls).2[n], ?_, ?_⟩
    · have := (instantiate_insts env calls).1
      have h2 := congrArg (fun l => l[n]?) this
      simp only [List.getElem?_map] at h2
      rw [List.getElem?_eq_getElem hn', List.getElem?_eq_getElem hn] at h2
      simp only [Option.map_some, Option.some.injEq] at h2
      rw [← hget]; exact h2
    · have hzip : (h, (instantiate env calls).2[n]) ∈ calls.zip (instantiate env calls).2 := by
        have hb : n < (calls.zip (instantiate env calls).2).length := by
          rw [List.length_zip]; exact Nat.lt_min.mpr ⟨hn, hn'⟩
        have : (calls.zip (instantiate env calls).2)[n] = (calls[n], (instantiate env calls).2[n]) := by simp
        rw [← hget, ← this]; exact List.getElem_mem hb
      have := getAt_registerAwaits (instantiate env calls).1.pending _ h _ hzip
      rw [hawait.1, hawait.2] at this
      exact this
  obtain ⟨i, hid, hi⟩ := hreg
  unfold handleWeight
  simp only
  have hp2 : (phase2 (phase1 env hooks m w).1 m w).2 = pendingAt (phase1 env hooks m w).1 m w := rfl
  refine ⟨pendingAt (phase1 env hooks m w).1 m w, ?_, i, hi, hid⟩
  rw [hp2]
  have hne : (pendingAt (phase1 env hooks m w).1 m w).isEmpty = false := by
    cases hg : pendingAt (phase1 env hooks m w).1 m w with
    | nil => rw [hg] at hi; cases hi
    | cons _ _ => rfl
  simp [hne]

/-- Moments come in the documented order: the step markers of one transition are a
    prefix of before_<event>, leave_<state>, the task transition, enter_<state>,
    after_<event> (each started, then finished). -/
theorem C08_moment_order (env : Env) (hooks : List Hook) (e : Ev) (b r : Bool) (d : St) (hd : dst? e env.st = some d) :
    marksOf (fsmEvent env hooks e b r).2.1 <+: markPattern e env.st d :=
  fsmEvent_marks env hooks e b r d hd

/-- FULL-STRENGTH await statement (kept visible; FALSE of the code, see the finding):
    a call started in a pass and awaiting a LATER weight of the same moment and pass is
    collected before that pass of the moment is over, unless a critical failure stopped it. -/
def C08_await_same_moment_full : Prop :=
  ∀ (env : Env) (hooks : List Hook) (m : Moment) (p : Int → Bool) (h : Hook),
    h ∈ hooks → h.isTask = false → h.trig = m → h.await = m → h.tw < h.aw → p h.tw = true → p h.aw = true →
    (handleHooks env hooks m p).2.2 = 0 →
    (pendingAt (handleHooks env hooks m p).1 m h.aw).isEmpty = true

/-- The known finding `await_weight_not_visited`, machine-checked on the model: the weights
    of a pass are fixed BEFORE anything is started (`weightsFor`), so a call triggered at
    before_CONFIGURE+0 that awaits before_CONFIGURE+10 is not collected there when no other
    hook lives at +10 — the state machine moves past its await point. -/
theorem C08_finding_await_weight_not_visited : ¬ C08_await_same_moment_full := by
  intro h
  have := h {} [{ id := 0, isTask := false, critical := true, trig := .before .CONFIGURE, tw := 0,
                  await := .before .CONFIGURE, aw := 10, outcomes := [] }]
            (.before .CONFIGURE) posW _ (List.mem_singleton.mpr rfl) rfl rfl rfl (by decide) (by decide) (by decide) (by decide)
  revert this; decide

/-- "…or cancelled at teardown if its await point is never reached": a teardown that goes through
    (result ok, or only the leftover error of its leave hooks) leaves NO result waiting to be collected —
    every call still registered under an await expression has been cancelled. The model's prediction for
    the harness's end-of-case record `Q` after a teardown is therefore 0, for all hooks and histories. -/
theorem C08_teardown_cancels_pending (env : Env) (hooks : List Hook) (f r1 r2 : Bool) (n : Nat)
    (h : (teardown env hooks f r1 r2 n).2.2.moved = true) : uncollected (teardown env hooks f r1 r2 n).1 = [] :=
  teardown_uncollected env hooks f r1 r2 n h

/-- "…each started call is collected exactly once": a result that is waiting to be collected is always
    one the environment still lists under its await expression (so the harness's `Q` never exceeds what
    the request records list as pending), and once its await point has been handled it is listed there no
    more (`C08_await_barrier`), so it cannot be collected a second time. -/
theorem C08_uncollected_are_pending (env : Env) : ∀ i ∈ uncollected env, i ∈ allPending env := by
  intro i hi; exact (List.mem_filter.mp hi).1

/-- All calls pending at one await point are collected TOGETHER, whatever their results: one await step
    holds every one of them — the failing critical one, the ones registered after it, the ones that take
    longer — and the count reported for the weight is taken over all of them. -/
theorem C08_await_collects_all (env : Env) (hooks : List Hook) (m : Moment) (w : Int) (i : Inst)
    (hi : i ∈ pendingAt env m w) :
    ∃ is, Step.await m w is ∈ (handleWeight env hooks m w).2.1 ∧ i ∈ is ∧ pendingAt (handleWeight env hooks m w).1 m w = [] := by
  have h1 : i ∈ pendingAt (phase1 env hooks m w).1 m w := by
    rw [pendingAt_eq_getAt]
    unfold phase1; simp only
    apply getAt_registerAwaits_mono
    rw [instantiate_pending]; exact hi
  refine ⟨pendingAt (phase1 env hooks m w).1 m w, ?_, h1, handleWeight_barrier env hooks m w⟩
  unfold handleWeight
  simp only
  have hp2 : (phase2 (phase1 env hooks m w).1 m w).2 = pendingAt (phase1 env hooks m w).1 m w := rfl
  rw [hp2]
  have hne : (pendingAt (phase1 env hooks m w).1 m w).isEmpty = false := by
    cases hg : pendingAt (phase1 env hooks m w).1 m w with
    | nil => rw [hg] at h1; cases h1
    | cons _ _ => rfl
  simp [hne]

/-- Non-vacuity: a critical call that fails and a second call registered after it at the same await
    point are collected in one step; a call that awaits a moment which never comes is cancelled by the
    teardown (nothing is left over). -/
example :
    let hooks : List Hook := [
      { id := 0, isTask := false, critical := true, trig := .enter .DEPLOYED, tw := 0, await := .enter .DEPLOYED, aw := 0, outcomes := [true] },
      { id := 1, isTask := false, critical := false, trig := .enter .DEPLOYED, tw := 0, await := .enter .DEPLOYED, aw := 0, outcomes := [] },
      { id := 2, isTask := false, critical := false, trig := .before .DEPLOY, tw := 0, await := .never 0, aw := 0, outcomes := [] }]
    let rs := runSeq hooks 0 {} [.try_ .DEPLOY true false, .teardown true true true]
    (rs.map fun r => (uncollected r.2.2).length) = [1, 0] ∧
    (rs.map fun r => r.1.filterMap fun | .await _ _ is => some (is.map (·.hook)) | _ => none) = [[[0, 1]], []] := by decide

/-- Non-vacuity of the ordering theorems: a pass over three weights with a tie. -/
example :
    let hooks : List Hook := [
      { id := 0, isTask := false, critical := true, trig := .before .CONFIGURE, tw := 5, await := .before .CONFIGURE, aw := 5, outcomes := [] },
      { id := 1, isTask := true, critical := false, trig := .before .CONFIGURE, tw := 0, await := .before .CONFIGURE, aw := 0, outcomes := [] },
      { id := 2, isTask := false, critical := true, trig := .before .CONFIGURE, tw := 5, await := .after .CONFIGURE, aw := 0, outcomes := [] }]
    stepWeights (handleHooks {} hooks (.before .CONFIGURE) posW).2.1 = [0, 5, 5] := by decide
