/-
  Props/C08 — "Hooks run at their declared moment, in weight order, awaited where declared".

  Theorems about the model of handleHooks / Sm.Event in Model/Env.lean, for ALL hook
  sets (any triggers, awaits, weights, criticality, outcomes) and ALL environments
  (hence all histories that produced them). Tie to /repo: correspondence run through
  harness/envh with the trace monitor; the two pass predicates (`w < 0`, `w ≥ 0`) are
  exercised by negative, zero and positive weights in every run; the sources of a pass's weights and the three
  entries to handleHooks are read off the source (go/ast, Gen/C08Facts.lean: `C08_pass_weights_are_code`).

  `Model/Env.lean` is the code as it is — since "fix: handleHooks visits the await weight of a call it starts at
  the same trigger" a pass knows, before it starts anything, at which weights the calls it is about to start
  declare their await (`C08_await_same_moment_code`). The code as it was is `handleHooksOf legacyAwaitCfg` /
  `stepOf legacyAwaitCfg` (Model/EnvLegacy.lean): the former refutation is a statement about that machine.
-/
import ControlModel.Proofs.EnvHooks
import ControlModel.Proofs.EnvRunOnce
import ControlModel.Proofs.EnvOnce
import ControlModel.Proofs.TrigExpr
import ControlModel.Gen.C08Facts
import ControlModel.Gen.C08Weights

open EnvM

/-- The weights a pass visits are strictly ascending and all belong to the pass
    (negative pass: w < 0; the other pass: w ≥ 0; teardown: all). -/
theorem C08_weights_ascending (env : Env) (hooks : List Hook) (m : Moment) (p : Int → Bool) :
    Ascending (weightsFor env hooks m p) ∧ ∀ w ∈ weightsFor env hooks m p, p w = true :=
  weightsFor_ascending env hooks m p

/-- Within a moment hooks fire strictly by ascending weight: the weights carried by
    the start / await / task-hook steps of one pass never decrease along the pass,
    and every one of them is a weight of the pass. -/
theorem C08_weight_order (env : Env) (hooks : List Hook) (m : Moment) (p : Int → Bool) :
    Weakly (stepWeights (handleHooks env hooks m p).2.1) ∧
    ∀ w ∈ stepWeights (handleHooks env hooks m p).2.1, w ∈ weightsFor env hooks m p ∧ p w = true := by
  have h := handleWeights_stepWeights env hooks m _ (weightsFor_ascending env hooks m p).1
  exact ⟨h.1, fun w hw => ⟨h.2 w hw, (weightsFor_ascending env hooks m p).2 w (h.2 w hw)⟩⟩

/-- Hooks of equal weight are started together and never before their trigger point:
    one weight emits ONE start step holding exactly the call hooks whose trigger is this
    (moment, weight), then at most one await step, then ONE step holding exactly the task
    hooks of this (moment, weight). -/
theorem C08_started_together_at_trigger (env : Env) (hooks : List Hook) (m : Moment) (w : Int) :
    ∃ s1 s2 s3 : List Step,
      (handleWeight env hooks m w).2.1 = s1 ++ s2 ++ s3 ∧
      (s1 = [] ∨ ∃ is, s1 = [Step.start m w is] ∧
          is.map (·.hook) = ((hooks.filter (fun h => h.trig = m ∧ h.tw = w)).filter (fun h => !h.isTask)).map (·.id)) ∧
      (s2 = [] ∨ ∃ is, s2 = [Step.await m w is]) ∧
      (s3 = [] ∨ ∃ is, s3 = [Step.tasks m w is] ∧
          is.map (·.hook) = ((hooks.filter (fun h => h.trig = m ∧ h.tw = w)).filter (fun h => h.isTask)).map (·.id)) :=
  handleWeight_steps env hooks m w

/-- The await barrier: when a (moment, weight) point is handled, everything pending
    there is collected — nothing is left pending at that point afterwards. -/
theorem C08_await_barrier (env : Env) (hooks : List Hook) (m : Moment) (w : Int) :
    pendingAt (handleWeight env hooks m w).1 m w = [] :=
  handleWeight_barrier env hooks m w

/-- A call whose await point is its own trigger point (the default when `await` is
    omitted) is collected in the very step that started it. -/
theorem C08_own_point_awaited (env : Env) (hooks : List Hook) (m : Moment) (w : Int) (h : Hook)
    (hmem : h ∈ hooks) (hcall : h.isTask = false) (htrig : h.trig = m ∧ h.tw = w) (hawait : h.await = m ∧ h.aw = w) :
    ∃ is, Step.await m w is ∈ (handleWeight env hooks m w).2.1 ∧ ∃ i ∈ is, i.hook = h.id := by
  -- h's own instance is registered at (m, w) by phase 1
  have hreg : ∃ i, i.hook = h.id ∧ i ∈ pendingAt (phase1 env hooks m w).1 m w := by
    unfold phase1
    simp only
    have hin : h ∈ (hooks.filter (fun h => h.trig = m ∧ h.tw = w)).filter (fun h => !h.isTask) := by
      simp [List.mem_filter, hmem, htrig, hcall]
    generalize (hooks.filter (fun h => h.trig = m ∧ h.tw = w)).filter (fun h => !h.isTask) = calls at hin
    have hlen : (instantiate env calls).2.length = calls.length := by
      have := congrArg List.length (instantiate_insts env calls).1; simpa using this
    obtain ⟨n, hn, hget⟩ := List.getElem_of_mem hin
    have hn' : n < (instantiate env calls).2.length := by rw [hlen]; exact hn
    refine ⟨(instantiate env calls).2[n], ?_, ?_⟩
    · have := (instantiate_insts env calls).1
      have h2 := congrArg (fun l => l[n]?) this
      simp only [List.getElem?_map] at h2
      rw [List.getElem?_eq_getElem hn', List.getElem?_eq_getElem hn] at h2
      simp only [Option.map_some, Option.some.injEq] at h2
      rw [← hget]; exact h2
    · have hzip : (h, (instantiate env calls).2[n]) ∈ calls.zip (instantiate env calls).2 := by
        have hb : n < (calls.zip (instantiate env calls).2).length := by
          rw [List.length_zip]; exact Nat.lt_min.mpr ⟨hn, hn'⟩
        have : (calls.zip (instantiate env calls).2)[n] = (calls[n], (instantiate env calls).2[n]) := by simp
        rw [← hget, ← this]; exact List.getElem_mem hb
      have := getAt_registerAwaits (instantiate env calls).1.pending _ h _ hzip
      rw [hawait.1, hawait.2] at this
      exact this
  obtain ⟨i, hid, hi⟩ := hreg
  unfold handleWeight
  simp only
  have hp2 : (phase2 (phase1 env hooks m w).1 m w).2 = pendingAt (phase1 env hooks m w).1 m w := rfl
  refine ⟨pendingAt (phase1 env hooks m w).1 m w, ?_, i, hi, hid⟩
  rw [hp2]
  have hne : (pendingAt (phase1 env hooks m w).1 m w).isEmpty = false := by
    cases hg : pendingAt (phase1 env hooks m w).1 m w with
    | nil => rw [hg] at hi; cases hi
    | cons _ _ => rfl
  simp [hne]

/-- Moments come in the documented order: the step markers of one transition are a
    prefix of before_<event>, leave_<state>, the task transition, enter_<state>,
    after_<event> (each started, then finished). -/
theorem C08_moment_order (env : Env) (hooks : List Hook) (e : Ev) (b r : Bool) (d : St) (hd : dst? e env.st = some d) :
    marksOf (fsmEvent env hooks e b r).2.1 <+: markPattern e env.st d :=
  fsmEvent_marks env hooks e b r d hd

/-- FULL-STRENGTH await statement, over a pass `pass` (what one handleHooks call does): a call started in a pass
    and awaiting a LATER weight of the same moment and pass is collected before that pass of the moment is over,
    unless a critical failure stopped it — whatever is still pending at its await point afterwards was started
    ABOVE that point (`StartedAfter`: a call of this moment that declares its await below its own trigger weight;
    such a call is registered when the point has been handled already, in every implementation that visits
    weights in ascending order, so "nothing at all is pending there" would be false of any of them). -/
def C08_await_same_moment_full_of (pass : Env → List Hook → Moment → (Int → Bool) → Env × List Step × Nat) : Prop :=
  ∀ (env : Env) (hooks : List Hook) (m : Moment) (p : Int → Bool) (h : Hook),
    h ∈ hooks → h.isTask = false → h.trig = m → h.await = m → h.tw < h.aw → p h.tw = true → p h.aw = true →
    (pass env hooks m p).2.2 = 0 →
    ∀ i ∈ pendingAt (pass env hooks m p).1 m h.aw, StartedAfter hooks m h.aw i

/-- …for the code as it is (`handleHooks`, Model/Env.lean). It was FALSE of the code before the repair
    (`C08_finding_await_weight_not_visited`) and is TRUE of the code now (`C08_await_same_moment_code`). -/
def C08_await_same_moment_full : Prop := C08_await_same_moment_full_of handleHooks

/-- **Awaited where declared, for the code as it is** — the former full-strength statement, now a theorem: for
    ALL environments, hook sets, moments and passes, a call hook triggered at the moment whose await names the
    same moment with a weight of the same pass has its await point VISITED by the pass that starts it (the await
    weights are among the weights of the pass before anything is started: `mem_weightsFor_of_await`), so when
    the pass ends without a critical failure no instance of it — this execution or an older one — is left
    pending there. (Needs neither `h.tw < h.aw` nor `p h.tw`: the point is visited whenever it lies in the pass.) -/
theorem C08_await_same_moment_code : C08_await_same_moment_full := by
  intro env hooks m p h hmem hcall htrig hawait _ _ hpa h0
  exact handleHooks_await_same_moment env hooks m p h hmem hcall htrig hawait hpa h0

/-- The literal former conclusion — NOTHING is pending at the await point when the pass is over — for every hook
    set in which no call of the moment awaits at that weight from above. -/
theorem C08_await_same_moment_nothing_left (env : Env) (hooks : List Hook) (m : Moment) (p : Int → Bool) (h : Hook)
    (hmem : h ∈ hooks) (hcall : h.isTask = false) (htrig : h.trig = m) (hawait : h.await = m) (hpa : p h.aw = true)
    (hback : ∀ g ∈ hooks, g.isTask = false → g.trig = m → g.await = m → g.aw = h.aw → g.tw ≤ g.aw)
    (h0 : (handleHooks env hooks m p).2.2 = 0) :
    pendingAt (handleHooks env hooks m p).1 m h.aw = [] := by
  have hall := handleHooks_await_same_moment env hooks m p h hmem hcall htrig hawait hpa h0
  cases hpend : pendingAt (handleHooks env hooks m p).1 m h.aw with
  | nil => rfl
  | cons i rest =>
    obtain ⟨g, hg, _, hgc, hgt, hga, hgw, hlt⟩ := hall i (by rw [hpend]; exact List.mem_cons_self)
    have := hback g hg hgc hgt hga hgw
    omega

/-- The finding `await_weight_not_visited` (repaired by "fix: handleHooks visits the await weight of a call it
    starts at the same trigger"), machine-checked on the model of the code AS IT WAS (`handleHooksOf
    legacyAwaitCfg`, Model/EnvLegacy.lean): the weights of a pass were the trigger weights and the weights of calls
    ALREADY pending, fixed before anything was started, so a call triggered at before_CONFIGURE+0 that awaits
    before_CONFIGURE+10 was not collected there when no other hook lived at +10 — the state machine moved past
    its await point. -/
theorem C08_finding_await_weight_not_visited : ¬ C08_await_same_moment_full_of (handleHooksOf legacyAwaitCfg) := by
  intro h
  have := h {} [{ id := 0, isTask := false, critical := true, trig := .before .CONFIGURE, tw := 0,
                  await := .before .CONFIGURE, aw := 10, outcomes := [] }]
            (.before .CONFIGURE) posW _ (List.mem_singleton.mpr rfl) rfl rfl rfl (by decide) (by decide) (by decide) (by decide)
  revert this; decide

/-- The machine the refutation is about IS the model of the code, but for the weights of a pass: with the switch
    on, `stepOf` is `step` and `handleHooksOf` is `handleHooks`; and the weights of a pass as it is are those of
    the pass as it was PLUS the await weights (within the pass) of the call hooks triggered at this moment whose
    await names this moment — nothing else. -/
theorem C08_legacy_differs_only_in_pass_weights :
    stepOf codeRunCfg = step ∧ handleHooksOf codeRunCfg = handleHooks ∧
    ∀ (env : Env) (hooks : List Hook) (m : Moment) (p : Int → Bool) (w : Int),
      w ∈ weightsFor env hooks m p ↔
        (w ∈ weightsForOf legacyAwaitCfg env hooks m p ∨
          (p w = true ∧ ∃ h ∈ hooks, h.isTask = false ∧ h.trig = m ∧ h.await = m ∧ h.aw = w)) := by
  refine ⟨stepOf_code, handleHooksOf_code, ?_⟩
  intro env hooks m p w
  simp only [weightsForOf, legacyAwaitCfg, weightsFor, weightsForLegacy, List.mem_filter, mem_sortDedup, List.mem_append,
    List.mem_map, Bool.false_eq_true, if_false]
  constructor
  · rintro ⟨(⟨h1 | ⟨g, hg, hgw⟩⟩ | h3), hp⟩
    · exact Or.inl ⟨Or.inl h1, hp⟩
    · have hg' := hg.2
      simp only [decide_eq_true_eq, Bool.decide_and, Bool.and_eq_true, Bool.not_eq_eq_eq_not, Bool.not_true] at hg'
      exact Or.inr ⟨hp, g, hg.1, hg'.2.1, hg'.1, hg'.2.2, hgw⟩
    · exact Or.inl ⟨Or.inr h3, hp⟩
  · rintro (⟨h1 | h3, hp⟩ | ⟨hp, g, hg, hc, ht, ha, hw⟩)
    · exact ⟨Or.inl (Or.inl h1), hp⟩
    · exact ⟨Or.inr h3, hp⟩
    · exact ⟨Or.inl (Or.inr ⟨g, ⟨hg, by simp [hc, ht, ha]⟩, hw⟩), hp⟩

/-- The weights of a pass in the model are filled from the sources the code fills them from (go/ast over
    core/environment/environment.go, re-read on every run, Gen/C08Facts.lean): before `allWeights :=
    allWeightsSet.GetWeights()` handleHooks writes the set from (1) the weights of the hooks triggered now
    (`hw` of `weightsFor`), (2) for each CALL among them (`FilterCalls()` = `!h.isTask`) whose parsed await
    expression names this trigger (`awaitName == trigger` = `h.await = m`) its await weight (`aw`), and (3) the
    weights of the calls already pending an await here (`pw`) — with the repair reverted row (2) is gone and the
    table is `weightSources legacyAwaitCfg`; the visited weights are that set, sorted, restricted by the pass
    predicate, and the four-phase loop ranges over exactly those (`handleHooks` = `handleWeights … (weightsFor …)`);
    and the three entries to handleHooks do nothing but log, time and call it, with the predicates `true`
    (`allW`), `w < 0` (`negW`), `w >= 0` (`posW`) — none of them can skip a pass. -/
theorem C08_pass_weights_are_code :
    Gen.C08Facts.weightSources = weightSources codeRunCfg ∧
    weightSources legacyAwaitCfg ≠ weightSources codeRunCfg ∧
    Gen.C08Facts.weightsFromSet = true ∧ Gen.C08Facts.loopOverFiltered = true ∧
    Gen.C08Facts.wrappers =
      [("handleAllHooks", "true", ["log", "defer timetrack", "return handleHooks"]),
       ("handleHooksWithNegativeWeights", "w < 0", ["log", "defer timetrack", "return handleHooks"]),
       ("handleHooksWithPositiveWeights", "w >= 0", ["log", "defer timetrack", "return handleHooks"])] ∧
    (∀ w : Int, allW w = true ∧ (negW w = true ↔ w < 0) ∧ (posW w = true ↔ w ≥ 0)) :=
  ⟨by rfl, by decide, by rfl, by rfl, by rfl, fun w => ⟨rfl, by simp [negW], by simp [posW]⟩⟩

/-- "…or cancelled at teardown if its await point is never reached": a teardown that goes through
    (result ok, or only the leftover error of its leave hooks) leaves NO result waiting to be collected —
    every call still registered under an await expression has been cancelled. The model's prediction for
    the harness's end-of-case record `Q` after a teardown is therefore 0, for all hooks and histories. -/
theorem C08_teardown_cancels_pending (env : Env) (hooks : List Hook) (f r1 r2 : Bool) (n : Nat)
    (h : (teardown env hooks f r1 r2 n).2.2.moved = true) : uncollected (teardown env hooks f r1 r2 n).1 = [] :=
  teardown_uncollected env hooks f r1 r2 n h

/-- "…each started call is collected exactly once": a result that is waiting to be collected is always
    one the environment still lists under its await expression (so the harness's `Q` never exceeds what
    the request records list as pending), and once its await point has been handled it is listed there no
    more (`C08_await_barrier`), so it cannot be collected a second time. -/
theorem C08_uncollected_are_pending (env : Env) : ∀ i ∈ uncollected env, i ∈ allPending env := by
  intro i hi; exact (List.mem_filter.mp hi).1

/-- All calls pending at one await point are collected TOGETHER, whatever their results: one await step
    holds every one of them — the failing critical one, the ones registered after it, the ones that take
    longer — and the count reported for the weight is taken over all of them. -/
theorem C08_await_collects_all (env : Env) (hooks : List Hook) (m : Moment) (w : Int) (i : Inst)
    (hi : i ∈ pendingAt env m w) :
    ∃ is, Step.await m w is ∈ (handleWeight env hooks m w).2.1 ∧ i ∈ is ∧ pendingAt (handleWeight env hooks m w).1 m w = [] := by
  have h1 : i ∈ pendingAt (phase1 env hooks m w).1 m w := by
    rw [pendingAt_eq_getAt]
    unfold phase1; simp only
    apply getAt_registerAwaits_mono
    rw [instantiate_pending]; exact hi
  refine ⟨pendingAt (phase1 env hooks m w).1 m w, ?_, h1, handleWeight_barrier env hooks m w⟩
  unfold handleWeight
  simp only
  have hp2 : (phase2 (phase1 env hooks m w).1 m w).2 = pendingAt (phase1 env hooks m w).1 m w := rfl
  rw [hp2]
  have hne : (pendingAt (phase1 env hooks m w).1 m w).isEmpty = false := by
    cases hg : pendingAt (phase1 env hooks m w).1 m w with
    | nil => rw [hg] at h1; cases h1
    | cons _ _ => rfl
  simp [hne]

/-- Non-vacuity: a critical call that fails and a second call registered after it at the same await
    point are collected in one step; a call that awaits a moment which never comes is cancelled by the
    teardown (nothing is left over). -/
example :
    let hooks : List Hook := [
      { id := 0, isTask := false, critical := true, trig := .enter .DEPLOYED, tw := 0, await := .enter .DEPLOYED, aw := 0, outcomes := [true] },
      { id := 1, isTask := false, critical := false, trig := .enter .DEPLOYED, tw := 0, await := .enter .DEPLOYED, aw := 0, outcomes := [] },
      { id := 2, isTask := false, critical := false, trig := .before .DEPLOY, tw := 0, await := .never 0, aw := 0, outcomes := [] }]
    let rs := runSeq hooks 0 {} [.try_ .DEPLOY true false, .teardown true true true]
    (rs.map fun r => (uncollected r.2.2).length) = [1, 0] ∧
    (rs.map fun r => r.1.filterMap fun | .await _ _ is => some (is.map (·.hook)) | _ => none) = [[[0, 1]], []] := by decide

/-- Non-vacuity of the ordering theorems: a pass over three weights with a tie. -/
example :
    let hooks : List Hook := [
      { id := 0, isTask := false, critical := true, trig := .before .CONFIGURE, tw := 5, await := .before .CONFIGURE, aw := 5, outcomes := [] },
      { id := 1, isTask := true, critical := false, trig := .before .CONFIGURE, tw := 0, await := .before .CONFIGURE, aw := 0, outcomes := [] },
      { id := 2, isTask := false, critical := true, trig := .before .CONFIGURE, tw := 5, await := .after .CONFIGURE, aw := 0, outcomes := [] }]
    stepWeights (handleHooks {} hooks (.before .CONFIGURE) posW).2.1 = [0, 5, 5] := by decide

/-- The witness of the repaired finding, end to end on a fresh environment: a call triggered at after_DEPLOY+0
    that awaits after_DEPLOY+100, nothing else at +100; DEPLOY, then CONFIGURE. The code as it is collects the
    call inside DEPLOY (one await step at weight 100, nothing pending after either request); the code as it was
    finished DEPLOY — and CONFIGURE — with the call still registered under after_DEPLOY+100. -/
example :
    let hooks : List Hook := [
      { id := 0, isTask := false, critical := true, trig := .after .DEPLOY, tw := 0, await := .after .DEPLOY, aw := 100, outcomes := [] }]
    let reqs : List Req := [.try_ .DEPLOY true false, .try_ .CONFIGURE true false]
    ((runSeq hooks 0 {} reqs).map fun r => (uncollected r.2.2).length) = [0, 0] ∧
    ((runSeq hooks 0 {} reqs).map fun r => r.1.filterMap fun | .await _ w is => some (w, is.map (·.hook)) | _ => none) = [[(100, [0])], []] ∧
    (uncollected (stepOf legacyAwaitCfg hooks 0 {} (.try_ .DEPLOY true false)).1).length = 1 ∧
    (uncollected (finalEnvOf legacyAwaitCfg hooks 0 {} reqs)).length = 1 := by decide

/-- Non-vacuity of `StartedAfter`: with a second call of the moment that awaits at +10 from +20, the pass visits
    +10 (collecting the first call there), starts the second at +20 and ends with exactly that one registered at
    +10 — where it is collected at the next occurrence of the moment, as before the repair. -/
example :
    let hooks : List Hook := [
      { id := 0, isTask := false, critical := true, trig := .before .CONFIGURE, tw := 0, await := .before .CONFIGURE, aw := 10, outcomes := [] },
      { id := 1, isTask := false, critical := true, trig := .before .CONFIGURE, tw := 20, await := .before .CONFIGURE, aw := 10, outcomes := [] }]
    (pendingAt (handleHooks {} hooks (.before .CONFIGURE) posW).1 (.before .CONFIGURE) 10).map (·.hook) = [1] ∧
    (pendingAt (handleHooksOf legacyAwaitCfg {} hooks (.before .CONFIGURE) posW).1 (.before .CONFIGURE) 10).map (·.hook) = [0, 1] := by decide

/-! ### the weight as WRITTEN in the template (since seed C08-6)

  Every weight the theorems above speak about is an integer that some `trigger:` / `await:` string of a workflow
  template DECLARES. `Model/TrigExpr.lean` is the documented reading of such a string (cut at the last sign,
  decimal integer, 0 when what follows is not a number); the harness hands hooks to the real core with their
  weights written as texts, and the driver gives the model the integer this reading returns. -/

set_option maxRecDepth 100000 in
/-- The reader of the code IS the documented reading, on the whole grid: `callable.ParseTriggerExpression` of the
    linked core, evaluated by `vh gen` on every expression of Gen/C08Weights.lean (trigger names × every sign ×
    zero padding × numbers with the digits 8 and 9 and several digits; base prefixes, digit separators, blanks,
    exponents, a lone sign, two signs, no weight, the int32 and int64 borders), returns the name and the weight
    the model returns. The grid holds the rows that tell a decimal reader from any other (`+010` is ten,
    `-010` minus ten, `+08` eight, `+0x10` not a number, a weight beyond int32 itself). -/
theorem C08_trigger_text_is_code :
    tableAgrees Gen.C08Weights.table = true ∧
    (["b_X+010", "b_X-010", "b_X+08", "b_X-0009", "b_X+0x10", "b_X+2147483648", "b_X", "before_CONFIGURE+00010"].all fun e =>
      Gen.C08Weights.table.any fun r => r.1 == e.toList) = true := by
  decide

/-- The weight of a well-formed expression is the integer it declares: whatever the trigger name (signs inside it
    included — the cut is at the LAST sign), a sign followed by decimal digits reads as that decimal integer. -/
theorem C08_weight_text_decimal (name t : List Char) (hw : wellFormedWeight t = true) (hr : weightInRange t = true) :
    parseTriggerExpr (name ++ t) = (name, declaredWeight t) :=
  parseTriggerExpr_wellFormed name t hw hr

/-- Padding is irrelevant: any number of leading zeros between the sign and the digits leaves name and weight as
    they are (`before_CONFIGURE+010` = `before_CONFIGURE+10`, `after_RESET-007` = `after_RESET-7`), for every name
    and every non-empty digit string. -/
theorem C08_weight_padding_irrelevant (name : List Char) (s : Char) (k : Nat) (ds : List Char)
    (hs : isSign s = true) (hne : ds ≠ []) (hd : ∀ c ∈ ds, isDigit c = true) :
    parseTriggerExpr (name ++ s :: (List.replicate k '0' ++ ds)) = parseTriggerExpr (name ++ s :: ds) := by
  have hns : ∀ c ∈ ds, isSign c = false := fun c hc => isDigit_not_sign c (hd c hc)
  have hns' : ∀ c ∈ List.replicate k '0' ++ ds, isSign c = false := by
    intro c hc
    rcases List.mem_append.mp hc with hc | hc
    · rw [(List.mem_replicate.mp hc).2]; decide
    · exact hns c hc
  simp only [parseTriggerExpr, splitLastSign_append name s _ hs hns', splitLastSign_append name s ds hs hns,
    weightOfText_zeros s hs k ds hne]

/-- Hooks of one moment run in ascending order of their DECLARED integer, however it is written: two hooks
    triggered at `m` whose weights are what well-formed texts `th`, `tg` declare (after any names), the first
    declaring the smaller integer, both weights of the pass — the pass visits the first one's weight strictly
    before the second one's (and visits each exactly once: `C08_weights_ascending`). Equal declared integers are
    one weight: such hooks are started together (`C08_started_together_at_trigger`). -/
theorem C08_order_by_declared_integer (env : Env) (hooks : List Hook) (m : Moment) (p : Int → Bool) (h g : Hook)
    (nh ng th tg : List Char) (hh : h ∈ hooks) (hg : g ∈ hooks) (hht : h.trig = m) (hgt : g.trig = m)
    (hwh : wellFormedWeight th = true) (hwg : wellFormedWeight tg = true)
    (hrh : weightInRange th = true) (hrg : weightInRange tg = true)
    (hhw : h.tw = (parseTriggerExpr (nh ++ th)).2) (hgw : g.tw = (parseTriggerExpr (ng ++ tg)).2)
    (hph : p h.tw = true) (hpg : p g.tw = true) (hlt : declaredWeight th < declaredWeight tg) :
    ∃ l1 l2 l3, weightsFor env hooks m p = l1 ++ declaredWeight th :: (l2 ++ declaredWeight tg :: l3) := by
  rw [parseTriggerExpr_wellFormed nh th hwh hrh] at hhw
  rw [parseTriggerExpr_wellFormed ng tg hwg hrg] at hgw
  simp only at hhw hgw
  rw [← hhw, ← hgw]
  exact ascending_split _ (weightsFor_ascending env hooks m p).1 _ _
    (mem_weightsFor_of_trig env hooks m p h hh hht hph) (mem_weightsFor_of_trig env hooks m p g hg hgt hpg) (by rw [hhw, hgw]; exact hlt)

/-- Non-vacuity: the writings of one integer; what is not a number; the cut at the last sign. -/
example :
    parseTriggerExpr "before_CONFIGURE+010".toList = ("before_CONFIGURE".toList, 10) ∧
    parseTriggerExpr "before_CONFIGURE+10".toList = ("before_CONFIGURE".toList, 10) ∧
    parseTriggerExpr "after_RESET-007".toList = ("after_RESET".toList, -7) ∧
    parseTriggerExpr "enter_RUNNING+08".toList = ("enter_RUNNING".toList, 8) ∧
    parseTriggerExpr "enter_RUNNING".toList = ("enter_RUNNING".toList, 0) ∧
    parseTriggerExpr "enter_RUNNING-0".toList = ("enter_RUNNING".toList, 0) ∧
    parseTriggerExpr "enter_RUNNING+0x10".toList = ("enter_RUNNING".toList, 0) ∧
    parseTriggerExpr "a-b+3".toList = ("a-b".toList, 3) ∧
    wellFormedWeight "+010".toList = true ∧ weightInRange "+010".toList = true ∧ declaredWeight "+010".toList = 10 ∧
    declaredWeight "-09".toList < declaredWeight "+008".toList := by decide

/-! ### how often a hook is begun (since seed C10-6) -/

/-- **Exactly once per pass.** With pairwise different hook ids, one pass of handleHooks begins a hook (starts the
    call, runs the task hook) at most once — not at all at another moment than its trigger moment or when its
    weight is not one of the pass, and EXACTLY once when the moment is its trigger moment, its weight is one of the
    pass, and no critical failure stopped the pass. For all environments, hook sets, moments and predicates. -/
theorem C08_started_once_per_pass (env : Env) (hooks : List Hook) (m : Moment) (p : Int → Bool) (h : Hook)
    (hmem : h ∈ hooks) (hU : (hooks.map (·.id)).Nodup) :
    begunCount h.id (handleHooks env hooks m p).2.1 ≤ (if h.trig = m ∧ p h.tw = true then 1 else 0) ∧
    ((handleHooks env hooks m p).2.2 = 0 →
      begunCount h.id (handleHooks env hooks m p).2.1 = if h.trig = m ∧ p h.tw = true then 1 else 0) :=
  handleHooks_begunCount env hooks m p h hmem hU

/-- **Exactly once per occurrence of its moment.** The negative and the non-negative pass of a moment — on
    whatever environments: the bookkeeping between them (run number, stamps) does not matter — together begin a
    hook at most once, and exactly once at its trigger moment when neither pass was stopped by a critical failure:
    no weight belongs to both passes, whatever the await expressions of the calls say. -/
theorem C08_started_once_per_moment (env1 env2 : Env) (hooks : List Hook) (m : Moment) (h : Hook)
    (hmem : h ∈ hooks) (hU : (hooks.map (·.id)).Nodup) :
    begunCount h.id (handleHooks env1 hooks m negW).2.1 + begunCount h.id (handleHooks env2 hooks m posW).2.1 ≤
      (if h.trig = m then 1 else 0) ∧
    ((handleHooks env1 hooks m negW).2.2 = 0 → (handleHooks env2 hooks m posW).2.2 = 0 →
      begunCount h.id (handleHooks env1 hooks m negW).2.1 + begunCount h.id (handleHooks env2 hooks m posW).2.1 =
        if h.trig = m then 1 else 0) :=
  twoPass_begunCount env1 env2 hooks m h hmem hU

/-- …and at most once per transition: before_<event>, leave_<state>, enter_<state>, after_<event> are four
    different moments, each handled by its two passes, so `Sm.Event` — cancelled anywhere or not, with any
    failures — begins no hook twice. -/
theorem C08_started_at_most_once_per_transition (env : Env) (hooks : List Hook) (e : Ev) (b r : Bool) (h : Hook)
    (hmem : h ∈ hooks) (hU : (hooks.map (·.id)).Nodup) :
    begunCount h.id (fsmEvent env hooks e b r).2.1 ≤ 1 :=
  fsmEvent_begunCount env hooks e b r h hmem hU

/-- Non-vacuity, and the class of seed C10-6: a call triggered at before_START_ACTIVITY-10 that awaits
    before_START_ACTIVITY+10, and a second hook triggered at +10. The negative pass begins the first only (its
    await weight +10 is not a weight of that pass), the other pass begins the second only and collects both. -/
example :
    let hooks : List Hook := [
      { id := 0, isTask := false, critical := false, trig := .before .START_ACTIVITY, tw := -10, await := .before .START_ACTIVITY, aw := 10, outcomes := [] },
      { id := 1, isTask := false, critical := false, trig := .before .START_ACTIVITY, tw := 10, await := .before .START_ACTIVITY, aw := 10, outcomes := [] }]
    let env : Env := { st := .CONFIGURED }
    weightsFor env hooks (.before .START_ACTIVITY) negW = [-10] ∧
    begunIds (handleHooks env hooks (.before .START_ACTIVITY) negW).2.1 = [0] ∧
    begunIds (beforeEvent env hooks .START_ACTIVITY false).2.1 = [0, 1] ∧
    ((beforeEvent env hooks .START_ACTIVITY false).2.1.filterMap fun | .await _ w is => some (w, is.map (·.hook)) | _ => none) = [(10, [0, 1])] := by
  decide
