/-
  Props/C09 — "Only critical hook failures affect a transition, exactly as documented".

  Theorems about Model/Env.lean for ALL hook sets, environments and oracles.
  Tie to /repo: correspondence run through harness/envh (30% of hook executions fail
  in the C09 generator profile) with the trace monitor.
-/
import ControlModel.Proofs.EnvHooks
import ControlModel.Proofs.CallWays
import ControlModel.Spec.EnvTrace
import ControlModel.Gen.C09CallFacts

open EnvM

/-- A critical failure at before_<event> or leave_<state> CANCELS the transition:
    the state is the source state, no task-level body ran (no task command) and no
    state was written. (`cancelledHooks` is exactly the result the model gives when
    a critical hook fails at one of those two moments.) -/
theorem C09_cancel_before_leave (env : Env) (hooks : List Hook) (e : Ev) (b r : Bool) (n : Nat) (m : Moment)
    (h : (fsmEvent env hooks e b r).2.2 = .cancelledHooks n m) :
    (fsmEvent env hooks e b r).1.st = env.st ∧ effectsOf (fsmEvent env hooks e b r).2.1 = [] :=
  ⟨(fsmEvent_cancelled_no_effects env hooks e b r n m h).2, (fsmEvent_cancelled_no_effects env hooks e b r n m h).1⟩

/-- A failure at enter_<state> or after_<event> is REPORTED but does not undo anything:
    the environment is in the destination state, the task-level body did run and
    succeeded, and every moment of the transition ran to its finish marker. -/
theorem C09_report_enter_after (env : Env) (hooks : List Hook) (e : Ev) (b r : Bool) (d : St) (errs : List (Nat × Moment))
    (hd : dst? e env.st = some d) (h : (fsmEvent env hooks e b r).2.2 = .reported errs) :
    (fsmEvent env hooks e b r).1.st = d ∧
    marksOf (fsmEvent env hooks e b r).2.1 = markPattern e env.st d ∧
    effectsOf (fsmEvent env hooks e b r).2.1 = [Step.body e true, Step.setState d] := by
  have hm : (fsmEvent env hooks e b r).2.2.moved = true := by rw [h]; rfl
  obtain ⟨h1, h2, h3⟩ := fsmEvent_moved_marks env hooks e b r d hd hm
  refine ⟨?_, h1, by rw [h2, h3]⟩
  obtain ⟨_, hk | ⟨d', hd', hst, _⟩⟩ := fsmEvent_st env hooks e b r
  · rw [h] at hk; cases hk.2
  · rw [hd] at hd'; cases hd'; exact hst

/-- Failures of non-critical hooks are never a transition error: with only non-critical
    hooks (and nothing critical pending from earlier) no request is cancelled or reported
    failed because of hooks, whatever those hooks do — for every event, body outcome and
    environment; and the "nothing critical pending" invariant is kept. -/
theorem C09_noncritical_silent (env : Env) (hooks : List Hook) (e : Ev) (b r : Bool)
    (hh : ∀ x ∈ hooks, x.critical = false) (hp : NoCritPending env.pending) :
    (fsmEvent env hooks e b r).2.2.noHookBlame = true ∧ NoCritPending (fsmEvent env hooks e b r).1.pending :=
  fsmEvent_noncrit env hooks e b r hh hp

/-- …hence along every sequence of transition requests from a fresh environment. -/
theorem C09_noncritical_silent_seq (hooks : List Hook) (hh : ∀ x ∈ hooks, x.critical = false)
    (qs : List (Ev × Bool × Bool)) (env : Env) (hp : NoCritPending env.pending) :
    ∀ res ∈ (qs.foldl (fun (acc : Env × List Result) q =>
        let r := fsmEvent acc.1 hooks q.1 q.2.1 q.2.2; (r.1, acc.2 ++ [r.2.2])) (env, [])).2,
      res.noHookBlame = true := by
  suffices ∀ (acc : Env × List Result), NoCritPending acc.1.pending → (∀ res ∈ acc.2, res.noHookBlame = true) →
      ∀ res ∈ (qs.foldl (fun (acc : Env × List Result) q =>
        let r := fsmEvent acc.1 hooks q.1 q.2.1 q.2.2; (r.1, acc.2 ++ [r.2.2])) acc).2, res.noHookBlame = true from
    this (env, []) hp (fun _ h => by cases h)
  induction qs with
  | nil => intro acc _ h; exact h
  | cons q qs ih =>
    intro acc hp hacc
    simp only [List.foldl_cons]
    have := C09_noncritical_silent acc.1 hooks q.1 q.2.1 q.2.2 hh hp
    apply ih _ this.2
    intro res hres
    rcases List.mem_append.mp hres with h | h
    · exact hacc res h
    · simp at h; rw [h]; exact this.1

/-- Several hooks failing at the same point are reported TOGETHER: the number a weight
    reports is exactly the number of critical failing executions among everything awaited
    (that a teardown has not cancelled: a cancelled call hands over no result) and every task
    hook run at that weight. -/
theorem C09_multi_reported_together (env : Env) (hooks : List Hook) (m : Moment) (w : Int) :
    (handleWeight env hooks m w).2.2 =
      ((((phase2 (phase1 env hooks m w).1 m w).2.filter (fun i => !isCancelled env i)) ++
        (instantiate (phase2 (phase1 env hooks m w).1 m w).1
          ((hooks.filter (fun h => h.trig = m ∧ h.tw = w)).filter (fun h => h.isTask))).2).filter
        (fun i => i.fails && i.critical)).length := rfl

/-- …and handling stops at the first weight with a critical failure: no later weight of
    that pass is handled at all. -/
theorem C09_stop_at_first_failing_weight (env : Env) (hooks : List Hook) (m : Moment) (w : Int) (ws : List Int)
    (h : (handleWeight env hooks m w).2.2 > 0) :
    handleWeights env hooks m (w :: ws) = handleWeight env hooks m w := by
  simp [handleWeights, h]

/-- A failure is not lost by being collected LATE. A failing critical call that is pending at an await
    point (moment, weight) stays pending there through the handling of every other moment — whatever
    happens in between and however long it takes: the model has no clock, because the core has none
    here (a call's own `timeout` is only handed to the plugin; nothing in callable/call.go or handleHooks
    reads it) — … -/
theorem C09_pending_result_kept (env : Env) (hooks : List Hook) (m m' : Moment) (p : Int → Bool) (w : Int) (i : Inst)
    (hne : m' ≠ m) (hi : i ∈ pendingAt env m w) : i ∈ pendingAt (handleHooks env hooks m' p).1 m w :=
  handleHooks_keeps_elsewhere env hooks m m' p w i hne hi

/-- …and when the state machine handles the pass of its await moment that holds its weight, the pass
    reports a critical failure: either this call is collected and counted, or an earlier weight of the
    pass already failed critically. So the transition is cancelled (before_/leave_) or reported failed
    (enter_/after_) exactly as if the result had been collected at once. (`hnc`: the call has not been
    cancelled by a teardown — one that then failed to release its tasks, so that the environment lives on:
    `cancelCallsPendingAwait` makes the call's goroutine drop the result, and a later Await reads nil.) -/
theorem C09_late_result_counts (env : Env) (hooks : List Hook) (m : Moment) (p : Int → Bool) (w : Int) (i : Inst)
    (hi : i ∈ pendingAt env m w) (hp : p w = true) (hf : i.fails = true) (hc : i.critical = true)
    (hnc : isCancelled env i = false) :
    (handleHooks env hooks m p).2.2 > 0 :=
  handleHooks_counts_pending env hooks m p w i hi hp hf hc hnc

/-! ### the way a call hook fails (Model/CallWays.lean) -/

/-- The model's exit logic of `(*Call).Call()` is the code's (go/ast facts of harness/props/c09/facts.go
    over core/workflow/callable/call.go): an error of the evaluation of the call expression leaves at
    once with that error; a non-empty `__call_error` leaves with an error; the evaluation comes first;
    nothing else returns but the final `return nil`; and the returned value travels unchanged through
    `Start` (sent to the await channel), `Await` (returns what it receives) and `AwaitAll` (keeps every
    non-nil one) to handleHooks. -/
theorem C09_call_exits_are_code :
    codeCall = ⟨Gen.C09Call.evalErrorExits, Gen.C09Call.callErrorExits⟩ ∧
    Gen.C09Call.evalBeforeCallErrorTest = true ∧ Gen.C09Call.nilOnlyAtEnd = true ∧ Gen.C09Call.returns = 3 ∧
    Gen.C09Call.startSendsCallResult = true ∧ Gen.C09Call.awaitReturnsReceived = true ∧
    Gen.C09Call.awaitAllKeepsEveryError = true := by decide

/-- Whatever way an execution of a call hook fails — the plugin reports `__call_error` (with or without
    a reason, after waiting out its timeout, after its request was cancelled), the plugin function returns
    a Go error, does both, panics, is not exported, the plugin is not loaded, the expression does not
    compile — `Call()` returns an error; and it returns none for an execution that does not fail. -/
theorem C09_every_way_is_a_failure (o : Outcome) : callReturnsErr codeCall o.eval = o.isFail :=
  callReturnsErr_code o

/-- Only the criticality of a hook and the moment decide what its failure does, NOT the way it failed:
    two hook sets that differ at most in the ways their failing executions fail give the same run — the
    same steps, results and environments, request by request — for every number of tasks, every
    environment and every request list (overlapping pairs included), hence the same trace items for the
    monitor. -/
theorem C09_failure_kind_irrelevant (ks ks' : List KHook) (h : SameButWays ks ks') (nTasks : Nat) (env : Env) (reqs : List PReq) :
    runPar (ks.map (KHook.toHook codeCall)) nTasks env reqs = runPar (ks'.map (KHook.toHook codeCall)) nTasks env reqs ∧
    modelItemsPar (ks.map (KHook.toHook codeCall)) nTasks reqs = modelItemsPar (ks'.map (KHook.toHook codeCall)) nTasks reqs := by
  rw [map_toHook_eq_of_sameButWays h]
  exact ⟨rfl, rfl⟩

/-- …in particular every failure may as well have been reported through `__call_error` (or any other one way). -/
theorem C09_any_one_way_for_all (w : Way) (ks : List KHook) (nTasks : Nat) (env : Env) (reqs : List PReq) :
    runPar ((ks.map (KHook.withWay w)).map (KHook.toHook codeCall)) nTasks env reqs =
      runPar (ks.map (KHook.toHook codeCall)) nTasks env reqs :=
  (C09_failure_kind_irrelevant _ _ (map_withWay_sameButWays w ks) nTasks env reqs).1

/-- The model the harness compares the code with (scripts pushed through `Call()`'s exit logic) is the
    model of the hooks with the ways forgotten, on which `Spec.C09` is judged. -/
theorem C09_model_is_way_blind (ks : List KHook) : ks.map (KHook.toHook codeCall) = ks.map KHook.forget :=
  List.map_congr_left (fun k _ => toHook_code_eq_forget k)

/-- The grid: for EVERY way, a hook failing that way at each of the four moments of CONFIGURE, at a
    negative and at a non-negative weight, has the effect its criticality and the moment give it —
    critical at before_/leave_: cancelled, DEPLOYED kept; critical at enter_/after_: reported,
    CONFIGURED reached; non-critical: nothing. -/
theorem C09_effect_by_criticality_and_moment (w : Way) (crit neg : Bool) :
    let wt : Int := if neg then -5 else 5
    let hk (m : Moment) : List Hook := [KHook.toHook codeCall
      { id := 0, isTask := false, critical := crit, trig := m, tw := wt, await := m, aw := wt, outcomes := [.fail w] }]
    let run (m : Moment) := fsmEvent { st := .DEPLOYED } (hk m) .CONFIGURE true false
    ((run (.before .CONFIGURE)).2.2, (run (.before .CONFIGURE)).1.st) =
      (if crit then .cancelledHooks 1 (.before .CONFIGURE) else .ok, if crit then .DEPLOYED else .CONFIGURED) ∧
    ((run (.leave .DEPLOYED)).2.2, (run (.leave .DEPLOYED)).1.st) =
      (if crit then .cancelledHooks 1 (.leave .DEPLOYED) else .ok, if crit then .DEPLOYED else .CONFIGURED) ∧
    ((run (.enter .CONFIGURED)).2.2, (run (.enter .CONFIGURED)).1.st) =
      (if crit then .reported [(1, .enter .CONFIGURED)] else .ok, .CONFIGURED) ∧
    ((run (.after .CONFIGURE)).2.2, (run (.after .CONFIGURE)).1.st) =
      (if crit then .reported [(1, .after .CONFIGURE)] else .ok, .CONFIGURED) := by
  cases w <;> cases crit <;> cases neg <;> decide

/-- Both exits are needed. With the first exit merged into the second (`mergedExit`, NOT the code: the
    evaluation error only stored in the message that the `__call_error` look-up then overwrites) `Call()`
    returns an error exactly when the plugin left a `__call_error` — so a critical hook whose plugin is
    not loaded no longer cancels CONFIGURE, while with the code's exits it does. -/
theorem C09_evaluation_error_exit_needed :
    (∀ o : Outcome, callReturnsErr mergedExit o.eval = o.eval.callError) ∧
    (let k : KHook := { id := 0, isTask := false, critical := true, trig := .before .CONFIGURE, tw := 0,
                        await := .before .CONFIGURE, aw := 0, outcomes := [.fail .noPlugin] }
     (fsmEvent { st := .DEPLOYED } [k.toHook mergedExit] .CONFIGURE true false).2.2 = .ok ∧
     (fsmEvent { st := .DEPLOYED } [k.toHook codeCall] .CONFIGURE true false).2.2 = .cancelledHooks 1 (.before .CONFIGURE)) := by
  refine ⟨?_, by decide⟩
  intro o
  cases o with
  | ok => rfl
  | fail w => cases w <;> rfl

/-- Non-vacuity: two hook sets that differ only in the ways (a plugin that is not loaded and a panic vs
    two `__call_error`s; mixed criticality, a healthy execution in between). -/
example :
    SameButWays
      [{ id := 0, isTask := false, critical := true, trig := .before .CONFIGURE, tw := 0, await := .before .CONFIGURE, aw := 0,
         outcomes := [.fail .noPlugin, .ok, .fail .panic] },
       { id := 1, isTask := false, critical := false, trig := .enter .CONFIGURED, tw := -1, await := .after .CONFIGURE, aw := 3,
         outcomes := [.fail .timeout] }]
      [{ id := 0, isTask := false, critical := true, trig := .before .CONFIGURE, tw := 0, await := .before .CONFIGURE, aw := 0,
         outcomes := [.fail .callError, .ok, .fail .callError] },
       { id := 1, isTask := false, critical := false, trig := .enter .CONFIGURED, tw := -1, await := .after .CONFIGURE, aw := 3,
         outcomes := [.fail .goErr] }] :=
  .cons ⟨rfl, rfl, rfl, rfl, rfl, rfl, rfl, rfl⟩ (.cons ⟨rfl, rfl, rfl, rfl, rfl, rfl, rfl, rfl⟩ .nil)

/-- Non-vacuity: a critical call started at before_DEPLOY that fails and is awaited two transitions later,
    at leave_DEPLOYED, cancels CONFIGURE (and DEPLOY went through). -/
example :
    let hooks : List Hook := [
      { id := 0, isTask := false, critical := true, trig := .before .DEPLOY, tw := 0, await := .leave .DEPLOYED, aw := 5, outcomes := [true] }]
    (runSeq hooks 0 {} [.try_ .DEPLOY true false, .try_ .CONFIGURE true false]).map (·.2.1) =
      [.ok, .cancelledHooks 1 (.leave .DEPLOYED)] := by decide

/-- Non-vacuity: two critical calls failing together at one point are counted as 2 and cancel CONFIGURE. -/
example :
    let hooks : List Hook := [
      { id := 0, isTask := false, critical := true, trig := .before .CONFIGURE, tw := 0, await := .before .CONFIGURE, aw := 0, outcomes := [true] },
      { id := 1, isTask := false, critical := true, trig := .before .CONFIGURE, tw := 0, await := .before .CONFIGURE, aw := 0, outcomes := [true] },
      { id := 2, isTask := true, critical := false, trig := .before .CONFIGURE, tw := 0, await := .before .CONFIGURE, aw := 0, outcomes := [true] }]
    (fsmEvent { st := .DEPLOYED } hooks .CONFIGURE true false).2.2 = .cancelledHooks 2 (.before .CONFIGURE) := by decide
