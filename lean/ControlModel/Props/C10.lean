/-
  Props/C10 — "Run number and run timestamps bracket every run exactly once".

  Theorems about the bookkeeping inside the fsm callbacks as modelled in Model/Env.lean
  (bkBefore / bkAfter / finAfter / setSoeorIfEmpty / setEoeorIfEmpty / teardown), for ALL
  hook sets, environments and oracles. Model/Env.lean is the code AS IT IS (since "fix: after_STOP_ACTIVITY
  stamps run_end_completion_time_ms only if it is still empty" every writer of an end stamp is guarded:
  `C10_end_stamp_writers_are_code`, `C10_eoeor_once_code`); the code as it was is `stepOf legacyRunCfg`
  (Model/EnvLegacy.lean), about which the former refutation `C10_finding_end_stamp_rewritten` still speaks. Tie to /repo: correspondence run through
  harness/envh (run-focused generator profile; probe calls record the variables they are
  handed; Ev_RunEvent capture) with the trace monitor.
-/
import ControlModel.Gen.EnvBodies
import ControlModel.Gen.EnvStamps
import ControlModel.Gen.C08Facts
import ControlModel.Proofs.EnvOnce
import ControlModel.Proofs.EnvRun
import ControlModel.Proofs.EnvRunOnce

open EnvM

/-- The run number and the start-of-run stamp are set AFTER the negative-weight and BEFORE
    the non-negative-weight before_START_ACTIVITY hooks: the steps of a START's before_event
    that is not cancelled are exactly
      marker, negative pass, [rnSet, SOSOR, later stamps cleared, RunEvent STARTED], other pass, marker;
    every hook begun in the negative pass is handed the variables from BEFORE the request,
    every hook begun in the other pass sees the new number n and the new SOSOR, with the
    three later stamps empty. -/
theorem C10_set_between_neg_and_pos (env : Env) (hooks : List Hook)
    (hneg : (handleHooks env hooks (.before .START_ACTIVITY) negW).2.2 = 0) :
    let m := Moment.before .START_ACTIVITY
    let r1 := handleHooks env hooks m negW
    let bk := bkBefore r1.1 .START_ACTIVITY false
    let r2 := handleHooks bk.1 hooks m posW
    (beforeEvent env hooks .START_ACTIVITY false).2.1 =
      [Step.mark m.name false] ++ r1.2.1 ++ bk.2.1 ++ r2.2.1 ++ [Step.mark m.name true] ∧
    bk.2.1 = [Step.rnSet (env.counter + 1), Step.tsSet 0 (env.clock + 1), Step.tsCleared,
              Step.runEvent "START_ACTIVITY" .started (env.counter + 1) (env.clock + 1)] ∧
    (∀ s ∈ r1.2.1, ∀ i ∈ s.begun, i.snap = env.vars) ∧
    (∀ s ∈ r2.2.1, ∀ i ∈ s.begun,
        i.snap.rnVar = some (env.counter + 1) ∧ i.snap.sosor = .val (env.clock + 1) ∧
        i.snap.eosor = .empty ∧ i.snap.soeor = .empty ∧ i.snap.eoeor = .empty) := by
  simp only
  have hcore := handleHooks_core env hooks (.before .START_ACTIVITY) negW
  have hcounter : (handleHooks env hooks (.before .START_ACTIVITY) negW).1.counter = env.counter := congrArg Core.counter hcore
  have hclock : (handleHooks env hooks (.before .START_ACTIVITY) negW).1.clock = env.clock := congrArg Core.clock hcore
  have hbk := bkBefore_START (handleHooks env hooks (.before .START_ACTIVITY) negW).1 hooks
  rw [hcounter, hclock] at hbk
  refine ⟨?_, ?_, handleHooks_begun_snap env hooks _ negW, ?_⟩
  · unfold beforeEvent
    simp only [hneg, gt_iff_lt, Nat.lt_irrefl, if_false, hbk.1, Bool.false_eq_true]
  · simp [bkBefore, tick, hcounter, hclock, Ev.name]
  · intro s hs i hi
    rw [handleHooks_begun_snap _ hooks _ posW s hs i hi]
    exact ⟨hbk.2.2.2.1, hbk.2.2.2.2.1, hbk.2.2.2.2.2.1, hbk.2.2.2.2.2.2.1, hbk.2.2.2.2.2.2.2⟩

/-- Run number variable and start-of-run stamp stay UNCHANGED through every transition other
    than START_ACTIVITY and STOP_ACTIVITY (CONFIGURE, RESET, GO_ERROR, …), whatever fails. -/
theorem C10_run_identity_stable (env : Env) (hooks : List Hook) (e : Ev) (b r : Bool)
    (h1 : e ≠ .START_ACTIVITY) (h2 : e ≠ .STOP_ACTIVITY) :
    (fsmEvent env hooks e b r).1.vars.rnVar = env.vars.rnVar ∧ (fsmEvent env hooks e b r).1.vars.sosor = env.vars.sosor := by
  have := fsmEvent_runKey env hooks e b r h1 h2
  simp only [runKey, Prod.mk.injEq] at this
  exact this

/-- During STOP_ACTIVITY they stay visible unchanged until the END of after_STOP_ACTIVITY:
    both hook passes of after_STOP_ACTIVITY still run with them, only the step after the
    last pass (`finAfter`) retires the number. -/
theorem C10_visible_until_after_stop (env : Env) (hooks : List Hook) (errs : List (Nat × Moment)) :
    let m := Moment.after .STOP_ACTIVITY
    let r1 := handleHooks env hooks m negW
    let bk := bkAfter r1.1 .STOP_ACTIVITY (!(if r1.2.2 > 0 then [(r1.2.2, m)] else errs).isEmpty)
    let r2 := handleHooks bk.1 hooks m posW
    (∀ s ∈ r1.2.1, ∀ i ∈ s.begun, i.snap.rnVar = env.vars.rnVar ∧ i.snap.sosor = env.vars.sosor) ∧
    (∀ s ∈ r2.2.1, ∀ i ∈ s.begun, i.snap.rnVar = env.vars.rnVar ∧ i.snap.sosor = env.vars.sosor) := by
  simp only
  refine ⟨?_, ?_⟩
  · intro s hs i hi; rw [handleHooks_begun_snap env hooks _ negW s hs i hi]; exact ⟨rfl, rfl⟩
  · intro s hs i hi
    rw [handleHooks_begun_snap _ hooks _ posW s hs i hi]
    have := bkAfter_runKey (handleHooks env hooks (.after .STOP_ACTIVITY) negW).1 .STOP_ACTIVITY
      (!(if (handleHooks env hooks (.after .STOP_ACTIVITY) negW).2.2 > 0 then
          [((handleHooks env hooks (.after .STOP_ACTIVITY) negW).2.2, Moment.after .STOP_ACTIVITY)] else errs).isEmpty)
    rw [handleHooks_runKey] at this
    simp only [runKey, Prod.mk.injEq] at this
    exact this

/-- …and they are GONE afterwards: when after_STOP_ACTIVITY ends, the run-number variable is
    deleted, currentRunNumber is 0 and last_run_number holds the retired number. -/
theorem C10_gone_afterwards (env : Env) (hooks : List Hook) (errs : List (Nat × Moment)) :
    (afterEvent env hooks .STOP_ACTIVITY errs).1.vars.rnVar = none ∧
    (afterEvent env hooks .STOP_ACTIVITY errs).1.rn = 0 ∧
    (afterEvent env hooks .STOP_ACTIVITY errs).1.vars.lastRn = some env.rn := by
  unfold afterEvent
  simp only
  have h := finAfter_STOP (handleHooks (bkAfter (handleHooks env hooks (.after .STOP_ACTIVITY) negW).1 .STOP_ACTIVITY
      (!(if (handleHooks env hooks (.after .STOP_ACTIVITY) negW).2.2 > 0 then
          [((handleHooks env hooks (.after .STOP_ACTIVITY) negW).2.2, Moment.after .STOP_ACTIVITY)] else errs).isEmpty)).1
      hooks (.after .STOP_ACTIVITY) posW).1
  refine ⟨h.2.1, h.1, ?_⟩
  rw [h.2.2, handleHooks_rn]
  have : ∀ env' f, (bkAfter env' .STOP_ACTIVITY f).1.rn = env'.rn := by
    intro env' f; simp only [bkAfter]; unfold setEoeorIfEmpty; split <;> rfl
  rw [this, handleHooks_rn]

/-- A fresh number every time: START_ACTIVITY hands out counter+1 and advances the counter. -/
theorem C10_number_fresh (env : Env) (hooks : List Hook) :
    (bkBefore env .START_ACTIVITY false).1.rn = env.counter + 1 ∧
    (bkBefore env .START_ACTIVITY false).1.counter = env.counter + 1 :=
  ⟨(bkBefore_START env hooks).2.1, (bkBefore_START env hooks).2.2.1⟩

/-- The guarded writers never overwrite a stamp that is set: they write only when the
    variable is present and empty. (STOP_ACTIVITY/GO_ERROR at before_, leave_RUNNING, STOP_ACTIVITY/GO_ERROR
    at after_, teardown while RUNNING: every site that closes a run, `C10_end_stamp_writers_are_code`.) -/
theorem C10_guarded_never_overwrite (env : Env) (tr : String) (p : Bool) (s : RunStatus) (t : Nat) :
    (env.vars.soeor = .val t → (setSoeorIfEmpty env tr p).1.vars.soeor = .val t ∧ (setSoeorIfEmpty env tr p).2 = []) ∧
    (env.vars.eoeor = .val t → (setEoeorIfEmpty env tr s).1.vars.eoeor = .val t ∧ (setEoeorIfEmpty env tr s).2 = []) := by
  refine ⟨fun h => ?_, fun h => ?_⟩
  · unfold setSoeorIfEmpty; simp [h, TV.isEmpty]
  · unfold setEoeorIfEmpty; simp [h, TV.isEmpty]

/-- FULL-STRENGTH "at most once per run" for the end-completion stamp, over a machine `stp` (what one request
    does): within one run no request rewrites an end-completion stamp that is already set. -/
def C10_eoeor_once_full_of (stp : List Hook → Nat → Env → Req → Env × List Step × Result) : Prop :=
  ∀ (env : Env) (hooks : List Hook) (q : Req) (n : Nat) (t : Nat),
    env.vars.eoeor = .val t → (stp hooks n env q).1.vars.rnVar = env.vars.rnVar ∨ True →
    (match q with | .try_ .START_ACTIVITY .. | .control .START_ACTIVITY .. => False | _ => True) →
    (stp hooks n env q).1.vars.eoeor = .val t

/-- …for the code as it is (`step`, Model/Env.lean). It was FALSE of the code before the repair (next theorem)
    and is TRUE of the code now (`C10_eoeor_once_code`). -/
def C10_eoeor_once_full : Prop := C10_eoeor_once_full_of step

/-- The finding `end_stamp_rewritten_after_failed_teardown` (repaired by "fix: after_STOP_ACTIVITY stamps
    run_end_completion_time_ms only if it is still empty"), machine-checked on the model of the code AS IT WAS
    (`stepOf legacyRunCfg`, Model/EnvLegacy.lean): after_STOP_ACTIVITY wrote run_end_completion_time_ms
    unconditionally, so a run whose end was already stamped by a teardown that then failed to release its tasks
    got a SECOND end-completion stamp when it was stopped. -/
theorem C10_finding_end_stamp_rewritten : ¬ C10_eoeor_once_full_of (stepOf legacyRunCfg) := by
  intro h
  have := h { st := .RUNNING, rn := 1, counter := 1, clock := 4,
              vars := { rnVar := some 1, sosor := .val 1, eosor := .val 2, soeor := .val 3, eoeor := .val 4 } }
            [] (.try_ .STOP_ACTIVITY true false) 0 4 rfl (Or.inr trivial) trivial
  revert this; decide

/-- The machine the refutation is about IS the model of the code, but for one write: with the switch on,
    `stepOf` is `step` (all hooks, environments, requests); with the switch off the bookkeeping of after_event
    differs in the STOP_ACTIVITY branch only. -/
theorem C10_legacy_differs_only_at_after_stop :
    stepOf codeRunCfg = step ∧
    (∀ (env : Env) (e : Ev) (f : Bool), e ≠ .STOP_ACTIVITY → bkAfterOf legacyRunCfg env e f = bkAfter env e f) ∧
    (∀ (env : Env) (e : Ev) (f : Bool), bkAfterOf codeRunCfg env e f = bkAfter env e f) :=
  ⟨stepOf_code, bkAfterOf_legacy_other, fun env e f => congrFun (congrFun (congrFun bkAfterOf_code env) e) f⟩

/-- **At most once, for the code as it is** — the former full-strength statement, now a theorem: for ALL
    environments, hooks, task counts and requests other than a START_ACTIVITY (TryTransition, the API glue with
    its GO_ERROR fallback and its forced write, a teardown forced or not whatever its release rounds do), an
    end-completion stamp that is set is still set TO THE SAME VALUE afterwards. -/
theorem C10_eoeor_once_code : C10_eoeor_once_full := by
  intro env hooks q n t ht _ hq
  have hns : q.notStart = true := by
    cases q with
    | try_ e b r => cases e <;> first | exact absurd hq id | rfl
    | control e b r => cases e <;> first | exact absurd hq id | rfl
    | teardown f r1 r2 => rfl
  exact (step_fixed hooks n env q hns).2 t ht

/-- The same over whole histories and for BOTH end stamps: through any sequence of requests that holds no
    START_ACTIVITY — stops, errors, recoveries, teardowns that fail and are repeated, API requests — a
    run_end_time_ms / run_end_completion_time_ms that is set keeps its value. (A START_ACTIVITY opens the next
    run and clears them: `C10_set_between_neg_and_pos`.) -/
theorem C10_end_stamps_written_once (hooks : List Hook) (n : Nat) (env : Env) (qs : List Req)
    (hq : qs.all Req.notStart = true) :
    (∀ t, env.vars.soeor = .val t → (finalEnv hooks n env qs).vars.soeor = .val t) ∧
    (∀ t, env.vars.eoeor = .val t → (finalEnv hooks n env qs).vars.eoeor = .val t) :=
  finalEnv_fixed hooks n env qs hq

/-- The writers of the end-of-run stamps in the model are the ones in the source (go/ast over core/environment,
    re-read on every run, Gen/EnvStamps.lean): nine `SetRuntimeVar` sites — the two clears of
    before_START_ACTIVITY and seven stamping sites, EVERY ONE of them under `v, ok := GetUserVars().Get(key);
    if ok && v == ""` (a site that loses its guard, or a new unguarded one, makes this false; with the guard of
    after_STOP_ACTIVITY removed the table is `stampSites legacyRunCfg`) — and the model functions at the
    stamping sites are the guarded writers, with the event name and the publication the table shows. -/
theorem C10_end_stamp_writers_are_code :
    Gen.EnvStamps.writers = (stampSites codeRunCfg).map StampSite.row ∧
    (((stampSites codeRunCfg).filter (fun s => !s.clear)).all (·.guarded) = true) ∧
    (∀ (env : Env) (r : Bool), bkBefore env .STOP_ACTIVITY r =
      ((setSoeorIfEmpty env "STOP_ACTIVITY" true).1, (setSoeorIfEmpty env "STOP_ACTIVITY" true).2, false)) ∧
    (∀ (env : Env) (r : Bool), bkBefore env .GO_ERROR r =
      ((setSoeorIfEmpty env "GO_ERROR" true).1, (setSoeorIfEmpty env "GO_ERROR" true).2, false)) ∧
    (∀ (env : Env) (f : Bool), bkAfter env .STOP_ACTIVITY f =
      setEoeorIfEmpty env "STOP_ACTIVITY" (if f then .doneError else .doneOk)) ∧
    (∀ (env : Env) (f : Bool), bkAfter env .GO_ERROR f = setEoeorIfEmpty env "GO_ERROR" .doneOk) :=
  ⟨by rfl, by decide, fun _ _ => rfl, fun _ _ => rfl, fun _ _ => rfl, fun _ _ => rfl⟩

/-- The witness of the repaired finding, end to end on a fresh environment: START, a forced teardown whose
    first release round fails (the environment stays RUNNING with both end stamps set: 3 and 4), then STOP —
    the stop keeps both stamps; the code as it was stamped the end-completion time again (5). -/
example :
    let reqs : List Req := [.try_ .DEPLOY true false, .try_ .CONFIGURE true false, .try_ .START_ACTIVITY true false,
                            .teardown true false true, .try_ .STOP_ACTIVITY true false]
    (finalEnv [] 1 {} (reqs.take 4)).st = .RUNNING ∧
    (finalEnv [] 1 {} (reqs.take 4)).vars.eoeor = .val 4 ∧
    (finalEnv [] 1 {} reqs).vars = { rnVar := none, lastRn := some 1, sosor := .val 1, eosor := .val 2, soeor := .val 3, eoeor := .val 4 } ∧
    (finalEnvOf legacyRunCfg [] 1 {} reqs).vars.eoeor = .val 5 := by decide

/-- What was proved for the end-completion stamp while after_STOP_ACTIVITY was unguarded (kept: it is what made
    the finding's class "a teardown whose release fails"): after_STOP_ACTIVITY is reached with the stamp
    already set only if something set it while the environment stayed RUNNING — which only a teardown that
    failed after stamping does (`teardown` is the only guarded writer that can leave the state
    unchanged): a teardown that returns without error leaves DONE. -/
theorem C10_eoeor_partial (env : Env) (hooks : List Hook) (f r1 r2 : Bool) (n : Nat)
    (hok : (teardown env hooks f r1 r2 n).2.2 = .ok) : (teardown env hooks f r1 r2 n).1.st = .DONE := by
  rcases teardown_st env hooks f r1 r2 n with ⟨_, _, hne⟩ | ⟨_, h, _, _⟩
  · exact absurd hok hne
  · exact h

/-- FULL-STRENGTH "the end stamps are set however the run ends" (kept visible; FALSE of the code):
    whenever a request takes an environment out of RUNNING (the run variables being there, as they are
    after every START_ACTIVITY), run_end_time_ms and run_end_completion_time_ms are both set afterwards. -/
def C10_end_stamps_full : Prop :=
  ∀ (env : Env) (hooks : List Hook) (q : Req) (n : Nat),
    env.st = .RUNNING → env.vars.soeor ≠ .absent → env.vars.eoeor ≠ .absent →
    (step hooks n env q).1.st ≠ .RUNNING →
    (step hooks n env q).1.vars.soeor.isVal = true ∧ (step hooks n env q).1.vars.eoeor.isVal = true

/-- The known finding `run_end_missing_after_forced_error`, machine-checked on the model: a STOP_ACTIVITY
    requested through the API is cancelled by a critical leave_RUNNING hook; the glue's GO_ERROR is cancelled
    by the same hook; the glue then writes the state with `Sm.SetState("ERROR")` — no callback runs, so
    run_end_completion_time_ms is never written (and no end-of-run event is published): the run has left
    RUNNING with a start, an end time (from before_STOP_ACTIVITY) and no end-completion time. -/
theorem C10_finding_run_end_missing_after_forced_error : ¬ C10_end_stamps_full := by
  intro h
  have := h { st := .RUNNING, rn := 1, counter := 1, clock := 2,
              vars := { rnVar := some 1, sosor := .val 1, eosor := .val 2, soeor := .empty, eoeor := .empty } }
            [{ id := 0, isTask := false, critical := true, trig := .leave .RUNNING, tw := 0, await := .leave .RUNNING, aw := 0,
               outcomes := [true, true] }]
            (.control .STOP_ACTIVITY true false) 0 rfl (by decide) (by decide) (by decide)
  revert this; decide

/-- What IS proved: however the run ends — STOP_ACTIVITY or GO_ERROR through TryTransition (stop, error), a
    teardown while RUNNING, an API request whose failure is followed by a GO_ERROR that goes through — both
    end stamps are set once the environment has left RUNNING, for all hooks, outcomes and environments.
    Excluded (spelled out as `forcedByGlue`): an API request after which the glue had to force the state. -/
theorem C10_end_stamps_partial (env : Env) (hooks : List Hook) (q : Req) (n : Nat)
    (hrun : env.st = .RUNNING) (hs : env.vars.soeor ≠ .absent) (he : env.vars.eoeor ≠ .absent)
    (hyp : match q with | .control e b r => forcedByGlue env hooks e b r = false | _ => True)
    (hleft : (step hooks n env q).1.st ≠ .RUNNING) :
    (step hooks n env q).1.vars.soeor.isVal = true ∧ (step hooks n env q).1.vars.eoeor.isVal = true := by
  cases q with
  | try_ e b r => exact fsmEvent_end_stamps env hooks e b r hrun hs he hleft
  | control e b r =>
    simp only [step] at hleft ⊢
    split at hleft
    · exact absurd hrun hleft
    · rename_i hg
      rw [if_neg hg]
      exact controlApi_end_stamps env hooks e b r hrun hs he hyp hleft
  | teardown f r1 r2 =>
    simp only [step] at hleft ⊢
    split at hleft
    · exact absurd hrun hleft
    · rename_i hg
      rw [if_neg hg]
      exact teardown_end_stamps env hooks f r1 r2 n hrun hs he hleft

/-- Non-vacuity of the partial theorem's hypothesis: a failed STOP through the API whose GO_ERROR goes
    through is not forced, and both end stamps are set. -/
example :
    let env : Env := { st := .RUNNING, rn := 1, counter := 1, clock := 2,
                       vars := { rnVar := some 1, sosor := .val 1, eosor := .val 2, soeor := .empty, eoeor := .empty } }
    forcedByGlue env [] .STOP_ACTIVITY false false = false ∧
    (step [] 0 env (.control .STOP_ACTIVITY false false)).1.vars.eoeor = .val 4 ∧
    (step [] 0 env (.control .STOP_ACTIVITY false false)).1.st = .ERROR := by decide

/-! ## the task-level bodies; runs whose tasks never got to RUNNING -/

/-- What the model assumes about the BODIES of the transitions is what the source says (go/ast over
    core/environment/transition_*.go, re-read on every run): there are six `do` methods — CONFIGURE, DEPLOY,
    GO_ERROR, RESET, START_ACTIVITY, STOP_ACTIVITY —; the only write any of them makes to the environment or
    through a variable / state setter (SetRuntimeVar(s), DeleteRuntimeVar(s), Set, Del, setState, SetState) is
    `env.currentRunNumber = 0` in START_ACTIVITY's failure branch (`bodyRows`, i.e. `bodyWrites`): no body
    touches run_number, last_run_number, the four run timestamps or the state; and the only things a body asks
    of the environment are its id, its workflow, the event stream (and, for START_ACTIVITY, a global variable
    READ; for DEPLOY, the FLP list and the workflow-adapter subscriptions). This is what the scripted bodies of
    the harness (T / C requests, DEPLOY always) replicate by hand — and what the real bodies (TR / CR requests)
    are observed to do. -/
theorem C10_transition_bodies_are_code :
    Gen.EnvBodies.transitions.map (·.2) = bodyEvents.map Ev.name ∧
    Gen.EnvBodies.writes = bodyRows ∧
    Gen.EnvBodies.envCalls =
      [("CONFIGURE", ["Id", "Workflow", "sendEnvironmentEvent"]),
       ("DEPLOY", ["GetFLPs", "Id", "Workflow", "id.String", "sendEnvironmentEvent", "wfAdapter.SubscribeToStateChange",
                   "wfAdapter.SubscribeToStatusChange", "wfAdapter.UnsubscribeFromStateChange", "wfAdapter.UnsubscribeFromStatusChange"]),
       ("GO_ERROR", []),
       ("RESET", ["Id", "Workflow", "sendEnvironmentEvent"]),
       ("START_ACTIVITY", ["GlobalVars.Get", "Id", "Workflow", "sendEnvironmentEvent"]),
       ("STOP_ACTIVITY", ["Id", "Workflow", "sendEnvironmentEvent"])] := by decide

/-- …and `leaveState` (the model of leave_<state> with the body run by handlerFunc) does to the environment
    exactly what `bodyWrites` says, for ALL hooks, events and outcomes: the hook passes do not depend on the
    body's outcome; if they let the event go on, the environment afterwards is the one they left with the
    body's writes applied; the event is cancelled by the body iff the body was reached and the tasks failed. -/
theorem C10_model_body_is_bodyWrites (env : Env) (hooks : List Hook) (e : Ev) (b : Bool) :
    (leaveState env hooks e b).1 =
      (if (leaveState env hooks e true).2.2 = none then applyBody (leaveState env hooks e true).1 e b
       else (leaveState env hooks e true).1) ∧
    ((leaveState env hooks e b).2.2 = some .cancelledBody ↔ ((leaveState env hooks e true).2.2 = none ∧ b = false)) :=
  leaveState_body env hooks e b

/-- No body, no callback, no transition ever REMOVES an end-of-run stamp: once run_end_time_ms and
    run_end_completion_time_ms are there (START_ACTIVITY puts them there, empty, when it hands out the number)
    they stay there — set or empty — through every TryTransition, START_ACTIVITY included, however it ends.
    (The guarded writers that close a run write only when the key is PRESENT and empty.) -/
theorem C10_end_stamps_never_removed (env : Env) (hooks : List Hook) (e : Ev) (b r : Bool)
    (hs : env.vars.soeor ≠ .absent) (he : env.vars.eoeor ≠ .absent) :
    (fsmEvent env hooks e b r).1.vars.soeor ≠ .absent ∧ (fsmEvent env hooks e b r).1.vars.eoeor ≠ .absent :=
  fsmEvent_present env hooks e b r ⟨hs, he⟩

/-- A START_ACTIVITY that is cancelled by its BODY (the tasks refuse to go to RUNNING) — for all hooks and
    environments — leaves the environment where it was, with currentRunNumber back to 0, and with the run it
    had opened still OPEN in the variables: the number it handed out, the start stamp it set, and the three
    later stamps present and empty, so that whatever closes the run next finds them. -/
theorem C10_failed_start_leaves_run_open (env : Env) (hooks : List Hook) (b r : Bool)
    (h : (fsmEvent env hooks .START_ACTIVITY b r).2.2 = .cancelledBody) :
    (fsmEvent env hooks .START_ACTIVITY b r).1.st = env.st ∧
    (fsmEvent env hooks .START_ACTIVITY b r).1.rn = 0 ∧
    (fsmEvent env hooks .START_ACTIVITY b r).1.vars.rnVar = some (env.counter + 1) ∧
    (fsmEvent env hooks .START_ACTIVITY b r).1.vars.sosor = .val (env.clock + 1) ∧
    (fsmEvent env hooks .START_ACTIVITY b r).1.vars.eosor = .empty ∧
    (fsmEvent env hooks .START_ACTIVITY b r).1.vars.soeor = .empty ∧
    (fsmEvent env hooks .START_ACTIVITY b r).1.vars.eoeor = .empty :=
  fsmEvent_failed_start env hooks b r h

/-- However a request takes the environment to ERROR from another state — GO_ERROR through TryTransition,
    an API request whose failure is followed by a GO_ERROR that goes through — both end stamps are SET
    afterwards, provided they were there (as they are from the first START_ACTIVITY on): in particular a run
    whose START_ACTIVITY was cancelled after the number was handed out (previous theorem: the environment is
    still CONFIGURED, the stamps present and empty) is closed by the GO_ERROR that follows. Excluded, as in
    `C10_end_stamps_partial`: an API request after which the glue had to force the state (`forcedByGlue`). -/
theorem C10_end_stamps_on_error (env : Env) (hooks : List Hook) (q : Req) (n : Nat)
    (hne : env.st ≠ .ERROR) (hs : env.vars.soeor ≠ .absent) (he : env.vars.eoeor ≠ .absent)
    (hyp : match q with | .control e b r => forcedByGlue env hooks e b r = false | _ => True)
    (herr : (step hooks n env q).1.st = .ERROR) :
    (step hooks n env q).1.vars.soeor.isVal = true ∧ (step hooks n env q).1.vars.eoeor.isVal = true := by
  cases q with
  | try_ e b r => exact fsmEvent_error_stamps env hooks e b r hne ⟨hs, he⟩ herr
  | control e b r =>
    simp only [step] at herr ⊢
    split at herr
    · exact absurd herr hne
    · rename_i hg
      rw [if_neg hg]
      exact controlApi_error_stamps env hooks e b r hne ⟨hs, he⟩ hyp herr
  | teardown f r1 r2 =>
    simp only [step] at herr
    split at herr
    · exact absurd herr hne
    · rcases teardown_st env hooks f r1 r2 n with ⟨h, _, _⟩ | ⟨_, h, _, _⟩
      · exact absurd (h.symm.trans herr) hne
      · rw [h] at herr; cases herr

/-- Non-vacuity, end to end on a fresh environment: the tasks refuse to start (the run has number 1 and a
    start stamp, the environment is still CONFIGURED, currentRunNumber is 0 again), the API glue's GO_ERROR
    closes the run: SOSOR unchanged, both end stamps set, in order. -/
example :
    let reqs : List Req := [.try_ .DEPLOY true false, .try_ .CONFIGURE true false, .control .START_ACTIVITY false false]
    (finalEnv [] 1 {} reqs).vars = { rnVar := some 1, lastRn := none, sosor := .val 1, eosor := .empty, soeor := .val 2, eoeor := .val 3 } ∧
    (finalEnv [] 1 {} reqs).st = .ERROR ∧ (finalEnv [] 1 {} reqs).rn = 0 ∧
    forcedByGlue (finalEnv [] 1 {} (reqs.take 2)) [] .START_ACTIVITY false false = false := by decide

/-- Non-vacuity / end-to-end: a full START…STOP cycle with hooks on a fresh environment hands
    out number 1, stamps SOSOR < EOSOR < SOEOR < EOEOR and retires the number. -/
example :
    let hooks : List Hook := [
      { id := 0, isTask := false, critical := true, trig := .before .START_ACTIVITY, tw := -5, await := .before .START_ACTIVITY, aw := -5, outcomes := [] },
      { id := 1, isTask := false, critical := true, trig := .before .START_ACTIVITY, tw := 5, await := .after .STOP_ACTIVITY, aw := 0, outcomes := [] }]
    let env := finalEnv hooks 0 {} [.try_ .DEPLOY true false, .try_ .CONFIGURE true false, .try_ .START_ACTIVITY true false, .try_ .STOP_ACTIVITY true false]
    env.vars = { rnVar := none, lastRn := some 1, sosor := .val 1, eosor := .val 2, soeor := .val 3, eoeor := .val 4 } ∧ env.rn = 0 ∧ env.st = .CONFIGURED := by
  decide

/-! ### which pass a hook runs in, what it sees there, how often it runs (since seed C10-6)

  before_<event>, leave_<state>, enter_<state>, after_<event> handle their hooks in two passes with the
  bookkeeping of the run bracket between them. That the hooks of a NON-NEGATIVE weight see what the second pass
  sees — whatever the await expressions of the calls of the moment say, e.g. a call triggered at
  before_START_ACTIVITY-10 that is awaited at before_START_ACTIVITY+10, where other hooks are triggered —
  rests on the split: a pass visits, starts and collects at weights of its own sign only. -/

/-- Each pass visits only weights of its own sign, and everything it begins is a hook triggered at this moment
    with a weight of that sign — for all environments (pending calls included), hook sets and moments. -/
theorem C10_pass_signs (env : Env) (hooks : List Hook) (m : Moment) :
    (∀ w ∈ weightsFor env hooks m negW, w < 0) ∧ (∀ w ∈ weightsFor env hooks m posW, w ≥ 0) ∧
    (∀ s ∈ (handleHooks env hooks m negW).2.1, ∀ i ∈ s.begun, ∃ g ∈ hooks, g.id = i.hook ∧ g.trig = m ∧ g.tw < 0) ∧
    (∀ s ∈ (handleHooks env hooks m posW).2.1, ∀ i ∈ s.begun, ∃ g ∈ hooks, g.id = i.hook ∧ g.trig = m ∧ g.tw ≥ 0) := by
  have hmem : ∀ (p : Int → Bool) (s : Step), s ∈ (handleHooks env hooks m p).2.1 → ∀ i ∈ s.begun,
      i.hook ∈ begunIds (handleHooks env hooks m p).2.1 := by
    intro p s hs i hi
    unfold begunIds
    exact List.mem_map.mpr ⟨i, List.mem_flatMap.mpr ⟨s, hs, hi⟩, rfl⟩
  refine ⟨fun w hw => ?_, fun w hw => ?_, fun s hs i hi => ?_, fun s hs i hi => ?_⟩
  · have := (weightsFor_ascending env hooks m negW).2 w hw
    simpa [negW] using this
  · have := (weightsFor_ascending env hooks m posW).2 w hw
    simpa [posW] using this
  · obtain ⟨g, hg, hid, ht, hp⟩ := handleHooks_begun_hook env hooks m negW i.hook (hmem negW s hs i hi)
    exact ⟨g, hg, hid, ht, by simpa [negW] using hp⟩
  · obtain ⟨g, hg, hid, ht, hp⟩ := handleHooks_begun_hook env hooks m posW i.hook (hmem posW s hs i hi)
    exact ⟨g, hg, hid, ht, by simpa [posW] using hp⟩

/-- The split is the code's: handleHooks takes the weights of a pass from ONE set (`allWeights :=
    allWeightsSet.GetWeights()`), restricts them by the predicate it was handed and loops over exactly the
    restricted list, and the three entries hand it `true` / `w < 0` / `w >= 0` and do nothing else (go/ast facts of
    harness/props/c08/facts.go, re-read on every run) — which is `weightsFor … p = (sortDedup …).filter p`. -/
theorem C10_pass_split_is_code :
    Gen.C08Facts.weightsFromSet = true ∧ Gen.C08Facts.loopOverFiltered = true ∧
    Gen.C08Facts.wrappers.map (fun w => (w.1, w.2.1)) =
      [("handleAllHooks", "true"), ("handleHooksWithNegativeWeights", "w < 0"), ("handleHooksWithPositiveWeights", "w >= 0")] ∧
    (∀ (env : Env) (hooks : List Hook) (m : Moment) (p : Int → Bool), ∀ w ∈ weightsFor env hooks m p, p w = true) :=
  ⟨by rfl, by rfl, by rfl, fun env hooks m p w hw => (weightsFor_ascending env hooks m p).2 w hw⟩

/-- **A non-negative before_START_ACTIVITY hook sees the run number and the start stamp, and runs once.** With
    pairwise different hook ids, whatever else is triggered or awaited at the moment (calls that cross from the
    negative into the other pass included): every execution of a hook triggered at before_START_ACTIVITY with
    weight ≥ 0 that a START's before_event begins is handed the NEW run number and start time, the three later
    stamps empty; it is begun at most once, and exactly once when no critical failure stops the second pass. -/
theorem C10_nonneg_before_start_sees_run (env : Env) (hooks : List Hook) (h : Hook)
    (hmem : h ∈ hooks) (hU : (hooks.map (·.id)).Nodup) (ht : h.trig = .before .START_ACTIVITY) (hw : h.tw ≥ 0)
    (hneg : (handleHooks env hooks (.before .START_ACTIVITY) negW).2.2 = 0) :
    (∀ s ∈ (beforeEvent env hooks .START_ACTIVITY false).2.1, ∀ i ∈ s.begun, i.hook = h.id →
        i.snap.rnVar = some (env.counter + 1) ∧ i.snap.sosor = .val (env.clock + 1) ∧
        i.snap.eosor = .empty ∧ i.snap.soeor = .empty ∧ i.snap.eoeor = .empty) ∧
    begunCount h.id (beforeEvent env hooks .START_ACTIVITY false).2.1 ≤ 1 ∧
    ((beforeEvent env hooks .START_ACTIVITY false).2.2 = none →
      begunCount h.id (beforeEvent env hooks .START_ACTIVITY false).2.1 = 1) := by
  have hsplit := C10_set_between_neg_and_pos env hooks hneg
  simp only at hsplit
  obtain ⟨hsteps, hbk, _, hpos⟩ := hsplit
  have hbkno := bkBefore_noBegun (handleHooks env hooks (.before .START_ACTIVITY) negW).1 .START_ACTIVITY false
  have h2 := twoPass_begunCount env (bkBefore (handleHooks env hooks (.before .START_ACTIVITY) negW).1 .START_ACTIVITY false).1
    hooks (.before .START_ACTIVITY) h hmem hU
  have hcount : begunCount h.id (beforeEvent env hooks .START_ACTIVITY false).2.1 =
      begunCount h.id (handleHooks env hooks (.before .START_ACTIVITY) negW).2.1 +
      begunCount h.id (handleHooks (bkBefore (handleHooks env hooks (.before .START_ACTIVITY) negW).1 .START_ACTIVITY false).1
        hooks (.before .START_ACTIVITY) posW).2.1 := by
    rw [hsteps]
    simp only [begunCount_append, begunCount_mark, begunCount_noBegun h.id _ hbkno]
    omega
  refine ⟨?_, ?_, ?_⟩
  · intro s hs i hi hid
    rw [hsteps] at hs
    simp only [List.mem_append, List.mem_singleton] at hs
    rcases hs with (((rfl | hs) | hs) | hs) | rfl
    · cases hi
    · have := (begun_in_pass env hooks _ negW h hmem hU s hs i hi hid).2
      simp only [negW, decide_eq_true_eq] at this
      omega
    · rw [hbkno s hs] at hi; cases hi
    · exact hpos s hs i hi
    · cases hi
  · rw [hcount]; have := h2.1; rw [if_pos ht] at this; exact this
  · intro hnone
    rw [hcount]
    have hr2 : (handleHooks (bkBefore (handleHooks env hooks (.before .START_ACTIVITY) negW).1 .START_ACTIVITY false).1
        hooks (.before .START_ACTIVITY) posW).2.2 = 0 := by
      unfold beforeEvent at hnone
      simp only [hneg, gt_iff_lt, Nat.lt_irrefl, if_false, (bkBefore_START _ hooks).1, Bool.false_eq_true] at hnone
      split at hnone
      · cases hnone
      · omega
    have := h2.2 hneg hr2
    rw [if_pos ht] at this
    exact this

/-- **The non-negative hooks of the other moments of the run bracket see the stamp their moment writes.** With
    pairwise different hook ids: a hook triggered at before_STOP_ACTIVITY / before_GO_ERROR with weight ≥ 0 is
    begun only with the end time set (if the run has one to set: the variable is present); at
    after_START_ACTIVITY with the start-completion time set; at after_STOP_ACTIVITY / after_GO_ERROR with the
    end-completion time set. -/
theorem C10_nonneg_hooks_see_stamps (env : Env) (hooks : List Hook) (h : Hook)
    (hmem : h ∈ hooks) (hU : (hooks.map (·.id)).Nodup) (hw : h.tw ≥ 0) :
    (∀ e, (e = .STOP_ACTIVITY ∨ e = .GO_ERROR) → h.trig = .before e → env.vars.soeor ≠ .absent → ∀ r,
      ∀ s ∈ (beforeEvent env hooks e r).2.1, ∀ i ∈ s.begun, i.hook = h.id → i.snap.soeor.isVal = true) ∧
    (h.trig = .after .START_ACTIVITY → ∀ errs,
      ∀ s ∈ (afterEvent env hooks .START_ACTIVITY errs).2.1, ∀ i ∈ s.begun, i.hook = h.id → i.snap.eosor.isVal = true) ∧
    (∀ e, (e = .STOP_ACTIVITY ∨ e = .GO_ERROR) → h.trig = .after e → env.vars.eoeor ≠ .absent → ∀ errs,
      ∀ s ∈ (afterEvent env hooks e errs).2.1, ∀ i ∈ s.begun, i.hook = h.id → i.snap.eoeor.isVal = true) := by
  have notNeg : ∀ (env' : Env) (m : Moment) (s : Step), s ∈ (handleHooks env' hooks m negW).2.1 → ∀ i ∈ s.begun, i.hook = h.id → False := by
    intro env' m s hs i hi hid
    have := (begun_in_pass env' hooks m negW h hmem hU s hs i hi hid).2
    simp only [negW, decide_eq_true_eq] at this
    omega
  refine ⟨?_, ?_, ?_⟩
  · intro e he _ hp r s hs i hi hid
    have hset : (bkBefore (handleHooks env hooks (.before e) negW).1 e r).1.vars.soeor.isVal = true := by
      have hp' : (handleHooks env hooks (.before e) negW).1.vars.soeor ≠ .absent := by rw [handleHooks_vars]; exact hp
      rcases he with rfl | rfl <;> (unfold bkBefore; simp only []; exact setSoeor_sets _ _ _ hp')
    have hbkno := bkBefore_noBegun (handleHooks env hooks (.before e) negW).1 e r
    unfold beforeEvent at hs
    simp only at hs
    split at hs
    · simp only [List.mem_append, List.mem_singleton] at hs
      rcases hs with (rfl | hs) | rfl
      · cases hi
      · exact (notNeg _ _ s hs i hi hid).elim
      · cases hi
    · split at hs
      · simp only [List.mem_append, List.mem_singleton] at hs
        rcases hs with rfl | hs
        · cases hi
        · exact (notNeg _ _ s hs i hi hid).elim
      · simp only [List.mem_append, List.mem_singleton] at hs
        rcases hs with (((rfl | hs) | hs) | hs) | rfl
        · cases hi
        · exact (notNeg _ _ s hs i hi hid).elim
        · rw [hbkno s hs] at hi; cases hi
        · rw [handleHooks_begun_snap _ hooks _ posW s hs i hi]; exact hset
        · cases hi
  · intro _ errs s hs i hi hid
    unfold afterEvent at hs
    simp only at hs
    generalize hbk : bkAfter (handleHooks env hooks (.after .START_ACTIVITY) negW).1 .START_ACTIVITY _ = bk at hs
    have hset : bk.1.vars.eosor.isVal = true := by rw [← hbk]; simp [bkAfter, tick, TV.isVal]
    have hbkno : NoBegun bk.2 := by rw [← hbk]; exact bkAfter_noBegun _ _ _
    have hfin := finAfter_noBegun (handleHooks bk.1 hooks (.after .START_ACTIVITY) posW).1 .START_ACTIVITY
    simp only [List.mem_append, List.mem_singleton] at hs
    rcases hs with ((((rfl | hs) | hs) | hs) | hs) | rfl
    · cases hi
    · exact (notNeg _ _ s hs i hi hid).elim
    · rw [hbkno s hs] at hi; cases hi
    · rw [handleHooks_begun_snap _ hooks _ posW s hs i hi]; exact hset
    · rw [hfin s hs] at hi; cases hi
    · cases hi
  · intro e he _ hp errs s hs i hi hid
    unfold afterEvent at hs
    simp only at hs
    generalize hbk : bkAfter (handleHooks env hooks (.after e) negW).1 e _ = bk at hs
    have hset : bk.1.vars.eoeor.isVal = true := by
      rw [← hbk]
      have hp' : (handleHooks env hooks (.after e) negW).1.vars.eoeor ≠ .absent := by rw [handleHooks_vars]; exact hp
      rcases he with rfl | rfl <;> (unfold bkAfter; simp only []; exact setEoeor_sets _ _ _ hp')
    have hbkno : NoBegun bk.2 := by rw [← hbk]; exact bkAfter_noBegun _ _ _
    have hfin := finAfter_noBegun (handleHooks bk.1 hooks (.after e) posW).1 e
    simp only [List.mem_append, List.mem_singleton] at hs
    rcases hs with ((((rfl | hs) | hs) | hs) | hs) | rfl
    · cases hi
    · exact (notNeg _ _ s hs i hi hid).elim
    · rw [hbkno s hs] at hi; cases hi
    · rw [handleHooks_begun_snap _ hooks _ posW s hs i hi]; exact hset
    · rw [hfin s hs] at hi; cases hi
    · cases hi

/-- Non-vacuity, and the class of seed C10-6 end to end: a call triggered at before_START_ACTIVITY-10 awaited at
    before_START_ACTIVITY+10 and a probe triggered at +10; two runs. The probe is begun once per START, after the
    number was handed out, and sees run 1 with start time 1, then run 2 with start time 5 and the first run's later
    stamps gone; the crossing call sees, each time, what was there before its START. -/
example :
    let hooks : List Hook := [
      { id := 0, isTask := false, critical := false, trig := .before .START_ACTIVITY, tw := -10, await := .before .START_ACTIVITY, aw := 10, outcomes := [] },
      { id := 1, isTask := false, critical := false, trig := .before .START_ACTIVITY, tw := 10, await := .before .START_ACTIVITY, aw := 10, outcomes := [] }]
    let reqs : List Req := [.try_ .DEPLOY true false, .try_ .CONFIGURE true false, .try_ .START_ACTIVITY true false,
      .try_ .STOP_ACTIVITY true false, .try_ .START_ACTIVITY true false]
    let begun := ((runSeq hooks 0 {} reqs).map fun r => (r.1.flatMap Step.begun).map fun i => (i.hook, i.snap.rnVar, i.snap.sosor, i.snap.eoeor))
    begun = [[], [], [(0, none, .absent, .absent), (1, some 1, .val 1, .empty)], [],
             [(0, none, .val 1, .val 4), (1, some 2, .val 5, .empty)]] := by decide
