/-
  Props/C11 — "A role's state and status are the fold of its subtree".

  Property theorems only (names `C11_*` are the proof obligations counted in the
  evidence file); lemmas live in Proofs/RoleTree.lean.

  Tie to /repo: `Gen.stateXTable` / `Gen.statusXTable` are tabulated on every
  run by evaluating the linked `sm.State.X` / `task.Status.X`; the first two
  theorems identify the hand-written algebra with those tables, so every
  theorem below is about the products the code computes now. The tree model
  (`updState`, `updStatus`, `mergeState`, …) is tied by the correspondence run.
-/
import ControlModel.Gen.StateAlgebra
import ControlModel.Proofs.RoleTree

open RoleTree RoleTree.Forest

/-! ## the algebra the code computes -/

/-- The model's state product IS the tabulated `sm.State.X` (all 64 cells). -/
theorem C11_stateX_is_code (a b : TState) :
    (a.X b).idx = (Gen.stateXTable[a.idx]!)[b.idx]! := by
  cases a <;> cases b <;> decide

/-- The model's status product IS the tabulated `task.Status.X` (all 25 cells). -/
theorem C11_statusX_is_code (a b : TStatus) :
    (a.X b).idx = (Gen.statusXTable[a.idx]!)[b.idx]! := by
  cases a <;> cases b <;> decide

/-- State combination is a commutative, associative, idempotent product in which
    ERROR dominates, INVARIANT ("no opinion") is neutral, and two different
    healthy states give MIXED. -/
theorem C11_state_algebra :
    (∀ a b : TState, a.X b = b.X a) ∧ (∀ a b c : TState, (a.X b).X c = a.X (b.X c)) ∧
    (∀ a : TState, a.X a = a) ∧ (∀ a : TState, a.X .ERROR = .ERROR) ∧ (∀ a : TState, a.X .INVARIANT = a) ∧
    (∀ a b : TState, a ≠ b → a ≠ .ERROR → b ≠ .ERROR → a ≠ .INVARIANT → b ≠ .INVARIANT → a.X b = .MIXED) :=
  ⟨X_comm, X_assoc, X_idem, X_error_right, X_invariant_right,
   by intro a b; cases a <;> cases b <;> simp [TState.X]⟩

/-- Status combination: commutative, associative, idempotent; UNDEFINED absorbs,
    then UNDEPLOYABLE; anything else that differs ("anything missing") is PARTIAL. -/
theorem C11_status_algebra :
    (∀ a b : TStatus, a.X b = b.X a) ∧ (∀ a b c : TStatus, (a.X b).X c = a.X (b.X c)) ∧
    (∀ a : TStatus, a.X a = a) ∧ (∀ a : TStatus, a.X .UNDEFINED = .UNDEFINED) ∧
    (∀ a : TStatus, a ≠ .UNDEFINED → a.X .UNDEPLOYABLE = .UNDEPLOYABLE) ∧
    (∀ a b : TStatus, a ≠ b → a ≠ .UNDEFINED → b ≠ .UNDEFINED → a ≠ .UNDEPLOYABLE → b ≠ .UNDEPLOYABLE → a.X b = .PARTIAL) :=
  ⟨U_comm, U_assoc, U_idem, U_undefined_right,
   by intro a; cases a <;> simp [TStatus.X],
   by intro a b; cases a <;> cases b <;> simp [TStatus.X]⟩

/-! ## sequences of updates -/

theorem run_consistent (f : Forest) (us : List Update) (h : Consistent f) : Consistent (run f us) := by
  induction us generalizing f with
  | nil => exact h
  | cons u us ih =>
    apply ih
    cases u with
    | state p s => exact upd_consistent f _ s h
    | status p s => exact updStatus_keeps_state_consistency f _ s h

theorem run_consistentU (f : Forest) (us : List Update) (h : ConsistentU f) : ConsistentU (run f us) := by
  induction us generalizing f with
  | nil => exact h
  | cons u us ih =>
    apply ih
    cases u with
    | state p s => exact updState_keeps_status_consistency f _ s h
    | status p s => exact updStatus_consistent f _ s h

/-- FULL-STRENGTH statement for state (kept visible; it is FALSE of the code, see
    `C11_finding_barren_aggregator`): from a freshly loaded tree, after any
    sequence of leaf updates every aggregator reports the fold of its critical
    leaf descendants. -/
def C11_state_seq_full : Prop :=
  ∀ (f : Forest) (us : List Update), allInit f = true → stateOk (run f us) = true

/-- What IS proved: the same, for trees in which every aggregator has a critical
    descendant (`noBarren`) — for every tree shape and depth, every update
    sequence of any length, any mix of state and status updates. -/
theorem C11_state_seq_partial (f : Forest) (us : List Update)
    (hinit : allInit f = true) (hnb : noBarren f = true) :
    stateOk (run f us) = true :=
  (consistent_spec _ (run_consistent f us (init_consistent f hinit hnb))).2

/-- …and more generally from ANY locally consistent tree, barren or not: the
    aggregation itself never goes wrong; only the initial STANDBY of an
    aggregator nobody ever updates does. -/
theorem C11_state_seq_from_consistent (f : Forest) (us : List Update) (h : Consistent f) :
    stateOk (run f us) = true :=
  (consistent_spec _ (run_consistent f us h)).2

/-- Status: after any sequence of updates every aggregator reports the status
    fold of ALL its descendants (no criticality filter). Holds for every loaded
    tree (the loader never leaves an aggregator empty). -/
theorem C11_status_seq (f : Forest) (us : List Update)
    (hinit : allInit f = true) (hne : noEmptyAgg f = true) :
    statusOk (run f us) = true :=
  (consistentU_spec _ (run_consistentU f us (init_consistentU f hinit hne))).2

/-- The known finding, machine-checked on the model: an aggregator whose only
    descendant is a non-critical task keeps its initial STANDBY for ever and the
    parent folds it in, so with the one critical task RUNNING the root reports
    MIXED instead of RUNNING. -/
theorem C11_finding_barren_aggregator : ¬ C11_state_seq_full := by
  intro h
  have := h (.agg .STANDBY .INACTIVE
              (.leaf false true .STANDBY .INACTIVE
                (.agg .STANDBY .INACTIVE (.leaf false false .STANDBY .INACTIVE .nil) .nil)) .nil)
            [.state [0] .RUNNING] rfl
  revert this; decide

/-- Non-vacuity: the hypotheses of the partial theorems are met by a real-looking
    tree (root → [critical task, aggregator → [critical call, non-critical task]]). -/
example :
    let f : Forest := .agg .STANDBY .INACTIVE
      (.leaf false true .STANDBY .INACTIVE
        (.agg .STANDBY .INACTIVE (.leaf true true .STANDBY .INACTIVE (.leaf false false .STANDBY .INACTIVE .nil)) .nil)) .nil
    allInit f = true ∧ noBarren f = true ∧ noEmptyAgg f = true := by decide

/-! ## order independence -/

theorem U_left_comm (a b c : TStatus) : a.X (b.X c) = b.X (a.X c) := by
  rw [← U_assoc, ← U_assoc, U_comm a b]


/-- Listing a role's children in another order does not change what the
    property demands of it, for state or status (adjacent swap at any position;
    such swaps generate all permutations). -/
theorem C11_children_order_irrelevant (n : Nat) (f : Forest) :
    specState (swapAt n f) = specState f ∧ specStatus? (swapAt n f) = specStatus? f := by
  induction n generalizing f with
  | zero =>
    cases f with
    | nil => exact ⟨rfl, rfl⟩
    | leaf c1 k1 s1 u1 n1 =>
      cases n1 with
      | nil => exact ⟨rfl, rfl⟩
      | leaf c2 k2 s2 u2 n2 =>
        refine ⟨?_, ?_⟩
        · cases k1 <;> cases k2 <;> simp [swapAt, swapHead, specState]
          rw [← X_assoc, ← X_assoc, X_comm s2 s1]
        · simp only [swapAt, swapHead, specStatus?]
          cases specStatus? n2 <;> dsimp only <;>
            first | exact congrArg some (U_comm _ _) | exact congrArg some (U_left_comm _ _ _)
      | agg s2 u2 kids2 n2 =>
        refine ⟨?_, ?_⟩
        · cases k1 <;> simp [swapAt, swapHead, specState]
          rw [← X_assoc, ← X_assoc, X_comm _ s1]
        · simp only [swapAt, swapHead, specStatus?]
          cases specStatus? n2 <;> dsimp only <;>
            first | exact congrArg some (U_comm _ _) | exact congrArg some (U_left_comm _ _ _)
    | agg s1 u1 kids1 n1 =>
      cases n1 with
      | nil => exact ⟨rfl, rfl⟩
      | leaf c2 k2 s2 u2 n2 =>
        refine ⟨?_, ?_⟩
        · cases k2 <;> simp [swapAt, swapHead, specState]
          rw [← X_assoc, ← X_assoc, X_comm s2]
        · simp only [swapAt, swapHead, specStatus?]
          cases specStatus? n2 <;> dsimp only <;>
            first | exact congrArg some (U_comm _ _) | exact congrArg some (U_left_comm _ _ _)
      | agg s2 u2 kids2 n2 =>
        refine ⟨?_, ?_⟩
        · simp [swapAt, swapHead, specState]
          rw [← X_assoc, ← X_assoc, X_comm (specState kids2)]
        · simp only [swapAt, swapHead, specStatus?]
          cases specStatus? n2 <;> dsimp only <;>
            first | exact congrArg some (U_comm _ _) | exact congrArg some (U_left_comm _ _ _)
  | succ n ih =>
    cases f with
    | nil => exact ⟨rfl, rfl⟩
    | leaf c k s u next =>
      obtain ⟨h1, h2⟩ := ih next
      exact ⟨by simp [swapAt, specState, h1], by simp [swapAt, specStatus?, h2]⟩
    | agg s u kids next =>
      obtain ⟨h1, h2⟩ := ih next
      exact ⟨by simp [swapAt, specState, h1], by simp [swapAt, specStatus?, h2]⟩
