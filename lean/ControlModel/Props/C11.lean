/-
  Props/C11 — "A role's state and status are the fold of its subtree".

  Property theorems only (names `C11_*` are the proof obligations counted in the
  evidence file); lemmas live in Proofs/RoleTree.lean.

  Tie to /repo: `Gen.stateXTable` / `Gen.statusXTable` are tabulated on every
  run by evaluating the linked `sm.State.X` / `task.Status.X`; the first two
  theorems identify the hand-written algebra with those tables, so every
  theorem below is about the products the code computes now. The tree model
  (`updState`, `updStatus`, `mergeState`, …) is tied by the correspondence run.
-/
import ControlModel.Gen.StateAlgebra
import ControlModel.Gen.MergeFacts
import ControlModel.Proofs.RoleTree
import ControlModel.Proofs.RoleTreeConc
import ControlModel.Gen.FoldFacts
import ControlModel.Proofs.RoleTraits

open RoleTree RoleTree.Forest

/-! ## the algebra the code computes -/

/-- The model's state product IS the tabulated `sm.State.X` (all 64 cells). -/
theorem C11_stateX_is_code (a b : TState) :
    (a.X b).idx = (Gen.stateXTable[a.idx]!)[b.idx]! := by
  cases a <;> cases b <;> decide

/-- The model's status product IS the tabulated `task.Status.X` (all 25 cells). -/
theorem C11_statusX_is_code (a b : TStatus) :
    (a.X b).idx = (Gen.statusXTable[a.idx]!)[b.idx]! := by
  cases a <;> cases b <;> decide

/-- State combination is a commutative, associative, idempotent product in which
    ERROR dominates, INVARIANT ("no opinion") is neutral, and two different
    healthy states give MIXED. -/
theorem C11_state_algebra :
    (∀ a b : TState, a.X b = b.X a) ∧ (∀ a b c : TState, (a.X b).X c = a.X (b.X c)) ∧
    (∀ a : TState, a.X a = a) ∧ (∀ a : TState, a.X .ERROR = .ERROR) ∧ (∀ a : TState, a.X .INVARIANT = a) ∧
    (∀ a b : TState, a ≠ b → a ≠ .ERROR → b ≠ .ERROR → a ≠ .INVARIANT → b ≠ .INVARIANT → a.X b = .MIXED) :=
  ⟨X_comm, X_assoc, X_idem, X_error_right, X_invariant_right,
   by intro a b; cases a <;> cases b <;> simp [TState.X]⟩

/-- Status combination: commutative, associative, idempotent; UNDEFINED absorbs,
    then UNDEPLOYABLE; anything else that differs ("anything missing") is PARTIAL. -/
theorem C11_status_algebra :
    (∀ a b : TStatus, a.X b = b.X a) ∧ (∀ a b c : TStatus, (a.X b).X c = a.X (b.X c)) ∧
    (∀ a : TStatus, a.X a = a) ∧ (∀ a : TStatus, a.X .UNDEFINED = .UNDEFINED) ∧
    (∀ a : TStatus, a ≠ .UNDEFINED → a.X .UNDEPLOYABLE = .UNDEPLOYABLE) ∧
    (∀ a b : TStatus, a ≠ b → a ≠ .UNDEFINED → b ≠ .UNDEFINED → a ≠ .UNDEPLOYABLE → b ≠ .UNDEPLOYABLE → a.X b = .PARTIAL) :=
  ⟨U_comm, U_assoc, U_idem, U_undefined_right,
   by intro a; cases a <;> simp [TStatus.X],
   by intro a b; cases a <;> cases b <;> simp [TStatus.X]⟩

/-! ## sequences of updates -/

theorem run_consistent (f : Forest) (us : List Update) (h : Consistent f) : Consistent (run f us) := by
  induction us generalizing f with
  | nil => exact h
  | cons u us ih =>
    apply ih
    cases u with
    | state p s => exact upd_consistent f _ s h
    | status p s => exact updStatus_keeps_state_consistency f _ s h

theorem run_consistentU (f : Forest) (us : List Update) (h : ConsistentU f) : ConsistentU (run f us) := by
  induction us generalizing f with
  | nil => exact h
  | cons u us ih =>
    apply ih
    cases u with
    | state p s => exact updState_keeps_status_consistency f _ s h
    | status p s => exact updStatus_consistent f _ s h

/-- FULL-STRENGTH statement for state (kept visible; it is FALSE of the code, see
    `C11_finding_barren_aggregator`): from a freshly loaded tree, after any
    sequence of leaf updates every aggregator reports the fold of its critical
    leaf descendants. -/
def C11_state_seq_full : Prop :=
  ∀ (f : Forest) (us : List Update), allInit f = true → stateOk (run f us) = true

/-- What IS proved: the same, for trees in which every aggregator has a critical
    descendant (`noBarren`) — for every tree shape and depth, every update
    sequence of any length, any mix of state and status updates. -/
theorem C11_state_seq_partial (f : Forest) (us : List Update)
    (hinit : allInit f = true) (hnb : noBarren f = true) :
    stateOk (run f us) = true :=
  (consistent_spec _ (run_consistent f us (init_consistent f hinit hnb))).2

/-- …and more generally from ANY locally consistent tree, barren or not: the
    aggregation itself never goes wrong; only the initial STANDBY of an
    aggregator nobody ever updates does. -/
theorem C11_state_seq_from_consistent (f : Forest) (us : List Update) (h : Consistent f) :
    stateOk (run f us) = true :=
  (consistent_spec _ (run_consistent f us h)).2

/-- Status: after any sequence of updates every aggregator reports the status
    fold of ALL its descendants (no criticality filter). Holds for every loaded
    tree (the loader never leaves an aggregator empty). -/
theorem C11_status_seq (f : Forest) (us : List Update)
    (hinit : allInit f = true) (hne : noEmptyAgg f = true) :
    statusOk (run f us) = true :=
  (consistentU_spec _ (run_consistentU f us (init_consistentU f hinit hne))).2

/-- The known finding, machine-checked on the model: an aggregator whose only
    descendant is a non-critical task keeps its initial STANDBY for ever and the
    parent folds it in, so with the one critical task RUNNING the root reports
    MIXED instead of RUNNING. -/
theorem C11_finding_barren_aggregator : ¬ C11_state_seq_full := by
  intro h
  have := h (.agg .STANDBY .INACTIVE
              (.leaf false true .STANDBY .INACTIVE
                (.agg .STANDBY .INACTIVE (.leaf false false .STANDBY .INACTIVE .nil) .nil)) .nil)
            [.state [0] .RUNNING] rfl
  revert this; decide

/-- Non-vacuity: the hypotheses of the partial theorems are met by a real-looking
    tree (root → [critical task, aggregator → [critical call, non-critical task]]). -/
example :
    let f : Forest := .agg .STANDBY .INACTIVE
      (.leaf false true .STANDBY .INACTIVE
        (.agg .STANDBY .INACTIVE (.leaf true true .STANDBY .INACTIVE (.leaf false false .STANDBY .INACTIVE .nil)) .nil)) .nil
    allInit f = true ∧ noBarren f = true ∧ noEmptyAgg f = true := by decide

/-! ## order independence -/

theorem U_left_comm (a b c : TStatus) : a.X (b.X c) = b.X (a.X c) := by
  rw [← U_assoc, ← U_assoc, U_comm a b]


/-- Listing a role's children in another order does not change what the
    property demands of it, for state or status (adjacent swap at any position;
    such swaps generate all permutations). -/
theorem C11_children_order_irrelevant (n : Nat) (f : Forest) :
    specState (swapAt n f) = specState f ∧ specStatus? (swapAt n f) = specStatus? f := by
  induction n generalizing f with
  | zero =>
    cases f with
    | nil => exact ⟨rfl, rfl⟩
    | leaf c1 k1 s1 u1 n1 =>
      cases n1 with
      | nil => exact ⟨rfl, rfl⟩
      | leaf c2 k2 s2 u2 n2 =>
        refine ⟨?_, ?_⟩
        · cases k1 <;> cases k2 <;> simp [swapAt, swapHead, specState]
          rw [← X_assoc, ← X_assoc, X_comm s2 s1]
        · simp only [swapAt, swapHead, specStatus?]
          cases specStatus? n2 <;> dsimp only <;>
            first | exact congrArg some (U_comm _ _) | exact congrArg some (U_left_comm _ _ _)
      | agg s2 u2 kids2 n2 =>
        refine ⟨?_, ?_⟩
        · cases k1 <;> simp [swapAt, swapHead, specState]
          rw [← X_assoc, ← X_assoc, X_comm _ s1]
        · simp only [swapAt, swapHead, specStatus?]
          cases specStatus? n2 <;> dsimp only <;>
            first | exact congrArg some (U_comm _ _) | exact congrArg some (U_left_comm _ _ _)
    | agg s1 u1 kids1 n1 =>
      cases n1 with
      | nil => exact ⟨rfl, rfl⟩
      | leaf c2 k2 s2 u2 n2 =>
        refine ⟨?_, ?_⟩
        · cases k2 <;> simp [swapAt, swapHead, specState]
          rw [← X_assoc, ← X_assoc, X_comm s2]
        · simp only [swapAt, swapHead, specStatus?]
          cases specStatus? n2 <;> dsimp only <;>
            first | exact congrArg some (U_comm _ _) | exact congrArg some (U_left_comm _ _ _)
      | agg s2 u2 kids2 n2 =>
        refine ⟨?_, ?_⟩
        · simp [swapAt, swapHead, specState]
          rw [← X_assoc, ← X_assoc, X_comm (specState kids2)]
        · simp only [swapAt, swapHead, specStatus?]
          cases specStatus? n2 <;> dsimp only <;>
            first | exact congrArg some (U_comm _ _) | exact congrArg some (U_left_comm _ _ _)
  | succ n ih =>
    cases f with
    | nil => exact ⟨rfl, rfl⟩
    | leaf c k s u next =>
      obtain ⟨h1, h2⟩ := ih next
      exact ⟨by simp [swapAt, specState, h1], by simp [swapAt, specStatus?, h2]⟩
    | agg s u kids next =>
      obtain ⟨h1, h2⟩ := ih next
      exact ⟨by simp [swapAt, specState, h1], by simp [swapAt, specStatus?, h2]⟩

/-! ## task hooks and the other traits of a task/call role

  Model/RoleTraits.lean: leaves carry what the YAML says about them (task or call, critical,
  hook = non-empty trigger) and the fold, the merge and the two update functions are written after
  the Go code, which receives the whole role. The theorems below are for EVERY tree with ANY mix
  of hooks and basic tasks and EVERY update sequence. Tied to the real roles by the same
  differential runs (hook leaves are loaded from YAML with a `trigger:`), the two conditions the
  model copies from the code by `C11_fold_filter_is_code`. -/

/-- go/ast facts, re-extracted on every run. `aggregateState` asserts the child's type twice
    (`*taskRole`, `*callRole`), leaves the loop body early in exactly two places — a task role that is
    not critical, a call role that is not critical: `skipped` — and combines every other child
    unconditionally; a task/call role calls its parent's `updateState` under `t.Critical == true`
    (`forwards`) and its parent's `updateStatus` unconditionally; `aggregateStatus` leaves no child
    out (its only early exit is the UNDEFINED one of `aggStatusFromT`). No trait other than
    `Critical` (trigger, await, timeout) occurs in any of these conditions. -/
theorem C11_fold_filter_is_code :
    Gen.foldAsserts = [("taskR", "isTaskRole", "c.(*taskRole)"), ("callR", "isCallRole", "c.(*callRole)")] ∧
    Gen.foldSkips = [("len(roles) == 0", "return"), ("isTaskRole && !taskR.Critical", "continue"),
                     ("not(isTaskRole) && isCallRole && !callR.Critical", "continue"), ("", "return")] ∧
    Gen.foldCombines = [("", "s = sm.INVARIANT"), ("", "s = s.X(c.GetState())")] ∧
    Gen.leafForwards = [("*taskRole.updateState: t.Critical == true", "t.parent.updateState(s)"),
                        ("*taskRole.updateStatus: ", "t.parent.updateStatus(s)"),
                        ("*callRole.updateState: t.Critical == true", "t.parent.updateState(s)"),
                        ("*callRole.updateStatus: ", "t.parent.updateStatus(s)")] ∧
    Gen.statusFoldSkips = [("len(roles) == 0", "return"),
                           ("len(roles) > 1 && status == task.UNDEFINED", "return"), ("", "return")] ∧
    Gen.statusFoldCombines = [("len(roles) == 0", "status = task.UNDEFINED"), ("", "status = roles[0].GetStatus()"),
                              ("len(roles) > 1", "status = status.X(c.GetStatus())")] := by
  decide

/-- The trigger plays no role: two trees that differ only in WHICH task/call roles are hooks report
    the same state and status at every role after every update sequence. -/
theorem C11_trigger_irrelevant (f g : TForest) (us : List Update) (h : forget f = forget g) :
    dumpT (runT f us) = dumpT (runT g us) := by
  rw [dumpT_forget, dumpT_forget, runT_forget, runT_forget, h]

/-- State, trees with hooks: from a freshly loaded tree, after any sequence of leaf updates every
    aggregator reports the fold of ALL its critical task/call descendants — critical hooks take part
    like any critical task, non-critical ones do not (`specStateT` never looks at the hook flag).
    Same excluded hypothesis as `C11_state_seq_partial` (finding `barren_aggregator`). -/
theorem C11_state_seq_hooks_partial (f : TForest) (us : List Update)
    (hinit : allInitT f = true) (hnb : noBarrenT f = true) :
    stateOkT (runT f us) = true := by
  rw [stateOkT_forget, runT_forget]
  exact C11_state_seq_partial (forget f) us (allInitT_forget f ▸ hinit) (noBarrenT_forget f ▸ hnb)

/-- …and from any locally consistent tree with hooks. -/
theorem C11_state_seq_hooks_from_consistent (f : TForest) (us : List Update) (h : ConsistentT f) :
    stateOkT (runT f us) = true := by
  rw [stateOkT_forget, runT_forget]
  exact C11_state_seq_from_consistent (forget f) us h

/-- Status, trees with hooks: the fold of all descendants, hooks included. -/
theorem C11_status_seq_hooks (f : TForest) (us : List Update)
    (hinit : allInitT f = true) (hne : noEmptyAggT f = true) :
    statusOkT (runT f us) = true := by
  rw [statusOkT_forget, runT_forget]
  exact C11_status_seq (forget f) us (allInitT_forget f ▸ hinit) (noEmptyAggT_forget f ▸ hne)

/-- Sequential "never lost", for every kind of critical leaf: whenever, after any update sequence, a
    critical task/call role — hook or not — holds ERROR, every aggregator above it (the root in
    particular) reports ERROR; no later update of a sibling can hide it. -/
theorem C11_critical_error_kept (f : TForest) (us : List Update)
    (hinit : allInitT f = true) (hnb : noBarrenT f = true) :
    errKeptT (runT f us) = true :=
  stateOk_errKept _ (C11_state_seq_hooks_partial f us hinit hnb)

/-- What the roles report is a function of what the leaves hold: two update sequences — e.g. the
    same updates to different leaves in another arrival order — that leave the leaves equal leave
    every aggregator's state equal. -/
theorem C11_arrival_order_irrelevant (f : TForest) (us₁ us₂ : List Update)
    (hinit : allInitT f = true) (hnb : noBarrenT f = true)
    (hl : sameLeavesT (runT f us₁) (runT f us₂) = true) :
    (dumpT (runT f us₁)).map (·.1) = (dumpT (runT f us₂)).map (·.1) :=
  sameLeaves_states _ _ hl (C11_state_seq_hooks_partial f us₁ hinit hnb)
    (C11_state_seq_hooks_partial f us₂ hinit hnb)

/-- Non-vacuity and the worked case: root → [agg → [critical task HOOK, critical task], critical task].
    The hook fails and its sibling reports CONFIGURED, in both orders: the hypotheses hold, the
    leaves end equal, and agg and root report ERROR either way (the hook's ERROR first enters through
    the merge shortcut, then has to survive the re-fold the sibling's update causes). -/
example :
    let f : TForest := .agg .STANDBY .INACTIVE
      (.agg .STANDBY .INACTIVE
        (.leaf false ⟨true, true⟩ .STANDBY .INACTIVE (.leaf false ⟨true, false⟩ .STANDBY .INACTIVE .nil))
        (.leaf false ⟨true, false⟩ .STANDBY .INACTIVE .nil)) .nil
    let a : List Update := [.state [0, 0] .ERROR, .state [0, 1] .CONFIGURED]
    let b : List Update := [.state [0, 1] .CONFIGURED, .state [0, 0] .ERROR]
    allInitT f = true ∧ noBarrenT f = true ∧ noEmptyAggT f = true ∧
    sameLeavesT (runT f a) (runT f b) = true ∧ critErrT (runT f a) = true ∧
    (dumpT (runT f a)).map (·.1) = [.ERROR, .ERROR, .ERROR, .CONFIGURED, .STANDBY] ∧
    (dumpT (runT f b)).map (·.1) = [.ERROR, .ERROR, .ERROR, .CONFIGURED, .STANDBY] := by
  decide

/-! ## concurrent delivery: "an ERROR of a critical task is never lost nor invented at the root,
    also when updates arrive concurrently"

  Model/RoleTreeConc.lean: every update is a thread whose atomic steps are the lock-protected
  accesses the Go code makes (write the leaf; take the parent's lock and apply a shortcut or fold
  the children one read at a time and store; read the merged role's state again for ITS parent).
  The theorems below are for EVERY tree, EVERY set of updates and EVERY schedule (any list of
  thread numbers). They start from a configuration in which no thread has started (`allStart`).
  The model is tied to the real roles by the controlled-interleaving runs of
  harness/props/c11/conc.go, its locking discipline by `C11_merge_under_lock_is_code`. -/

open RoleTree.Conc


/-! ## repeated reports and non-uniform presets (seed C11-7)

A role made by `NewAggregatorRole` starts with the zero values (UNDEFINED: nothing folded yet), a loaded role
and every copy an iterator generates with INACTIVE. The code hands EVERY status report of a task/call role
upward — also one that does not change the role — and that is what makes the aggregators above it the fold of
their children whatever they held before. -/

/-- Tie: no update function of a task/call role has a way out before its parent call (no `return`, `break`,
    `continue`, `goto`, `panic` at all), the aggregator's only one is the nil-receiver guard, and the aggregator
    hands on what it holds after its merge whenever it has a parent — no "unchanged, so skip" anywhere.
    (The guards of the leaves' parent calls are pinned by `C11_fold_filter_is_code`.) -/
theorem C11_reports_always_forwarded_is_code :
    Gen.updateExits = [("*aggregatorRole.updateState: r == nil", "return"),
                       ("*aggregatorRole.updateStatus: r == nil", "return")] ∧
    Gen.aggForwards = [("*aggregatorRole.updateState: r.parent != nil", "r.parent.updateState(r.state.get())"),
                       ("*aggregatorRole.updateStatus: r.parent != nil", "r.parent.updateStatus(r.status.get())")] := by
  decide

/-- One status update — possibly REPEATING the leaf's value — on ANY tree in which every aggregator either has
    folded nothing yet or is the fold of its children: afterwards every aggregator above the leaf is the fold of
    what its children report, and the leaf holds the value. -/
theorem C11_status_update_refolds_path (f : TForest) (p : List Nat) (s : TStatus)
    (h : zeroOrFoldT f = true) (hr : reachesLeafT f p = true) :
    pathStatusOkT (updStatusT f p s).1 p = true ∧ (valAtT (updStatusT f p s).1 p).map (·.2) = some s :=
  ⟨updStatusT_refolds_path f p s (zeroOrFold_pathPre f p h) (updStatusT_reaches f p s hr).1,
   (updStatusT_reaches f p s hr).2⟩

/-- "Nothing folded yet or the fold" is kept by every update sequence (state and status, repeats included). -/
theorem C11_zero_or_fold_kept (f : TForest) (us : List Update) (h : zeroOrFoldT f = true) :
    zeroOrFoldT (runT f us) = true := by
  induction us generalizing f with
  | nil => exact h
  | cons u us ih =>
    apply ih
    cases u with
    | state p s => exact updStateT_zeroOrFold f (0 :: p) s h
    | status p s => exact updStatusT_zeroOrFold f (0 :: p) s h

/-- The predicate the driver evaluates on trees with non-uniform presets holds of the model, for EVERY such
    tree and EVERY update sequence: after each status update the path above the leaf is re-folded, after each
    update the leaf holds the value. -/
theorem C11_repeat_spec (f : TForest) (us : List Update) (h : zeroOrFoldT f = true) (hr : reachAllT f us = true) :
    stepsOkT (traceT f us) us = true := by
  induction us generalizing f with
  | nil => simp [traceT, stepsOkT]
  | cons u us ih =>
    obtain ⟨t, ht⟩ := traceT_cons (applyUpdateT f u) us
    show stepsOkT (f :: traceT (applyUpdateT f u) us) (u :: us) = true
    rw [ht]; simp only [stepsOkT, Bool.and_eq_true]; rw [← ht]
    cases u with
    | state p s =>
      simp only [reachAllT, Bool.and_eq_true] at hr
      refine ⟨?_, ih _ (updStateT_zeroOrFold f (0 :: p) s h) hr.2⟩
      simp only [stepOkT, applyUpdateT]
      exact decide_eq_true (updStateT_reaches f (0 :: p) s hr.1)
    | status p s =>
      simp only [reachAllT, Bool.and_eq_true] at hr
      refine ⟨?_, ih _ (updStatusT_zeroOrFold f (0 :: p) s h) hr.2⟩
      simp only [stepOkT, applyUpdateT, Bool.and_eq_true]
      have := C11_status_update_refolds_path f (0 :: p) s h hr.1
      exact ⟨this.1, decide_eq_true this.2⟩

/-- Refutation of the variant "a report that leaves the leaf unchanged is not handed upward"
    (`updStatusSkipT`, NOT the code): a fresh aggregator over one task born INACTIVE, first report INACTIVE —
    the root keeps UNDEFINED although its only child reports INACTIVE; the code (`updStatusT`) gives INACTIVE. -/
theorem C11_skip_unchanged_report_refuted :
    let f : TForest := .agg .UNKNOWN .UNDEFINED (.leaf false ⟨true, false⟩ .STANDBY .INACTIVE .nil) .nil
    zeroOrFoldT f = true ∧ reachesLeafT f [0, 0] = true ∧
    pathStatusOkT (updStatusSkipT f [0, 0] .INACTIVE).1 [0, 0] = false ∧
    pathStatusOkT (updStatusT f [0, 0] .INACTIVE).1 [0, 0] = true ∧
    dumpT (updStatusT f [0, 0] .INACTIVE).1 = [(.UNKNOWN, .INACTIVE), (.STANDBY, .INACTIVE)] := by
  decide

/-- Non-vacuity: root and inner aggregator fresh, two tasks born INACTIVE, each reports INACTIVE, then ACTIVE twice. -/
example :
    let t : TForest := .leaf false ⟨true, false⟩ .STANDBY .INACTIVE (.leaf false ⟨true, true⟩ .STANDBY .INACTIVE .nil)
    let f : TForest := .agg .UNKNOWN .UNDEFINED (.agg .UNKNOWN .UNDEFINED t .nil) .nil
    let us : List Update := [.status [0, 0] .INACTIVE, .status [0, 1] .INACTIVE, .status [0, 0] .ACTIVE,
                             .status [0, 0] .ACTIVE, .status [0, 1] .ACTIVE]
    zeroOrFoldT f = true ∧ reachAllT f us = true ∧ statusOkT f = false ∧ statusOkT (runT f us) = true := by
  decide

/-- go/ast facts, re-extracted on every run: `SafeState.merge` and `SafeStatus.merge` take the
    role's mutex in their first statement, release it by a `defer` in the second, touch the mutex
    nowhere else, and call the re-aggregation of the children inside that body — the whole merge
    (compare, shortcuts, fold, store) is one critical section, which is what `step` assumes. -/
theorem C11_merge_under_lock_is_code :
    Gen.mergeFacts.map (fun f => (f.1, f.2.1, f.2.2.1, f.2.2.2.1, f.2.2.2.2.1, f.2.2.2.2.2.1)) =
      [("core/workflow/safestate.go", "merge", true, true, 0, true),
       ("core/workflow/safestatus.go", "merge", true, true, 0, true)] := by
  decide

/-- Never lost, at every aggregator: when all updates have been delivered, an aggregator one of
    whose children (aggregator or critical task/call) is in ERROR reports ERROR. -/
theorem C11_conc_error_propagates (T : Topo) (c0 : Cfg) (sched : List Nat)
    (hs : allStart T c0 = true) (he : errUp T c0.st = true)
    (hq : quiescent T (exec T c0 sched) = true) :
    errUp T (exec T c0 sched).st = true :=
  NL_quiescent T _ (exec_inv T (NL T) (NL_step T) sched c0 (NL_init T c0 hs he)) hq

/-- Never lost at the root: for every loaded tree, every set of updates and every schedule, once
    all updates have been delivered a critical task in ERROR means the root reports ERROR. -/
theorem C11_conc_error_not_lost (T : Topo) (c0 : Cfg) (sched : List Nat) (hwf : T.wf = true)
    (hs : allStart T c0 = true) (he : errUp T c0.st = true)
    (hq : quiescent T (exec T c0 sched) = true) (l : Nat) (hl : T.crit l = true)
    (herr : (exec T c0 sched).st l = .ERROR) : (exec T c0 sched).st 0 = .ERROR :=
  up_to_root T _ hwf ((errUp_iff T _).mp (C11_conc_error_propagates T c0 sched hs he hq))
    l (crit_lt_len hl) (contrib_of_crit hl) herr

theorem anyErr_false_iff (T : Topo) (st : Nat → TState) :
    anyErr T st = false ↔ ∀ n, T.contrib n = true → st n ≠ .ERROR := by
  simp only [anyErr, List.any_eq_false, List.mem_range, Bool.and_eq_true, beq_iff_eq, not_and]
  constructor
  · intro h n hn
    have hlt : n < T.nodes.length := by
      rcases contrib_cases hn with ha | hc
      · exact agg_lt_len ha
      · exact crit_lt_len hc
    exact h n hlt hn
  · intro h n _ hn
    exact h n hn

/-- Never invented: from a tree in which nothing that counts is in ERROR, at ANY moment of ANY
    schedule (quiescent or not) the root reports ERROR only if at that or an earlier moment some
    critical task/call role was in ERROR. -/
theorem C11_conc_error_not_invented (T : Topo) (c0 : Cfg) (sched : List Nat) (hroot : T.agg 0 = true)
    (hs : allStart T c0 = true) (hclean : anyErr T c0.st = false)
    (herr : (exec T c0 sched).st 0 = .ERROR) :
    ∃ k, k ≤ sched.length ∧ ∃ l, T.crit l = true ∧ (exec T c0 (sched.take k)).st l = .ERROR :=
  not_invented_aux T (contrib_of_agg hroot) sched c0 (PcOk_init T c0 hs)
    (Clean_init T c0 hs ((anyErr_false_iff T c0.st).mp hclean)) herr

/-- …and that ERROR was DELIVERED: one of the updates puts a critical task/call role into ERROR. -/
theorem C11_conc_error_needs_error_update (T : Topo) (c0 : Cfg) (sched : List Nat) (hroot : T.agg 0 = true)
    (hs : allStart T c0 = true) (hclean : anyErr T c0.st = false)
    (herr : (exec T c0 sched).st 0 = .ERROR) : errUpdate T = true := by
  obtain ⟨k, _, l, hl, hst⟩ := C11_conc_error_not_invented T c0 sched hroot hs hclean herr
  have hsrc : LeafSrc T c0.st (exec T c0 (sched.take k)) ∧ PcOk T (exec T c0 (sched.take k)) :=
    exec_inv T (fun c => LeafSrc T c0.st c ∧ PcOk T c)
      (fun c i c' h m => ⟨LeafSrc_step T c0.st c i c' h.2 h.1 m, PcOk_step T c i c' h.2 m⟩)
      (sched.take k) c0 ⟨fun n _ => Or.inl rfl, PcOk_init T c0 hs⟩
  rcases hsrc.1 l (crit_not_agg hl) with h0 | ⟨j, hj⟩
  · exact absurd (h0 ▸ hst) ((anyErr_false_iff T c0.st).mp hclean l (contrib_of_crit hl))
  · rw [hst] at hj
    simp only [errUpdate, List.any_eq_true, Bool.and_eq_true, beq_iff_eq]
    exact ⟨(l, .ERROR), List.mem_of_getElem? hj, hl, rfl⟩

/-- The role's mutex does its job in the model: in every reachable configuration at most one thread
    is folding the children of a given role (this is the step the theorems above rest on: a stale
    fold cannot overwrite a later merge). -/
theorem C11_conc_mutex (T : Topo) (c0 : Cfg) (sched : List Nat) (hs : allStart T c0 = true)
    (j1 j2 : Nat) (h1 : j1 < T.nT) (h2 : j2 < T.nT) (p : Nat) (t1 t2 : List Nat) (a1 a2 : TState)
    (e1 : (exec T c0 sched).pc j1 = .fold p t1 a1) (e2 : (exec T c0 sched).pc j2 = .fold p t2 a2) :
    j1 = j2 :=
  exec_inv T (Mutex T) (Mutex_step T) sched c0 (Mutex_init T c0 hs) j1 j2 h1 h2 p t1 a1 t2 a2 e1 e2

/-- The decidable predicate the harness evaluates on what the REAL roles report when every
    UpdateState has returned (`Conc.concOk`, Spec/C11Conc.lean) holds of the model for every loaded
    tree, every set of updates and every schedule. -/
theorem C11_conc_spec (T : Topo) (c0 : Cfg) (sched : List Nat) (hwf : T.wf = true)
    (hs : allStart T c0 = true) (he : errUp T c0.st = true)
    (hq : quiescent T (exec T c0 sched) = true) :
    concOk T c0.st (exec T c0 sched).st = true := by
  have h1 := C11_conc_error_propagates T c0 sched hs he hq
  have h2 : notLost T (exec T c0 sched).st = true := by
    simp only [notLost, Bool.or_eq_true, Bool.not_eq_true', beq_iff_eq]
    by_cases hc : critLeafErr T (exec T c0 sched).st = true
    · right
      simp only [critLeafErr, List.any_eq_true, List.mem_range, Bool.and_eq_true, beq_iff_eq] at hc
      obtain ⟨l, _, hl, hst⟩ := hc
      exact C11_conc_error_not_lost T c0 sched hwf hs he hq l hl hst
    · left; simpa using hc
  have h3 : notInvented T c0.st (exec T c0 sched).st = true := by
    simp only [notInvented, Bool.or_eq_true, Bool.not_eq_true', beq_eq_false_iff_ne, ne_eq]
    by_cases herr : (exec T c0 sched).st 0 = .ERROR
    · by_cases hclean : anyErr T c0.st = true
      · exact Or.inr hclean
      · exact Or.inl (Or.inr (C11_conc_error_needs_error_update T c0 sched (wf_root T hwf) hs
          (by simpa using hclean) herr))
    · exact Or.inl (Or.inl herr)
  have h4 : leavesOk T c0.st (exec T c0 sched).st = true := by
    have hsrc : LeafSrc T c0.st (exec T c0 sched) ∧ PcOk T (exec T c0 sched) :=
      exec_inv T (fun c => LeafSrc T c0.st c ∧ PcOk T c)
        (fun c i c' h m => ⟨LeafSrc_step T c0.st c i c' h.2 h.1 m, PcOk_step T c i c' h.2 m⟩)
        sched c0 ⟨fun n _ => Or.inl rfl, PcOk_init T c0 hs⟩
    simp only [leavesOk, List.all_eq_true, List.mem_range, Bool.or_eq_true, beq_iff_eq,
      List.any_eq_true, Bool.and_eq_true]
    intro k _
    by_cases ha : T.agg k = true
    · exact Or.inl (Or.inl ha)
    · rcases hsrc.1 k (by simpa using ha) with h0 | ⟨j, hj⟩
      · exact Or.inl (Or.inr h0)
      · exact Or.inr ⟨_, List.mem_of_getElem? hj, rfl, rfl⟩
  simp [concOk, h1, h2, h3, h4]

/-- Non-vacuity and a worked schedule: root → [task B, task A], both critical and RUNNING; thread 0
    moves A to CONFIGURED and is in the middle of its fold (it has read B = RUNNING) when thread 1
    puts B into ERROR; thread 1 is blocked by the root's mutex until thread 0 has stored MIXED, then
    overrides it: the hypotheses of the theorems hold and the root ends in ERROR. -/
example :
    let T : Topo := ⟨[⟨none, true, false⟩, ⟨some 0, false, true⟩, ⟨some 0, false, true⟩],
                    [(2, .CONFIGURED), (1, .ERROR)]⟩
    let c0 : Cfg := ⟨fun _ => .RUNNING, fun _ => .start⟩
    let sched := [0, 0, 0, 1, 1, 0, 0, 1]
    T.wf = true ∧ allStart T c0 = true ∧ errUp T c0.st = true ∧ anyErr T c0.st = false ∧
    quiescent T (exec T c0 sched) = true ∧ (exec T c0 sched).st 1 = .ERROR ∧
    (exec T c0 sched).st 0 = .ERROR ∧ (exec T c0 (sched.take 5)).st 0 = .RUNNING := by
  decide

/-- What is NOT true under concurrency (and why the concurrent clause is about ERROR only): the
    full fold can be stale when everything has been delivered. Root → P → [A, B]; thread 0 (A →
    CONFIGURED) merges P to MIXED and reads that MIXED for the root; thread 1 (B → CONFIGURED)
    then brings P and the root to CONFIGURED; thread 0 finally delivers its stale MIXED to the root
    through the MIXED shortcut. All tasks are CONFIGURED, the root says MIXED. (Model-level fact:
    the harness cannot hold a real goroutine between `r.state.get()` and the parent's lock.) -/
theorem C11_conc_stale_aggregate_possible :
    ∃ (T : Topo) (c0 : Cfg) (sched : List Nat), T.wf = true ∧ allStart T c0 = true ∧
      aggOk T c0.st = true ∧ quiescent T (exec T c0 sched) = true ∧
      aggOk T (exec T c0 sched).st = false :=
  ⟨⟨[⟨none, true, false⟩, ⟨some 0, true, false⟩, ⟨some 1, false, true⟩, ⟨some 1, false, true⟩],
     [(2, .CONFIGURED), (3, .CONFIGURED)]⟩,
   ⟨fun _ => .STANDBY, fun _ => .start⟩,
   [0, 0, 0, 0, 0, 0, 1, 1, 1, 1, 1, 1, 1, 1, 1, 0], by decide⟩
