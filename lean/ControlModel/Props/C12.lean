/-
  Props/C12 — "Each control command gets exactly one answer per target, never
  someone else's".

  Property theorems only; lemmas live in Proofs/CmdQueue.lean, the model in
  Model/CmdQueue.lean, the decidable predicates (`shapeOk`, `ownOrError`, …) that
  the driver also evaluates on the real code's behaviour in Spec/C12.lean.

  Every theorem is quantified over ALL configurations with distinct command ids
  and per-command distinct targets (`wfCfg`) and ALL schedules `sched : List
  Step`: any interleaving of dequeues, caller steps (register, send ok / send
  failure, receive, time out), completions and response arrivals `deliver r`
  for arbitrary `r` — own, duplicate, late, early, foreign id, unknown sender,
  for other commands, in any order. The model does not even enforce the queue
  mutex, so the theorems also cover commands truly in flight at the same time.

  "Within its response timeout": the model has no clock; what is proved is that
  every target is waited for with the command's OWN response timeout (the
  per-target command is the command restricted to that target —
  `C12_single_target_*`, `C12_waits_own_timeout`, `C12_sends_own_timeout`,
  `C12_timer_is_code`), and that a reply processed while its call is pending is
  never lost (`C12_reply_not_lost`).
-/
import ControlModel.Gen.ServentFacts
import ControlModel.Proofs.CmdQueue
import ControlModel.Proofs.CmdHandover
import ControlModel.Proofs.CmdLock
import ControlModel.Proofs.CmdKey

open CmdQueue

/-! ## the code the model is about (go/ast facts, regenerated on every check)

These pin the statements of `Servent` and `consolidateResponses` that the
model's `step` transcribes but that a black-box run cannot fully observe (a
missing `delete` only shows as a leaked goroutine / a growing map). -/

/-- The key is (command id, target) on both sides: `RunCommand` registers
    `CallId{cmd.GetId(), receiver}`, `ProcessResponse` looks up
    `CallId{res.GetCommandId(), sender}` — `keyOf?` / `Resp.key`. -/
theorem C12_key_is_code :
    Gen.C12.callIdFields = ["Id xid.ID", "Target MesosCommandTarget"] ∧
    Gen.C12.runCommandKey = "CallId{ Id: cmdId, Target: receiver, }" ∧
    Gen.C12.processResponseKey = "CallId{ Id: res.GetCommandId(), Target: sender, }" := by decide

/-- `RunCommand`: register under the lock; unregister under the lock on send
    error and on timeout (`finish … true`), and only there; block on exactly
    `call.Done` or the command's response timeout. `ProcessResponse`:
    lookup-and-delete under the lock, then hand over on `call.Done` (`deliver`). -/
theorem C12_servent_is_code :
    Gen.C12.runCommandOps =
      ["s.pending[callId] = call locked=true", "delete(s.pending, callId) locked=true",
       "call.Error = fmt.Errorf(\"%s timed out for task %s\", cmd.GetName(), receiver.TaskId.Value)",
       "delete(s.pending, callId) locked=true"] ∧
    Gen.C12.runCommandSelect = ["<-call.Done", "<-time.After(cmd.GetResponseTimeout())"] ∧
    Gen.C12.processResponseOps =
      ["call, ok := s.pending[callId] locked=true", "delete(s.pending, callId) locked=true",
       "call.Response = res", "call.Done <- empty{}"] := by decide

/-- `consolidateResponses`: 0 ⇒ nil, 1 ⇒ that response, else a multi-response (`consolidate`). -/
theorem C12_consolidate_is_code :
    Gen.C12.consolidateShape =
      ["if len(responses) == 0", "if len(responses) == 1", "return &MesosCommandMultiResponse"] := by decide

/-- Which object is used for what. `commit` makes the per-target command with
    `MakeSingleTarget(receiver)` and hands THAT to `RunCommand`; `RunCommand`
    takes the key's id from it, registers BEFORE it calls the send function,
    hands it to the send function, and arms its timer with ITS response timeout
    (`callCmd`, `keyOf?`, `timerOf`, and the order register → send that
    `C12_reply_not_lost` relies on). -/
theorem C12_timer_is_code :
    Gen.C12.commitCalls =
      ["singleCommand := command.MakeSingleTarget(receiver)",
       "res, err := m.servent.RunCommand(singleCommand, receiver)"] ∧
    Gen.C12.runCommandFlow =
      ["params cmd,receiver", "cmdId := cmd.GetId()", "s.pending[callId] = call",
       "err := s.SendFunc(cmd, receiver)", "case <-call.Done",
       "case <-time.After(cmd.GetResponseTimeout())"] := by decide

/-- The consumer goroutine of `CommandQueue.Start`: an endless loop around a
    one-clause select (no default) that receives from the queue channel; under
    the queue lock `commit`, then the answer goes to the caller's channel in a
    statement of its own — a plain BLOCKING send, no select around it, no default,
    no timeout —, and only then the lock is released and the loop goes round
    (`qstep`: `take c` is the only way out of the hand-over, `start` is disabled
    meanwhile). -/
theorem C12_handover_is_code :
    Gen.C12.startLoop =
      ["for", "select cases=1 default=false", "case entry, more := <-m.q", "m.Lock()",
       "response, err := m.commit(entry.cmd)", "stmt entry.callback <- response", "m.Unlock()"] := by decide

/-- What the model's `singleTarget` yields for a tabulated row. -/
def C12_singleView (id : Nat) (targets : List Nat) (tmo : Nat) (args : List (Nat × Nat)) (recv : Nat) :
    Option (Nat × List Nat × Nat × Nat × Bool) :=
  (singleTarget { id := id, targets := targets, tmo := tmo, args := args } recv).map
    (fun sc => (sc.id, sc.targets, sc.tmo, argOf sc recv, true))

/-- `MakeSingleTarget` as LINKED NOW (evaluated by `vh gen` through the
    Transition and TriggerHook wrappers and on the base, for receivers inside
    and outside the target list, with and without an argument map, with
    default / shorter / longer response timeouts) is the model's `singleTarget`:
    nil outside the target list, otherwise the same id, the same response
    timeout, the one receiver, the receiver's own arguments, and name /
    environment / wrapper fields untouched. -/
theorem C12_single_target_is_code :
    Gen.C12.singleTargetTable.length = 16 ∧
    Gen.C12.singleTargetTable.all (fun row =>
      C12_singleView row.2.1 row.2.2.1 row.2.2.2.1 row.2.2.2.2.1 row.2.2.2.2.2.1 == row.2.2.2.2.2.2) = true := by
  decide

/-- Distinct command ids and distinct targets make the keys of different
    callers different. -/
theorem C12_keys_distinct (cmds : List Cmd) (h : wfCfg cmds = true) (i j : Ref) (k : CallId)
    (hi : keyOf? cmds i = some k) (hj : keyOf? cmds j = some k) : i = j :=
  keyOf_inj h hi hj

/-- The Servent invariant, in every reachable state: an entry of `pending`
    belongs to the one caller with that key, which is between register and
    unregister and has no response yet; conversely such a caller owns exactly
    the entry at its own key. -/
theorem C12_pending_owned (cmds : List Cmd) (h : wfCfg cmds = true) (sched : List Step) :
    let s := run cmds init sched
    (∀ k j, s.pending k = some j → keyOf? cmds j = some k ∧
        ((s.call j).pc = .registered ∨ (s.call j).pc = .waiting) ∧ (s.call j).mailbox = none) ∧
    (∀ i k, keyOf? cmds i = some k → ((s.call i).pc = .registered ∨ (s.call i).pc = .waiting) →
        (s.call i).mailbox = none → s.pending k = some i) := by
  have inv := inv_run1 h sched init (inv_init cmds)
  exact ⟨inv.P, inv.O⟩

/-- Exactly-once, safety half: in every schedule there is at most one callback
    per command; a callback, once delivered, is never retracted or changed by
    anything that happens later; and a caller that has returned keeps its outcome. -/
theorem C12_completes_once (cmds : List Cmd) (h : wfCfg cmds = true) (sched later : List Step) :
    ((run cmds init sched).callbacks.map (·.1)).Nodup ∧
    (∃ extra, (run cmds init (sched ++ later)).callbacks = (run cmds init sched).callbacks ++ extra) ∧
    (∀ i o, ((run cmds init sched).call i).pc = .finished o →
        ((run cmds init (sched ++ later)).call i).pc = .finished o) := by
  obtain ⟨inv, inv2⟩ := inv_run h sched init (inv_init cmds) (inv2_init cmds)
  refine ⟨inv2.CB2, ?_, ?_⟩
  · rw [run_append]; exact callbacks_run later _
  · intro i o hf
    rw [run_append, finished_run h later _ inv i o hf]; exact hf

/-- Liveness as enabledness: for a caller that is waiting, the timeout step is
    always enabled and makes it return "did not answer". -/
theorem C12_timeout_enabled (cmds : List Cmd) (h : wfCfg cmds = true) (sched : List Step) (i : Ref)
    (hw : ((run cmds init sched).call i).pc = .waiting) :
    ((step cmds (run cmds init sched) (.timeout i)).call i).pc = .finished .timeoutErr := by
  have inv := inv_run1 h sched init (inv_init cmds)
  obtain ⟨k, hk⟩ := key_of_active inv i (by rw [hw]; intro e; cases e)
  simp [step, hk, hw, finish]

/-- Exactly-once, liveness half: from ANY reachable state in which a command has
    been dequeued and not answered yet, a schedule made only of steps nobody can
    disable (every caller: register, send, time out; then complete) delivers its
    callback. No arrival pattern can wedge a command. -/
theorem C12_can_always_complete (cmds : List Cmd) (h : wfCfg cmds = true) (sched : List Step)
    (c : Nat) (cmd : Cmd) (hc : cmds[c]? = some cmd)
    (hst : (run cmds init sched).started c = true) (hnc : (run cmds init sched).completed c = false) :
    ∃ more res, (c, res) ∈ (run cmds init (sched ++ more)).callbacks := by
  obtain ⟨inv, inv2⟩ := inv_run h sched init (inv_init cmds) (inv2_init cmds)
  obtain ⟨res, hres⟩ := can_complete h inv inv2 hc hst hnc
  exact ⟨_, res, by rw [run_append]; exact hres⟩

/-- What a caller returns is its own reply or an error, and it has a cause in
    the schedule: a reply `r` is addressed to this caller's (command id, target)
    and was delivered; "could not be sent" needs a failed send of THIS caller;
    "did not answer" needs THIS caller's timeout. -/
theorem C12_call_own_or_error (cmds : List Cmd) (h : wfCfg cmds = true) (sched : List Step) (i : Ref) (o : Outcome)
    (hf : ((run cmds init sched).call i).pc = .finished o) :
    match o with
    | .reply r => keyOf? cmds i = some r.key ∧ Step.deliver r ∈ sched ∧ Step.recv i ∈ sched
    | .sendErr => Step.sendFail i ∈ sched
    | .timeoutErr => Step.timeout i ∈ sched := by
  have inv := inv_run1 h sched init (inv_init cmds)
  rcases outcome_run_cause sched init i o hf with h0 | ⟨h1, h2⟩
  · simp [init] at h0
  · cases o with
    | reply r =>
      refine ⟨inv.F i r hf, ?_, h1⟩
      rcases h2 r rfl with h3 | h3
      · simp [init] at h3
      · exact h3
    | sendErr => exact h1
    | timeoutErr => exact h1

/-- The result delivered on the callback channel holds, for each target, that
    target's own reply or an error synthesised for this command — and each entry
    is the outcome of the caller for exactly that target, with its cause in the
    schedule. -/
theorem C12_own_or_error (cmds : List Cmd) (h : wfCfg cmds = true) (sched : List Step) (c : Nat) (res : Result)
    (hcb : (c, res) ∈ (run cmds init sched).callbacks) :
    ∃ cmd, cmds[c]? = some cmd ∧
      ∀ t e, entryOf cmd res t = some e →
        ownOrError cmd t e = true ∧
        ∃ p, cmd.targets[p]? = some t ∧
          match e with
          | .own r => Step.deliver r ∈ sched ∧ Step.recv (c, p) ∈ sched
          | .synth _ .send => Step.sendFail (c, p) ∈ sched
          | .synth _ .timeout => Step.timeout (c, p) ∈ sched := by
  obtain ⟨inv, inv2⟩ := inv_run h sched init (inv_init cmds) (inv2_init cmds)
  obtain ⟨_, cmd, hc, _, hent⟩ := inv2.CB c res hcb
  refine ⟨cmd, hc, ?_⟩
  intro t e he
  obtain ⟨o, ho, heo⟩ := hent t e he
  obtain ⟨cmd', p, e1, e2, e3⟩ := inv2.S1 c t o ho
  have : cmd' = cmd := by rw [hc] at e1; exact (Option.some.inj e1).symm
  subst this
  have hcause := C12_call_own_or_error cmds h sched (c, p) o e3
  subst heo
  cases o with
  | reply r =>
    simp only at hcause
    have hk := keyOf_of e1 e2
    rw [hcause.1] at hk
    have := Option.some.inj hk
    simp only [Resp.key, CallId.mk.injEq] at this
    exact ⟨by simp [tresp, ownOrError, this.1, this.2], p, e2, hcause.2⟩
  | sendErr => exact ⟨by simp [tresp, ownOrError], p, e2, hcause⟩
  | timeoutErr => exact ⟨by simp [tresp, ownOrError], p, e2, hcause⟩

/-- Shape of every delivered result: nil for a command without targets, the one
    response for one target, and for two or more a multi-response carrying the
    command's id with exactly one own-or-error entry per target (`shapeOk`). -/
theorem C12_result_shape (cmds : List Cmd) (h : wfCfg cmds = true) (sched : List Step) (c : Nat) (res : Result)
    (hcb : (c, res) ∈ (run cmds init sched).callbacks) :
    ∃ cmd, cmds[c]? = some cmd ∧ shapeOk cmd res = true ∧
      (cmd.targets.length = 0 → res = .nil) ∧
      (cmd.targets.length = 1 → ∃ v, res = .single v) ∧
      (2 ≤ cmd.targets.length → ∃ m, res = .multi cmd.id m ∧ m.length = cmd.targets.length) := by
  obtain ⟨_, inv2⟩ := inv_run h sched init (inv_init cmds) (inv2_init cmds)
  obtain ⟨_, cmd, hc, hshape, _⟩ := inv2.CB c res hcb
  refine ⟨cmd, hc, hshape, ?_, ?_, ?_⟩
  · intro h0
    have : cmd.targets = [] := List.eq_nil_of_length_eq_zero h0
    cases res <;> simp_all [shapeOk]
  · intro h1
    cases res with
    | nil => simp [shapeOk] at hshape; simp [hshape] at h1
    | single v => exact ⟨v, rfl⟩
    | multi id m => simp [shapeOk] at hshape; omega
  · intro h2
    cases res with
    | nil => simp [shapeOk] at hshape; simp [hshape] at h2
    | single v =>
      simp only [shapeOk] at hshape
      split at hshape
      · rename_i t ht; simp [ht] at h2
      · cases hshape
    | multi id m =>
      simp [shapeOk] at hshape
      exact ⟨m, by rw [hshape.1.1.1], hshape.1.2⟩

/-- A response whose key matches no pending call changes NOTHING (in any state). -/
theorem C12_foreign_inert (cmds : List Cmd) (s : State) (r : Resp) (hnone : s.pending r.key = none) :
    step cmds s (.deliver r) = s := by
  simp [step, hnone]

/-- A response with a foreign command id or from a sender that is not a target
    of that command is inert in every reachable state. -/
theorem C12_unknown_inert (cmds : List Cmd) (h : wfCfg cmds = true) (sched : List Step) (r : Resp)
    (hunk : ∀ i, keyOf? cmds i ≠ some r.key) :
    step cmds (run cmds init sched) (.deliver r) = run cmds init sched := by
  have inv := inv_run1 h sched init (inv_init cmds)
  apply C12_foreign_inert
  cases hp : (run cmds init sched).pending r.key with
  | none => rfl
  | some j => exact absurd (inv.P _ j hp).1 (hunk j)

/-- Early, duplicate and late responses are inert: if the caller the response is
    addressed to has not registered yet, already has a response, or has already
    returned (reply, send error or timeout), the response changes nothing. -/
theorem C12_dup_late_inert (cmds : List Cmd) (h : wfCfg cmds = true) (sched : List Step) (r : Resp)
    (hstate : ∀ i, keyOf? cmds i = some r.key →
      ((run cmds init sched).call i).pc = .idle ∨
      (∃ o, ((run cmds init sched).call i).pc = .finished o) ∨
      ((run cmds init sched).call i).mailbox ≠ none) :
    step cmds (run cmds init sched) (.deliver r) = run cmds init sched := by
  have inv := inv_run1 h sched init (inv_init cmds)
  apply C12_foreign_inert
  cases hp : (run cmds init sched).pending r.key with
  | none => rfl
  | some j =>
    obtain ⟨hk, hpc, hmb⟩ := inv.P _ j hp
    rcases hstate j hk with h1 | ⟨o, h1⟩ | h1
    · rw [h1] at hpc; cases hpc <;> rename_i x <;> cases x
    · rw [h1] at hpc; cases hpc <;> rename_i x <;> cases x
    · exact absurd hmb h1

/-- `ProcessResponse` touches only the caller that owns the response's key:
    every other caller's `Call` object and every other `pending` entry stay as
    they are. -/
theorem C12_deliver_local (cmds : List Cmd) (h : wfCfg cmds = true) (sched : List Step) (r : Resp) :
    let s := run cmds init sched
    (∀ j, keyOf? cmds j ≠ some r.key → (step cmds s (.deliver r)).call j = s.call j) ∧
    (∀ k, k ≠ r.key → (step cmds s (.deliver r)).pending k = s.pending k) := by
  have inv := inv_run1 h sched init (inv_init cmds)
  refine ⟨?_, ?_⟩
  · intro j hj
    simp only [step]
    split
    · rfl
    · rename_i j' hp
      have : j ≠ j' := by intro e; subst e; exact hj (inv.P _ _ hp).1
      simp [upd, this]
  · intro k hk
    simp only [step]
    split
    · rfl
    · simp [upd, hk]

/-- Never someone else's: what happens to a caller — every state it goes through
    and the outcome it returns — is a function of ITS OWN steps and of the
    responses addressed to ITS OWN (command id, target) alone. Deleting from the
    schedule every step of every other caller and every response with another
    key (other targets, other commands in flight, foreign ids, their duplicates
    and late copies, in whatever order) leaves it unchanged. -/
theorem C12_others_irrelevant (cmds : List Cmd) (h : wfCfg cmds = true) (sched : List Step) (i : Ref) (k : CallId)
    (hk : keyOf? cmds i = some k) :
    (run cmds init sched).call i = (run cmds init (sched.filter (concerns cmds i))).call i :=
  (view_run h hk sched init init (inv_init cmds) ⟨rfl, rfl, rfl⟩).1

/-! ## the per-target command and its response timeout -/

/-- What `MakeSingleTarget` preserves (the model's transcription; identified
    with the linked code by `C12_single_target_is_code`): defined exactly for the
    command's targets; same id, same response timeout, that one target, that
    target's own arguments. -/
theorem C12_single_target_preserves (c : Cmd) (t : Nat) :
    (t ∈ c.targets → ∃ sc, singleTarget c t = some sc) ∧
    (∀ sc, singleTarget c t = some sc →
      t ∈ c.targets ∧ sc.id = c.id ∧ sc.tmo = c.tmo ∧ sc.targets = [t] ∧ argOf sc t = argOf c t) := by
  refine ⟨fun h => ⟨_, singleTarget_of_mem h⟩, ?_⟩
  intro sc h
  obtain ⟨hm, rfl⟩ := singleTarget_some h
  exact ⟨hm, rfl, rfl, rfl, argOf_single _ _ _ _⟩

/-- The servent waits for target `t` with the command's OWN response timeout:
    the command object the caller for (command `c`, target `t`) registers, sends
    and arms its timer with is the command restricted to `t` — same id (so the
    key is (command id, t)), same response timeout, `t`'s own arguments — and
    that is what the send function is handed. -/
theorem C12_waits_own_timeout (cmds : List Cmd) (c p t : Nat) (cmd : Cmd)
    (hc : cmds[c]? = some cmd) (ht : cmd.targets[p]? = some t) :
    ∃ sc, callCmd cmds (c, p) = some (sc, t) ∧
      sc.id = cmd.id ∧ sc.targets = [t] ∧ sc.tmo = cmd.tmo ∧ argOf sc t = argOf cmd t ∧
      keyOf? cmds (c, p) = some ⟨cmd.id, t⟩ ∧ timerOf cmds (c, p) = some cmd.tmo ∧
      ∀ ok, sendView cmds (c, p) ok = some (.send c t ok cmd.tmo (argOf cmd t)) := by
  refine ⟨_, callCmd_of hc ht, rfl, rfl, rfl, argOf_single _ _ _ _, keyOf_of hc ht, ?_, ?_⟩
  · simp [timerOf, callCmd_of hc ht]
  · intro ok; simp [sendView, callCmd_of hc ht, argOf_single]

/-- In every schedule, every call of the send function carries the command's own
    response timeout and the target's own arguments (`sendsOk`, the clause of
    Spec.C12 evaluated on the real code's send calls). -/
theorem C12_sends_own_timeout (cmds : List Cmd) (sched : List Step) :
    sendsOk cmds (sendTrace cmds init sched) = true :=
  sendTrace_ok cmds sched init

/-! ## a reply that arrives while its call is pending is never lost -/

/-- Registration precedes the send. Once the send function for caller `i` has
    been entered (`pre` ends with `i` registered), a reply `r` addressed to `i`'s
    (command id, target) that is processed before `i`'s timeout fires or its send
    fails (`mid`) finds the pending call — unless an earlier reply with the same
    key took it. Whatever happens later (`post`): the caller's `Call` object
    holds such a reply `r'` for good; if the caller returns a reply it is `r'`;
    it can only return "did not answer" through a timeout that fires AFTER the
    hand-over (and then `ProcessResponse(r')` is blocked for ever — it never
    returns), or "could not be sent" through a send failure after it. This is
    `notLostOk` of Spec.C12. -/
theorem C12_reply_not_lost (cmds : List Cmd) (h : wfCfg cmds = true) (pre mid post : List Step) (i : Ref) (r : Resp)
    (hk : keyOf? cmds i = some r.key)
    (hreg : ((run cmds init pre).call i).pc = .registered)
    (hto : Step.timeout i ∉ mid) (hsf : Step.sendFail i ∉ mid)
    (o : Outcome)
    (hfin : ((run cmds init (pre ++ mid ++ .deliver r :: post)).call i).pc = .finished o) :
    ∃ r', Step.deliver r' ∈ pre ++ mid ++ [.deliver r] ∧ r'.key = r.key ∧
      ((run cmds init (pre ++ mid ++ .deliver r :: post)).call i).mailbox = some r' ∧
      match (generalizing := false) o with
      | .reply r'' => r'' = r'
      | .sendErr => Step.sendFail i ∈ post
      | .timeoutErr => Step.timeout i ∈ post := by
  have inv1 := inv_run1 h pre init (inv_init cmds)
  have inv2 := inv_run1 h mid _ inv1
  have inv3 := inv_step h inv2 (.deliver r)
  have hsplit : run cmds init (pre ++ mid ++ .deliver r :: post) =
      run cmds (step cmds (run cmds (run cmds init pre) mid) (.deliver r)) post := by
    rw [run_append, run_append]; rfl
  rw [hsplit] at hfin ⊢
  generalize hs1 : run cmds init pre = s1 at *
  generalize hs2 : run cmds s1 mid = s2 at *
  have hact : Active s1 i := .inl hreg
  have hfill : ((step cmds s2 (.deliver r)).call i).mailbox ≠ none := by
    rcases active_run h mid s1 i inv1 hact hto hsf with ha | hm
    · rw [hs2] at ha; exact deliver_fills inv2 hk ha
    · rw [hs2] at hm
      cases hm' : (s2.call i).mailbox with
      | none => exact absurd hm' hm
      | some r0 => rw [mailbox_stable_step inv2 (.deliver r) i r0 hm']; simp
  generalize hs3 : step cmds s2 (.deliver r) = s3 at *
  cases hm3 : (s3.call i).mailbox with
  | none => exact absurd hm3 hfill
  | some r' =>
    have hmf := mailbox_stable_run h post s3 inv3 i r' hm3
    have hin : Step.deliver r' ∈ pre ++ mid ++ [.deliver r] := by
      have : s3 = run cmds init (pre ++ mid ++ [.deliver r]) := by
        rw [run_append, run_append, hs1, hs2, ← hs3]; rfl
      rw [this] at hm3
      rcases mailbox_run_cause _ init i r' hm3 with h0 | h0
      · simp [init] at h0
      · exact h0
    have hkey : r'.key = r.key := by
      have := (inv3.M i r' hm3).1
      rw [hk] at this
      exact (Option.some.inj this).symm
    refine ⟨r', hin, hkey, hmf, ?_⟩
    have hpc3 : (s3.call i).pc = (s2.call i).pc := by
      rw [← hs3]; simp only [step]; split
      · rfl
      · simp only [upd]; split <;> simp_all
    -- a caller that had already returned when `r` was processed returned a reply
    have early : ∀ o', (s3.call i).pc = .finished o' → ∃ r'', o' = .reply r'' := by
      intro o' hf
      rw [hpc3, ← hs2] at hf
      rcases outcome_run_cause mid s1 i o' hf with h0 | ⟨h0, _⟩
      · rw [hreg] at h0; cases h0
      · cases o' with
        | reply r'' => exact ⟨r'', rfl⟩
        | sendErr => exact absurd h0 hsf
        | timeoutErr => exact absurd h0 hto
    have held : ReplyHeld (run cmds s3 post) := by
      have : run cmds s3 post = run cmds init (pre ++ mid ++ .deliver r :: post) := by
        rw [run_append, run_append, hs1, hs2]; simp only [run]; rw [hs3]
      rw [this]; exact replyHeld_run h _ init (inv_init cmds) replyHeld_init
    cases o with
    | reply r'' =>
      have := held i r'' hfin
      rw [hmf] at this
      exact (Option.some.inj this).symm
    | sendErr =>
      rcases outcome_run_cause post s3 i .sendErr hfin with h0 | ⟨h0, _⟩
      · obtain ⟨r'', hr⟩ := early _ h0; cases hr
      · exact h0
    | timeoutErr =>
      rcases outcome_run_cause post s3 i .timeoutErr hfin with h0 | ⟨h0, _⟩
      · obtain ⟨r'', hr⟩ := early _ h0; cases hr
      · exact h0

/-! ## the hand-over of the answer waits for the caller

`qrun cmds qof qinit qs`: any interleaving of base-layer steps (with `start`
subject to the queue discipline), callers reaching their receive (`listen`),
rendezvous (`take`) and observer probes; `qof` assigns every command its queue. -/

/-- The queue layer only removes behaviours: its states project to states the
    servent/commit layer reaches under some schedule, so every theorem above
    about `run cmds init sched` holds for them too. -/
theorem C12_handover_refines (cmds : List Cmd) (qof : Nat → Nat) (qs : List QStep) :
    ∃ sched, (qrun cmds qof qinit qs).base = run cmds init sched :=
  base_reachable cmds qof qs qinit

/-- A queue waits for its caller. While a command has been dequeued and its
    answer not taken — `commit` still running, or the answer on offer and the
    caller not (yet) receiving — no other command of the same queue is between
    dequeue and hand-over: every other dequeued command of that queue has been
    answered; in particular nothing behind it is committed. -/
theorem C12_queue_waits_for_caller (cmds : List Cmd) (h : wfCfg cmds = true) (qof : Nat → Nat) (qs : List QStep)
    (c c' : Nat) (hne : c ≠ c') (hq : qof c = qof c')
    (hst : (qrun cmds qof qinit qs).base.started c = true) (hnt : (qrun cmds qof qinit qs).taken c = false)
    (hst' : (qrun cmds qof qinit qs).base.started c' = true) :
    (qrun cmds qof qinit qs).taken c' = true ∧
      ∀ p, ((qrun cmds qof qinit qs).base.call (c', p)).pc ≠ .registered ∧
           ((qrun cmds qof qinit qs).base.call (c', p)).pc ≠ .waiting := by
  have inv := qinv_run h qs qinit (qinv_init cmds qof)
  have ht := inv.MX c c' hne hq hst hnt hst'
  refine ⟨ht, fun p => ?_⟩
  obtain ⟨res, hres⟩ := inv.TR c' ht
  exact no_caller_left h inv.I1 inv.I2 (inv.RC c' res hres).2 p

/-- The answer is never dropped, however late the caller listens. Once `commit`
    of `c` has returned `res` (it is in the callback log) and the caller has not
    taken it, NOTHING that happens without the caller's receive — any steps of
    anybody, arrivals of any responses, other callers listening and being
    served, probes — takes it off offer; and when the caller then reaches its
    receive, the rendezvous hands it exactly `res`, and nothing else ever. -/
theorem C12_answer_waits_for_listener (cmds : List Cmd) (h : wfCfg cmds = true) (qof : Nat → Nat)
    (qs later : List QStep) (c : Nat) (res : Result)
    (hcb : (c, res) ∈ (qrun cmds qof qinit qs).base.callbacks)
    (hnt : (qrun cmds qof qinit qs).taken c = false) (hlater : QStep.take c ∉ later) :
    (qrun cmds qof qinit (qs ++ later)).taken c = false ∧
    offered (qrun cmds qof qinit (qs ++ later)) c = some res ∧
    (qrun cmds qof qinit (qs ++ later ++ [.listen c, .take c])).taken c = true ∧
    ∀ res', (c, res') ∈ (qrun cmds qof qinit (qs ++ later ++ [.listen c, .take c])).received ↔ res' = res := by
  have inv := qinv_run h qs qinit (qinv_init cmds qof)
  have hoff : offered (qrun cmds qof qinit qs) c = some res := offered_of_mem inv.I2.CB2 hcb
  obtain ⟨h1, h2⟩ := offered_waits (cmds := cmds) (qof := qof) later _ hoff hnt hlater
  rw [← qrun_append] at h1 h2
  have inv1 := qinv_run h (qs ++ later) qinit (qinv_init cmds qof)
  have hrun : qrun cmds qof qinit (qs ++ later ++ [.listen c, .take c]) =
      qstep cmds qof (qstep cmds qof (qrun cmds qof qinit (qs ++ later)) (.listen c)) (.take c) := by
    rw [qrun_append]; rfl
  rw [hrun]
  have inv3 := qinv_step h (qinv_step h inv1 (.listen c)) (.take c)
  generalize qrun cmds qof qinit (qs ++ later) = s1 at h1 h2 inv1 inv3 ⊢
  have hoff2 : offered (qstep cmds qof s1 (.listen c)) c = some res := offered_step s1 (.listen c) h1
  have h3 : qstep cmds qof (qstep cmds qof s1 (.listen c)) (.take c) =
      { qstep cmds qof s1 (.listen c) with
        taken := upd (qstep cmds qof s1 (.listen c)).taken c true,
        received := (qstep cmds qof s1 (.listen c)).received ++ [(c, res)] } :=
    take_enabled (by simp [qstep]) (by simpa [qstep] using h2) hoff2
  refine ⟨h2, h1, by rw [h3]; simp, ?_⟩
  intro res'
  constructor
  · intro hm
    have hcb' := (inv3.RC c res' hm).2
    have hcb0 : (c, res) ∈ (qstep cmds qof (qstep cmds qof s1 (.listen c)) (.take c)).base.callbacks := by
      rw [h3]; exact offered_mem h1
    have e1 := offered_of_mem inv3.I2.CB2 hcb'
    have e2 := offered_of_mem inv3.I2.CB2 hcb0
    rw [e1] at e2; exact Option.some.inj e2
  · intro e; subst e
    rw [h3]; exact List.mem_append_right _ (List.mem_singleton.mpr rfl)

/-- What an observer of ANY execution of the model records — send calls, callers
    starting to listen, answers arriving, probes of where the consumer is once
    `commit` has returned — satisfies the hand-over clause of Spec.C12
    (`handoverOk`, evaluated by the driver on the real code's trace): an answer
    arrives only at a caller that listens; a probe finds the consumer `held`
    unless the caller has its answer; and while a dequeued command's caller has
    not started to listen, the send function is entered for no other command of
    its queue. `qs` = the queue of each command. -/
theorem C12_handover_ok (cmds : List Cmd) (h : wfCfg cmds = true) (qs : List Nat) (sched : List QStep) :
    handoverOk qs (qtrace cmds (queueOf qs) qinit sched) = true :=
  handover_trace h qs _ sched qinit [] (qinv_init cmds _) traceInv_init

/-! ## the servent mutex and the two leave windows of `RunCommand`

`lrun cfg cmds qof linit ls` (Model/CmdLock): the queue layer refined by the servent
mutex. "The caller stops listening on `call.Done`" (`expire i`: its send returned an
error, or its timer fired) and "the caller removes its entry and returns"
(`unregister i`, under the mutex) are two steps, so a `deliver r` can fall in between:
the entry is still pending, nobody will ever receive. `codeLock` = the code (the mutex is
released before the hand-over on `call.Done`), `deferLock` = `defer s.mu.Unlock()`. -/

/-- What `ProcessResponse` and `RunCommand` do with `s.mu`, and where they can block, as the
    source says NOW: `ProcessResponse` unlocks BEFORE its blocking send on `call.Done` (no
    `defer s.mu.Unlock()` spanning it); `RunCommand` calls the send function and selects
    outside its three critical sections; no blocking operation of the Servent sits inside a
    critical section of `s.mu` — the lock layer's `codeLock`. -/
theorem C12_process_response_lock_is_code :
    Gen.C12.processResponseLock = ["s.mu.Lock()", "s.mu.Unlock()", "send call.Done <- empty{} locked=false"] ∧
    Gen.C12.runCommandLock =
      ["s.mu.Lock()", "s.mu.Unlock()", "call s.SendFunc locked=false", "s.mu.Lock()", "s.mu.Unlock()",
       "select locked=false", "s.mu.Lock()", "s.mu.Unlock()"] ∧
    Gen.C12.lockSpansBlocking = codeLock.lockSpansSend := by decide

/-- The lock layer only removes behaviours and splits steps: its states project to states
    the queue layer reaches and to states the servent/commit layer reaches, under some
    schedule — for either setting of the switch. Every theorem above applies to them. -/
theorem C12_lock_refines (cfg : LockCfg) (cmds : List Cmd) (qof : Nat → Nat) (ls : List LStep) :
    ∃ qs sched, (lrun cfg cmds qof linit ls).q = qrun cmds qof qinit qs ∧
      (lrun cfg cmds qof linit ls).q.base = run cmds init sched := by
  obtain ⟨qs, hqs⟩ := lrun_refines cfg cmds qof ls linit
  obtain ⟨sched, hs⟩ := base_reachable cmds qof qs qinit
  exact ⟨qs, sched, hqs, by rw [hqs]; exact hs⟩

/-- The servent mutex is free whenever anybody is blocked: with the unlock before the
    hand-over, every critical section is one atomic step, so between steps — in particular
    while a `ProcessResponse` is parked in its hand-over, for however long — nobody holds it. -/
theorem C12_lock_free_at_rest (cmds : List Cmd) (qof : Nat → Nat) (ls : List LStep) :
    (lrun codeLock cmds qof linit ls).mu = none :=
  lmu_run_none rfl ls linit rfl

/-- Exactly-once, liveness half, over the REFINED steps: from any reachable state of the
    lock layer — callers inside their leave windows, replies that arrived there and are
    parked for ever, anything in flight — a command that has been dequeued and not answered
    still gets its callback by steps nobody can disable (every caller: register, send, leave,
    unregister; then complete). A reply that meets a caller on its way out wedges nothing. -/
theorem C12_can_always_complete_in_windows (cmds : List Cmd) (h : wfCfg cmds = true) (qof : Nat → Nat)
    (ls : List LStep) (c : Nat) (cmd : Cmd) (hc : cmds[c]? = some cmd)
    (hst : (lrun codeLock cmds qof linit ls).q.base.started c = true)
    (hnc : (lrun codeLock cmds qof linit ls).q.base.completed c = false) :
    ∃ more res, (c, res) ∈ (lrun codeLock cmds qof linit (ls ++ more)).q.base.callbacks := by
  have inv := linv_run h ls linit (linv_init codeLock cmds qof)
  obtain ⟨res, hres⟩ := lcan_complete h rfl inv hc hst hnc
  exact ⟨_, res, by rw [lrun_append]; exact hres⟩

/-- A reply that arrives in a leave window is handed to nobody — and fails nobody. In any
    reachable state in which caller `i` has stopped listening while its entry is still
    pending, `deliver r` for its key: takes the entry; `ProcessResponse(r)` is parked in its
    hand-over for ever (`leaked`, in every continuation) holding no mutex; the caller's state is
    untouched, and its `unregister` returns exactly what it returns without the reply — the
    send error or "timed out". (A goroutine leak per such reply; harmless to every command.) -/
theorem C12_window_reply_leaks_not_fails (cmds : List Cmd) (h : wfCfg cmds = true) (qof : Nat → Nat)
    (ls later : List LStep) (i : Ref) (r : Resp)
    (hl : (lrun codeLock cmds qof linit ls).left i = true)
    (hp : (lrun codeLock cmds qof linit ls).q.base.pending r.key = some i) :
    let s := lrun codeLock cmds qof linit ls
    let s1 := lstep codeLock cmds qof s (.q (.base (.deliver r)))
    s1.mu = none ∧ (s1.q.base.call i).pc = (s.q.base.call i).pc ∧ s1.q.base.pending r.key = none ∧
      r ∈ (lrun codeLock cmds qof s1 later).leaked ∧
      ∃ o, (o = .sendErr ∨ o = .timeoutErr) ∧
        ((lstep codeLock cmds qof s1 (.unregister i)).q.base.call i).pc = .finished o ∧
        ((lstep codeLock cmds qof s (.unregister i)).q.base.call i).pc = .finished o := by
  have inv := linv_run h ls linit (linv_init codeLock cmds qof)
  obtain ⟨h1, h2, _, h4, _, h6, h7⟩ :=
    window_reply (cfg := codeLock) (cmds := cmds) (qof := qof) rfl inv.Q.I1 (inv.MU rfl) hl hp
  exact ⟨h2, h4, h6, leaked_run later _ r h1, h7⟩

/-- Never someone else's, in the refined layer too: whatever happens in the windows — other
    callers leaving, their late replies being parked — caller `i`'s state is a function of
    its own steps and of the responses with its own key in the projected schedule. -/
theorem C12_window_others_irrelevant (cmds : List Cmd) (h : wfCfg cmds = true) (qof : Nat → Nat) (ls : List LStep)
    (i : Ref) (k : CallId) (hk : keyOf? cmds i = some k) :
    ∃ sched, (lrun codeLock cmds qof linit ls).q.base = run cmds init sched ∧
      (lrun codeLock cmds qof linit ls).q.base.call i = (run cmds init (sched.filter (concerns cmds i))).call i := by
  obtain ⟨_, sched, _, hs⟩ := C12_lock_refines codeLock cmds qof ls
  exact ⟨sched, hs, by rw [hs]; exact C12_others_irrelevant cmds h sched i k hk⟩

/-- No goroutine dump ever finds a command wedged: what an observer looking for wedged
    commands records in ANY execution of the lock layer is nothing — the clause `neverStuck`
    of Spec.C12 that the driver evaluates on the real code's trace. -/
theorem C12_never_stuck (cmds : List Cmd) (h : wfCfg cmds = true) (qof : Nat → Nat) (ls : List LStep) :
    stuckTrace codeLock cmds qof linit ls = [] ∧ neverStuck (stuckTrace codeLock cmds qof linit ls) = true := by
  have this : stuckTrace codeLock cmds qof linit ls = [] :=
    stuckTrace_nil h rfl ls linit (linv_init codeLock cmds qof)
  exact ⟨this, by rw [this]; rfl⟩

/-- … and all of this NEEDS the unlock before the hand-over. With `defer s.mu.Unlock()` in
    `ProcessResponse` (`deferLock`): command 0's target answers although the send to it is
    reported as failed — the reply finds the entry still pending, its `ProcessResponse` holds
    the mutex waiting for a receiver that is on its way out and waits for the mutex. The dump
    shows commands 0 AND 1 (another queue, another target) wedged, and in NO continuation does
    either of them ever get a callback. -/
theorem C12_lock_spanning_send_wedges :
    stuckTrace deferLock wedgeCmds id linit (wedgeSched ++ [.look 0, .look 1]) = [.stuck 0, .stuck 1] ∧
    ∀ more, (lrun deferLock wedgeCmds id linit (wedgeSched ++ more)).q.base.callbacks = [] := by
  refine ⟨by decide, ?_⟩
  intro more
  rw [lrun_append]
  exact (wedged_run more _ wedged_witness).CB

/-! ## non-vacuity

Two commands (ids 7 and 9) over targets {1,2,3} / {1}: while command 0 is in
flight its target 1 answers (tag 40) and a duplicate (41) arrives, target 2 is
silent, the send to target 3 fails, a reply for the queued command 1 arrives
early (dropped) and a foreign id (99) shows up; then command 1 runs and gets a
late reply of command 0 plus its own. -/

def C12_demo_cmds : List Cmd := [{ id := 7, targets := [1, 2, 3], tmo := 40, args := [(2, 5)] }, { id := 9, targets := [1] }]

def C12_demo_sched : List Step :=
  [.start 0, .register (0, 0), .register (0, 2), .register (0, 1), .sendOk (0, 0), .sendFail (0, 2),
   .sendOk (0, 1), .deliver ⟨9, 1, 50, false⟩, .deliver ⟨99, 1, 60, false⟩, .deliver ⟨7, 1, 40, false⟩,
   .deliver ⟨7, 1, 41, true⟩, .recv (0, 0), .timeout (0, 1), .complete 0,
   .start 1, .register (1, 0), .sendOk (1, 0), .deliver ⟨7, 1, 42, true⟩, .deliver ⟨9, 1, 51, true⟩,
   .recv (1, 0), .complete 1, .complete 0, .deliver ⟨9, 1, 52, false⟩]

example : wfCfg C12_demo_cmds = true := by decide

example : (run C12_demo_cmds init C12_demo_sched).callbacks =
    [(0, .multi 7 [(3, .synth 7 .send), (1, .own ⟨7, 1, 40, false⟩), (2, .synth 7 .timeout)]),
     (1, .single (.own ⟨9, 1, 51, true⟩))] := by decide

/-- `C12_reply_not_lost` has realistic instances: command 0's caller for target 1
    is inside its send call, an early reply for the queued command 1 is dropped,
    the send returns, target 1's reply arrives and is received. -/
example : ∃ r', Step.deliver r' ∈ [Step.start 0, .register (0, 0)] ++ [.sendOk (0, 0), .deliver ⟨9, 1, 50, false⟩] ++
      [.deliver ⟨7, 1, 40, false⟩] ∧ r'.key = (⟨7, 1, 40, false⟩ : Resp).key ∧ (⟨7, 1, 40, false⟩ : Resp) = r' := by
  obtain ⟨r', h1, h2, _, h4⟩ := C12_reply_not_lost C12_demo_cmds (by decide) [.start 0, .register (0, 0)]
    [.sendOk (0, 0), .deliver ⟨9, 1, 50, false⟩] [.recv (0, 0)] (0, 0) ⟨7, 1, 40, false⟩
    (by decide) (by decide) (by decide) (by decide) (.reply ⟨7, 1, 40, false⟩) (by decide)
  exact ⟨r', h1, h2, h4⟩

/-- Every call of the send function in the demo schedule carries the command's own
    timeout (40 for command 0) and the target's own arguments (5 for target 2). -/
example : sendTrace C12_demo_cmds init C12_demo_sched =
    [.send 0 1 true 40 0, .send 0 3 false 40 0, .send 0 2 true 40 5, .send 1 1 true 0 0] := by decide

/-! What the two new clauses of Spec.C12 reject and accept (one command, id 100,
target 2 with arguments 9, response timeout 30): a send call handed another
timeout; a reply that was looked up while the call was pending — its
`ProcessResponse` returned before the timer could fire — and is nevertheless
reported as a timeout. -/

def C12_demo2 : List Cmd := [{ id := 100, targets := [2], tmo := 30, args := [(2, 9)] }]

example : Spec C12_demo2 [0]
    [.send 0 2 true 30 9, .resp ⟨100, 2, 1, false⟩, .ret ⟨100, 2, 1, false⟩ true,
     .done 0 (.single (.own ⟨100, 2, 1, false⟩))]
    [(0, .single (.own ⟨100, 2, 1, false⟩))] = true := by decide

example : Spec C12_demo2 [0]
    [.send 0 2 true 90000 9, .resp ⟨100, 2, 1, false⟩, .ret ⟨100, 2, 1, false⟩ true,
     .done 0 (.single (.own ⟨100, 2, 1, false⟩))]
    [(0, .single (.own ⟨100, 2, 1, false⟩))] = false := by decide

example : Spec C12_demo2 [0]
    [.send 0 2 true 30 9, .resp ⟨100, 2, 1, false⟩, .ret ⟨100, 2, 1, false⟩ true,
     .done 0 (.single (.synth 100 .timeout))]
    [(0, .single (.synth 100 .timeout))] = false := by decide

/-- … while a reply whose `ProcessResponse` did NOT provably return before the
    timer could fire may have come too late: accepted. -/
example : Spec C12_demo2 [0]
    [.send 0 2 true 30 9, .resp ⟨100, 2, 1, false⟩, .ret ⟨100, 2, 1, false⟩ false,
     .done 0 (.single (.synth 100 .timeout))]
    [(0, .single (.synth 100 .timeout))] = true := by decide


/-! The hand-over. Two commands on ONE queue (ids 7 and 9): command 0's only
target fails at send, so `commit` returns at once — nobody listens yet. The
answer stays on offer while command 1 cannot even be dequeued (`start 1` is a
no-op), a late reply is dropped, the OTHER caller starts to listen; then
command 0's caller listens, takes its answer, and command 1 runs. -/

def C12_demo3 : List Cmd := [{ id := 7, targets := [1] }, { id := 9, targets := [2] }]

def C12_demo3_sched : List QStep :=
  [.base (.start 0), .base (.register (0, 0)), .base (.sendFail (0, 0)), .base (.complete 0), .probe 0,
   .base (.start 1), .base (.register (1, 0)), .base (.deliver ⟨7, 1, 5, false⟩), .listen 1, .take 1, .probe 0,
   .listen 0, .take 0, .probe 0,
   .base (.start 1), .base (.register (1, 0)), .base (.sendOk (1, 0)), .base (.deliver ⟨9, 2, 6, false⟩),
   .base (.recv (1, 0)), .base (.complete 1), .take 1]

example : qtrace C12_demo3 (fun _ => 0) qinit C12_demo3_sched =
    [.send 0 1 false 0 0, .probe 0 .held, .listen 1, .probe 0 .held, .listen 0, .done 0 (.single (.synth 7 .send)),
     .probe 0 .passed, .send 1 2 true 0 0, .done 1 (.single (.own ⟨9, 2, 6, false⟩))] := by decide

example : (qrun C12_demo3 (fun _ => 0) qinit C12_demo3_sched).received =
    [(0, .single (.synth 7 .send)), (1, .single (.own ⟨9, 2, 6, false⟩))] := by decide

/-- … and on two DIFFERENT queues the second command does not wait. -/
example : ((qrun C12_demo3 id qinit (C12_demo3_sched.take 7)).base.call (1, 0)).pc = .registered ∧
    ((qrun C12_demo3 (fun _ => 0) qinit (C12_demo3_sched.take 7)).base.call (1, 0)).pc = .idle := by decide

/-- `C12_answer_waits_for_listener` instantiated: the answer of command 0 is
    on offer after five steps and still is after the next six. -/
example : offered (qrun C12_demo3 (fun _ => 0) qinit (C12_demo3_sched.take 5 ++ (C12_demo3_sched.drop 5).take 6)) 0 =
    some (.single (.synth 7 .send)) :=
  (C12_answer_waits_for_listener C12_demo3 (by decide) (fun _ => 0) (C12_demo3_sched.take 5)
    ((C12_demo3_sched.drop 5).take 6) 0 (.single (.synth 7 .send)) (by decide) (by decide) (by decide)).2.1

/-! What the hand-over clause of Spec.C12 accepts and rejects (one queue; command
0: id 100, target 2 fails at send; command 1: id 101, no targets). -/

def C12_demo4 : List Cmd := [{ id := 100, targets := [2] }, { id := 101, targets := [] }]

/-- accepted: held until the late listener comes, then both answers -/
example : Spec C12_demo4 [0, 0]
    [.send 0 2 false 0 0, .probe 0 .held, .listen 0, .done 0 (.single (.synth 100 .send)), .done 1 .nil]
    [(0, .single (.synth 100 .send)), (1, .nil)] = true := by decide

/-- rejected: the consumer is found idle, nothing ever arrived for command 0 -/
example : Spec C12_demo4 [0, 0]
    [.send 0 2 false 0 0, .done 1 .nil, .probe 0 .idle, .listen 0]
    [(1, .nil)] = false := by decide

example : handoverOk [0, 0] [.send 0 2 false 0 0, .done 1 .nil, .probe 0 .idle, .listen 0] = false := by decide

/-- rejected: a command of the same queue is sent while command 0's caller does not listen yet
    (three commands; command 2 has target 3) — even though every answer arrives in the end -/
example : handoverOk [0, 0, 0]
    [.send 0 2 false 0 0, .send 2 3 true 0 0, .listen 0, .done 0 (.single (.synth 100 .send))] = false := by decide

/-- … which is fine on another queue -/
example : handoverOk [0, 0, 1]
    [.send 0 2 false 0 0, .send 2 3 true 0 0, .listen 0, .done 0 (.single (.synth 100 .send))] = true := by decide


/-! The leave windows (one command, id 100, target 2; lock layer, `codeLock`). The send to
target 2 is reported as failed AFTER the target answered: the reply (tag 1) takes the entry
while the caller is on its way out and is parked; the caller returns its send error, the
command completes; a later look finds nothing wedged. -/

def C12_demo5 : List Cmd := [{ id := 100, targets := [2] }]

def C12_demo5_sched : List LStep :=
  [.q (.base (.start 0)), .q (.base (.register (0, 0))), .expire (0, 0), .q (.base (.deliver ⟨100, 2, 1, false⟩)),
   .look 0, .unregister (0, 0), .q (.base (.complete 0)), .look 0]

example : (lrun codeLock C12_demo5 id linit C12_demo5_sched).q.base.callbacks = [(0, .single (.synth 100 .send))] ∧
    (lrun codeLock C12_demo5 id linit C12_demo5_sched).leaked = [⟨100, 2, 1, false⟩] ∧
    stuckTrace codeLock C12_demo5 id linit C12_demo5_sched = [] := by decide

/-- the same schedule with the mutex held across the hand-over: nothing completes, both looks find command 0 wedged -/
example : (lrun deferLock C12_demo5 id linit C12_demo5_sched).q.base.callbacks = [] ∧
    stuckTrace deferLock C12_demo5 id linit C12_demo5_sched = [.stuck 0, .stuck 0] := by decide

/-- the other window: the timer fires (`expire` from `waiting`), the reply arrives, the caller returns "timed out" -/
example : (lrun codeLock C12_demo5 id linit
      [.q (.base (.start 0)), .q (.base (.register (0, 0))), .q (.base (.sendOk (0, 0))), .expire (0, 0),
       .q (.base (.deliver ⟨100, 2, 1, false⟩)), .unregister (0, 0), .q (.base (.complete 0))]).q.base.callbacks =
    [(0, .single (.synth 100 .timeout))] := by decide

/-- `C12_window_reply_leaks_not_fails` has realistic instances -/
example : ∃ o, (o = Outcome.sendErr ∨ o = .timeoutErr) ∧
    ((lstep codeLock C12_demo5 id (lstep codeLock C12_demo5 id (lrun codeLock C12_demo5 id linit (C12_demo5_sched.take 3))
      (.q (.base (.deliver ⟨100, 2, 1, false⟩)))) (.unregister (0, 0))).q.base.call (0, 0)).pc = .finished o :=
  let ⟨_, _, _, _, o, ho, h1, _⟩ := C12_window_reply_leaks_not_fails C12_demo5 (by decide) id (C12_demo5_sched.take 3) []
    (0, 0) ⟨100, 2, 1, false⟩ (by decide) (by decide)
  ⟨o, ho, h1⟩

/-- What the `neverStuck` clause of Spec.C12 rejects: the scenario ends with the proof that
    command 0 is wedged (and so lacks its callback). -/
example : Spec C12_demo5 [0] [.send 0 2 false 0 0, .resp ⟨100, 2, 1, false⟩, .stuck 0] [] = false := by decide

example : neverStuck [.send 0 2 false 0 0, .resp ⟨100, 2, 1, false⟩, .stuck 0] = false := by decide

/-- … while the same scenario on the code is accepted: the send error, the reply parked. -/
example : Spec C12_demo5 [0]
    [.send 0 2 false 0 0, .resp ⟨100, 2, 1, false⟩, .done 0 (.single (.synth 100 .send))]
    [(0, .single (.synth 100 .send))] = true := by decide

/-! ## several tasks behind one executor (added after seed C12-7)

A target is the triple {agent id, executor id, task id}; the production layout is one
executor per agent with several tasks behind it, so the targets of ONE command usually
share agent id and executor id and differ only in the task id. `Model/CmdKey` makes the
assignment of targets to executors (`ex`, any partition) a parameter and the components
of the target that enter the key of `Servent.pending` a switch: `codeKey` (the whole
target — the code) and `execKey` (agent + executor only — not the code). -/

/-- The two `CallId{…}` literals of the Servent (go/ast) are the configuration `codeKey`:
    the key holds the WHOLE target, task id included, on both sides. -/
theorem C12_key_cfg_is_code :
    keyCfgOf Gen.C12.runCommandKey Gen.C12.processResponseKey = some codeKey := by decide

/-- With the code's key the assignment of targets to executors does not enter at all:
    for EVERY assignment, configuration, state and schedule the keyed model is the model
    all the theorems above are about. -/
theorem C12_executors_irrelevant (ex : Nat → Nat) (cmds : List Cmd) (s : State) (sched : List Step) :
    runK codeKey ex cmds s sched = run cmds s sched := runK_code ex cmds s sched

/-- "Each target gets its own answer or an error of this command", for a key configuration,
    over every assignment of targets to executors. -/
def C12_own_or_error_keyed (kc : KeyCfg) : Prop :=
  ∀ (ex : Nat → Nat) (cmds : List Cmd), wfCfg cmds = true →
    ∀ (sched : List Step) (c : Nat) (res : Result), (c, res) ∈ (runK kc ex cmds init sched).callbacks →
      ∃ cmd, cmds[c]? = some cmd ∧ shapeOk cmd res = true ∧
        ∀ t e, entryOf cmd res t = some e → ownOrError cmd t e = true

/-- The code: for every partition of the targets into executors — all behind one, each on
    its own, anything between —, single and overlapping commands, every schedule: every
    delivered result has exactly one entry per target, the target's own reply or an error
    synthesised for this command. -/
theorem C12_own_or_error_every_partition : C12_own_or_error_keyed codeKey := by
  intro ex cmds h sched c res hcb
  rw [runK_code] at hcb
  obtain ⟨cmd, hc, hall⟩ := C12_own_or_error cmds h sched c res hcb
  obtain ⟨cmd', hc', hshape⟩ := C12_result_shape cmds h sched c res hcb
  have : cmd' = cmd := by rw [hc] at hc'; exact (Option.some.inj hc').symm
  subst this
  exact ⟨cmd', hc, hshape.1, fun t e he => (hall t e he).1⟩

/-- Exactly once, for every partition: at most one callback per command, never retracted or
    altered, and a caller that has returned keeps its outcome. -/
theorem C12_once_every_partition (ex : Nat → Nat) (cmds : List Cmd) (h : wfCfg cmds = true) (sched later : List Step) :
    ((runK codeKey ex cmds init sched).callbacks.map (·.1)).Nodup ∧
    (∃ extra, (runK codeKey ex cmds init (sched ++ later)).callbacks =
        (runK codeKey ex cmds init sched).callbacks ++ extra) ∧
    (∀ i o, ((runK codeKey ex cmds init sched).call i).pc = .finished o →
        ((runK codeKey ex cmds init (sched ++ later)).call i).pc = .finished o) := by
  simp only [runK_code]
  exact C12_completes_once cmds h sched later

/-- Witness: one command to two tasks behind ONE executor; both callers register and
    send, both tasks answer in time, both callers are ready to receive. -/
def C12_two_tasks : List Cmd := [{ id := 100, targets := [0, 1], tmo := 40 }]

def C12_two_tasks_sched : List Step :=
  [.start 0, .register (0, 0), .register (0, 1), .sendOk (0, 0), .sendOk (0, 1),
   .deliver ⟨100, 0, 1, false⟩, .recv (0, 1), .recv (0, 0),
   .deliver ⟨100, 1, 2, false⟩, .recv (0, 1), .timeout (0, 0), .complete 0]

/-- With a key that drops the task id the property is FALSE: the second registration
    overwrites the first, task 0's reply completes the surviving call — task 1 is answered
    with task 0's reply —, task 1's reply finds nothing pending and is dropped, and the
    overwritten call of task 0, which answered in time, times out. -/
theorem C12_exec_key_refuted : ¬ C12_own_or_error_keyed execKey := by
  intro hall
  obtain ⟨cmd, hc, _, h⟩ := hall (fun _ => 7) C12_two_tasks (by decide) C12_two_tasks_sched 0
    (.multi 100 [(1, .own ⟨100, 0, 1, false⟩), (0, .synth 100 .timeout)]) (by decide)
  have hcmd : cmd = { id := 100, targets := [0, 1], tmo := 40 } := by
    simp [C12_two_tasks] at hc; exact hc.symm
  subst hcmd
  exact absurd (h 1 (.own ⟨100, 0, 1, false⟩) (by decide)) (by decide)

example : sharesExecutor (fun _ => 7) { id := 100, targets := [0, 1], tmo := 40 } = true := by decide

/-- the same schedule on the code's key: each task gets its own reply -/
example : (runK codeKey (fun _ => 7) C12_two_tasks init C12_two_tasks_sched).callbacks =
    [(0, .multi 100 [(0, .own ⟨100, 0, 1, false⟩), (1, .own ⟨100, 1, 2, false⟩)])] := by decide

example : (runK execKey (fun _ => 7) C12_two_tasks init C12_two_tasks_sched).callbacks =
    [(0, .multi 100 [(1, .own ⟨100, 0, 1, false⟩), (0, .synth 100 .timeout)])] := by decide

/-- targets on executors of their own: the two-component key is harmless there (why ordinary
    one-task-per-executor use never shows the difference) -/
example : (runK execKey id C12_two_tasks init C12_two_tasks_sched).callbacks =
    (runK codeKey id C12_two_tasks init C12_two_tasks_sched).callbacks := by decide
