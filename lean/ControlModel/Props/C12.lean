/-
  Props/C12 — "Each control command gets exactly one answer per target, never
  someone else's".

  Property theorems only; lemmas live in Proofs/CmdQueue.lean, the model in
  Model/CmdQueue.lean, the decidable predicates (`shapeOk`, `ownOrError`, …) that
  the driver also evaluates on the real code's behaviour in Spec/C12.lean.

  Every theorem is quantified over ALL configurations with distinct command ids
  and per-command distinct targets (`wfCfg`) and ALL schedules `sched : List
  Step`: any interleaving of dequeues, caller steps (register, send ok / send
  failure, receive, time out), completions and response arrivals `deliver r`
  for arbitrary `r` — own, duplicate, late, early, foreign id, unknown sender,
  for other commands, in any order. The model does not even enforce the queue
  mutex, so the theorems also cover commands truly in flight at the same time.
-/
import ControlModel.Gen.ServentFacts
import ControlModel.Proofs.CmdQueue

open CmdQueue

/-! ## the code the model is about (go/ast facts, regenerated on every check)

These pin the statements of `Servent` and `consolidateResponses` that the
model's `step` transcribes but that a black-box run cannot fully observe (a
missing `delete` only shows as a leaked goroutine / a growing map). -/

/-- The key is (command id, target) on both sides: `RunCommand` registers
    `CallId{cmd.GetId(), receiver}`, `ProcessResponse` looks up
    `CallId{res.GetCommandId(), sender}` — `keyOf?` / `Resp.key`. -/
theorem C12_key_is_code :
    Gen.C12.callIdFields = ["Id xid.ID", "Target MesosCommandTarget"] ∧
    Gen.C12.runCommandKey = "CallId{ Id: cmdId, Target: receiver, }" ∧
    Gen.C12.processResponseKey = "CallId{ Id: res.GetCommandId(), Target: sender, }" := by decide

/-- `RunCommand`: register under the lock; unregister under the lock on send
    error and on timeout (`finish … true`), and only there; block on exactly
    `call.Done` or the command's response timeout. `ProcessResponse`:
    lookup-and-delete under the lock, then hand over on `call.Done` (`deliver`). -/
theorem C12_servent_is_code :
    Gen.C12.runCommandOps =
      ["s.pending[callId] = call locked=true", "delete(s.pending, callId) locked=true",
       "call.Error = fmt.Errorf(\"%s timed out for task %s\", cmd.GetName(), receiver.TaskId.Value)",
       "delete(s.pending, callId) locked=true"] ∧
    Gen.C12.runCommandSelect = ["<-call.Done", "<-time.After(cmd.GetResponseTimeout())"] ∧
    Gen.C12.processResponseOps =
      ["call, ok := s.pending[callId] locked=true", "delete(s.pending, callId) locked=true",
       "call.Response = res", "call.Done <- empty{}"] := by decide

/-- `consolidateResponses`: 0 ⇒ nil, 1 ⇒ that response, else a multi-response (`consolidate`). -/
theorem C12_consolidate_is_code :
    Gen.C12.consolidateShape =
      ["if len(responses) == 0", "if len(responses) == 1", "return &MesosCommandMultiResponse"] := by decide

/-- Distinct command ids and distinct targets make the keys of different
    callers different. -/
theorem C12_keys_distinct (cmds : List Cmd) (h : wfCfg cmds = true) (i j : Ref) (k : CallId)
    (hi : keyOf? cmds i = some k) (hj : keyOf? cmds j = some k) : i = j :=
  keyOf_inj h hi hj

/-- The Servent invariant, in every reachable state: an entry of `pending`
    belongs to the one caller with that key, which is between register and
    unregister and has no response yet; conversely such a caller owns exactly
    the entry at its own key. -/
theorem C12_pending_owned (cmds : List Cmd) (h : wfCfg cmds = true) (sched : List Step) :
    let s := run cmds init sched
    (∀ k j, s.pending k = some j → keyOf? cmds j = some k ∧
        ((s.call j).pc = .registered ∨ (s.call j).pc = .waiting) ∧ (s.call j).mailbox = none) ∧
    (∀ i k, keyOf? cmds i = some k → ((s.call i).pc = .registered ∨ (s.call i).pc = .waiting) →
        (s.call i).mailbox = none → s.pending k = some i) := by
  have inv := inv_run1 h sched init (inv_init cmds)
  exact ⟨inv.P, inv.O⟩

/-- Exactly-once, safety half: in every schedule there is at most one callback
    per command; a callback, once delivered, is never retracted or changed by
    anything that happens later; and a caller that has returned keeps its outcome. -/
theorem C12_completes_once (cmds : List Cmd) (h : wfCfg cmds = true) (sched later : List Step) :
    ((run cmds init sched).callbacks.map (·.1)).Nodup ∧
    (∃ extra, (run cmds init (sched ++ later)).callbacks = (run cmds init sched).callbacks ++ extra) ∧
    (∀ i o, ((run cmds init sched).call i).pc = .finished o →
        ((run cmds init (sched ++ later)).call i).pc = .finished o) := by
  obtain ⟨inv, inv2⟩ := inv_run h sched init (inv_init cmds) (inv2_init cmds)
  refine ⟨inv2.CB2, ?_, ?_⟩
  · rw [run_append]; exact callbacks_run later _
  · intro i o hf
    rw [run_append, finished_run h later _ inv i o hf]; exact hf

/-- Liveness as enabledness: for a caller that is waiting, the timeout step is
    always enabled and makes it return "did not answer". -/
theorem C12_timeout_enabled (cmds : List Cmd) (h : wfCfg cmds = true) (sched : List Step) (i : Ref)
    (hw : ((run cmds init sched).call i).pc = .waiting) :
    ((step cmds (run cmds init sched) (.timeout i)).call i).pc = .finished .timeoutErr := by
  have inv := inv_run1 h sched init (inv_init cmds)
  obtain ⟨k, hk⟩ := key_of_active inv i (by rw [hw]; intro e; cases e)
  simp [step, hk, hw, finish]

/-- Exactly-once, liveness half: from ANY reachable state in which a command has
    been dequeued and not answered yet, a schedule made only of steps nobody can
    disable (every caller: register, send, time out; then complete) delivers its
    callback. No arrival pattern can wedge a command. -/
theorem C12_can_always_complete (cmds : List Cmd) (h : wfCfg cmds = true) (sched : List Step)
    (c : Nat) (cmd : Cmd) (hc : cmds[c]? = some cmd)
    (hst : (run cmds init sched).started c = true) (hnc : (run cmds init sched).completed c = false) :
    ∃ more res, (c, res) ∈ (run cmds init (sched ++ more)).callbacks := by
  obtain ⟨inv, inv2⟩ := inv_run h sched init (inv_init cmds) (inv2_init cmds)
  obtain ⟨res, hres⟩ := can_complete h inv inv2 hc hst hnc
  exact ⟨_, res, by rw [run_append]; exact hres⟩

/-- What a caller returns is its own reply or an error, and it has a cause in
    the schedule: a reply `r` is addressed to this caller's (command id, target)
    and was delivered; "could not be sent" needs a failed send of THIS caller;
    "did not answer" needs THIS caller's timeout. -/
theorem C12_call_own_or_error (cmds : List Cmd) (h : wfCfg cmds = true) (sched : List Step) (i : Ref) (o : Outcome)
    (hf : ((run cmds init sched).call i).pc = .finished o) :
    match o with
    | .reply r => keyOf? cmds i = some r.key ∧ Step.deliver r ∈ sched ∧ Step.recv i ∈ sched
    | .sendErr => Step.sendFail i ∈ sched
    | .timeoutErr => Step.timeout i ∈ sched := by
  have inv := inv_run1 h sched init (inv_init cmds)
  rcases outcome_run_cause sched init i o hf with h0 | ⟨h1, h2⟩
  · simp [init] at h0
  · cases o with
    | reply r =>
      refine ⟨inv.F i r hf, ?_, h1⟩
      rcases h2 r rfl with h3 | h3
      · simp [init] at h3
      · exact h3
    | sendErr => exact h1
    | timeoutErr => exact h1

/-- The result delivered on the callback channel holds, for each target, that
    target's own reply or an error synthesised for this command — and each entry
    is the outcome of the caller for exactly that target, with its cause in the
    schedule. -/
theorem C12_own_or_error (cmds : List Cmd) (h : wfCfg cmds = true) (sched : List Step) (c : Nat) (res : Result)
    (hcb : (c, res) ∈ (run cmds init sched).callbacks) :
    ∃ cmd, cmds[c]? = some cmd ∧
      ∀ t e, entryOf cmd res t = some e →
        ownOrError cmd t e = true ∧
        ∃ p, cmd.targets[p]? = some t ∧
          match e with
          | .own r => Step.deliver r ∈ sched ∧ Step.recv (c, p) ∈ sched
          | .synth _ .send => Step.sendFail (c, p) ∈ sched
          | .synth _ .timeout => Step.timeout (c, p) ∈ sched := by
  obtain ⟨inv, inv2⟩ := inv_run h sched init (inv_init cmds) (inv2_init cmds)
  obtain ⟨_, cmd, hc, _, hent⟩ := inv2.CB c res hcb
  refine ⟨cmd, hc, ?_⟩
  intro t e he
  obtain ⟨o, ho, heo⟩ := hent t e he
  obtain ⟨cmd', p, e1, e2, e3⟩ := inv2.S1 c t o ho
  have : cmd' = cmd := by rw [hc] at e1; exact (Option.some.inj e1).symm
  subst this
  have hcause := C12_call_own_or_error cmds h sched (c, p) o e3
  subst heo
  cases o with
  | reply r =>
    simp only at hcause
    have hk := keyOf_of e1 e2
    rw [hcause.1] at hk
    have := Option.some.inj hk
    simp only [Resp.key, CallId.mk.injEq] at this
    exact ⟨by simp [tresp, ownOrError, this.1, this.2], p, e2, hcause.2⟩
  | sendErr => exact ⟨by simp [tresp, ownOrError], p, e2, hcause⟩
  | timeoutErr => exact ⟨by simp [tresp, ownOrError], p, e2, hcause⟩

/-- Shape of every delivered result: nil for a command without targets, the one
    response for one target, and for two or more a multi-response carrying the
    command's id with exactly one own-or-error entry per target (`shapeOk`). -/
theorem C12_result_shape (cmds : List Cmd) (h : wfCfg cmds = true) (sched : List Step) (c : Nat) (res : Result)
    (hcb : (c, res) ∈ (run cmds init sched).callbacks) :
    ∃ cmd, cmds[c]? = some cmd ∧ shapeOk cmd res = true ∧
      (cmd.targets.length = 0 → res = .nil) ∧
      (cmd.targets.length = 1 → ∃ v, res = .single v) ∧
      (2 ≤ cmd.targets.length → ∃ m, res = .multi cmd.id m ∧ m.length = cmd.targets.length) := by
  obtain ⟨_, inv2⟩ := inv_run h sched init (inv_init cmds) (inv2_init cmds)
  obtain ⟨_, cmd, hc, hshape, _⟩ := inv2.CB c res hcb
  refine ⟨cmd, hc, hshape, ?_, ?_, ?_⟩
  · intro h0
    have : cmd.targets = [] := List.eq_nil_of_length_eq_zero h0
    cases res <;> simp_all [shapeOk]
  · intro h1
    cases res with
    | nil => simp [shapeOk] at hshape; simp [hshape] at h1
    | single v => exact ⟨v, rfl⟩
    | multi id m => simp [shapeOk] at hshape; omega
  · intro h2
    cases res with
    | nil => simp [shapeOk] at hshape; simp [hshape] at h2
    | single v =>
      simp only [shapeOk] at hshape
      split at hshape
      · rename_i t ht; simp [ht] at h2
      · cases hshape
    | multi id m =>
      simp [shapeOk] at hshape
      exact ⟨m, by rw [hshape.1.1.1], hshape.1.2⟩

/-- A response whose key matches no pending call changes NOTHING (in any state). -/
theorem C12_foreign_inert (cmds : List Cmd) (s : State) (r : Resp) (hnone : s.pending r.key = none) :
    step cmds s (.deliver r) = s := by
  simp [step, hnone]

/-- A response with a foreign command id or from a sender that is not a target
    of that command is inert in every reachable state. -/
theorem C12_unknown_inert (cmds : List Cmd) (h : wfCfg cmds = true) (sched : List Step) (r : Resp)
    (hunk : ∀ i, keyOf? cmds i ≠ some r.key) :
    step cmds (run cmds init sched) (.deliver r) = run cmds init sched := by
  have inv := inv_run1 h sched init (inv_init cmds)
  apply C12_foreign_inert
  cases hp : (run cmds init sched).pending r.key with
  | none => rfl
  | some j => exact absurd (inv.P _ j hp).1 (hunk j)

/-- Early, duplicate and late responses are inert: if the caller the response is
    addressed to has not registered yet, already has a response, or has already
    returned (reply, send error or timeout), the response changes nothing. -/
theorem C12_dup_late_inert (cmds : List Cmd) (h : wfCfg cmds = true) (sched : List Step) (r : Resp)
    (hstate : ∀ i, keyOf? cmds i = some r.key →
      ((run cmds init sched).call i).pc = .idle ∨
      (∃ o, ((run cmds init sched).call i).pc = .finished o) ∨
      ((run cmds init sched).call i).mailbox ≠ none) :
    step cmds (run cmds init sched) (.deliver r) = run cmds init sched := by
  have inv := inv_run1 h sched init (inv_init cmds)
  apply C12_foreign_inert
  cases hp : (run cmds init sched).pending r.key with
  | none => rfl
  | some j =>
    obtain ⟨hk, hpc, hmb⟩ := inv.P _ j hp
    rcases hstate j hk with h1 | ⟨o, h1⟩ | h1
    · rw [h1] at hpc; cases hpc <;> rename_i x <;> cases x
    · rw [h1] at hpc; cases hpc <;> rename_i x <;> cases x
    · exact absurd hmb h1

/-- `ProcessResponse` touches only the caller that owns the response's key:
    every other caller's `Call` object and every other `pending` entry stay as
    they are. -/
theorem C12_deliver_local (cmds : List Cmd) (h : wfCfg cmds = true) (sched : List Step) (r : Resp) :
    let s := run cmds init sched
    (∀ j, keyOf? cmds j ≠ some r.key → (step cmds s (.deliver r)).call j = s.call j) ∧
    (∀ k, k ≠ r.key → (step cmds s (.deliver r)).pending k = s.pending k) := by
  have inv := inv_run1 h sched init (inv_init cmds)
  refine ⟨?_, ?_⟩
  · intro j hj
    simp only [step]
    split
    · rfl
    · rename_i j' hp
      have : j ≠ j' := by intro e; subst e; exact hj (inv.P _ _ hp).1
      simp [upd, this]
  · intro k hk
    simp only [step]
    split
    · rfl
    · simp [upd, hk]

/-- Never someone else's: what happens to a caller — every state it goes through
    and the outcome it returns — is a function of ITS OWN steps and of the
    responses addressed to ITS OWN (command id, target) alone. Deleting from the
    schedule every step of every other caller and every response with another
    key (other targets, other commands in flight, foreign ids, their duplicates
    and late copies, in whatever order) leaves it unchanged. -/
theorem C12_others_irrelevant (cmds : List Cmd) (h : wfCfg cmds = true) (sched : List Step) (i : Ref) (k : CallId)
    (hk : keyOf? cmds i = some k) :
    (run cmds init sched).call i = (run cmds init (sched.filter (concerns cmds i))).call i :=
  (view_run h hk sched init init (inv_init cmds) ⟨rfl, rfl, rfl⟩).1

/-! ## non-vacuity

Two commands (ids 7 and 9) over targets {1,2,3} / {1}: while command 0 is in
flight its target 1 answers (tag 40) and a duplicate (41) arrives, target 2 is
silent, the send to target 3 fails, a reply for the queued command 1 arrives
early (dropped) and a foreign id (99) shows up; then command 1 runs and gets a
late reply of command 0 plus its own. -/

def C12_demo_cmds : List Cmd := [⟨7, [1, 2, 3]⟩, ⟨9, [1]⟩]

def C12_demo_sched : List Step :=
  [.start 0, .register (0, 0), .register (0, 2), .register (0, 1), .sendOk (0, 0), .sendFail (0, 2),
   .sendOk (0, 1), .deliver ⟨9, 1, 50, false⟩, .deliver ⟨99, 1, 60, false⟩, .deliver ⟨7, 1, 40, false⟩,
   .deliver ⟨7, 1, 41, true⟩, .recv (0, 0), .timeout (0, 1), .complete 0,
   .start 1, .register (1, 0), .sendOk (1, 0), .deliver ⟨7, 1, 42, true⟩, .deliver ⟨9, 1, 51, true⟩,
   .recv (1, 0), .complete 1, .complete 0, .deliver ⟨9, 1, 52, false⟩]

example : wfCfg C12_demo_cmds = true := by decide

example : (run C12_demo_cmds init C12_demo_sched).callbacks =
    [(0, .multi 7 [(3, .synth 7 .send), (1, .own ⟨7, 1, 40, false⟩), (2, .synth 7 .timeout)]),
     (1, .single (.own ⟨9, 1, 51, true⟩))] := by decide
