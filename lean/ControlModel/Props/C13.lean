/-
  Props/C13 — "Outbound channels connect to where the matching inbound channel was bound".

  Property theorems only; lemmas live in Proofs/Channels.lean, the model in
  Model/Channels.lean, the decidable predicates in Spec/C13.lean.

  All theorems quantify over ALL lists of launched tasks (any number of tasks,
  channels, aliases, hosts; any local bind maps) — `WF` collects what the launch
  guarantees and what a loadable workflow satisfies:
    launchOk      the postcondition of makeTaskForMesosResources (checked on every
                  correspondence case against the real function, see Driver/C13),
    validHost     hostnames are non-empty and not `*`,
    namesDistinct channel names are unique within a task,
    keysSane      a `path:channel` key never looks like a `::alias`.
  Tie to /repo: the correspondence run drives the real role/class unmarshallers,
  GenerateTaskDescriptors, makeTaskForMesosResources and configureTasks.

  `configure` = `configureWith codeCfg` is the code as it is: before a task's local bind
  map is used, configureTasks goes through the task's channel declarations and rejects
  two channels naming one global alias (`aliasScan`). `legacyCfg` is the code before that
  repair (aliases de-duplicated across local bind maps only); the refutation
  `C13_finding_alias_redefined_within_task` is a statement about `legacyCfg`.

  Section "the whole property map": the executor receives ONE map — common properties, the task
  template's `properties:` block, the generated channel keys. `configureP` = `configurePWith codeCfg`
  models all of it (`buildPMap`: the loops of BuildPropertyMap literally); `Cfg.generatedLast` is the
  order of the two steps (declared properties first, generated keys last = the code,
  `C13_property_order_is_code`); theorems: a generated key never depends on what the template
  declares, every declared key that is not a key of one of the task's channels arrives unchanged, the
  map tells every channel what the channel-level model (`configure`) says, and so the model meets
  `SpecP` — the Spec the Driver evaluates on the real maps — for ALL task lists and property blocks.

  Last section: workflows with ITERATORS (targets and aliases are expressions; one
  generated role per value of a range): `expand` — each generated role resolves its
  OWN copy of the declarations against its OWN variables — and the theorems that
  instance i's declarations are the template instantiated with i's variables,
  independent of the sibling instances and of the order in which roles are processed;
  tie: the correspondence run loads rendered templates with the real ProcessTemplates
  under all settings of the loader's concurrency switches.
-/
import ControlModel.Proofs.Channels
import ControlModel.Proofs.ChannelsPMap
import ControlModel.Gen.C13Facts

open Channels

/-! ## the configuration of the model is the code -/

/-- `codeCfg` is what configureTasks does NOW (go/ast over core/task/manager.go, regenerated on every
    check): inside the loop over the tasks, before a task's local bind map is read, a loop over the
    task's channel declarations returns the "illegal redefinition of global channel alias" error for
    a channel whose alias another channel (another name) of the same task has claimed. Breaks if the
    check is removed, moved behind the bind-map loop or loses its guard. The exact behaviour of the
    loop (`aliasScan`) is tied by the differential run. -/
theorem C13_alias_check_is_code : codeCfg.aliasPerTask = Gen.C13.declaredAliasesCheckedPerTask := by decide

/-! ## what an address looks like -/

/-- The address an outbound channel gets for a TCP binder is `tcp://<binder host>:<allocated port>`,
    for an IPC binder the allocated path; the inbound side binds `tcp://*:<same port>` / the same path. -/
theorem C13_address_shape (h x : String) (p : Nat) (tr : Transport) (path : String) (hv : validHost h = true) :
    ((Endpoint.tcp x p tr).toTarget h).address = "tcp://" ++ h ++ ":" ++ toString p ∧
    (Endpoint.tcp x p tr).toBound.address = "tcp://*:" ++ toString p ∧
    ((Endpoint.ipc path tr).toTarget h).address = "ipc://" ++ path ∧
    (Endpoint.ipc path tr).toBound.address = "ipc://" ++ path := by
  simp only [validHost, Bool.and_eq_true, Bool.not_eq_true', bne_iff_ne, ne_eq] at hv
  refine ⟨?_, ?_, rfl, rfl⟩
  · simp [Endpoint.toTarget, Endpoint.address, hv.1, hv.2]
  · simp [Endpoint.toBound, Endpoint.address]

/-! ## clause 1: matched targets -/

/-- What IS proved, for every workflow: an outbound channel whose target is a
    `path:channel` key or a `::alias` that some task advertises is sent
    `method = connect`, `address = host(binder) + allocated port` (or the IPC
    path) and the INBOUND side's transport; the inbound channel behind that entry
    has that endpoint in its task's local bind map and — if it was declared
    without a `target` of its own — is sent `method = bind` with exactly that
    endpoint (`tcp://*:port` / the same IPC path) and the same transport. -/
theorem C13_matched (tasks : List Task) (res : List Props) (hwf : WF tasks)
    (h : configure tasks = .ok res) : Matched true tasks res := by
  obtain ⟨bm, hb, hm⟩ := configure_ok h
  obtain ⟨_, hzip, hex⟩ := mapE_ok hm
  intro p hp o ho hne
  have htp := hzip p hp
  have hpt : p.1 ∈ tasks := (List.of_mem_zip hp).1
  obtain ⟨_, _, hnd⟩ := hwf.1 p.1 hpt
  unfold namesDistinct at hnd
  have hndo : (p.1.outbound.map Outbound.name).Nodup := (List.nodup_append.mp hnd).2.1
  unfold taskProps at htp
  obtain ⟨en, hen, hget⟩ := addOut_mem htp hndo ho
  unfold outboundFMQ at hen
  rw [hne] at hen
  simp only [Bool.false_eq_true, if_false] at hen
  split at hen
  · rename_i e hge
    cases hen
    rcases build_prov hb hge with h0 | ⟨cl, hcl, hkey, hval⟩
    · simp [Assoc.get] at h0
    · obtain ⟨b, hbt, kv, hkv, rfl⟩ := mem_claims.mp hcl
      obtain ⟨rb, hq⟩ := hex b hbt
      obtain ⟨hlb, _, hndb⟩ := hwf.1 b hbt
      obtain ⟨c, hc, hent, hloc, hfresh⟩ := launch_entry hlb hkv
      refine ⟨(b, rb), hq, kv, hkv, hkey, ?_, c, hc, hent, (freshFor_transport c kv.2 hfresh).symm, hloc, ?_⟩
      · rw [hget, hval, claimOf_target, toTarget_transport]
      · intro hempty
        have hemp : c.target.isEmpty = true := hempty rfl
        have hqb := hzip (b, rb) hq
        unfold taskProps at hqb
        unfold namesDistinct at hndb
        obtain ⟨hndi, _, hdisj⟩ := List.nodup_append.mp hndb
        have hnotout : c.name ∉ b.outbound.map Outbound.name := by
          intro hmem
          exact hdisj c.name (List.mem_map_of_mem hc) c.name hmem rfl
        have hin : inboundFMQ b.loc c = some ⟨.bind, kv.2.toBound.address, kv.2.transport⟩ := by
          unfold inboundFMQ
          simp [explicit_empty hemp, hemp, hloc]
        show Assoc.get rb c.name = _
        rw [addOut_other hqb _ hnotout]
        exact addIn_mem _ _ _ hndi hc hin
  · cases hen

/-- FULL-STRENGTH clause 1 (kept visible; FALSE of the code, see
    `C13_finding_inbound_target_still_advertised`): …and EVERY inbound channel
    behind a matched entry is told to bind exactly the advertised endpoint. -/
def C13_matched_full : Prop :=
  ∀ (tasks : List Task) (res : List Props), WF tasks → configure tasks = .ok res → Matched false tasks res

/-- The same with the excluded hypothesis spelled out: no inbound channel
    declares a `target` of its own. -/
theorem C13_matched_partial (tasks : List Task) (res : List Props) (hwf : WF tasks)
    (hnt : noInboundTarget tasks = true) (h : configure tasks = .ok res) : Matched false tasks res := by
  intro p hp o ho hne
  obtain ⟨q, hq, kv, hkv, h1, h2, c, hc, h3, h4, h5, h6⟩ := C13_matched tasks res hwf h p hp o ho hne
  refine ⟨q, hq, kv, hkv, h1, h2, c, hc, h3, h4, h5, fun _ => h6 (fun _ => ?_)⟩
  have hqt : q.1 ∈ tasks := (List.of_mem_zip hq).1
  simp only [noInboundTarget, List.all_eq_true] at hnt
  exact hnt q.1 hqt c hc

/-- The finding, machine-checked on the model: task `root.a` declares an inbound
    channel `data` with the static target `tcp://*:7777`; the launch still
    allocates port 9000 for it and advertises `root.a:data → h1:9000`; task
    `root.b` connects to `root.a:data` and is sent `tcp://h1:9000`, while
    `root.a` is told to bind `tcp://*:7777`. Nobody listens on 9000. -/
theorem C13_finding_inbound_target_still_advertised : ¬ C13_matched_full := by
  intro h
  have := h
    [ { path := "root.a", host := "h1",
        inbound := [⟨"data", .default, .tcp, "tcp://*:7777", "", {}⟩], outbound := [],
        loc := [("data", .tcp "*" 9000 .default)] },
      { path := "root.b", host := "h1", inbound := [],
        outbound := [⟨"o", .default, "root.a:data", {}⟩], loc := [] } ]
    [ [("data", ⟨.bind, "tcp://*:7777", .default⟩)],
      [("o", ⟨.connect, "tcp://h1:9000", .default⟩)] ]
    (by decide) (by decide)
  revert this
  decide

/-! ## clause 2: explicit targets -/

/-- An explicit `tcp://…` / `ipc://…` target is passed through unchanged, with
    the declaring channel's own transport — outbound (connect) and inbound (bind). -/
theorem C13_explicit_passthrough (tasks : List Task) (res : List Props) (hwf : WF tasks)
    (h : configure tasks = .ok res) : Passthrough tasks res := by
  obtain ⟨bm, _, hm⟩ := configure_ok h
  obtain ⟨_, hzip, _⟩ := mapE_ok hm
  intro p hp
  have htp := hzip p hp
  have hpt : p.1 ∈ tasks := (List.of_mem_zip hp).1
  obtain ⟨_, _, hnd⟩ := hwf.1 p.1 hpt
  unfold namesDistinct at hnd
  obtain ⟨hndi, hndo, hdisj⟩ := List.nodup_append.mp hnd
  unfold taskProps at htp
  constructor
  · intro o ho hex
    obtain ⟨en, hen, hget⟩ := addOut_mem htp hndo ho
    unfold outboundFMQ at hen
    rw [hex] at hen
    simp only [if_true] at hen
    cases hen
    exact hget
  · intro c hc hex
    have hnotout : c.name ∉ p.1.outbound.map Outbound.name := by
      intro hmem
      exact hdisj c.name (List.mem_map_of_mem hc) c.name hmem rfl
    rw [addOut_other htp _ hnotout]
    apply addIn_mem _ _ _ hndi hc
    unfold inboundFMQ
    simp [hex]

/-! ## clause 3: unmatched targets -/

/-- A target that is neither explicit nor advertised by any task fails the
    whole configuration (no CONFIGURE is sent to anybody). -/
theorem C13_unmatched_fails (tasks : List Task) (hu : Unmatched tasks) :
    ∃ e, configure tasks = .error e := by
  obtain ⟨t, ht, o, ho, hne, hno⟩ := hu
  rcases configureWith_cases codeCfg tasks with ⟨_, _, he⟩ | ⟨_, he⟩
  · exact ⟨_, he⟩
  show ∃ e, configureWith codeCfg tasks = .error e
  rw [he]
  unfold wire
  split
  · exact ⟨_, rfl⟩
  · rename_i bm hb
    apply mapE_fails ht (e := Err.unmatched)
    unfold taskProps
    have hout : outboundFMQ bm o = .error .unmatched := by
      unfold outboundFMQ
      rw [hne]
      simp only [Bool.false_eq_true, if_false]
      split
      · rename_i e hge
        rcases build_prov hb hge with h0 | ⟨cl, hcl, hkey, _⟩
        · simp [Assoc.get] at h0
        · obtain ⟨b, hbt, kv, hkv, rfl⟩ := mem_claims.mp hcl
          exact absurd hkey (hno b hbt kv hkv)
      · rfl
    obtain ⟨e', he'⟩ := addOut_fails (pm := addIn t.loc [] t.inbound) ho hout
    have := addOut_error he'
    obtain ⟨o', _, ho'⟩ := this
    have : e' = .unmatched := by
      unfold outboundFMQ at ho'
      split at ho'
      · cases ho'
      · split at ho'
        · cases ho'
        · cases ho'; rfl
    rw [he', this]

/-- …and the configuration fails with "unmatched" only if some target really matches nothing. -/
theorem C13_unmatched_only_if (tasks : List Task) (h : configure tasks = .error .unmatched) :
    Unmatched tasks := by
  have h : wire tasks = .error .unmatched := by
    rcases configureWith_cases codeCfg tasks with ⟨_, _, he⟩ | ⟨_, he⟩
    · rw [show configure tasks = configureWith codeCfg tasks from rfl, he] at h; cases h
    · rw [← he]; exact h
  unfold wire at h
  split at h
  · rename_i e hb
    cases h
    exact absurd (build_error hb) (by decide)
  · rename_i bm hb
    obtain ⟨t, ht, hte⟩ := mapE_error h
    unfold taskProps at hte
    obtain ⟨o, ho, hoe⟩ := addOut_error hte
    unfold outboundFMQ at hoe
    split at hoe
    · cases hoe
    · rename_i hne
      split at hoe
      · cases hoe
      · rename_i hnone
        refine ⟨t, ht, o, ho, by simpa using hne, ?_⟩
        intro b hbt kv hkv hkey
        have hcl : claimOf b.path b.host kv ∈ claims tasks := mem_claims.mpr ⟨b, hbt, kv, hkv, rfl⟩
        have := (build_present hb).2 _ hcl
        unfold advKey at hkey
        rw [hkey, hnone] at this
        cases this

/-! ## clause 4: global aliases -/

/-- Two tasks whose local bind maps carry the same global alias with different
    endpoints (different host, port, path or transport): the configuration is
    rejected with "illegal redefinition of global channel alias" — whatever the
    order of the tasks and however many other tasks there are (before and after the
    repair: `cfg` is arbitrary). -/
theorem C13_alias_conflict_rejected (cfg : Cfg) (tasks : List Task) (hwf : WF tasks)
    (b1 b2 : Task) (h1 : b1 ∈ tasks) (h2 : b2 ∈ tasks)
    (kv1 kv2 : String × Endpoint) (hk1 : kv1 ∈ b1.loc) (hk2 : kv2 ∈ b2.loc)
    (ha : isAlias kv1.1 = true) (hsame : kv1.1 = kv2.1)
    (hdiff : kv1.2.toTarget b1.host ≠ kv2.2.toTarget b2.host) :
    configureWith cfg tasks = .error .aliasConflict := by
  obtain ⟨hs, hv, hr⟩ := wf_claims hwf
  rcases configureWith_cases cfg tasks with ⟨_, _, he⟩ | ⟨_, he⟩
  · exact he
  rw [he]
  unfold wire
  split
  · rename_i e hb
    rw [build_error hb]
  · rename_i bm hb
    exfalso
    have ha2 : isAlias kv2.1 = true := hsame ▸ ha
    have c1 : claimOf b1.path b1.host kv1 ∈ claims tasks := mem_claims.mpr ⟨b1, h1, kv1, hk1, rfl⟩
    have c2 : claimOf b2.path b2.host kv2 ∈ claims tasks := mem_claims.mpr ⟨b2, h2, kv2, hk2, rfl⟩
    have := build_alias_same hb hs hv hr c1 c2 (by simp [claimOf, ha]) (by simp [claimOf, ha2])
      (by simp [claimOf, ha2, hsame])
    rw [claimOf_target, claimOf_target] at this
    exact hdiff this

/-- Conversely the alias error is raised only when an alias is claimed more than once: by the
    local bind maps of two tasks, or by two channels of one task. -/
theorem C13_alias_error_only_if_shared (tasks : List Task) (hwf : WF tasks)
    (h : configure tasks = .error .aliasConflict) :
    shared (claims tasks) = true ∨ ∃ t ∈ tasks, AliasTwice t := by
  rcases configureWith_cases codeCfg tasks with ⟨_, hany, _⟩ | ⟨_, he⟩
  · exact Or.inr ((any_redefines_iff tasks).mp hany)
  left
  have h : wire tasks = .error .aliasConflict := by rw [← he]; exact h
  cases hsh : shared (claims tasks) with
  | true => rfl
  | false =>
    exfalso
    obtain ⟨bm, hb⟩ := build_ok_of_not_shared (bm := []) hsh (claims_sane hwf.2) (fun _ _ _ => rfl)
    unfold wire at h
    rw [hb] at h
    obtain ⟨t, _, hte⟩ := mapE_error h
    unfold taskProps at hte
    obtain ⟨o, _, hoe⟩ := addOut_error hte
    unfold outboundFMQ at hoe
    split at hoe
    · cases hoe
    · split at hoe <;> cases hoe

/-- Equal endpoints are fine: if all claims on each alias hold one and the same
    IPC endpoint, the bind map is built (TCP endpoints of two live tasks are never
    equal: same host means different port). -/
theorem C13_alias_equal_accepted (tasks : List Task) (hk : keysSane (claims tasks) = true)
    (heq : ∀ c ∈ claims tasks, ∀ d ∈ claims tasks, c.alias = true → d.alias = true → c.key = d.key →
      c.raw = d.raw ∧ ∃ p tr, c.raw = .ipc p tr) :
    ∃ bm, build [] (claims tasks) = .ok bm :=
  build_ok_of_equal_ipc (claims_sane hk) heq (fun _ _ _ v hv => by simp [Assoc.get] at hv)

/-- FULL-STRENGTH clause 4 at the level of DECLARATIONS: whenever two inbound
    channels — of any tasks, or of ONE task — claim one global alias for different
    endpoints, the configuration is rejected. TRUE of the code as it is
    (`C13_alias_declared_code`), FALSE of the code as it was
    (`C13_finding_alias_redefined_within_task`). -/
def C13_alias_declared_full (cfg : Cfg) : Prop :=
  ∀ (tasks : List Task), WF tasks → clash (allDeclClaims tasks) = true → ∃ e, configureWith cfg tasks = .error e

/-- What held before the repair as well (`cfg` arbitrary): the same whenever every declared
    alias made it into its task's local bind map with the declaring channel's endpoint — which
    the launch guarantees unless two channels of ONE task name the same alias. -/
theorem C13_alias_declared_partial (cfg : Cfg) (tasks : List Task) (hwf : WF tasks)
    (hadv : ∀ t ∈ tasks, aliasesAdvertised t) (hcl : clash (allDeclClaims tasks) = true) :
    configureWith cfg tasks = .error .aliasConflict := by
  obtain ⟨c, hc, d, hd, _, _, hk, hne⟩ := clash_mem hcl
  obtain ⟨t1, ht1, hc1⟩ := mem_allDeclClaims.mp hc
  obtain ⟨t2, ht2, hd2⟩ := mem_allDeclClaims.mp hd
  obtain ⟨ch1, hch1, hg1, hl1, hk1, hh1⟩ := mem_declClaims hc1
  obtain ⟨ch2, hch2, hg2, hl2, hk2, hh2⟩ := mem_declClaims hd2
  obtain ⟨kv1, hkv1, hkk1, hkr1⟩ := hadv t1 ht1 ch1 hch1 hg1 _ hl1
  obtain ⟨kv2, hkv2, hkk2, hkr2⟩ := hadv t2 ht2 ch2 hch2 hg2 _ hl2
  apply C13_alias_conflict_rejected cfg tasks hwf t1 t2 ht1 ht2 kv1 kv2 hkv1 hkv2
  · rw [hkk1]; exact isAlias_aliasKey _
  · rw [hkk1, hkk2, ← hk1, ← hk2, hk]
  · intro heq
    apply hne
    unfold Claim.target
    rw [hh1, hh2, ← hkr1, ← hkr2]
    exact heq.symm

/-- The per-task scan of the declarations (`aliasScan`: the `aliasOwners` loop of configureTasks)
    rejects exactly the tasks two of whose channels, of different names, name one alias. -/
theorem C13_alias_scan_exact (t : Task) : redefines t = true ↔ AliasTwice t := redefines_iff t

/-- A task two of whose inbound channels name one alias is rejected — whatever its local bind
    map kept of the alias, whatever the other tasks. -/
theorem C13_alias_twice_rejected (tasks : List Task) (t : Task) (ht : t ∈ tasks) (h2 : AliasTwice t) :
    configure tasks = .error .aliasConflict := by
  rcases configureWith_cases codeCfg tasks with ⟨_, _, he⟩ | ⟨hor, _⟩
  · exact he
  · rcases hor with h | h
    · cases h
    · have := (any_redefines_iff tasks).mpr ⟨t, ht, h2⟩
      rw [this] at h; cases h

/-- THE FORMER FULL-STRENGTH STATEMENT, PROVED FOR THE CODE AS IT IS: two declared claims on one
    alias with different endpoints — across tasks or within one — always fail the configuration.
    Either some task names an alias twice (rejected by the scan), or no task does, and then the
    launch postcondition makes every declared alias an entry of its task's local bind map with
    the declaring channel's own endpoint, where the de-duplication of the bind-map loop finds it. -/
theorem C13_alias_declared_code : C13_alias_declared_full codeCfg := by
  intro tasks hwf hcl
  by_cases h2 : ∃ t ∈ tasks, AliasTwice t
  · obtain ⟨t, ht, h2⟩ := h2
    exact ⟨_, C13_alias_twice_rejected tasks t ht h2⟩
  · refine ⟨_, C13_alias_declared_partial codeCfg tasks hwf (fun t ht => ?_) hcl⟩
    exact advertised_of_not_twice (hwf.1 t ht).1 (fun h => h2 ⟨t, ht, h⟩)

/-- The finding (FIXED: a statement about the code as it was, `legacyCfg`), machine-checked on
    the model: one task whose template binds `data` and `mon`, both with `global: g`. The launch
    gives `data` port 9000 and `mon` port 9001 and keeps `::g → 9001`; two different endpoints
    claim `::g`, the configuration went through, and whoever connected to `::g` reached `mon`. -/
theorem C13_finding_alias_redefined_within_task : ¬ C13_alias_declared_full legacyCfg := by
  intro h
  let w : List Task :=
    [ { path := "root.a", host := "h1",
        inbound := [⟨"data", .default, .tcp, "", "g", {}⟩, ⟨"mon", .default, .tcp, "", "g", {}⟩], outbound := [],
        loc := [("::g", .tcp "*" 9001 .default), ("data", .tcp "*" 9000 .default), ("mon", .tcp "*" 9001 .default)] } ]
  obtain ⟨e, he⟩ := h w (by decide) (by decide)
  have hok : configureWith legacyCfg w =
      .ok [[("data", ⟨.bind, "tcp://*:9000", .default⟩), ("mon", ⟨.bind, "tcp://*:9001", .default⟩)]] := by decide
  rw [hok] at he
  cases he

/-- …and the same witness is rejected by the code as it is. -/
theorem C13_witness_alias_redefined_rejected :
    configure
      [ { path := "root.a", host := "h1",
          inbound := [⟨"data", .default, .tcp, "", "g", {}⟩, ⟨"mon", .default, .tcp, "", "g", {}⟩], outbound := [],
          loc := [("::g", .tcp "*" 9001 .default), ("data", .tcp "*" 9000 .default), ("mon", .tcp "*" 9001 .default)] } ]
      = .error .aliasConflict := by decide

/-- The repair changes nothing for a workflow in which no task names an alias twice: the outcome
    is the one of the code as it was, for every such list of tasks. -/
theorem C13_repair_conservative (tasks : List Task) (h : ∀ t ∈ tasks, ¬ AliasTwice t) :
    configure tasks = configureWith legacyCfg tasks := by
  rw [legacy_eq_wire]
  rcases configureWith_cases codeCfg tasks with ⟨_, hany, _⟩ | ⟨_, he⟩
  · obtain ⟨t, ht, h2⟩ := (any_redefines_iff tasks).mp hany
    exact absurd h2 (h t ht)
  · exact he

/-! ## the model meets the Spec -/

/-- Everything together: on every well-formed input outside the ONE excluded class that is
    left (inbound channels with a target of their own) the model's outcome satisfies the
    full-strength Spec — the predicate the correspondence run evaluates on the
    implementation's outcome. -/
theorem C13_model_meets_spec (tasks : List Task) (hwf : WF tasks) (hnt : noInboundTarget tasks = true) :
    Spec tasks (configure tasks) := by
  cases hcfg : configure tasks with
  | ok res =>
    obtain ⟨bm, hb, hm⟩ := configure_ok hcfg
    refine ⟨(mapE_ok hm).1, C13_matched_partial tasks res hwf hnt hcfg,
      C13_explicit_passthrough tasks res hwf hcfg, ?_, ?_⟩
    · intro hu
      obtain ⟨e, he⟩ := C13_unmatched_fails tasks hu
      rw [hcfg] at he; cases he
    · cases hcl : clash (allDeclClaims tasks) with
      | false => simp [hcl]
      | true =>
        exfalso
        obtain ⟨e, he⟩ := C13_alias_declared_code tasks hwf hcl
        rw [show configureWith codeCfg tasks = configure tasks from rfl, hcfg] at he; cases he
  | error e =>
    cases e with
    | unmatched => exact C13_unmatched_only_if tasks hcfg
    | aliasConflict => exact C13_alias_error_only_if_shared tasks hwf hcfg

/-- Without the hypothesis the code still meets the Spec weakened in the bind clause only (it is
    demanded only of target-less inbound channels; alias claims AS DECLARED) — on EVERY
    well-formed input. -/
theorem C13_model_meets_spec_up_to_inbound_target (tasks : List Task) (hwf : WF tasks) :
    SpecW true false tasks (configure tasks) := by
  cases hcfg : configure tasks with
  | ok res =>
    refine ⟨(mapE_ok (configure_ok hcfg).choose_spec.2).1, C13_matched tasks res hwf hcfg,
      C13_explicit_passthrough tasks res hwf hcfg, ?_, ?_⟩
    · intro hu
      obtain ⟨e, he⟩ := C13_unmatched_fails tasks hu
      rw [hcfg] at he; cases he
    · cases hcl : clash (allDeclClaims tasks) with
      | false => simp [hcl]
      | true =>
        exfalso
        obtain ⟨e, he⟩ := C13_alias_declared_code tasks hwf hcl
        rw [show configureWith codeCfg tasks = configure tasks from rfl, hcfg] at he; cases he
  | error e =>
    cases e with
    | unmatched => exact C13_unmatched_only_if tasks hcfg
    | aliasConflict => exact C13_alias_error_only_if_shared tasks hwf hcfg

/-- …and the doubly weakened Spec (alias claims as they appear in the local bind maps). -/
theorem C13_model_meets_weak_spec (tasks : List Task) (hwf : WF tasks) :
    SpecW true true tasks (configure tasks) := by
  cases hcfg : configure tasks with
  | ok res =>
    obtain ⟨bm, hb, hm⟩ := configure_ok hcfg
    refine ⟨(mapE_ok hm).1, C13_matched tasks res hwf hcfg,
      C13_explicit_passthrough tasks res hwf hcfg, ?_, ?_⟩
    · intro hu
      obtain ⟨e, he⟩ := C13_unmatched_fails tasks hu
      rw [hcfg] at he; cases he
    · cases hcl : clash (claims tasks) with
      | false => simp [hcl]
      | true =>
        exfalso
        obtain ⟨hs, hv, hr⟩ := wf_claims hwf
        obtain ⟨c, hc, d, hd, hca, hda, hk, hne⟩ := clash_mem hcl
        exact hne (build_alias_same hb hs hv hr hd hc hda hca hk)
  | error e =>
    cases e with
    | unmatched => exact C13_unmatched_only_if tasks hcfg
    | aliasConflict => exact C13_alias_error_only_if_shared tasks hwf hcfg

/-! ## the whole property map: whatever else the template declares -/

/-- `codeCfg.generatedLast` is what BuildPropertyMap does NOW (go/ast over core/task/task.go,
    regenerated on every check): the one loop over `t.GetProperties()` copies into the result map
    and stands, in the same block, before the one statement that calls `ToFMQMap` and copies the
    generated channel keys unconditionally. Breaks if the two steps are swapped, if a second copy of
    the declared properties appears, or if the generated writes become conditional on the map. -/
theorem C13_property_order_is_code :
    codeCfg.generatedLast = Gen.C13.declaredPropertiesBeforeChannelConfig := by decide

/-- BuildPropertyMap, for every task, bind map and `properties:` block: the result is the generated
    channel keys laid over the declared properties laid over the common properties — for every key,
    the generated value if there is one, else the declared one, else the common one. The generated
    keys `g` are a function of the channels and the bind maps alone (`genKVs` has no access to the
    declared properties). -/
theorem C13_generated_keys_win (bm : BindMap) (t : Task) (pm : PMap) (h : buildPMap codeCfg bm t = .ok pm) :
    ∃ g, genKVs bm t.loc t.inbound t.outbound = .ok g ∧
      ∀ k, Assoc.get pm k =
        (Assoc.get (setAll [] g) k).or ((Assoc.get (setAll [] t.props) k).or (Assoc.get baseProps k)) := by
  rw [buildPMap_eq] at h
  cases hg : genKVs bm t.loc t.inbound t.outbound with
  | error e => rw [hg] at h; cases h
  | ok g =>
    rw [hg] at h
    simp only [codeCfg, if_true] at h
    cases h
    exact ⟨g, rfl, fun k => by rw [get_setAll_or, get_setAll_or baseProps]⟩

/-- Generated channel keys are independent of the declared properties: replace the `properties:`
    block of a task by ANY other block — BuildPropertyMap fails or succeeds as before, and every
    key the channel configuration writes (address, transport, method, type, buffer sizes, … of
    every configured channel) has the same value, the generated one. -/
theorem C13_generated_keys_independent_of_declared (bm : BindMap) (t : Task) (props' : PMap) :
    (∀ e, buildPMap codeCfg bm t = .error e ↔ buildPMap codeCfg bm { t with props := props' } = .error e) ∧
    ∀ pm pm', buildPMap codeCfg bm t = .ok pm → buildPMap codeCfg bm { t with props := props' } = .ok pm' →
      ∃ g, genKVs bm t.loc t.inbound t.outbound = .ok g ∧
        ∀ k ∈ g.map (·.1), Assoc.get pm k = Assoc.get (setAll [] g) k ∧ Assoc.get pm' k = Assoc.get pm k := by
  rw [buildPMap_eq, buildPMap_eq]
  simp only
  cases hg : genKVs bm t.loc t.inbound t.outbound with
  | error e => exact ⟨fun e' => Iff.rfl, fun pm pm' h => by cases h⟩
  | ok g =>
    refine ⟨fun e' => ⟨fun h => (by cases h), fun h => (by cases h)⟩, fun pm pm' h h' => ⟨g, rfl, fun k hk => ?_⟩⟩
    simp only [codeCfg, if_true] at h h'
    cases h; cases h'
    obtain ⟨v, hv⟩ := get_setAll_mem [] g k hk
    rw [get_setAll_or, get_setAll_or (setAll baseProps props'), hv]
    simp

/-- Declared keys that do not collide are delivered unchanged: a key of the `properties:` block
    that is not a key of one of the task's own channels reaches the executor with its declared value. -/
theorem C13_free_declared_keys_delivered (bm : BindMap) (t : Task) (pm : PMap) (hd : propsDistinct t)
    (h : buildPMap codeCfg bm t = .ok pm) :
    ∀ kv ∈ t.props, ownsKey t kv.1 = false → Assoc.get pm kv.1 = some kv.2 := by
  rw [buildPMap_eq] at h
  cases hg : genKVs bm t.loc t.inbound t.outbound with
  | error e => rw [hg] at h; cases h
  | ok g =>
    rw [hg] at h
    simp only [codeCfg, if_true] at h
    cases h
    intro kv hkv hfree
    have hnot : kv.1 ∉ g.map (·.1) := by
      intro hin
      obtain ⟨x, hx, hxk⟩ := List.mem_map.mp hin
      have := genKVs_owned hg hx
      rw [hxk, hfree] at this
      cases this
    rw [get_setAll_not_mem _ _ _ hnot]
    exact get_setAll_consistent _ _ _ _ hkv (fun v' hv' => nodup_fst_unique hd hv' hkv)

/-- The order of the two steps matters exactly on collisions: for a task none of whose declared keys
    is a key of one of its channels, "declared properties last" yields the same map, key by key. -/
theorem C13_order_matters_only_on_collisions (bm : BindMap) (t : Task)
    (hfree : ∀ kv ∈ t.props, ownsKey t kv.1 = false) (pm pm' : PMap)
    (h : buildPMap codeCfg bm t = .ok pm) (h' : buildPMap declaredLastCfg bm t = .ok pm') :
    ∀ k, Assoc.get pm' k = Assoc.get pm k := by
  rw [buildPMap_eq] at h h'
  cases hg : genKVs bm t.loc t.inbound t.outbound with
  | error e => rw [hg] at h; cases h
  | ok g =>
    rw [hg] at h h'
    simp only [codeCfg, declaredLastCfg, if_true, Bool.false_eq_true, if_false] at h h'
    cases h; cases h'
    intro k
    rw [get_setAll_or, get_setAll_or baseProps, get_setAll_or (setAll baseProps t.props), get_setAll_or baseProps]
    cases hG : Assoc.get (setAll [] g) k with
    | none => simp
    | some v =>
      cases hP : Assoc.get (setAll [] t.props) k with
      | none => simp
      | some w =>
        exfalso
        obtain ⟨x, hx, hxk⟩ := List.mem_map.mp (mem_keys_of_get_setAll hG)
        obtain ⟨y, hy, hyk⟩ := List.mem_map.mp (mem_keys_of_get_setAll hP)
        have h1 := genKVs_owned hg hx
        have h2 := hfree y hy
        rw [hxk] at h1; rw [hyk, h1] at h2
        cases h2

/-- The map tells every channel what the channel-level model says: `configureP` and `configure`
    fail together with the same error, or succeed together, and then — task by task — every entry
    `(method, address, transport)` the channel-level model computes for a channel is what the
    property map holds under `chans.<n>.0.{method,address,transport}` (`RelL`, `readEntry`). All the
    channel-level theorems above are therefore theorems about the maps the executors receive. -/
theorem C13_map_tells_channel_model (tasks : List Task) : RelLE (configureP tasks) (configure tasks) :=
  configureP_rel codeCfg rfl tasks

/-- Clause 5 for the model: in every configured task, every generated key other than address /
    transport carries the channel's own declaration (`numSockets = 1`, method, type, buffer sizes,
    rate logging, kernel sizes, `autoBind` for inbound channels) and every declared key that is not
    a key of one of the task's channels arrives unchanged — whatever the `properties:` block holds. -/
theorem C13_rest_of_map_delivered (tasks : List Task) (pms : List PMap) (hwf : WFP tasks)
    (h : configureP tasks = .ok pms) : Delivered tasks pms := by
  obtain ⟨bm, _, hm⟩ := wireP_ok h
  obtain ⟨_, hzip, _⟩ := mapE_ok hm
  intro p hp
  obtain ⟨t, pm⟩ := p
  have htp : buildPMap codeCfg bm t = .ok pm := hzip (t, pm) hp
  have hpt : t ∈ tasks := (List.of_mem_zip hp).1
  obtain ⟨hl, _, hnd⟩ := hwf.1.1 t hpt
  have hpd := hwf.2 t hpt
  refine ⟨?_, ?_, C13_free_declared_keys_delivered bm t pm hpd htp⟩
  · intro c hc hcf
    have hc : c ∈ t.inbound := hc
    obtain ⟨e, he⟩ := inboundFMQ_of_configurable hl hc hcf
    have hmeth := inboundFMQ_method he
    rw [buildPMap_eq] at htp
    cases hg : genKVs bm t.loc t.inbound t.outbound with
    | error e' => rw [hg] at htp; cases htp
    | ok g =>
      rw [hg] at htp
      simp only [codeCfg, if_true] at htp
      cases htp
      have hsrc : (∃ c' ∈ t.inbound, c'.name = c.name ∧ c'.misc = c.misc ∧ inboundFMQ t.loc c' = some e) ∨
          (∃ o ∈ t.outbound, o.name = c.name ∧ o.misc = c.misc ∧ outboundFMQ bm o = .ok e) :=
        Or.inl ⟨c, hc, rfl, rfl, he⟩
      refine ⟨genKVs_block hg hnd hsrc (mem_fmqMap.mpr (Or.inl rfl)) _, fun f hf h1 h2 => ?_⟩
      have := genKVs_block hg hnd hsrc (k := .chan c.name f) (v := fieldVal c.misc e f)
        (mem_fmqMap.mpr (Or.inr ⟨f, hmeth ▸ hf, rfl⟩)) (setAll baseProps t.props)
      show Assoc.get (setAll (setAll baseProps t.props) g) _ = _
      rw [this, fieldVal_misc _ _ _ h1 h2, hmeth]
  · intro o ho
    have ho : o ∈ t.outbound := ho
    rw [buildPMap_eq] at htp
    cases hg : genKVs bm t.loc t.inbound t.outbound with
    | error e' => rw [hg] at htp; cases htp
    | ok g =>
      rw [hg] at htp
      simp only [codeCfg, if_true] at htp
      cases htp
      have hall : ∃ e, outboundFMQ bm o = .ok e := by
        unfold genKVs at hg
        split at hg
        · cases hg
        · rename_i r hr
          exact outKVs_all hr ho
      obtain ⟨e, he⟩ := hall
      have hmeth := outboundFMQ_method he
      have hsrc : (∃ c' ∈ t.inbound, c'.name = o.name ∧ c'.misc = o.misc ∧ inboundFMQ t.loc c' = some e) ∨
          (∃ o' ∈ t.outbound, o'.name = o.name ∧ o'.misc = o.misc ∧ outboundFMQ bm o' = .ok e) :=
        Or.inr ⟨o, ho, rfl, rfl, he⟩
      refine ⟨genKVs_block hg hnd hsrc (mem_fmqMap.mpr (Or.inl rfl)) _, fun f hf h1 h2 => ?_⟩
      have := genKVs_block hg hnd hsrc (k := .chan o.name f) (v := fieldVal o.misc e f)
        (mem_fmqMap.mpr (Or.inr ⟨f, hmeth ▸ hf, rfl⟩)) (setAll baseProps t.props)
      show Assoc.get (setAll (setAll baseProps t.props) g) _ = _
      rw [this, fieldVal_misc _ _ _ h1 h2, hmeth]

/-- From the channel-level Spec to the Spec of the whole maps (any weakening flags). -/
theorem C13_spec_lifts_to_maps (a b : Bool) (tasks : List Task) (hwf : WFP tasks)
    (hs : SpecW a b tasks (configure tasks)) : SpecPW a b tasks (configureP tasks) := by
  have hrel := C13_map_tells_channel_model tasks
  cases hP : configureP tasks with
  | error e =>
    cases hC : configure tasks with
    | error e' => rw [hP, hC] at hrel; rw [hC] at hs; cases (show e = e' from hrel); exact hs
    | ok res => rw [hP, hC] at hrel; exact hrel.elim
  | ok pms =>
    cases hC : configure tasks with
    | error e' => rw [hP, hC] at hrel; exact hrel.elim
    | ok res =>
      rw [hP, hC] at hrel; rw [hC] at hs
      have hrel : RelL pms res := hrel
      exact ⟨(RelL_length hrel).trans hs.1, SpecW_mono hrel hs, C13_rest_of_map_delivered tasks pms hwf hP⟩

/-- THE PROPERTY OVER THE WHOLE MAP, for all task lists and all `properties:` blocks: on every
    well-formed input without inbound targets the maps the model sends satisfy the full-strength
    `SpecP` — the predicate the correspondence run evaluates on the maps the real code sent: every
    outbound channel is told to connect to where the matching inbound channel was told to bind,
    whatever else the templates declare. -/
theorem C13_model_meets_spec_maps (tasks : List Task) (hwf : WFP tasks) (hnt : noInboundTarget tasks = true) :
    SpecP tasks (configureP tasks) :=
  C13_spec_lifts_to_maps false false tasks hwf (C13_model_meets_spec tasks hwf.1 hnt)

theorem C13_model_meets_spec_maps_up_to_inbound_target (tasks : List Task) (hwf : WFP tasks) :
    SpecPW true false tasks (configureP tasks) :=
  C13_spec_lifts_to_maps true false tasks hwf (C13_model_meets_spec_up_to_inbound_target tasks hwf.1)

theorem C13_model_meets_weak_spec_maps (tasks : List Task) (hwf : WFP tasks) :
    SpecPW true true tasks (configureP tasks) :=
  C13_spec_lifts_to_maps true true tasks hwf (C13_model_meets_weak_spec tasks hwf.1)

/-- What the order is worth (a statement about a configuration that is NOT the code): with the
    declared properties copied AFTER the generated keys the property fails. Witness: template
    `reader` binds `data` (shmem) and still carries `chans.data.0.address: tcp://*:5555` from
    stand-alone running, template `proc` connects `data` to `root.reader:data` and carries
    `chans.data.0.address: tcp://localhost:5555` + `…transport: zeromq`. Nothing fails; the reader
    binds port 5555 instead of the allocated 9000 and the processor connects to localhost:5555. -/
theorem C13_declared_last_breaks_wiring :
    ¬ ∀ tasks, WFP tasks → noInboundTarget tasks = true → SpecP tasks (configurePWith declaredLastCfg tasks) := by
  intro h
  have := h
    [ { path := "root.reader", host := "flp1",
        inbound := [⟨"data", .shmem, .tcp, "", "", {}⟩], outbound := [],
        loc := [("data", .tcp "*" 9000 .shmem)],
        props := [(.chan "data" .address, "tcp://*:5555"), (.other "severity", "info")] },
      { path := "root.proc", host := "flp1", inbound := [],
        outbound := [⟨"data", .default, "root.reader:data", { type := "pull" }⟩], loc := [],
        props := [(.chan "data" .address, "tcp://localhost:5555"), (.chan "data" .transport, "zeromq")] } ]
    (by decide) (by decide)
  revert this
  decide

/-- Non-vacuity, same witness under the code as it is: the hypotheses hold, the reader is told to
    bind the ALLOCATED port with its own transport, the processor to connect there with the reader's
    transport — the three colliding declarations are gone — and `severity` arrives unchanged. -/
example :
    let reader : Task :=
      { path := "root.reader", host := "flp1",
        inbound := [⟨"data", .shmem, .tcp, "", "", {}⟩], outbound := [],
        loc := [("data", .tcp "*" 9000 .shmem)],
        props := [(.chan "data" .address, "tcp://*:5555"), (.other "severity", "info")] }
    let proc : Task :=
      { path := "root.proc", host := "flp1", inbound := [],
        outbound := [⟨"data", .default, "root.reader:data", { type := "pull" }⟩], loc := [],
        props := [(.chan "data" .address, "tcp://localhost:5555"), (.chan "data" .transport, "zeromq")] }
    WFP [reader, proc] ∧ noInboundTarget [reader, proc] = true ∧
    (configureP [reader, proc]).map (fun pms => pms.map fun pm =>
        (readEntry pm "data", Assoc.get pm (.chan "data" .type), Assoc.get pm (.other "severity"))) =
      .ok [ (some ⟨.bind, "tcp://*:9000", .shmem⟩, some "push", some "info"),
            (some ⟨.connect, "tcp://flp1:9000", .shmem⟩, some "pull", none) ] ∧
    SpecP [reader, proc] (configureP [reader, proc]) := by
  decide

/-! ## the launch establishes what the theorems assume -/

/-- The allocation loop of makeTaskForMesosResources (`allocLocal`: for each inbound
    channel in order `bindMap[name] = fresh endpoint`, then `bindMap["::"+global] =
    bindMap[name]`), fed with one endpoint of the right kind per channel, yields a
    local bind map that satisfies `launchOk` — for any number of channels, as long
    as channel names are unique and do not look like an alias. If moreover no two
    channels name the same alias, every declared alias is advertised with its own
    channel's endpoint (`aliasesAdvertised`). The correspondence run checks on
    every case that the REAL function's output is `allocLocal` of the endpoints it
    handed out, and `launchOk` itself. -/
theorem C13_launch_postcondition (path host : String) (inb : List Inbound) (out : List Outbound)
    (eps : List Endpoint)
    (hnd : (inb.map Inbound.name).Nodup) (hna : ∀ c ∈ inb, isAlias c.name = false)
    (hlen : eps.length = inb.length) (hfresh : ∀ p ∈ inb.zip eps, freshFor p.1 p.2 = true) :
    let t : Task := { path := path, host := host, inbound := inb, outbound := out, loc := allocLocal [] inb eps }
    launchOk t = true ∧
    ((∀ c ∈ inb, ∀ c' ∈ inb, c.global.isEmpty = false → c'.global.isEmpty = false →
        aliasKey c.global = aliasKey c'.global → c.name = c'.name) → aliasesAdvertised t) := by
  intro t
  constructor
  · simp only [launchOk, Bool.and_eq_true, List.all_eq_true, List.any_eq_true, decide_eq_true_eq,
      Bool.or_eq_true, Bool.not_eq_true']
    refine ⟨⟨⟨?_, ?_⟩, ?_⟩, hna⟩
    · intro c hc
      obtain ⟨e, he⟩ := exists_zip_of_mem hlen hc
      show (match Assoc.get (allocLocal [] inb eps) c.name with | some e => freshFor c e | none => false) = true
      rw [alloc_name hnd hna he]
      exact hfresh _ he
    · intro kv hkv
      rcases alloc_mem hkv with h | ⟨p, hp, hpe⟩
      · cases h
      · have hc : p.1 ∈ inb := (List.of_mem_zip hp).1
        have hget : Assoc.get (allocLocal [] inb eps) p.1.name = some p.2 := alloc_name hnd hna hp
        rcases hpe with rfl | ⟨hg, rfl⟩
        · exact ⟨p.1, hc, Or.inl rfl, hget⟩
        · exact ⟨p.1, hc, Or.inr ⟨hg, rfl⟩, hget⟩
    · intro c hc
      cases hg : c.global.isEmpty with
      | true => exact Or.inl rfl
      | false =>
        obtain ⟨e, he⟩ := exists_zip_of_mem hlen hc
        exact Or.inr (alloc_alias_present he hg)
  · intro hal c hc hg e he
    obtain ⟨e', he'⟩ := exists_zip_of_mem hlen hc
    have h1 : Assoc.get (allocLocal [] inb eps) c.name = some e' := alloc_name hnd hna he'
    have : e = e' := by
      have he2 : Assoc.get (allocLocal [] inb eps) c.name = some e := he
      rw [h1] at he2; exact (Option.some.inj he2).symm
    subst this
    exact ⟨(aliasKey c.global, e), mem_of_get (alloc_alias hnd hna hal he' hg), rfl, rfl⟩

/-! ## role-level declarations override template-level ones, whole -/

/-- The declaration in force for channel `n` of a task is the first one found
    going from the task role up through its ancestors, and only if no role
    declares `n` the task template's (`Merge(high, low)`: the high-priority
    entry wins WHOLE — transport, target, alias and addressing are never mixed). -/
theorem C13_nearest_declaration_wins (n : String) (own inherited cls : List Inbound)
    (own' inherited' cls' : List Outbound) :
    findName Inbound.name n (mergeIn (mergeIn own inherited) cls) =
      ((findName Inbound.name n own).or (findName Inbound.name n inherited)).or (findName Inbound.name n cls) ∧
    findName Outbound.name n (mergeOut (mergeOut own' inherited') cls') =
      ((findName Outbound.name n own').or (findName Outbound.name n inherited')).or (findName Outbound.name n cls') := by
  simp [mergeIn, mergeOut, mergeBy_find]

/-! ## non-vacuity -/

/-- The hypotheses are met by a realistic workflow: a producer on `flp1` binding
    `data` (TCP, zeromq) and `mon` (IPC, shmem, alias `::mon`), a consumer on
    `epn1` connecting to `root.p:data`, to `::mon` and to an explicit address;
    the configuration succeeds with the expected wiring. -/
example :
    let p : Task :=
      { path := "root.p", host := "flp1",
        inbound := [⟨"data", .zeromq, .tcp, "", "", {}⟩, ⟨"mon", .shmem, .ipc, "", "mon", {}⟩], outbound := [],
        loc := [("::mon", .ipc "@o2ipc-%0" .shmem), ("data", .tcp "*" 9000 .zeromq), ("mon", .ipc "@o2ipc-%0" .shmem)] }
    let c : Task :=
      { path := "root.c", host := "epn1", inbound := [],
        outbound := [⟨"in", .default, "root.p:data", {}⟩, ⟨"m", .default, "::mon", {}⟩, ⟨"x", .nanomsg, "tcp://elsewhere:1", {}⟩],
        loc := [] }
    WF [p, c] ∧ noInboundTarget [p, c] = true ∧ (∀ t ∈ [p, c], aliasesAdvertised t) ∧
    configure [p, c] = .ok
      [ [("data", ⟨.bind, "tcp://*:9000", .zeromq⟩), ("mon", ⟨.bind, "ipc://@o2ipc-%0", .shmem⟩)],
        [("in", ⟨.connect, "tcp://flp1:9000", .zeromq⟩), ("m", ⟨.connect, "ipc://@o2ipc-%0", .shmem⟩),
         ("x", ⟨.connect, "tcp://elsewhere:1", .nanomsg⟩)] ] := by
  decide

/-! ## workflows with iterators: every generated role resolves its own copy in its own context -/

/-- An iterator contributes, for every value `x` of its range and in range order, exactly the
    task declarations of its body loaded with the iteration variable bound to `x` — nothing of
    what instance `x` declares depends on another value of the range. -/
theorem C13_instance_own_variables (c : Ctx) (v : String) (vals : List String) (body next : TForest)
    (pfx : String) (inhB : List Inbound) (inhC : List Outbound) :
    flatten pfx inhB inhC (expand c (.iter v vals body next)) =
      vals.flatMap (fun x => flatten pfx inhB inhC (expand (c.push v x) body)) ++
        flatten pfx inhB inhC (expand c next) := by
  simp only [expand, flatten_append, flatten_foldr_append]

/-- …so instance `x` of a range of any length is wired exactly as if `x` were the ONLY
    iteration (the single-host deployment): the declarations of sibling instances are independent. -/
theorem C13_instance_independent_of_siblings (c : Ctx) (v : String) (vals : List String) (body : TForest)
    (pfx : String) (inhB : List Inbound) (inhC : List Outbound) :
    flatten pfx inhB inhC (expand c (.iter v vals body .nil)) =
      vals.flatMap (fun x => flatten pfx inhB inhC (expand c (.iter v [x] body .nil))) := by
  rw [C13_instance_own_variables]
  simp [expand, flatten, Forest.append_nil]

/-- An iterated TASK role: for every range and every target / alias expression, the task
    generated for value `x` declares each `connect` entry with the target expression
    instantiated with `x` (and its own name, its own parent), each `bind` entry with the alias
    expression instantiated likewise; role-level entries win over inherited ones whole. -/
theorem C13_iterated_task_target (c : Ctx) (v : String) (vals : List String) (n : Tmpl) (cls : String) (h : Nat)
    (b : List InT) (co : List OutT) (pfx : String) (inhB : List Inbound) (inhC : List Outbound) :
    flatten pfx inhB inhC (expand c (.iter v vals (.task n cls h b co .nil) .nil)) =
      vals.map fun x =>
        let ci := (c.push v x).named (n.inst (c.push v x))
        { path := joinPath pfx (n.inst (c.push v x)), cls := cls, hostIdx := h,
          roleBind := mergeIn (b.map (InT.inst ci)) inhB,
          roleConnect := mergeOut (co.map (OutT.inst ci)) inhC } := by
  rw [C13_instance_own_variables]
  simp only [expand, flatten, List.append_nil]
  exact flatMap_single _ _

/-- An iterated AGGREGATOR role (one sub-tree per host, say): the roles below instance `x` are
    loaded with `x` in their variable stack and with THAT instance as parent, so
    `{{ Parent().Path }}` in a child's target is the path of the child's own instance. -/
theorem C13_iterated_aggregator_children (c : Ctx) (v : String) (vals : List String) (n : Tmpl)
    (b : List InT) (co : List OutT) (kids : TForest) (pfx : String) (inhB : List Inbound) (inhC : List Outbound) :
    flatten pfx inhB inhC (expand c (.iter v vals (.agg n b co kids .nil) .nil)) =
      (vals.flatMap fun x =>
        let cx := c.push v x
        let nm := n.inst cx
        flatten (joinPath pfx nm) (mergeIn (b.map (InT.inst (cx.named nm))) inhB)
          (mergeOut (co.map (OutT.inst (cx.named nm))) inhC) (expand (cx.child nm) kids)) ∧
    ∀ x, Seg.inst ((c.push v x).child (n.inst (c.push v x))) .parentPath =
          joinPath c.parentPath (n.inst (c.push v x)) ∧
         Assoc.get ((c.push v x).child (n.inst (c.push v x))).env v = some x := by
  refine ⟨?_, fun x => ⟨rfl, ?_⟩⟩
  · rw [C13_instance_own_variables]
    simp [expand, flatten]
  · simp [Ctx.child, Ctx.push, Assoc.get]

/-- The STAGE5 pass of a role reads and writes the role's own cell only. -/
theorem C13_pass_touches_own_cell (st : List Cell) (i j : Nat) (h : j ≠ i) :
    (modAt Cell.resolve st i)[j]? = st[j]? := by
  rw [getElem?_modAt]; simp [h]

/-- Processing order is irrelevant: whatever the order in which the generated roles' STAGE5
    passes run (any list that names every role at least once — the sequential loader, or the
    goroutines of the three concurrency switches in any interleaving of whole passes), every
    role ends up holding its own instantiation, and that is what the loaded tree declares. -/
theorem C13_resolution_order_irrelevant (c : Ctx) (f : TForest) (ord : List Nat)
    (hall : ∀ j, j < (cells c f).length → j ∈ ord) :
    processOrder (cells c f) ord = (cells c f).map Cell.resolve ∧
    (processOrder (cells c f) ord).map Cell.read = ownDecls (expand c f) := by
  have h := processOrder_all (cells c f) ord hall
  refine ⟨h, ?_⟩
  rw [h, ownDecls_expand, List.map_map]
  apply List.map_congr_left
  intro x _
  exact Cell.resolve_read x

/-- A workflow without template expressions is its own template: the template form of the
    model extends the plain one. -/
theorem C13_plain_workflow_is_its_own_template (f : Forest) :
    templateDecls f.toT = flatten "" [] [] f := by
  simp [templateDecls, expand_toT]

/-- The model of load + CONFIGURE meets the template Spec — the predicate the correspondence run
    evaluates on what the real loader and the real configureTasks did. -/
theorem C13_model_meets_spec_template (classes : List (String × Class)) (root : TForest)
    (launch : List (String × String × BindMap))
    (hwf : WF (templateTasks classes root launch))
    (hnt : noInboundTarget (templateTasks classes root launch) = true) :
    SpecT classes root launch ((templateDecls root).map TaskDecl.seen)
      (configure (templateTasks classes root launch)) :=
  ⟨rfl, C13_model_meets_spec _ hwf hnt⟩

theorem C13_model_meets_spec_up_to_inbound_target_template (classes : List (String × Class)) (root : TForest)
    (launch : List (String × String × BindMap)) (hwf : WF (templateTasks classes root launch)) :
    SpecTW true false classes root launch ((templateDecls root).map TaskDecl.seen)
      (configure (templateTasks classes root launch)) :=
  ⟨rfl, C13_model_meets_spec_up_to_inbound_target _ hwf⟩

theorem C13_model_meets_weak_spec_template (classes : List (String × Class)) (root : TForest)
    (launch : List (String × String × BindMap)) (hwf : WF (templateTasks classes root launch)) :
    SpecTW true true classes root launch ((templateDecls root).map TaskDecl.seen)
      (configure (templateTasks classes root launch)) :=
  ⟨rfl, C13_model_meets_weak_spec _ hwf⟩

/-- …and over the whole property maps (task templates with `properties:` blocks under iterators). -/
theorem C13_model_meets_spec_maps_template (classes : List (String × Class)) (root : TForest)
    (launch : List (String × String × BindMap))
    (hwf : WFP (templateTasks classes root launch))
    (hnt : noInboundTarget (templateTasks classes root launch) = true) :
    SpecTP classes root launch ((templateDecls root).map TaskDecl.seen)
      (configureP (templateTasks classes root launch)) :=
  ⟨rfl, C13_model_meets_spec_maps _ hwf hnt⟩

theorem C13_model_meets_spec_maps_up_to_inbound_target_template (classes : List (String × Class)) (root : TForest)
    (launch : List (String × String × BindMap)) (hwf : WFP (templateTasks classes root launch)) :
    SpecTPW true false classes root launch ((templateDecls root).map TaskDecl.seen)
      (configureP (templateTasks classes root launch)) :=
  ⟨rfl, C13_model_meets_spec_maps_up_to_inbound_target _ hwf⟩

/-- Every task generated from a template carries the template's `properties:` block. -/
theorem C13_template_tasks_carry_class_properties (classes : List (String × Class)) (d : TaskDecl)
    (path host : String) (loc : BindMap) :
    (mkTask classes d path host loc).props = ((Assoc.get classes d.cls).getD { bind := [], connect := [] }).props := rfl

/-- Non-vacuity (the per-host shape): `host-{{ it }}` for it = 1..3, below each a `sink` binding
    `data` and a `source` connecting to `{{ Parent().Path }}.sink:data`; one host per instance,
    port 9000 everywhere. Every source is sent the address of the sink of its OWN host. -/
example :
    let root : TForest :=
      .agg [.lit "root"] [] []
        (.iter "it" ["1", "2", "3"]
          (.agg [.lit "host-", .var "it"] [] []
            (.task [.lit "sink"] "s" 0 [⟨"data", .default, .tcp, "", [], {}⟩] []
              (.task [.lit "source"] "c" 0 [] [⟨"data", .default, [.parentPath, .lit ".sink:data"], {}⟩] .nil))
            .nil)
          .nil)
        .nil
    let classes : List (String × Class) := [("s", ⟨[], [], []⟩), ("c", ⟨[], [], []⟩)]
    let ep : BindMap := [("data", .tcp "*" 9000 .default)]
    let launch : List (String × String × BindMap) :=
      [("root.host-1.sink", "flp1", ep), ("root.host-1.source", "flp1", []),
       ("root.host-2.sink", "flp2", ep), ("root.host-2.source", "flp2", []),
       ("root.host-3.sink", "flp3", ep), ("root.host-3.source", "flp3", [])]
    (templateDecls root).map (fun d => (d.path, d.roleConnect.map Outbound.target)) =
      [("root.host-1.sink", []), ("root.host-1.source", ["root.host-1.sink:data"]),
       ("root.host-2.sink", []), ("root.host-2.source", ["root.host-2.sink:data"]),
       ("root.host-3.sink", []), ("root.host-3.source", ["root.host-3.sink:data"])] ∧
    WF (templateTasks classes root launch) ∧
    configure (templateTasks classes root launch) = .ok
      [ [("data", ⟨.bind, "tcp://*:9000", .default⟩)], [("data", ⟨.connect, "tcp://flp1:9000", .default⟩)],
        [("data", ⟨.bind, "tcp://*:9000", .default⟩)], [("data", ⟨.connect, "tcp://flp2:9000", .default⟩)],
        [("data", ⟨.bind, "tcp://*:9000", .default⟩)], [("data", ⟨.connect, "tcp://flp3:9000", .default⟩)] ] ∧
    -- the wiring in which every later instance keeps the FIRST instance's target is rejected by the Spec
    ¬ SpecT classes root launch ((templateDecls root).map TaskDecl.seen) (.ok
      [ [("data", ⟨.bind, "tcp://*:9000", .default⟩)], [("data", ⟨.connect, "tcp://flp1:9000", .default⟩)],
        [("data", ⟨.bind, "tcp://*:9000", .default⟩)], [("data", ⟨.connect, "tcp://flp1:9000", .default⟩)],
        [("data", ⟨.bind, "tcp://*:9000", .default⟩)], [("data", ⟨.connect, "tcp://flp1:9000", .default⟩)] ]) := by
  decide
