/-
  Props/C14 — "Variables resolve by documented precedence at every role".

  Property theorems only; lemmas live in Proofs/Vars.lean. Every statement is
  for ALL chains (any depth), ALL maps, ALL keys — proofs by induction on the
  chain / on the merged map.

  Tie to /repo: `Gen.VarsFacts` is re-tabulated on every run — mergo's
  behaviour on one key by evaluating the linked dario.cat/mergo on its 18-cell
  domain, the `mergo.WithOverride` argument of the two gera call sites by
  go/ast, the stage-visibility table by evaluating template.Sequence.Execute,
  the defaults/vars/user-vars ranking by evaluating ConsolidatedVarStack on a
  real role, the ranking workflow / task template vars / task template
  defaults by evaluating BuildTaskCommand and BuildPropertyMap on a real task
  role. The `_is_code` theorems identify the model with those tables, so
  the theorems below are about what the code computes now. The model as a
  whole is tied by the correspondence run (harness/props/c14).

  Two configurations of `BuildTaskCommand` (`Vars.TaskCfg`): `codeCfg` — the code
  as it is, with the repair of finding task_template_defaults_over_vars
  (notes/C14.fix-1.patch: workflow ▷ (template vars ▷ template defaults)) — and
  `legacyCfg`, the code before it ((workflow ▷ defaults) ▷ vars).
  `C14_task_rank_is_code` ties `codeCfg` to the linked code: it breaks when the
  repair is reverted. `modelObs` = `modelObsOf codeCfg`.

  Second part (Model/VarsTree, Proofs/VarsTree): the LOADED tree (iterator
  expansion) and histories of runtime writes on it — a write is visible exactly
  in the subtree of the role it was written on, for all trees and all histories;
  tied by differential runs on trees loaded through the real ProcessTemplates.

  Third part (Model/VarsEnv, Proofs/VarsEnv): the writes the ENVIRONMENT itself
  performs on its transitions (run number, run time stamps, copies of
  configuration-store values, …). `Gen.C14EnvWrites.table` enumerates them by go/ast
  with the KIND of map each key is written to; `C14_env_writes_are_code` identifies
  the model's table with it, the model of a transition interprets that table, and
  the theorems say: copies of configuration-store values are vars of the root role,
  a transition never touches the user-var hierarchy of any role for any key but
  the run-time keys, so a user-supplied value keeps winning at every role at every
  moment. Tied by differential runs on a real Environment driven through
  TryTransition.

  Fourth part (Model/VarsTree `Node.site`, `LoadCfg`, `load`): INCLUDE ROLES. An include role
  becomes the root of the loaded sub-workflow; what was written at the include site — its own
  defaults / vars and, when the include role is an iterator's template, the iteration variable —
  is one more level right above it. `Gen.C14Load` (go/ast of the four ProcessTemplates) says where
  each kind of role publishes its iterator Locals; `C14_load_is_code` identifies the model's
  `codeLoad` with it, `C14_load_is_expand` shows that the step-by-step load IS the reading of the
  template the Spec uses (`expand`), and the theorems say: the included root's definitions are
  nearer than the site's, both nearer than everything above; inside every instance of an iterated
  include role the iteration variable is the instance's own value unless something nearer defines
  it. Tied by differential runs on templates with (iterated, nested) include roles loaded through
  the real ProcessTemplates with an in-memory workflow repository.
-/
import ControlModel.Gen.VarsFacts
import ControlModel.Gen.C14EnvWrites
import ControlModel.Gen.C14LoadFacts
import ControlModel.Proofs.Vars
import ControlModel.Proofs.VarsTree
import ControlModel.Proofs.VarsEnv
import ControlModel.Spec.C14

open Vars

/-! ## the model is the code -/

/-- code of a cell of the one-key merge domain: 0 absent, 1 empty, 2 "x", 3 "y" -/
def C14.cellCode : Option String → Nat
  | none => 0
  | some v => if v = "" then 1 else if v = "x" then 2 else 3

def C14.cellMap (i : Nat) (v : String) : KV :=
  match i with
  | 0 => []
  | 1 => [("k", "")]
  | _ => [("k", v)]

/-- The model's one-key merge IS the linked mergo on the whole domain
    {overwrite off/on} × {dst absent, empty, "x"} × {src absent, empty, "y"}. -/
theorem C14_mergo_is_code :
    ∀ ow ∈ [false, true], ∀ d ∈ [0, 1, 2], ∀ s ∈ [0, 1, 2],
      C14.cellCode (lookup (mergo ow (C14.cellMap d "x") (C14.cellMap s "y")) "k")
        = ((Gen.VarsFacts.mergoTable[ow.toNat]!)[d]!)[s]! := by
  decide

/-- Both gera call sites pass `mergo.WithOverride`, as the model assumes. -/
theorem C14_override_is_code :
    Gen.VarsFacts.flattenedOverride = geraOverride ∧ Gen.VarsFacts.wrappedAndFlattenedOverride = geraOverride := by
  decide

/-- The model's stage-visibility table IS what Sequence.Execute shows at stages 0..5. -/
theorem C14_stage_table_is_code : (List.range 6).map stageVis = Gen.VarsFacts.stageTable := by
  decide

/-- On a single role the model ranks user vars over vars over defaults exactly
    as the real ConsolidatedVarStack does (all 8 subsets of defining kinds). -/
theorem C14_kind_rank_is_code :
    (List.range 8).map (fun mask =>
      match lookup (consolidated [{ defaults := if mask % 2 = 1 then [("k", "d")] else [],
                                    vars := if mask / 2 % 2 = 1 then [("k", "v")] else [],
                                    userVars := if mask / 4 % 2 = 1 then [("k", "u")] else [] }]) "k" with
      | none => 0
      | some v => if v = "d" then 1 else if v = "v" then 2 else 3)
    = Gen.VarsFacts.kindRankTable := by
  decide

/-- Under the workflow, the model ranks the task template's vars over its defaults —
    for the command line (`cmdStack`, the code as it is) and for the properties
    (`propStack`) — exactly as the real BuildTaskCommand / BuildPropertyMap do on a real
    task role (all 8 subsets of {template defaults, template vars, workflow} defining the
    key). Reverting the repair of `task_template_defaults_over_vars` makes this false
    (cell 3 of the command line becomes the defaults' value). -/
theorem C14_task_rank_is_code :
    (List.range 8).map (fun mask =>
      let wf : KV := if mask / 4 % 2 = 1 then [("k", "w")] else []
      let td : KV := if mask % 2 = 1 then [("k", "d")] else []
      let tv : KV := if mask / 2 % 2 = 1 then [("k", "v")] else []
      let code : Option String → Nat := fun o =>
        match o with
        | none => 0
        | some v => if v = "d" then 1 else if v = "v" then 2 else 3
      (code (lookup (cmdStackOf codeCfg wf [] td tv) "k"), code (lookup (propStack wf [] td tv) "k")))
    = Gen.VarsFacts.taskRankTable := by
  decide

/-! ## the property -/

/-- Flattening a hierarchy agrees with `Get` on it, for every chain and key:
    `Flattened()[k]` is the nearest definition. -/
theorem C14_flatten_get (c : Chain) (k : String) : lookup (flatten c) k = get c k :=
  lookup_flatten c k

/-- Within one kind the nearest level wins, whatever its value. -/
theorem C14_nearest_first (m : KV) (rest : Chain) (k : String) :
    lookup (flatten (m :: rest)) k = (match lookup m k with | some v => some v | none => lookup (flatten rest) k) := by
  rw [lookup_flatten_cons]; cases lookup m k <;> rfl

/-- THE precedence theorem: what a role sees for `k` is the first definition in
    the list [user vars nearest→farthest, vars nearest→farthest, defaults
    nearest→farthest], for every path (any depth) and every key. -/
theorem C14_precedence (p : Path) (k : String) :
    lookup (consolidated p) k = firstDefined (uChain p ++ vChain p ++ dChain p) k :=
  lookup_consolidated p k

/-- The same, kind by kind: user-supplied over vars over defaults. -/
theorem C14_user_over_vars_over_defaults (p : Path) (k : String) :
    lookup (consolidated p) k =
      (match get (uChain p) k with
       | some v => some v
       | none => match get (vChain p) k with
         | some v => some v
         | none => get (dChain p) k) := by
  rw [lookup_consolidated]
  simp only [ranked, get_append]
  cases get (uChain p) k <;> cases get (vChain p) k <;> rfl

/-- `gera.FlattenStack(defaults, vars, userVars)` — the second implementation of
    consolidation, used for iterator range expressions — obeys the same rule. -/
theorem C14_flattenStack (p : Path) (k : String) :
    lookup (flattenStack [dChain p, vChain p, uChain p]) k = firstDefined (ranked p) k := by
  simp [lookup_flattenStack, firstDefined, ranked]

/-- ConsolidatedVarMaps: each kind is resolved nearest-first on its own hierarchy. -/
theorem C14_maps (p : Path) (k : String) :
    lookup (consolidatedMaps p).1 k = get (dChain p) k ∧
    lookup (consolidatedMaps p).2.1 k = get (vChain p) k ∧
    lookup (consolidatedMaps p).2.2 k = get (uChain p) k := by
  simp [consolidatedMaps, lookup_flatten]

/-- The highest-ranking source that defines the key decides, whatever lower
    sources say and whatever the value is. -/
theorem C14_highest_source_wins (p : Path) (k v : String) (pre post : List KV) (m : KV)
    (hsplit : ranked p = pre ++ m :: post) (hpre : ∀ x ∈ pre, lookup x k = none)
    (hm : lookup m k = some v) : lookup (consolidated p) k = some v := by
  rw [lookup_consolidated, hsplit, get_append, get_cons, hm, get_none_of_all_none pre k hpre]
  rfl

/-- An empty value is a definition: if the highest-ranking source that mentions
    the key sets it to "", the role sees "" — no lower-ranking non-empty value
    shines through. -/
theorem C14_empty_is_definition (p : Path) (k : String) (pre post : List KV) (m : KV)
    (hsplit : ranked p = pre ++ m :: post) (hpre : ∀ x ∈ pre, lookup x k = none)
    (hm : lookup m k = some "") : lookup (consolidated p) k = some "" :=
  C14_highest_source_wins p k "" pre post m hsplit hpre hm

/-- A key nobody defines is absent (nothing is invented). -/
theorem C14_absent_everywhere (p : Path) (k : String) (h : ∀ x ∈ ranked p, lookup x k = none) :
    lookup (consolidated p) k = none := by
  rw [lookup_consolidated]
  exact get_none_of_all_none _ k h

/-- The environment-wide maps are the outermost ancestor: appended as the last
    level they are consulted, per kind, only when no role level defines the key. -/
theorem C14_environment_outermost (p : Path) (env : Level) (k : String) :
    get (uChain (p ++ [env])) k = orElse (get (uChain p) k) (lookup env.userVars k) ∧
    get (vChain (p ++ [env])) k = orElse (get (vChain p) k) (lookup env.vars k) ∧
    get (dChain (p ++ [env])) k = orElse (get (dChain p) k) (lookup env.defaults k) := by
  simp [uChain, vChain, dChain, List.map_append, get_append, get_cons]

/-- Template stages: at every stage the same rule, applied to the sources that
    stage can see (locals, then per kind either the whole hierarchy or only the
    ancestors'). -/
theorem C14_stage_visibility (locals : KV) (p : Path) (stage : Nat) (k : String) :
    lookup (staged locals p stage) k = firstDefined (rankedAt locals p stage) k :=
  lookup_staged locals p stage k

/-- Stages 0 and 1 see nothing of the role's own maps: locals, then what the parent sees. -/
theorem C14_stage_early_is_parent_view (locals : KV) (own : Level) (anc : Path) (stage : Nat) (k : String)
    (h : stage ≤ 1) :
    lookup (staged locals (own :: anc) stage) k = orElse (lookup locals k) (lookup (consolidated anc) k) := by
  have hs : stageVis stage = (false, false, false) := by
    match stage, h with
    | 0, _ => rfl
    | 1, _ => rfl
  rw [lookup_staged, lookup_consolidated]
  simp [rankedAt, hs, ranked, uChain, vChain, dChain, get_cons, get_append]

/-- From stage 4 on (and without locals) a field sees the role's consolidated stack. -/
theorem C14_stage_late_is_full_view (p : Path) (stage : Nat) (k : String) (h : 4 ≤ stage) :
    lookup (staged [] p stage) k = lookup (consolidated p) k := by
  have hs : stageVis stage = (true, true, true) := by
    match stage, h with
    | n + 4, _ => rfl
  rw [lookup_staged, lookup_consolidated]
  simp [rankedAt, hs, ranked, get_cons, lookup, get_append]

/-- A task template's own defaults and vars rank below everything coming from
    the workflow, and its vars above its defaults — for the command line and for
    the properties alike (the code as it is). -/
theorem C14_template_below_workflow (wf special td tv : KV) (k : String) (hk : lookup special k = none) :
    lookup (cmdStack wf special td tv) k = orElse (lookup wf k) (orElse (lookup tv k) (lookup td k)) ∧
    lookup (propStack wf special td tv) k = orElse (lookup wf k) (orElse (lookup tv k) (lookup td k)) := by
  simp [cmdStack, propStack, lookup_wrappedAndFlattened, lookup_overlay, hk, get_cons]

/-- The code as it was (`legacyCfg`): below the workflow too, but the template's
    defaults BEFORE its vars on the command line. -/
theorem C14_legacy_template_below_workflow (wf special td tv : KV) (k : String) (hk : lookup special k = none) :
    lookup (legacyCmdStack wf special td tv) k = orElse (lookup wf k) (orElse (lookup td k) (lookup tv k)) := by
  simp [legacyCmdStack, lookup_wrappedAndFlattened, lookup_overlay, hk, get_cons, orElse_assoc]

/-- In particular: whatever the workflow defines (also as empty) reaches the task
    unchanged — in either configuration. -/
theorem C14_workflow_value_reaches_task (cfg : TaskCfg) (wf special td tv : KV) (k v : String)
    (hk : lookup special k = none) (hv : lookup wf k = some v) :
    lookup (cmdStackOf cfg wf special td tv) k = some v ∧ lookup (propStack wf special td tv) k = some v := by
  have h := C14_template_below_workflow wf special td tv k hk
  have hl := C14_legacy_template_below_workflow wf special td tv k hk
  obtain ⟨b⟩ := cfg
  cases b <;> simp [cmdStackOf, h, hl, hv]

/-- Full-strength tie between mechanism and rule: the model's observation at a
    role is what the Spec demands, for every role description, key universe and
    special-value map over the six special names. PROVED for the code as it is
    (`C14_model_meets_spec_code`), REFUTED for the code as it was
    (`C14_finding_task_template_defaults_over_vars`: the command line ranked the
    task template's defaults over its vars). -/
def C14_model_meets_spec_full (cfg : TaskCfg) : Prop :=
  ∀ (keys : List String) (special : KV) (r : RoleIn),
    (∀ k ∈ keys, lookup special k = none) → modelObsOf cfg keys special r = expected keys r

/-- The code as it is meets the Spec at full strength — stack, maps, Get,
    FlattenStack, the six stages, the task's properties AND its command line,
    for ALL inputs, no excluded class. The correspondence run compares the code
    with `modelObs` (= `modelObsOf codeCfg`); this theorem carries that over to
    `Spec.expected`. -/
theorem C14_model_meets_spec_code : C14_model_meets_spec_full codeCfg := by
  intro keys special r hclear
  have congr := tabulate_congr keys
  have hfl : ∀ c : Chain, tabulate keys (lookup (flatten c)) = tabulate keys (get c) :=
    fun c => congr _ _ (fun k _ => lookup_flatten c k)
  obtain ⟨p, locals, tmpl⟩ := r
  simp only [modelObsOf, expected, consolidatedMaps, hfl]
  congr 1
  · exact congr _ _ (fun k _ => lookup_consolidated p k)
  · exact congr _ _ (fun k _ => C14_flattenStack p k)
  · apply List.map_congr_left
    intro s _
    exact congr _ _ (fun k _ => lookup_staged locals p s k)
  · cases tmpl with
    | none => rfl
    | some t =>
      obtain ⟨td, tv⟩ := t
      simp only [Option.map_some, Option.some.injEq, Prod.mk.injEq]
      constructor
      · apply congr
        intro k hk
        simp only [cmdStackOf, codeCfg, if_true]
        rw [(C14_template_below_workflow _ special td tv k (hclear k hk)).1, lookup_consolidated]
        simp [firstDefined, rankedTask, get_append, get_cons]
      · apply congr
        intro k hk
        rw [(C14_template_below_workflow _ special td tv k (hclear k hk)).2, lookup_consolidated]
        simp [firstDefined, rankedTask, get_append, get_cons]

/-- The command line of the code as it is follows the documented order: workflow,
    then template vars, then template defaults. -/
theorem C14_cmd_follows_rule (keys : List String) (special : KV) (p : Path) (locals td tv : KV)
    (hclear : ∀ k ∈ keys, lookup special k = none) :
    ((modelObs keys special { path := p, locals := locals, tmpl := some (td, tv) }).task.map (·.1))
      = some (tabulate keys (firstDefined (rankedTask p td tv))) := by
  unfold modelObs
  rw [C14_model_meets_spec_code keys special _ hclear]
  rfl

/-- For EITHER configuration, with the class the repair was about spelled out
    (`tmplOrderIrrelevant`): where the relative order of the template's two maps
    cannot matter, the code as it was met the Spec too — the task's command line
    was the only part that needed the hypothesis. -/
theorem C14_model_meets_spec_partial (cfg : TaskCfg) (keys : List String) (special : KV) (r : RoleIn)
    (hclear : ∀ k ∈ keys, lookup special k = none) (hyp : tmplOrderIrrelevant keys r = true) :
    modelObsOf cfg keys special r = expected keys r := by
  rw [← C14_model_meets_spec_code keys special r hclear]
  obtain ⟨b⟩ := cfg
  cases b
  · obtain ⟨p, locals, tmpl⟩ := r
    cases tmpl with
    | none => rfl
    | some t =>
      obtain ⟨td, tv⟩ := t
      have hcmd : tabulate keys (lookup (cmdStackOf { cmdVarsOverDefaults := false } (consolidated p) special td tv))
          = tabulate keys (lookup (cmdStackOf codeCfg (consolidated p) special td tv)) := by
        apply tabulate_congr
        intro k hk
        simp only [cmdStackOf, codeCfg, if_true, Bool.false_eq_true, if_false]
        rw [(C14_template_below_workflow _ special td tv k (hclear k hk)).1,
          C14_legacy_template_below_workflow _ special td tv k (hclear k hk), lookup_consolidated]
        have h := (List.all_eq_true.mp hyp) k hk
        simp only [Bool.or_eq_true, Option.isSome_iff_exists, Option.isNone_iff_eq_none, beq_iff_eq] at h
        rcases h with ((⟨v, hv⟩ | h) | h) | h
        · rw [hv]; rfl
        · rw [h]; simp
        · rw [h]; simp
        · rw [h]
      simp only [modelObsOf, Option.map_some, hcmd]
  · rfl

/-- Finding `task_template_defaults_over_vars` (repaired), refuted for the code as
    it was on a witness: a task under a bare root whose template sets `k` in
    defaults AND in vars. Its properties saw the vars' value, its command line the
    defaults' value. -/
theorem C14_finding_task_template_defaults_over_vars : ¬ C14_model_meets_spec_full legacyCfg := by
  intro h
  have := h ["k"] [] { path := [{ defaults := [], vars := [], userVars := [] }, { defaults := [], vars := [], userVars := [] }],
                       locals := [], tmpl := some ([("k", "td")], [("k", "tv")]) } (by intro k _; rfl)
  revert this
  decide

/-- What the command line saw before the repair: workflow, then template defaults, then template vars. -/
theorem C14_legacy_cmd_order (keys : List String) (special : KV) (p : Path) (locals td tv : KV)
    (hclear : ∀ k ∈ keys, lookup special k = none) :
    ((modelObsOf legacyCfg keys special { path := p, locals := locals, tmpl := some (td, tv) }).task.map (·.1))
      = some (tabulate keys (firstDefined (rankedCmdLegacy p td tv))) := by
  simp only [modelObsOf, Option.map_some, Option.some.injEq]
  apply tabulate_congr
  intro k hk
  simp only [cmdStackOf, legacyCfg, Bool.false_eq_true, if_false]
  rw [C14_legacy_template_below_workflow _ special td tv k (hclear k hk), lookup_consolidated]
  simp [firstDefined, rankedCmdLegacy, get_append, get_cons]

/-! ## writes after load: visible exactly in the subtree of the role they were written on

  `Forest` = the loaded role tree (iterators expanded, `expand`), `updAt f t r` = what
  `SetRuntimeVar`/`DeleteRuntimeVar` on the role at address `r` does to the tree,
  `applyWrites` = a whole history (with the `Global` variants landing on the root),
  `chainAt t s` = the roles from the root down to `s`: everything observed at `s`
  (`modelObs`) is a function of that chain and the environment. -/

/-- FRAME: a write on `r` leaves every role `s` that is neither `r` nor below `r`
    exactly as it was — for every tree, every map transformation, every pair of roles. -/
theorem C14_write_frame (f : KV → KV) (t : Forest) (r s : Addr) (h : isAnc r s = false) :
    chainAt (updAt f t r) s = chainAt t s := by
  by_cases hr : r = []
  · subst hr; rw [updAt_nil_addr]
  · rw [chainAt_updAt f t r s hr]
    simp [h]

/-- … and at `r` itself and everywhere below it, it is a change of `r`'s OWN user
    vars (position `|r| - 1` of the chain), nothing else. -/
theorem C14_write_lands_on_own_level (f : KV → KV) (t : Forest) (r s : Addr) (hr : r ≠ [])
    (h : isAnc r s = true) :
    chainAt (updAt f t r) s = (chainAt t s).map fun c => modUser f c (r.length - 1) := by
  rw [chainAt_updAt f t r s hr]
  simp [h]

/-- HISTORIES: after ANY sequence of writes on ANY roles of ANY tree, role `s` is
    its original chain with exactly those writes replayed that were made on `s` or
    on an ancestor of `s`, each on the level it was made on (`replay`). -/
theorem C14_history_ancestors_only (t : Forest) (ws : List Write) (s : Addr) :
    chainAt (applyWrites t ws) s = (chainAt t s).map fun c => replay s c ws :=
  chainAt_applyWrites ws t s

/-- A history in which no write was made on `s` or above `s` does not exist for `s`:
    a write at role r changes the resolution at role s only if r is s or an ancestor of s. -/
theorem C14_history_untouched (t : Forest) (ws : List Write) (s : Addr) (h : untouched ws s = true) :
    chainAt (applyWrites t ws) s = chainAt t s := by
  rw [chainAt_applyWrites]
  cases chainAt t s with
  | none => rfl
  | some c => simp [replay_untouched s ws h c]

/-- Whole tree: the mechanism (mutate the tree write by write, then look at every role)
    yields the role descriptions the rule prescribes (`rolesReplayed`, what `Spec.writesOk` uses). -/
theorem C14_history_roles (t : Forest) (ws : List Write) (env : Path) (tmpl : Option (KV × KV)) :
    rolesAfter t ws env tmpl = rolesReplayed t ws env tmpl :=
  rolesAfter_eq_rolesReplayed t ws env tmpl

/-- … and so what the model of the code as it is observes at every role after a
    history is what the documented precedence demands of that role's own chain — all
    trees, all histories, no excluded class. -/
theorem C14_history_meets_spec_code (keys : List String) (special : KV) (t : Forest) (ws : List Write)
    (env : Path) (tmpl : Option (KV × KV)) (hclear : ∀ k ∈ keys, lookup special k = none) :
    (rolesAfter t ws env tmpl).map (modelObs keys special) = (rolesReplayed t ws env tmpl).map (expected keys) := by
  rw [C14_history_roles]
  apply List.map_congr_left
  intro r _
  exact C14_model_meets_spec_code keys special r hclear

/-- The same for either configuration under the hypothesis of
    `C14_model_meets_spec_partial` (what held of the code as it was). -/
theorem C14_history_meets_spec_partial (cfg : TaskCfg) (keys : List String) (special : KV) (t : Forest) (ws : List Write)
    (env : Path) (tmpl : Option (KV × KV)) (hclear : ∀ k ∈ keys, lookup special k = none)
    (hyp : ∀ r ∈ rolesReplayed t ws env tmpl, tmplOrderIrrelevant keys r = true) :
    (rolesAfter t ws env tmpl).map (modelObsOf cfg keys special) = (rolesReplayed t ws env tmpl).map (expected keys) := by
  rw [C14_history_roles]
  apply List.map_congr_left
  intro r hr
  exact C14_model_meets_spec_partial cfg keys special r hclear (hyp r hr)

/-- `caseOk` accepts exactly the list of expected observations … -/
theorem C14_caseOk_expected (keys : List String) (rs : List RoleIn) :
    caseOk keys rs (rs.map (expected keys)) = true := by
  induction rs with
  | nil => rfl
  | cons r rest ih => simp [caseOk, roleOk, ih]

/-- … hence the observation the model of the code as it is makes of a loaded tree after
    any history satisfies `Spec.writesOk` — unconditionally. -/
theorem C14_history_writesOk_code (keys : List String) (special : KV) (t : Forest) (ws : List Write)
    (env : Path) (tmpl : Option (KV × KV)) (hclear : ∀ k ∈ keys, lookup special k = none) :
    writesOk keys t ws env tmpl ((rolesAfter t ws env tmpl).map (modelObs keys special)) = true := by
  rw [C14_history_meets_spec_code keys special t ws env tmpl hclear]
  exact C14_caseOk_expected keys _

/-- Either configuration, under the hypothesis of the partial theorem. -/
theorem C14_history_writesOk_partial (cfg : TaskCfg) (keys : List String) (special : KV) (t : Forest) (ws : List Write)
    (env : Path) (tmpl : Option (KV × KV)) (hclear : ∀ k ∈ keys, lookup special k = none)
    (hyp : ∀ r ∈ rolesReplayed t ws env tmpl, tmplOrderIrrelevant keys r = true) :
    writesOk keys t ws env tmpl ((rolesAfter t ws env tmpl).map (modelObsOf cfg keys special)) = true := by
  rw [C14_history_meets_spec_partial cfg keys special t ws env tmpl hclear hyp]
  exact C14_caseOk_expected keys _

/-- What role `s` SEES after `SetRuntimeVar(k, v)` on the `i`-th role of its chain
    (itself or an ancestor): for `k`, a user var of a role nearer to `s` still wins,
    otherwise `v` — above every user var further up, every var, every default and the
    environment; every other key resolves as before. -/
theorem C14_set_seen_in_subtree (c : List Node) (env : Path) (i : Nat) (hi : i < c.length) (k v k' : String) :
    lookup (consolidated (pathOf (modUser (Op.set k v).apply c i) env)) k' =
      if k = k' then orElse (get (uChain (pathOf (c.drop (i + 1)) [])) k) (some v)
      else lookup (consolidated (pathOf c env)) k' := by
  rw [lookup_consolidated, lookup_consolidated, get_ranked_modUser _ c env i hi, get_ranked_pathOf c env i hi]
  by_cases h : k = k'
  · subst h
    simp only [Op.apply, lookup_set, if_true]
    cases get (uChain (pathOf (c.drop (i + 1)) [])) k <;> rfl
  · simp only [Op.apply, lookup_set, h, if_false]

/-- `DeleteRuntimeVar(k)` on the `i`-th role of the chain removes exactly that role's
    own definition: `s` then sees what the remaining sources say — nearer user vars,
    user vars further up (environment included), vars, defaults; other keys as before. -/
theorem C14_del_reveals_inherited (c : List Node) (env : Path) (i : Nat) (hi : i < c.length) (k k' : String) :
    lookup (consolidated (pathOf (modUser (Op.del k).apply c i) env)) k' =
      if k = k' then
        orElse (get (uChain (pathOf (c.drop (i + 1)) [])) k)
          (orElse (get (uChain (pathOf (c.take i) env)) k)
            (orElse (get (vChain (pathOf c env)) k) (get (dChain (pathOf c env)) k)))
      else lookup (consolidated (pathOf c env)) k' := by
  rw [lookup_consolidated, lookup_consolidated, get_ranked_modUser _ c env i hi, get_ranked_pathOf c env i hi]
  by_cases h : k = k'
  · subst h
    simp only [Op.apply, lookup_erase, if_true, orElse_none]
  · simp only [Op.apply, lookup_erase, h, if_false]

/-- The path `modelObs` is evaluated on IS the chain's levels, nearest first, then the environment. -/
theorem C14_role_path_is_chain (env : Path) (tmpl : Option (KV × KV)) (c : List Node) (r : RoleIn)
    (h : roleInOf env tmpl c = some r) : r.path = pathOf c env :=
  roleInOf_path env tmpl c r h

/-- Sibling subtrees are isolated: a write on child `i` of a role (or anywhere it
    is the target) changes nothing at child `j ≠ i` of the same role nor below it. -/
theorem C14_sibling_subtrees_isolated (f : KV → KV) (t : Forest) (pre : Addr) (i j : Nat) (rest : Addr)
    (h : i ≠ j) : chainAt (updAt f t (pre ++ [i])) (pre ++ j :: rest) = chainAt t (pre ++ j :: rest) :=
  C14_write_frame f t _ _ (isAnc_sibling pre i j rest h)

/-- Iterator expansion: the `j`-th value of the range yields the `j`-th sibling — the
    template's own maps plus `var = value`, over the same (expanded) children; the
    instances ARE siblings, so by `C14_sibling_subtrees_isolated` a runtime variable
    written on one instance (or below it) does not exist for the others. -/
theorem C14_iter_instances_are_siblings (var : String) (vals : List String) (n : Node) (kids next : TForest)
    (j : Nat) (hj : j < vals.length) (more : Addr) :
    chainAt (expand (.iter var vals n kids next)) (j :: more)
      = chainAt (.role (withIter n var vals[j]) (expand kids) .nil) (0 :: more) := by
  simp only [expand]
  exact chainAt_instances var n (expand kids) (expand next) vals j hj more

/-- … and the roles after the iterator keep their order behind the instances. -/
theorem C14_iter_then_next (var : String) (vals : List String) (n : Node) (kids next : TForest)
    (j : Nat) (more : Addr) :
    chainAt (expand (.iter var vals n kids next)) ((vals.length + j) :: more) = chainAt (expand next) (j :: more) := by
  simp only [expand]
  exact chainAt_instances_rest var n (expand kids) (expand next) vals j more

/-- The iteration variable is an own VAR of the instance (below its user vars,
    above every inherited var); nothing else of the template changes. -/
theorem C14_iter_var_is_own_var (n : Node) (var val k : String) :
    lookup (withIter n var val).own.vars k = (if var = k then some val else lookup n.own.vars k) ∧
    (withIter n var val).own.defaults = n.own.defaults ∧ (withIter n var val).own.userVars = n.own.userVars := by
  simp [withIter, lookup_set]

/-- `SetGlobalRuntimeVar` / `DeleteGlobalRuntimeVar` called on any role act on the
    root above it — an ancestor of every role under that root. -/
theorem C14_global_write_reaches_all (a : Nat) (x : Addr) (op : Op) (rest : Addr) :
    (Write.mk (a :: x) true op).target = [a] ∧ isAnc (Write.mk (a :: x) true op).target (a :: rest) = true := by
  simp [Write.target, isAnc]

/-! ## include roles and the load

  A node with `site := true` is the SITE of an include role (the maps written next to `include:`); its
  single child is the root of the included workflow = the include role after the load. `chainAt` /
  `pathOf` pass through the site as through any level, `preorder` (the roles) skips it. -/

/-- The model's placement of the loop that publishes iterator Locals as vars IS the code's: in every
    kind of role it is a statement of ProcessTemplates; the aggregator runs it before descending; the
    include role runs it BEFORE its composed aggregatorRole is replaced by the loaded root, loads the
    sub-workflow under itself, restores nothing but parent and name, and ends in the loaded root's
    own ProcessTemplates. Moving or dropping a loop, restoring more of the site: this breaks. -/
theorem C14_load_is_code :
    Gen.C14Load.localsPublished = [("aggregatorRole", codeLoad.plainPublishes), ("taskRole", codeLoad.plainPublishes),
      ("callRole", codeLoad.plainPublishes), ("includeRole", codeLoad.sitePublishesBeforeSwap)] ∧
    Gen.C14Load.aggregatorPublishesBeforeChildren = codeLoad.plainPublishes ∧
    Gen.C14Load.includePublishesBeforeSwap = codeLoad.sitePublishesBeforeSwap ∧
    Gen.C14Load.includeRestoredAfterSwap = ["parent", "Name"] ∧
    Gen.C14Load.includeLoadsUnderItself = true ∧ Gen.C14Load.includeEndsInLoadedRoot = true := by
  decide

/-- The load as the code performs it (Locals, published where `codeLoad` says) yields, for EVERY
    template — any nesting of roles, iterators, include roles, iterated include roles — the tree the
    rule reads off the template (`expand`, what `Spec.loadedOk` judges against). -/
theorem C14_load_is_expand (t : TForest) : load codeLoad t = expand t :=
  load_code t

/-- … and wherever the loop of the include role stands: a template in which no iterator has an
    include role as its template loads to the same tree (plain include roles, iterators over
    aggregator / task / call roles are indifferent to it). -/
theorem C14_load_indifferent_without_iterated_include (cfg : LoadCfg) (hp : cfg.plainPublishes = true) (t : TForest)
    (h : noIteratedSite t = true) : load cfg t = expand t :=
  load_noIteratedSite cfg hp t h

/-- An include site is a LEVEL, not a role: the roles of the tree are the roles below it (first of
    all the included root, its only child here) and after it; every other node is a role. -/
theorem C14_include_site_is_no_role (n : Node) (kids next : Forest) (idx : Nat) (pre : Addr) :
    preorder (.role n kids next) idx pre =
      (if n.site then [] else [pre ++ [idx]]) ++ (preorder kids 0 (pre ++ [idx]) ++ preorder next (idx + 1) pre) :=
  rfl

/-- PRECEDENCE AROUND AN INCLUDE ROLE, per kind of map: for a role whose chain passes through an include
    role (site `s`, included root `r`; `pre` above, `below` below — `below = []` is the include role
    itself) the sources rank: the roles below, then the included root's own map, then the site's, then
    everything above the include role, the environment last. -/
theorem C14_include_root_over_site (pre below : List Node) (s r : Node) (env : Path) (k : String) :
    get (dChain (pathOf (pre ++ s :: r :: below) env)) k =
        orElse (get (dChain (pathOf below [])) k) (orElse (lookup r.own.defaults k)
          (orElse (lookup s.own.defaults k) (get (dChain (pathOf pre env)) k))) ∧
    get (vChain (pathOf (pre ++ s :: r :: below) env)) k =
        orElse (get (vChain (pathOf below [])) k) (orElse (lookup r.own.vars k)
          (orElse (lookup s.own.vars k) (get (vChain (pathOf pre env)) k))) ∧
    get (uChain (pathOf (pre ++ s :: r :: below) env)) k =
        orElse (get (uChain (pathOf below [])) k) (orElse (lookup r.own.userVars k)
          (orElse (lookup s.own.userVars k) (get (uChain (pathOf pre env)) k))) := by
  simp only [pathOf, dChain, vChain, uChain, List.reverse_append, List.reverse_cons, List.map_append, List.map_cons,
    List.append_assoc, List.cons_append, List.nil_append, List.append_nil, get_append, get_cons, and_self]

/-- What any role at or below an include role resolves: all user vars first (nearest first), then the
    vars — below, included root, site, above —, then the defaults in the same order. A var written at the
    include site beats every default of the included workflow and loses against its vars. -/
theorem C14_include_resolution (pre below : List Node) (s r : Node) (env : Path) (k : String) :
    lookup (consolidated (pathOf (pre ++ s :: r :: below) env)) k =
      orElse (get (uChain (pathOf (pre ++ s :: r :: below) env)) k)
        (orElse (orElse (get (vChain (pathOf below [])) k) (orElse (lookup r.own.vars k)
            (orElse (lookup s.own.vars k) (get (vChain (pathOf pre env)) k))))
          (orElse (get (dChain (pathOf below [])) k) (orElse (lookup r.own.defaults k)
            (orElse (lookup s.own.defaults k) (get (dChain (pathOf pre env)) k))))) := by
  obtain ⟨hd, hv, _⟩ := C14_include_root_over_site pre below s r env k
  rw [lookup_consolidated]
  simp only [ranked, get_append, hd, hv, orElse_assoc]

/-- ITERATION VARIABLE BELOW AN INSTANCE (any kind of template, include sites included): at a role whose
    chain passes through an instance generated for `var = val`, `var` resolves to: a user var of any
    level, else a var of a role NEARER than the instance, else `val` — no var or default of the
    instance's ancestors, of the environment, of the template itself is consulted. -/
theorem C14_iter_var_seen_below (c : List Node) (env : Path) (i : Nat) (hi : i < c.length) (n : Node) (var val : String)
    (hc : c[i] = withIter n var val) :
    lookup (consolidated (pathOf c env)) var =
      orElse (get (uChain (pathOf c env)) var) (orElse (get (vChain (pathOf (c.drop (i + 1)) [])) var) (some val)) := by
  rw [lookup_consolidated]
  simp only [ranked, get_append, get_vChain_withIter c env i hi n var val hc, orElse_assoc]
  cases get (uChain (pathOf c env)) var <;> cases get (vChain (pathOf (List.drop (i + 1) c) [])) var <;> rfl

/-- … so where nothing nearer and no user var defines it, every role below the instance sees the
    instance's own value: two instances with different values never resolve it alike. -/
theorem C14_iter_var_unshadowed (c : List Node) (env : Path) (i : Nat) (hi : i < c.length) (n : Node) (var val : String)
    (hc : c[i] = withIter n var val) (hu : get (uChain (pathOf c env)) var = none)
    (hv : get (vChain (pathOf (c.drop (i + 1)) [])) var = none) :
    lookup (consolidated (pathOf c env)) var = some val := by
  rw [C14_iter_var_seen_below c env i hi n var val hc, hu, hv]; rfl

/-- ITERATED INCLUDE ROLE: the `j`-th value of the range yields the `j`-th sibling; every role of that
    sibling — the include role `j :: 0`, the roles of the included workflow `j :: 0 :: more` — has the
    SITE carrying `var = vals[j]` in its chain right above the included root, over the same expanded
    sub-workflow for all instances. -/
theorem C14_iterated_include_instance (var : String) (vals : List String) (site root : Node) (kids next : TForest)
    (j : Nat) (hj : j < vals.length) (more : Addr) :
    chainAt (expand (.iter var vals site (.role root kids .nil) next)) (j :: 0 :: more) =
      (chainAt (.role root (expand kids) .nil) (0 :: more)).map (withIter site var vals[j] :: ·) := by
  rw [C14_iter_instances_are_siblings var vals site (.role root kids .nil) next j hj (0 :: more)]
  simp only [expand, chainAt]

/-- … hence inside the `j`-th instance of an iterated include role, at the include role and at every
    role of the included workflow, the iteration variable resolves to `vals[j]` unless a user var or a
    var of the included workflow itself (its root or a role between the root and the observer) defines
    it — whatever the including workflow, its ancestors or the environment define for that name. -/
theorem C14_iterated_include_sees_own_value (var : String) (vals : List String) (site root : Node) (kids next : TForest)
    (j : Nat) (hj : j < vals.length) (more : Addr) (c : List Node) (env : Path)
    (hc : chainAt (expand (.iter var vals site (.role root kids .nil) next)) (j :: 0 :: more) = some c) :
    lookup (consolidated (pathOf c env)) var =
      orElse (get (uChain (pathOf c env)) var) (orElse (get (vChain (pathOf (c.drop 1) [])) var) (some vals[j])) := by
  rw [C14_iterated_include_instance var vals site root kids next j hj more] at hc
  cases hin : chainAt (.role root (expand kids) .nil) (0 :: more) with
  | none => simp [hin] at hc
  | some c' =>
    simp only [hin, Option.map_some, Option.some.injEq] at hc
    subst hc
    exact C14_iter_var_seen_below _ env 0 (by simp) site var vals[j] rfl

/-- The template as the rule reads it, loaded as the code loads it, observed after ANY history of
    runtime writes satisfies `Spec.loadedOk` — all templates (iterators, include roles, iterated and
    nested include roles), all histories, all environments. -/
theorem C14_loaded_meets_spec (keys : List String) (special : KV) (tf : TForest) (ws : List Write)
    (env : Path) (tmpl : Option (KV × KV)) (hclear : ∀ k ∈ keys, lookup special k = none) :
    loadedOk keys tf ws env tmpl ((rolesAfter (load codeLoad tf) ws env tmpl).map (modelObs keys special)) = true := by
  rw [C14_load_is_expand]
  exact C14_history_writesOk_code keys special (expand tf) ws env tmpl hclear

/-- WHY the include role must publish its Locals BEFORE it replaces its maps: the workflow `root`
    (vars `slot = root-slot`) with `sub-{{ slot }}` for slot in 1, 2 including a sub-workflow with one call
    role `leaf`. As the code loads it, `leaf` of instance j sees `slot = j`. With the loop left to
    aggregatorRole.ProcessTemplates (`lateLoad`: it then iterates the LOADED root's empty Locals) both
    leaves — and both include roles — see the root's `root-slot`: a farther definition wins, and the
    instances are indistinguishable. Iterators over a plain aggregator are unaffected. -/
theorem C14_include_must_publish_before_swap :
    let lv (v : KV) : Level := { defaults := [], vars := v, userVars := [] }
    let plain (v : KV) : Node := { own := lv v, locals := [], task := false }
    let leaf : TForest := .role (plain []) .nil .nil
    let tf : TForest := .role (plain [("slot", "root-slot")])
      (.iter "slot" ["1", "2"] { own := lv [], locals := [], task := false, site := true } (.role (plain []) leaf .nil)
        (.iter "slot" ["1", "2"] (plain []) leaf .nil)) .nil
    let see (cfg : LoadCfg) (a : Addr) : Option String :=
      ((chainAt (load cfg tf) a).map fun c => lookup (consolidated (pathOf c [])) "slot").join
    (preorder (load codeLoad tf) 0 []).length = 9 ∧
    [[0, 0, 0], [0, 0, 0, 0], [0, 1, 0], [0, 1, 0, 0]].map (see codeLoad) = [some "1", some "1", some "2", some "2"] ∧
    [[0, 0, 0], [0, 0, 0, 0], [0, 1, 0], [0, 1, 0, 0]].map (see lateLoad)
      = [some "root-slot", some "root-slot", some "root-slot", some "root-slot"] ∧
    [[0, 2, 0], [0, 3, 0]].map (see lateLoad) = [some "1", some "2"] := by
  decide

/-! ## what the environment itself writes on its transitions

  `envWriteTable` = every write of core/environment to the maps its workflow resolves against, as rows
  (context, guards, target level, KIND of map, set/del, key, value source); `fire` interprets the rows of
  the four FSM callbacks, `create` those of newEnvironment; `snapshots` = the environment after creation and
  after every item of a schedule of transitions and runtime writes. -/

/-- The model's table IS the go/ast enumeration of the code: every write site, in source order, with its
    context, conditions, target, kind, key and value source. Publishing a key through another kind of map
    (`SetRuntimeVar` instead of `GetVars().Set`, …), a new write, a changed condition: this breaks. -/
theorem C14_env_writes_are_code : envWriteTable.map EnvWrite.code = Gen.C14EnvWrites.table := by
  rfl

/-- Every key the environment writes is written to the kind of map documented for it (`Spec.docKind`):
    run number, last run number, cleanup counter and configuration-store copies are vars; the run time
    stamps, state entry time, task results, requesting user and environment id are user kind. -/
theorem C14_env_write_kinds_documented : ∀ w ∈ envWriteTable, docKind w.key = some w.kind := by
  decide

/-- Hence the documented table (what `Spec.envOk` replays) is the code's table. -/
theorem C14_env_doc_table_is_code : docTable = envWriteTable := by
  decide

/-- The rule behind the kinds, by VALUE SOURCE rather than by key name: whatever the environment copies
    out of the configuration store (`env.BaseConfigStack[…]`) it publishes as a VAR of the root role —
    the rank of an ancestor's var, below every user var of every level. -/
theorem C14_store_copies_are_vars :
    ∀ w ∈ envWriteTable, (match w.src with | .store _ => true | _ => false) = true → w.kind = .vars ∧ w.tgt = .root := by
  decide

/-- The only user-kind writes of the environment on the root role or on itself carry the run-time keys. -/
theorem C14_env_user_writes_are_runtime_keys : envWriteTable.all (rowOk runtimeUserKeys) = true := by
  decide

/-- The FSM callbacks and newEnvironment write on the root role and on the environment-wide maps only. -/
theorem C14_env_callbacks_write_root_or_env :
    ∀ w ∈ envWriteTable, w.ctx ∈ ["newEnvironment", "before_event", "leave_state", "enter_state", "after_event"] →
      w.tgt ≠ .role := by
  decide

/-- FRAME for transitions: whatever the state, the event, the outcome of the task-level body — for every
    key but the run-time keys, the user-var hierarchy of EVERY role (the role, its ancestors, the
    environment) says after the transition what it said before. -/
theorem C14_env_transition_keeps_user_vars (ev : EnvM.Ev) (bodyOk : Bool) (s : EnvSt) (a : Addr) (k : String)
    (hk : runtimeUserKeys.contains k = false) :
    userView (fire envWriteTable ev bodyOk s).1 a k = userView s a k :=
  userView_of_UEq (UEq_fire runtimeUserKeys k hk envWriteTable C14_env_user_writes_are_runtime_keys ev bodyOk s) a

/-- USER-SUPPLIED OUTRANKS CONFIGURATION-STORE COPIES: a role that resolves `k` from a user var (its own,
    an ancestor's, or one the user gave the environment) before a transition resolves it to the same value
    after the transition — START_ACTIVITY with the store defining `k` included. -/
theorem C14_user_supplied_outranks_store (ev : EnvM.Ev) (bodyOk : Bool) (s : EnvSt) (a : Addr) (c : List Node) (k v : String)
    (hk : runtimeUserKeys.contains k = false) (hc : chainAt s.t a = some c)
    (hv : get (uChain (pathOf c [s.envLv])) k = some v) :
    ∃ c', chainAt (fire envWriteTable ev bodyOk s).1.t a = some c' ∧
      lookup (consolidated (pathOf c' [(fire envWriteTable ev bodyOk s).1.envLv])) k = some v := by
  have h := C14_env_transition_keeps_user_vars ev bodyOk s a k hk
  simp only [userView, hc, Option.map_some] at h
  cases hc' : chainAt (fire envWriteTable ev bodyOk s).1.t a with
  | none => simp [hc'] at h
  | some c' =>
    simp only [hc', Option.map_some, Option.some.injEq] at h
    exact ⟨c', rfl, consolidated_of_user _ k v (h.trans hv)⟩

/-- WHOLE RUNS: the user supplies `k = v` at environment creation (`k` not a run-time key, no role / call /
    plugin writes `k` during the run). Then at every moment — after creation, after every transition, legal
    or not, completed or failed, after every runtime write — EVERY role resolves `k` to a user-kind value:
    the one its user-var hierarchy gave right after the load (`v`, unless a role between it and the root
    has a user var for `k`), whatever the configuration store holds. -/
theorem C14_env_run_user_value_wins (sd sv u : KV) (t : Forest) (items : List Item) (k v : String)
    (hk : runtimeUserKeys.contains k = false) (hitems : items.all (Item.avoids k) = true) (hu : lookup u k = some v) :
    ∀ p ∈ snapshots envWriteTable sd sv u t items, ∀ a c, chainAt p.1.t a = some c →
      ∃ x, lookup (consolidated (pathOf c [p.1.envLv])) k = some x ∧
        userView (create envWriteTable sd sv u t) a k = some (some x) := by
  intro p hp a c hc
  have hE := UEq_snapshots runtimeUserKeys k hk envWriteTable C14_env_user_writes_are_runtime_keys sd sv u t items hitems p hp
  have hcr := UEq_create runtimeUserKeys k hk envWriteTable C14_env_user_writes_are_runtime_keys sd sv u t
  have henv : lookup p.1.envLv.userVars k = some v := by rw [hE.1, hcr.1, hu]
  obtain ⟨x, hx⟩ := get_uChain_isSome_of_env c p.1.envLv k v henv
  refine ⟨x, consolidated_of_user _ k x hx, ?_⟩
  rw [← userView_of_UEq hE a]
  simp [userView, hc, hx]

/-- The model's record of one moment (what the driver prints). -/
def C14.modelSnap (keys : List String) (special : KV) (tmpl : Option (KV × KV)) (p : EnvSt × String) : SnapObs :=
  { state := p.1.st.name, res := p.2, roles := (p.1.roles tmpl).map (modelObs keys special) }

/-- What the model of the code as it is observes over a whole run of an environment satisfies
    `Spec.envOk` — at every moment every role shows what the precedence rule demands with the
    environment's writes on their documented kinds, and no user-supplied value is ever displaced — for ALL
    stores, user inputs, workflows and schedules. -/
theorem C14_env_run_envOk (keys : List String) (special : KV) (sd sv u : KV) (t : Forest) (items : List Item)
    (tmpl : Option (KV × KV)) (hclear : ∀ k ∈ keys, lookup special k = none) (hkeys : ∀ k ∈ u.map (·.1), k ∈ keys) :
    envOk keys sd sv u t items tmpl ((snapshots envWriteTable sd sv u t items).map (C14.modelSnap keys special tmpl)) = true := by
  unfold envOk
  rw [C14_env_doc_table_is_code, Bool.and_eq_true]
  constructor
  · -- every moment, every role: the rule
    generalize snapshots envWriteTable sd sv u t items = l
    induction l with
    | nil => rfl
    | cons p rest ih =>
      obtain ⟨s, res⟩ := p
      simp only [List.map_cons, snapsOk, Bool.and_eq_true]
      refine ⟨?_, ih⟩
      have : (s.roles tmpl).map (modelObs keys special) = (s.roles tmpl).map (expected keys) :=
        List.map_congr_left (fun r _ => C14_model_meets_spec_code keys special r hclear)
      simp only [C14.modelSnap, this]
      exact C14_caseOk_expected keys _
  · -- no user-supplied value is displaced
    simp only [snapshots, List.map_cons, userStable, List.all_eq_true]
    intro k hkst
    simp only [stableKeys, List.mem_filter, Bool.and_eq_true, Bool.not_eq_true'] at hkst
    obtain ⟨hmem, hrk, hany⟩ := hkst
    obtain ⟨v, hu⟩ := mem_keys_lookup u k hmem
    have hitems : items.all (Item.avoids k) = true := by
      rw [List.all_eq_true]
      intro i hi
      have := (List.any_eq_false.mp hany) i hi
      cases i with
      | trans ev ok => rfl
      | write w =>
        simp only [Item.key?, beq_iff_eq, Option.some.injEq] at this
        simpa [Item.avoids] using this
    have hkk : k ∈ keys := hkeys k hmem
    have hall : ∀ p ∈ snapshots envWriteTable sd sv u t items,
        sameAt k (C14.modelSnap keys special tmpl (create envWriteTable sd sv u t, "new")).roles
          (C14.modelSnap keys special tmpl p).roles = true := by
      intro p hp
      simp only [C14.modelSnap, EnvSt.roles, rolesOf]
      rw [preorder_snapshots envWriteTable sd sv u t items 0 [] p hp]
      apply sameAt_filterMap
      intro a _
      have hE := UEq_snapshots runtimeUserKeys k hrk envWriteTable C14_env_user_writes_are_runtime_keys sd sv u t items hitems p hp
      have hview := userView_of_UEq hE a
      have hwin := C14_env_run_user_value_wins sd sv u t items k v hrk hitems hu
      cases hc0 : chainAt (create envWriteTable sd sv u t).t a with
      | none =>
        left
        have : chainAt p.1.t a = none := by
          simp only [userView, hc0, Option.map_none, Option.map_eq_none_iff] at hview
          exact hview
        simp [this]
      | some c0 =>
        right
        have hpc : ∃ c, chainAt p.1.t a = some c := by
          simp only [userView, hc0, Option.map_some] at hview
          cases hcp : chainAt p.1.t a with
          | none => simp [hcp] at hview
          | some c => exact ⟨c, rfl⟩
        obtain ⟨c, hc⟩ := hpc
        obtain ⟨r0, hr0, hp0⟩ := roleInOf_isSome [(create envWriteTable sd sv u t).envLv] tmpl c0 (chainAt_ne_nil _ a c0 hc0)
        obtain ⟨r, hr, hpr⟩ := roleInOf_isSome [p.1.envLv] tmpl c (chainAt_ne_nil _ a c hc)
        obtain ⟨x0, hx0, hv0⟩ := hwin (create envWriteTable sd sv u t, "new") (by simp [snapshots]) a c0 hc0
        obtain ⟨x, hx, hv⟩ := hwin p hp a c hc
        have hxx : x0 = x := by
          rw [hv0] at hv
          simpa using hv
        have hstack : ∀ (q : RoleIn), (modelObs keys special q).stack = tabulate keys (lookup (consolidated q.path)) :=
          fun q => rfl
        refine ⟨r0, r, by simp [hr0], by simp [hc, hr], ?_, ?_⟩
        · rw [hstack, hstack, lookup_tabulate _ _ _ hkk, lookup_tabulate _ _ _ hkk, hp0, hpr, hx0, hx, hxx]
        · rw [hstack, lookup_tabulate _ _ _ hkk, hp0, hx0]; rfl
    intro o ho
    simp only [List.mem_cons, List.mem_map] at ho
    rcases ho with rfl | ⟨p, hp, rfl⟩
    · exact hall _ (by simp [snapshots])
    · exact hall p (by simp [snapshots, hp])

/-- The kind is what the property hangs on: the SAME rows with the configuration-store copies published as
    user vars of the root (`SetRuntimeVar` instead of `GetVars().Set`) violate the hypothesis of the frame
    theorem, and a user-supplied value IS displaced — store `lhc_period = LHCstore`, user
    `lhc_period = LHCuser`, DEPLOY, CONFIGURE, START_ACTIVITY: from START on the root resolves `LHCstore`. -/
theorem C14_env_needs_store_copies_as_vars :
    let bad := envWriteTable.map fun w => match w.src with
      | .store _ => { w with kind := MapKind.user }
      | _ => w
    let root : Forest := .role { own := { defaults := [], vars := [], userVars := [] }, locals := [], task := false } .nil .nil
    let run (table : List EnvWrite) := snapshots table [] [("lhc_period", "LHCstore")] [("lhc_period", "LHCuser")] root
      [.trans .DEPLOY true, .trans .CONFIGURE true, .trans .START_ACTIVITY true]
    let seen (table : List EnvWrite) := (run table).map fun p =>
      ((chainAt p.1.t [0]).map fun c => lookup (consolidated (pathOf c [p.1.envLv])) "lhc_period").join
    bad.all (rowOk runtimeUserKeys) = false ∧
    seen bad = [some "LHCuser", some "LHCuser", some "LHCuser", some "LHCstore"] ∧
    seen envWriteTable = [some "LHCuser", some "LHCuser", some "LHCuser", some "LHCuser"] := by
  decide

/-! ## non-vacuity and contrast -/

/-- A realistic path: task role under an aggregator under the root, environment
    last. `detector` is a default at the root, overridden by vars at the
    aggregator and by a user var at the root; `cfg` is a global default that the
    aggregator's vars blank out — the task sees the blank. -/
example :
    let task : Level := { defaults := [("n", "1")], vars := [], userVars := [] }
    let agg : Level := { defaults := [], vars := [("detector", "TPC"), ("cfg", "")], userVars := [] }
    let root : Level := { defaults := [("detector", "ITS"), ("n", "4")], vars := [], userVars := [("detector", "MFT")] }
    let env : Level := { defaults := [("cfg", "consul://x")], vars := [], userVars := [("user", "flp")] }
    let p := [task, agg, root, env]
    lookup (consolidated p) "detector" = some "MFT" ∧ lookup (consolidated p) "cfg" = some "" ∧
    lookup (consolidated p) "n" = some "1" ∧ lookup (consolidated p) "user" = some "flp" ∧
    lookup (consolidated p) "nope" = none := by
  decide

/-- An environment's life: the configuration store says `lhc_period = LHCstore` (vars) and
    `pdp_n_hbf_per_tf = 128` (defaults), the user supplies `lhc_period = LHCuser`; workflow root → sub → call.
    DEPLOY, CONFIGURE, START_ACTIVITY, STOP_ACTIVITY: six moments. The call role sees the user's `lhc_period`
    at every moment; `pdp_n_hbf_per_tf` (no user value) is the store's; the run number exists while RUNNING
    and becomes `last_run_number`; the cleanup counter counts; time stamps are user vars of the root. -/
example :
    let leaf : TForest := .role { own := { defaults := [], vars := [], userVars := [] }, locals := [], task := false } .nil .nil
    let tf : TForest := .role { own := { defaults := [], vars := [], userVars := [] }, locals := [], task := false }
      (.role { own := { defaults := [], vars := [], userVars := [] }, locals := [], task := false } leaf .nil) .nil
    let snaps := snapshots envWriteTable [("pdp_n_hbf_per_tf", "128")] [("lhc_period", "LHCstore")] [("lhc_period", "LHCuser")]
      (expand tf) [.trans .DEPLOY true, .trans .CONFIGURE true, .trans .START_ACTIVITY true, .trans .STOP_ACTIVITY true]
    let see (i : Nat) (k : String) : Option String :=
      (snaps[i]?).bind fun p => ((chainAt p.1.t [0, 0, 0]).map fun c => lookup (consolidated (pathOf c [p.1.envLv])) k).join
    snaps.map (·.1.st.name) = ["STANDBY", "DEPLOYED", "CONFIGURED", "RUNNING", "CONFIGURED"] ∧
    (List.range 5).map (see · "lhc_period") = List.replicate 5 (some "LHCuser") ∧
    (List.range 5).map (see · "pdp_n_hbf_per_tf") = List.replicate 5 (some "128") ∧
    (List.range 5).map (see · "run_number") = [none, none, none, some "1", none] ∧
    see 4 "last_run_number" = some "1" ∧ see 3 "__fmq_cleanup_count" = some "1" ∧
    see 3 "run_end_time_ms" = some "" ∧ see 4 "run_end_time_ms" = some "T" ∧
    (snaps[3]?).map (fun p => lookup p.1.t.rootLevel.vars "lhc_period") = some (some "LHCstore") ∧
    (snaps[3]?).map (fun p => lookup p.1.t.rootLevel.userVars "lhc_period") = some none := by
  decide

/-- Contrast: WITHOUT `WithOverride` the empty-is-a-definition clause would fail —
    a child's empty value would lose against the parent's non-empty one. -/
example : lookup (mergo false [("k", "parent")] [("k", "")]) "k" = some "parent" := by decide

/-- The scenario of a call returning a value inside an iterated role: root (default
    `result`) over an iterator `host-{{ it }}` for a, b, each instance with a call role
    `hook` and a task role `readout`. `hook` of host-a gets `result` (SetRuntimeVar, as
    callable.Call does), host-a gets `flag`, some role calls SetGlobalRuntimeVar.
    host-a's subtree sees them; host-b, its hook and its readout see the root default,
    no `flag`, and the global value; `it` stays the instance's own value. -/
example :
    let leaf (task : Bool) : TForest → TForest := .role { own := { defaults := [], vars := [], userVars := [] }, locals := [], task := task } .nil
    let tf : TForest :=
      .role { own := { defaults := [("result", "from-root")], vars := [], userVars := [] }, locals := [], task := false }
        (.iter "it" ["a", "b"] { own := { defaults := [], vars := [("host_var", "hv")], userVars := [] }, locals := [], task := false }
          (leaf false (leaf true .nil)) .nil) .nil
    let ws : List Write := [⟨[0, 0, 0], false, .set "result" "returned-on-a"⟩, ⟨[0, 0], false, .set "flag" "a-only"⟩,
                            ⟨[0, 1, 1], true, .set "run" "42"⟩]
    let see (a : Addr) (k : String) : Option String :=
      ((chainAt (applyWrites (expand tf) ws) a).map fun c => lookup (consolidated (pathOf c [])) k).join
    (preorder (expand tf) 0 []).length = 7 ∧
    see [0, 0, 0] "result" = some "returned-on-a" ∧ see [0, 0, 1] "result" = some "from-root" ∧
    see [0, 0, 1] "flag" = some "a-only" ∧
    see [0, 1] "result" = some "from-root" ∧ see [0, 1, 0] "result" = some "from-root" ∧ see [0, 1, 1] "result" = some "from-root" ∧
    see [0, 1] "flag" = none ∧ see [0, 1, 0] "flag" = none ∧ see [0, 1, 1] "flag" = none ∧
    see [0, 0, 0] "run" = some "42" ∧ see [0, 1, 0] "run" = some "42" ∧ see [0] "run" = some "42" ∧
    see [0, 0, 1] "it" = some "a" ∧ see [0, 1, 1] "it" = some "b" ∧
    untouched ws [0, 1, 0] = false ∧ untouched (ws.take 2) [0, 1, 0] = true := by
  decide

/-- An include role with opinions on both sides: the including workflow `root` (default `detector = ITS`)
    has `dpl` = `include: sub` with vars `detector = TPC` and defaults `n = 4` written at the include
    site, and a plain task role next to it; `sub`'s root declares defaults `detector = MFT`, `n = 1` and
    has one task role. Inside the included workflow the site's VAR beats the included root's DEFAULT
    (kind first), the included root's default beats the site's default (nearest first); the neighbour
    sees neither. `SetRuntimeVar(detector, EMC)` on the include role (address `[0,0,0]`: the site is a
    step, not a role) reaches the included workflow only. The tree has 4 roles, the site is none. -/
example :
    let nd (d v : KV) (task site : Bool) : Node :=
      { own := { defaults := d, vars := v, userVars := [] }, locals := [], task := task, site := site }
    let tf : TForest :=
      .role (nd [("detector", "ITS")] [] false false)
        (.role (nd [("n", "4")] [("detector", "TPC")] false true)
          (.role (nd [("detector", "MFT"), ("n", "1")] [] false false) (.role (nd [] [] true false) .nil .nil) .nil)
          (.role (nd [] [] true false) .nil .nil)) .nil
    let see (ws : List Write) (a : Addr) (k : String) : Option String :=
      ((chainAt (applyWrites (load codeLoad tf) ws) a).map fun c => lookup (consolidated (pathOf c [])) k).join
    let w : List Write := [⟨[0, 0, 0], false, .set "detector" "EMC"⟩]
    preorder (load codeLoad tf) 0 [] = [[0], [0, 0, 0], [0, 0, 0, 0], [0, 1]] ∧
    see [] [0, 0, 0, 0] "detector" = some "TPC" ∧ see [] [0, 0, 0] "detector" = some "TPC" ∧
    see [] [0, 0, 0, 0] "n" = some "1" ∧ see [] [0, 1] "detector" = some "ITS" ∧ see [] [0, 1] "n" = none ∧
    see w [0, 0, 0, 0] "detector" = some "EMC" ∧ see w [0, 1] "detector" = some "ITS" ∧ see w [0] "detector" = some "ITS" := by
  decide
