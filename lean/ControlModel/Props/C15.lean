/-
  Props/C15 — "Loading a workflow is deterministic and prunes disabled roles".

  Property theorems only; lemmas live in Proofs/Load.lean, the model in Model/Load.lean,
  the ideal loader (`Load.ideal`, `Load.Spec`) in Spec/C15.lean.

  Tie to /repo: the correspondence run (harness/props/c15) executes the real
  ProcessTemplates on generated YAML under all 8 settings of the three concurrency switches
  and compares the whole processed tree with `Load.load`; `Gen.loadGoroutines` is extracted
  with go/ast on every run and identified below with what the interleaving model assumes.

  Configurations. Three statements of the property were FALSE of the code (findings
  iterator_enabled_expr, hollow_iterator, enabled_error_masked). Two repairs in /repo removed
  them (notes/C15.fix-1.patch: `iteratorRole.IsEnabled()` = "still holds a generated role";
  notes/C15.fix-2.patch: the stage-0 callback passes a template error on). `Load.codeCfg` is
  the code as it is — tied to the source by `C15_pruning_is_code` —, `Load.legacyCfg` the
  code as it was. The three statements stay visible as `def …_full (cfg) : Prop`; they are
  PROVED for `codeCfg` (`C15_*_code`, all templates), still refuted for `legacyCfg` on the
  concrete witnesses (`C15_finding_*`), and the `…_partial` theorems (excluding hypothesis
  spelled out) hold for every configuration. Theorems that take `cfg` hold for both.
-/
import ControlModel.Gen.LoadFacts
import ControlModel.Proofs.Load

open Load

variable {cfg : Cfg}

/-! ## what the goroutines touch (go/ast facts) -/

/-- What the interleaving model relies on, per `go func` of the template processing:
    the switch that enables it; the captured variables it assigns — only the error
    accumulator (`roleErrors`, and the enclosing function's `err`, which is overwritten from the
    accumulator after `wg.Wait()`) and, in the expansion, the goroutine's OWN slot
    `roles[rangeIdx]`; everything else goes through calls on the goroutine's own child role
    (`role.ProcessTemplates`, `role.setParent`) or on the read-only template
    (`generateRole` copies). No goroutine takes a lock: the accumulator is NOT
    mutex-protected (a data race on `roleErrors`/`err`; only its nil-ness is used afterwards). -/
def Load.expectedGoroutines : List (String × String × List String × List String × Bool) := [
  ("aggregatorRole.ProcessTemplates", "concurrentWorkflowTemplateProcessing", ["roleErrors"],
    ["multierror.Append", "role.ProcessTemplates", "role.setParent", "wg.Done"], false),
  ("iteratorRole.ProcessTemplates", "concurrentWorkflowTemplateIteratorProcessing", ["err", "roleErrors"],
    ["multierror.Append", "role.ProcessTemplates", "wg.Done"], false),
  ("iteratorRole.expandTemplate", "concurrentIteratorRoleExpansion", ["err", "roleErrors", "roles[rangeIdx]"],
    ["i.For.GetVar", "i.template.generateRole", "make", "multierror.Append", "wg.Done"], false)
]

/-- The goroutines of the code, as extracted now, are the ones the model was written for:
    three switches, writes only to the error accumulator and the goroutine's own slot. -/
theorem C15_goroutines_is_code : Gen.loadGoroutines = Load.expectedGoroutines := by decide

/-! ## which roles a load keeps (go/ast facts) -/

/-- Reading of two source facts as a configuration of the model: what `iteratorRole.IsEnabled()`
    returns, and under which conditions `MakeDisabledRoleCallback` replaces the error of a stage by
    `RoleDisabledError`. Anything but the two known shapes of each spot reads as `none`. -/
def Load.posOf (x : String) : List String → Option Nat
  | [] => none
  | y :: ys => if y = x then some 0 else (Load.posOf x ys).map (· + 1)

/-- The steps of `includeRole.ProcessTemplates` the model of an include role is written for, in
    source order: its own template sequence (Locals on the VarStack), the Locals written to its
    Vars, `enabled` trimmed, return when disabled (the sub-workflow is not even looked up),
    `loadSubworkflow(include, r)` (the loaded root's maps wrap the role's own), the replacement of
    the composed aggregatorRole by the loaded root, `parent` and `Name` put back, the loaded root's
    own `ProcessTemplates`. -/
def Load.expectedIncludeSteps : List String :=
  ["sequence", "publish-locals", "trim-enabled", "return-if-disabled", "load-under-self", "swap",
   "restore:parent", "restore:Name", "descend-into-loaded-root"]

def Load.cfgOfSource (iterIsEnabled : String) (guards : List String) (inclSteps : List String) : Option Cfg :=
  let late : Option Bool :=
    match Load.posOf "publish-locals" inclSteps, Load.posOf "swap" inclSteps with
    | some p, some s => some (decide (s < p))
    | _, _ => none
  let byRaw : Option Bool :=
    if iterIsEnabled = "len(i.Roles) > 0" then some false
    else if iterIsEnabled = "i.template.IsEnabled()" then some true
    else none
  let mask : Option Bool :=
    if guards = ["stage == template.STAGE0 && err == nil", "!r.IsEnabled()"] then some false
    else if guards = ["stage == template.STAGE0", "!r.IsEnabled()"] then some true
    else none
  match mask, byRaw, late with
  | some m, some r, some l => some { maskEnabledError := m, iterByRawText := r, inclPublishLate := l }
  | _, _, _ => none

/-- The code, as extracted now, is `codeCfg`: an iterator counts as enabled iff it still holds a
    generated role, and the stage-0 callback reports "role disabled" only when evaluating
    `enabled` succeeded. Moreover the two spots the model takes as they are: both
    `ProcessTemplates` keep exactly the children with `IsEnabled()`, and an aggregator disables
    itself iff `len(r.Roles) == 0` (`aggOut`). (Reverting either repair in /repo breaks this.) -/
theorem C15_pruning_is_code :
    Load.cfgOfSource Gen.loadIteratorIsEnabled Gen.loadDisabledRoleGuards Gen.loadIncludeSteps = some codeCfg ∧
    Gen.loadChildFilters = [("aggregatorRole", "role.IsEnabled()"), ("iteratorRole", "role.IsEnabled()")] ∧
    Gen.loadSelfDisable = "len(r.Roles) == 0" := by decide

/-- …and the source as it was before the two repairs reads as `legacyCfg`. -/
theorem C15_legacy_is_former_code :
    Load.cfgOfSource "i.template.IsEnabled()" ["stage == template.STAGE0", "!r.IsEnabled()"] Load.expectedIncludeSteps =
      some legacyCfg := by decide

/-- The include role of the code, as extracted now, is the one `proc` models (`inclHdr`, `docHdr`):
    the steps and their ORDER — in particular the iterator Locals are written to the role's Vars
    BEFORE the composed aggregatorRole (Locals and Vars included) is replaced by the loaded root
    —, the `include:` expression is a stage-4 field next to the name, and the role's own sequence
    runs with its Locals on the VarStack. -/
theorem C15_include_steps_is_code :
    Gen.loadIncludeSteps = Load.expectedIncludeSteps ∧ Gen.loadIncludeStage4 = ["&r.Name", "&r.Include"] ∧
    Gen.loadIncludeSequenceLocals = "r.Locals" := by decide

/-- …and the order with the publishing loop after the replacement reads as `lateInclCfg`, which is
    NOT what the property wants (`C15_include_must_publish_before_swap`). -/
theorem C15_late_publication_is_not_code :
    Load.cfgOfSource Gen.loadIteratorIsEnabled Gen.loadDisabledRoleGuards
      ["sequence", "trim-enabled", "return-if-disabled", "load-under-self", "swap", "restore:parent", "restore:Name",
       "publish-locals", "descend-into-loaded-root"] = some lateInclCfg ∧ lateInclCfg ≠ codeCfg := by decide

/-! ## determinism: schedules and switches -/

/-- Whatever the interleaving of the children's goroutines (any sequence of scheduler
    decisions: run the first pending role of any pending sibling group, or let any later
    sibling go first), the concurrent load yields exactly what `load` yields — same roles,
    order, names, variables, constraints, channels, traits, or the same failure. -/
theorem C15_schedule_indep (sched : List Step) (t : Tmpl) : loadConc cfg sched t = load cfg t := by
  simp [loadConc, load, finish_run, finish_init]

/-- Stronger form on the machine state: no scheduler decision taken from ANY reachable
    partial tree changes the final outcome (the invariant behind `C15_schedule_indep`). -/
theorem C15_step_invariant (s : PT) (sched : List Step) : finish cfg (run cfg s sched) = finish cfg s :=
  finish_run s sched

/-- The sequential code path (first error returns, later siblings are never processed)
    computes the same as the accumulating concurrent one. -/
theorem C15_sequential_eq_concurrent (t : Tmpl) : loadSeq cfg t = load cfg t := loadSeq_eq t

/-- Same template + same variables ⇒ same result under every setting of the three
    switches and every schedule. -/
theorem C15_deterministic (sw sw' : Switches) (sched sched' : List Step) (t : Tmpl) :
    loadWith cfg sw sched t = loadWith cfg sw' sched' t := by
  have h : ∀ (s : Switches) (sc : List Step), loadWith cfg s sc t = load cfg t := by
    intro s sc
    unfold loadWith
    split
    · exact loadSeq_eq t
    · exact C15_schedule_indep sc t
  rw [h, h]

/-! ## pruning of disabled roles -/

/-- A role whose `enabled` evaluates to anything but true/1 is absent together with its
    whole subtree: the sibling list is processed as if the role were not written — whatever
    its children, variables or other fields contain (they are never evaluated). -/
theorem C15_pruned (ctx : Ctx) (loc : Env) (h : Hdr) (en : String)
    (he : evalField (ctx.look loc) h.enabled = some en) (hf : truthy en = false) :
    (∀ kids next, proc cfg ctx loc (.agg h kids next) = proc cfg ctx loc next) ∧
    (∀ x c next, proc cfg ctx loc (.task h x c next) = proc cfg ctx loc next) ∧
    (∀ x c next, proc cfg ctx loc (.call h x c next) = proc cfg ctx loc next) := by
  refine ⟨?_, ?_, ?_⟩ <;> intros <;> simp [proc, procHdr_disabled he hf, leafOut]

/-- Every role left in a loaded tree has an `enabled` that reads true/1 (all templates). -/
theorem C15_only_enabled_remain (t : Tmpl) : (load cfg t).all allEnabled = true := by
  unfold load Out.loaded
  split
  · rfl
  · have h := allEnabled_flatten _ (proc_allEnabled (cfg := cfg) t {} [])
    split
    · rfl
    · simp [Loaded.all, h]

/-! ## empty aggregators -/

/-- An enabled aggregator all of whose children were pruned disappears itself. -/
theorem C15_empty_agg_gone (ctx : Ctx) (loc : Env) (h : Hdr) (kids next : Tmpl) (i : Info) (c' : Ctx) (ex : List String)
    (hh : procHdr ctx loc h [] = .ok i c' ex) (hk : (proc cfg c' [] kids).f = .nil) :
    (proc cfg ctx loc (.agg h kids next)).f = (proc cfg ctx loc next).f := by
  simp [proc, hh, aggOut, hk]

/-- In the tree as the code stores it (iterator nodes are members of `Roles`) no aggregator
    has an empty `Roles` — for every template. -/
theorem C15_no_empty_roles (ctx : Ctx) (loc : Env) (t : Tmpl) : noEmptyAgg (proc cfg ctx loc t).f = true :=
  proc_noEmptyAgg t ctx loc

/-- FULL-STRENGTH statement (true of the code as it is: `C15_empty_agg_gone_code`; false of the
    code as it was: `C15_finding_hollow_iterator`): in the loaded tree, as `GetRoles` shows it, no
    aggregator is without roles. -/
def C15_empty_agg_gone_full (cfg : Cfg) : Prop := ∀ t : Tmpl, (load cfg t).all noEmptyAgg = true

/-- For every configuration: the same, for loads in which no aggregator was kept whose `Roles`
    held nothing but iterators that yielded no role (`ev.hollow = false`, a computable predicate
    of the template). -/
theorem C15_empty_agg_gone_partial (t : Tmpl) (h : (proc cfg {} [] t).ev.hollow = false) :
    (load cfg t).all noEmptyAgg = true := by
  unfold load Out.loaded
  split
  · rfl
  · have := proc_flat_noEmptyAgg t {} [] h
    split
    · rfl
    · simp [Loaded.all, this]

/-! ## iterators -/

/-- An iterator whose range evaluates to `vals` and which its parent keeps (`iterKeep`: for the
    code as it is, at least one generated role is left; for the code as it was, the template's
    raw `enabled` text reads true) is stored as ONE iterator node holding the concatenation, in
    range order, of what its template yields with the iteration variable bound to each element —
    nothing else, nothing reordered. -/
theorem C15_iterator_expansion (ctx : Ctx) (loc : Env) (rng : RangeT) (var : String) (body next : Tmpl) (vals : List String)
    (hr : evalRange ctx.lookRange rng = some vals)
    (hen : iterKeep cfg (rawEnabled body) (vals.foldr (fun v acc => (proc cfg ctx [(var, v)] body).f ++ acc) .nil) = true) :
    (proc cfg ctx loc (.iter rng var body next)).f =
      .iter (vals.foldr (fun v acc => (proc cfg ctx [(var, v)] body).f ++ acc) .nil) .nil ++ (proc cfg ctx loc next).f := by
  simp [proc, hr, hen, iterOut, fold_f]

/-- THE CODE AS IT IS, no side condition: seen through `GetRoles` (iterator nodes transparent) an
    iterator whose range evaluates to `vals` contributes exactly the concatenation, in range
    order, of what its template yields per element — whatever the template's `enabled` looks
    like (it is each generated role's own `enabled`), also when nothing is left. -/
theorem C15_iterator_expansion_code (ctx : Ctx) (loc : Env) (rng : RangeT) (var : String) (body next : Tmpl) (vals : List String)
    (hr : evalRange ctx.lookRange rng = some vals) :
    (proc codeCfg ctx loc (.iter rng var body next)).f.flatten =
      (vals.foldr (fun v acc => (proc codeCfg ctx [(var, v)] body).f ++ acc) .nil).flatten ++
        (proc codeCfg ctx loc next).f.flatten := by
  simp only [proc, hr, Out.seq_f, Tree.flatten_append, iterOut_f, fold_f]
  congr 1
  generalize vals.foldr (fun v acc => (proc codeCfg ctx [(var, v)] body).f ++ acc) .nil = kf
  cases kf <;> simp [iterKeep, codeCfg, Tree.isNil, Tree.flatten]

/-- …exactly one child per element, in order, with the iteration variable bound: reading the
    iterator's children by their own binding of the iteration variable gives the range elements
    whose instance was not pruned, in range order; in particular, if no instance is pruned, the
    children are in one-to-one, order-preserving correspondence with the range. -/
theorem C15_iterator_one_per_element_in_order (ctx : Ctx) (var : String) (body : Tmpl) (hs : single body = true)
    (vals : List String) :
    let kids := (vals.foldr (fun v acc => (proc cfg ctx [(var, v)] body).seq acc) Out.empty).f
    kids.infos.map (fun i => lookup i.ownV var) =
      (vals.filter fun v => !(proc cfg ctx [(var, v)] body).f.isNil).map some ∧
    ((∀ v ∈ vals, (proc cfg ctx [(var, v)] body).f.isNil = false) →
      kids.infos.map (fun i => lookup i.ownV var) = vals.map some) := by
  have h := iter_bindings (cfg := cfg) ctx var body hs vals
  refine ⟨h, fun hall => ?_⟩
  rw [h]
  congr 1
  rw [List.filter_eq_self]
  intro v hv; simp [hall v hv]

/-- A `begin`/`end` range is the integers begin, begin+1, …, end in ascending order (empty
    when end < begin), each printed in decimal. -/
theorem C15_range_order (ρ : Look) (b e : Field) (bs es : String) (bi ei : Int)
    (hb : evalField ρ b = some bs) (he : evalField ρ e = some es)
    (hbi : parseInt bs = some bi) (hei : parseInt es = some ei) :
    evalRange ρ (.fromTo b e) = some ((List.range (ei - bi + 1).toNat).map fun k => toString (bi + Int.ofNat k)) := by
  simp [evalRange, hb, he, hbi, hei, intRange]

/-! ### nested iterators: every generated child evaluates the inner range for itself -/

/-- The iteration variable reaches the generated role's children: in the stack the role hands
    down — the one a nested iterator's `begin` / `end` / `range` is evaluated against — the
    variable reads the element THIS role was generated for (unless a user variable of the same
    name overrides it, as `FlattenStack(defaults, vars, uservars)` has it); the same holds for
    whatever the role's own `defaults` / `vars` derived from it, since they are evaluated with
    the local in scope (`procHdr`, stages 1–2). -/
theorem C15_iteration_var_reaches_children (ctx : Ctx) (var v : String) (h : Hdr) (x : List Field)
    (i : Info) (c' : Ctx) (ex : List String)
    (hh : procHdr ctx [(var, v)] h x = .ok i c' ex) (hu : lookup (h.uvars ++ ctx.U) var = none) :
    c'.lookRange var = some v ∧ lookup i.ownV var = some v := by
  refine ⟨procHdr_binds hh var v (lookup_loc var v []) hu, ?_⟩
  obtain ⟨_, v', hv⟩ := procHdr_ok hh
  simp [hv, lookup_loc]

/-- Depth 2, spelled out: the role generated by an outer iterator for element `v` (an
    aggregator `h` whose first child is an inner iterator) gets, in range order, one instance of
    the inner template per element of the inner range AS EVALUATED IN ITS OWN STACK `c'` — the
    stack produced by its own header under `var := v` — followed by its other children. Nothing
    of a sibling generated for another element enters: the statement mentions `v` only. -/
theorem C15_nested_iterator_own_range (ctx : Ctx) (var v : String) (h : Hdr) (rng2 : RangeT) (var2 : String)
    (body2 knext : Tmpl) (i : Info) (c' : Ctx) (ex : List String) (ws : List String)
    (hh : procHdr ctx [(var, v)] h [] = .ok i c' ex)
    (hr : evalRange c'.lookRange rng2 = some ws)
    (hen : iterKeep cfg (rawEnabled body2) (ws.foldr (fun w acc => (proc cfg c' [(var2, w)] body2).f ++ acc) .nil) = true) :
    (proc cfg ctx [(var, v)] (.agg h (.iter rng2 var2 body2 knext) .nil)).f =
      .agg i (.iter (ws.foldr (fun w acc => (proc cfg c' [(var2, w)] body2).f ++ acc) .nil) .nil ++ (proc cfg c' [] knext).f) .nil := by
  simp [proc, hh, hr, hen, iterOut, fold_f, aggOut]

/-- …and when the inner range does not evaluate in that child's stack (e.g. a bound that is not
    an integer for THIS element), the load fails. -/
theorem C15_nested_iterator_range_error (ctx : Ctx) (var v : String) (h : Hdr) (rng2 : RangeT) (var2 : String)
    (body2 knext next : Tmpl) (i : Info) (c' : Ctx) (ex : List String)
    (hh : procHdr ctx [(var, v)] h [] = .ok i c' ex) (hr : evalRange c'.lookRange rng2 = none) :
    (proc cfg ctx [(var, v)] (.agg h (.iter rng2 var2 body2 knext) next)).err = true := by
  simp [proc, hh, hr]

/-- Sibling copies of an iterator's template do not influence each other (no state is shared
    between the copies): the outcome over a concatenated range is the concatenation of the
    outcomes, so what is generated for one element — nested iterators at any depth included,
    `body` is arbitrary — is a function of that element and the parent's stack alone. -/
theorem C15_iterator_children_independent (ctx : Ctx) (var : String) (body : Tmpl) (vs₁ vs₂ : List String) :
    (vs₁ ++ vs₂).foldr (fun v acc => (proc cfg ctx [(var, v)] body).seq acc) Out.empty =
      (vs₁.foldr (fun v acc => (proc cfg ctx [(var, v)] body).seq acc) Out.empty).seq
        (vs₂.foldr (fun v acc => (proc cfg ctx [(var, v)] body).seq acc) Out.empty) :=
  fold_append ctx var body vs₁ vs₂

/-- EVERY nesting depth: in a nest of n iterators (`nest`, n = `ls.length + 1`; for the code as
    it was — and only for it — each over an aggregator with a plain truthy `enabled`, see
    `C15_nested_every_depth_code`) the task / call roles are, in order, those of the
    innermost template instantiated once per stack of `nestCtxs` — i.e. one instance per tuple
    (w₁, …, wₙ) with wₖ ranging, in range order, over level k's range evaluated in the stack of
    the role generated for (w₁, …, wₖ₋₁). -/
theorem C15_nested_every_depth (ctx : Ctx) (loc : Env) (l : Level) (ls : List Level) (inner : Tmpl)
    (hen : cfg.iterByRawText = true → nestEnabled (l :: ls) = true) :
    (proc cfg ctx loc (nest (l :: ls) inner)).f.leaves =
      (nestCtxs ctx (l :: ls)).flatMap fun c => (proc cfg c [] inner).f.leaves := by
  rw [← nest_leaves inner (l :: ls) ctx hen]
  simp only [nest]
  rw [proc_iter_loc]

/-- THE CODE AS IT IS, no side condition on the `enabled` fields of the levels: they may be
    expressions, also over the iteration variables; a generated aggregator whose `enabled` is
    false (or fails) simply has no stack in `nestCtxs`. -/
theorem C15_nested_every_depth_code (ctx : Ctx) (loc : Env) (l : Level) (ls : List Level) (inner : Tmpl) :
    (proc codeCfg ctx loc (nest (l :: ls) inner)).f.leaves =
      (nestCtxs ctx (l :: ls)).flatMap fun c => (proc codeCfg c [] inner).f.leaves :=
  C15_nested_every_depth ctx loc l ls inner (fun h => by cases h)

/-- …under every schedule and every setting of the three switches (nests are templates). -/
theorem C15_nested_schedule_indep (sw : Switches) (sched : List Step) (root : Hdr) (ls : List Level) (inner : Tmpl) :
    loadWith cfg sw sched (.agg root (nest ls inner) .nil) = load cfg (.agg root (nest ls inner) .nil) := by
  unfold loadWith
  split
  · exact loadSeq_eq _
  · exact C15_schedule_indep sched _

/-- FULL-STRENGTH statement (true of the code as it is: `C15_iterator_code`; false of the code as
    it was: `C15_finding_iterator_enabled_expr`): the code's loader yields what the ideal loader yields whenever no `enabled` fails to
    evaluate and no hollow aggregator is kept — i.e. iterators contribute one child per
    surviving element whatever their template's `enabled` looks like. -/
def C15_iterator_full (cfg : Cfg) : Prop :=
  ∀ t : Tmpl, (proc cfg {} [] t).ev.masked = false → (proc cfg {} [] t).ev.hollow = false → load cfg t = idealLoad t

/-! ## template errors -/

/-- An error in any field other than `enabled` of a role that is processed makes the
    sibling list's result an error, whatever the other siblings yield. -/
theorem C15_error_propagates (ctx : Ctx) (loc : Env) :
    (∀ h kids next, procHdr ctx loc h [] = .error → (proc cfg ctx loc (.agg h kids next)).err = true) ∧
    (∀ h x c next, procHdr ctx loc h x = .error → (proc cfg ctx loc (.task h x c next)).err = true) ∧
    (∀ h x c next, procHdr ctx loc h x = .error → (proc cfg ctx loc (.call h x c next)).err = true) ∧
    (∀ rng var body next, evalRange ctx.lookRange rng = none → (proc cfg ctx loc (.iter rng var body next)).err = true) ∧
    (∀ h kids next i c' ex, procHdr ctx loc h [] = .ok i c' ex → (proc cfg c' [] kids).err = true →
        (proc cfg ctx loc (.agg h kids next)).err = true) := by
  refine ⟨?_, ?_, ?_, ?_, ?_⟩
  · intro h kids next hh; simp [proc, hh]
  · intro h x c next hh; simp [proc, hh, leafOut]
  · intro h x c next hh; simp [proc, hh, leafOut]
  · intro rng var body next hr; simp [proc, hr]
  · intro h kids next i c' ex hh hk; simp [proc, hh, hk]

/-- If, under ANY schedule, some goroutine has hit a template error, the load fails: no
    partial tree is handed back. -/
theorem C15_error_fails_load (sched : List Step) (t : Tmpl)
    (h : hasFailed (run cfg (.pend {} [] t .nil) sched) = true) : load cfg t = .error := by
  have := hasFailed_err (cfg := cfg) _ h
  rw [finish_run, finish_init] at this
  simp [load, Out.loaded, this]

/-- A failed load exposes no tree, and a load that hands back a tree had no error anywhere. -/
theorem C15_error_no_partial_tree (t : Tmpl) : (proc cfg {} [] t).err = true ↔ load cfg t = .error := by
  unfold load Out.loaded
  constructor
  · intro h; simp [h]
  · intro h
    split at h
    · assumption
    · split at h <;> cases h

/-- FULL-STRENGTH statement (true of the code as it is: `C15_error_code`; false of the code as it
    was: `C15_finding_enabled_error_masked`): ANY template error — also one in an `enabled` expression — fails the load. -/
def C15_error_full (cfg : Cfg) : Prop := ∀ t : Tmpl, (ideal {} [] t).err = true → load cfg t = .error

/-- For every configuration: every template error fails the load, for loads free of the three
    recorded behaviours (`ev.none`; for the legacy code the one that matters is `ev.masked`). -/
theorem C15_error_partial (hl : cfg.inclPublishLate = false) (t : Tmpl) (hm : (proc cfg {} [] t).ev.none = true)
    (he : (ideal {} [] t).err = true) : load cfg t = .error := by
  rw [proc_ideal hl t {} [] hm] at he
  simp [load, Out.loaded, Out.toI] at he ⊢
  simp [he]

/-! ## the code against the ideal loader -/

/-- For every configuration: when none of the three recorded behaviours occurs in a load (no `enabled` expression
    fails to evaluate, no iterator with surviving children is dropped because of its
    template's raw `enabled`, no aggregator is kept over iterators that yielded nothing), the
    code's loader returns exactly what the property demands (`Spec`). -/
theorem C15_code_meets_spec_partial (hl : cfg.inclPublishLate = false) (t : Tmpl) (h : (proc cfg {} [] t).ev.none = true) :
    Spec t (load cfg t) = true := by
  simp [Spec, load_ideal hl t h]

/-- For every configuration (what was proved in place of `C15_iterator_full` while the finding was
    open): the same, for templates in which every
    iterator's template is one role whose `enabled` is plain text (a purely syntactic,
    decidable condition) — then the dropped-iterator behaviour cannot occur. -/
theorem C15_iterator_partial (hp : cfg.inclPublishLate = false) (t : Tmpl) (hl : iterEnabledLiteral t = true)
    (hm : (proc cfg {} [] t).ev.masked = false) (hh : (proc cfg {} [] t).ev.hollow = false) : load cfg t = idealLoad t := by
  apply load_ideal hp
  have hd := proc_no_iterDrop (cfg := cfg) t {} [] hl
  simp [Events.none, hm, hh, hd]

/-- The ideal loader's result never contains an empty aggregator or an iterator node (all templates). -/
theorem C15_ideal_wellformed (t : Tmpl) :
    (idealLoad t).all noEmptyAgg = true ∧ (idealLoad t).all noIter = true := by
  unfold idealLoad IOut.loaded
  have h := ideal_wf t {} []
  split
  · exact ⟨rfl, rfl⟩
  · split
    · exact ⟨rfl, rfl⟩
    · simp [Loaded.all, h.1, h.2]

/-! ## the code as it is (after the two repairs): the three statements at full strength -/

/-- For THE CODE AS IT IS none of the three recorded behaviours exists: whatever the template,
    whatever stack and locals a sibling list is processed under, no `enabled` error is swallowed,
    no iterator is dropped although it generated a role that is left, no aggregator is kept over
    iterators that yielded nothing. -/
theorem C15_no_recorded_behaviour_code (t : Tmpl) (ctx : Ctx) (loc : Env) : (proc codeCfg ctx loc t).ev = {} :=
  proc_code_ev rfl rfl t ctx loc

/-- In the tree as the code stores it NOW every iterator node holds at least one role, and a
    sibling list that is not empty contains a real (non-iterator) role. -/
theorem C15_no_hollow_iterator_code (t : Tmpl) (ctx : Ctx) (loc : Env) :
    hasNode (proc codeCfg ctx loc t).f = !(proc codeCfg ctx loc t).f.isNil :=
  proc_code_solid rfl t ctx loc

/-- THE PROPERTY, for the code as it is, ALL templates, no hypothesis: the loader returns exactly
    what the ideal loader of `Spec/C15.lean` returns — disabled roles absent with their subtree,
    aggregators left empty gone, one instance of an iterator's template per range element in order
    (each instance deciding its own `enabled`), and ANY template error fails the load. -/
theorem C15_code_meets_spec (t : Tmpl) : Spec t (load codeCfg t) = true := by
  simp [Spec, load_code_ideal t]

/-- …under every setting of the three switches and every schedule. -/
theorem C15_code_meets_spec_all_schedules (sw : Switches) (sched : List Step) (t : Tmpl) :
    Spec t (loadWith codeCfg sw sched t) = true := by
  have h : loadWith codeCfg sw sched t = load codeCfg t := by
    unfold loadWith
    split
    · exact loadSeq_eq t
    · exact C15_schedule_indep sched t
  rw [h]; exact C15_code_meets_spec t

/-- `C15_iterator_full`, PROVED for the code as it is (was finding iterator_enabled_expr). -/
theorem C15_iterator_code : C15_iterator_full codeCfg := fun t _ _ => load_code_ideal t

/-- `C15_empty_agg_gone_full`, PROVED for the code as it is (was finding hollow_iterator). -/
theorem C15_empty_agg_gone_code : C15_empty_agg_gone_full codeCfg := by
  intro t
  rw [load_code_ideal t]
  exact (C15_ideal_wellformed t).1

/-- `C15_error_full`, PROVED for the code as it is (was finding enabled_error_masked): a template
    error in ANY field of a role that is reached, `enabled` included, fails the load. -/
theorem C15_error_code : C15_error_full codeCfg := by
  intro t he
  rw [load_code_ideal t]
  simp [idealLoad, IOut.loaded, he]

/-- An `enabled` expression that does not evaluate fails the load of its sibling list (stated on
    the role itself; `C15_error_code` is the statement for whole templates). -/
theorem C15_enabled_error_propagates_code (ctx : Ctx) (loc : Env) (h : Hdr)
    (he : evalField (ctx.look loc) h.enabled = none) :
    (∀ kids next, (proc codeCfg ctx loc (.agg h kids next)).err = true) ∧
    (∀ x c next, (proc codeCfg ctx loc (.task h x c next)).err = true) ∧
    (∀ x c next, (proc codeCfg ctx loc (.call h x c next)).err = true) := by
  refine ⟨?_, ?_, ?_⟩ <;> intros <;> simp [proc, procHdr_masked he, leafOut, maskedOut, codeCfg]

/-- The two repairs are conservative: a load that was free of the three behaviours under the
    code as it was gives exactly the same result under the code as it is. -/
theorem C15_repair_conservative (t : Tmpl) (h : (proc legacyCfg {} [] t).ev.none = true) :
    load codeCfg t = load legacyCfg t := by
  rw [load_code_ideal t, load_ideal rfl t h]

/-- …and, syntactically: templates in which every iterator's template carries a literal
    `enabled`, loaded without a swallowed `enabled` error and without a hollow aggregator. -/
theorem C15_repair_conservative_literal (t : Tmpl) (hl : iterEnabledLiteral t = true)
    (hm : (proc legacyCfg {} [] t).ev.masked = false) (hh : (proc legacyCfg {} [] t).ev.hollow = false) :
    load codeCfg t = load legacyCfg t := by
  rw [load_code_ideal t, C15_iterator_partial rfl t hl hm hh]

/-! ## include roles

  An include role (`Tmpl.incl`) carries the header written at the include site, the `include:`
  expression and the documents of the workflow repository it can name (`Tmpl.doc`). All theorems
  above quantify over ALL templates and therefore cover include roles — plain, under iterators,
  nested in included documents — without further ado: one result under every schedule and
  switch setting (`C15_schedule_indep`, `C15_deterministic`), the sequential path equals the
  concurrent one, the code returns what the ideal loader demands (`C15_code_meets_spec`), no empty
  aggregator, only enabled roles, any error fails the load. What follows says what an include
  role IS and what its place under an iterator means. -/

/-- An include role whose own header evaluates: the sibling list continues with the documents
    it can name, read in the SITE's stack `cw` — the header's own defaults / vars in front of
    the parent's, exactly as for the children of an aggregator, plus the note which document is
    wanted (the evaluated `include:` expression) under which name (the role's evaluated name);
    the document exists. The role contributes whatever that document's root contributes. -/
theorem C15_include_is_loaded_root (ctx : Ctx) (loc : Env) (h : Hdr) (inc : Field) (docs next : Tmpl)
    (i : Info) (cw : Ctx) (ex : List String) (hh : inclHdr cfg ctx loc h inc docs = .ok i cw ex) :
    proc cfg ctx loc (.incl h inc docs next) = (proc cfg cw [] docs).seq (proc cfg ctx loc next) ∧
    (∃ c', procHdr ctx loc h [inc] = .ok i c' ex ∧ cw.D = c'.D ∧ cw.U = c'.U ∧
      cw.want = some (ex.headD "", i.name)) ∧
    hasDoc (ex.headD "") docs = true := by
  refine ⟨by simp [proc, hh], ?_⟩
  obtain ⟨c', hp, hd, hcw⟩ := inclHdrP_ok hh
  exact ⟨⟨c', hp, by rw [hcw], by rw [hcw], by rw [hcw]⟩, hd⟩

/-- The wanted document's root is processed as an AGGREGATOR with the document's own `enabled`,
    defaults, vars, constraints, channels and children, no Locals, and the include role's name in
    the name field — against the site's stack; every other document is not there. (So: the
    included root's `enabled` and variables are evaluated below the include role's, its name is
    the include role's, and it disappears like any aggregator when disabled or left empty.) -/
theorem C15_included_root (ctx : Ctx) (loc : Env) (f nm : String) (hw : ctx.want = some (f, nm))
    (hd : Hdr) (kids more : Tmpl) :
    proc cfg ctx loc (.doc f hd kids more) =
      (proc cfg ctx [] (.agg { hd with name := [.text nm] } kids .nil)).seq (proc cfg ctx loc more) ∧
    (∀ f', f' ≠ f → proc cfg ctx loc (.doc f' hd kids more) = proc cfg ctx loc more) := by
  refine ⟨by simp [proc, docHdr, hw], ?_⟩
  intro f' hne
  have : (f == f') = false := by simpa using fun h => hne h.symm
  simp [proc, docHdr, hw, this]

/-- A document outside an include (no include role asked for it) is no role. -/
theorem C15_document_alone_is_no_role (ctx : Ctx) (loc : Env) (hw : ctx.want = none) (f : String) (hd : Hdr)
    (kids more : Tmpl) : proc cfg ctx loc (.doc f hd kids more) = proc cfg ctx loc more := by
  simp [proc, docHdr_none f hd hw]

/-- A disabled include role is absent with everything it would have included: the sub-workflow
    is not even looked up (an unknown document, or an error inside it, goes unnoticed). -/
theorem C15_include_pruned (ctx : Ctx) (loc : Env) (h : Hdr) (en : String)
    (he : evalField (ctx.look loc) h.enabled = some en) (hf : truthy en = false) (inc : Field) (docs next : Tmpl) :
    proc cfg ctx loc (.incl h inc docs next) = proc cfg ctx loc next := by
  simp [proc, inclHdr, inclHdrP, procHdr_disabled he hf]

/-- An include role whose loaded root ends up without roles disappears (the root is an aggregator). -/
theorem C15_include_empty_root_gone (ctx : Ctx) (loc : Env) (f : String) (h : Hdr) (kids next : Tmpl)
    (i : Info) (c' : Ctx) (ex : List String)
    (hh : docHdr ctx f h = .ok i c' ex) (hk : (proc cfg c' [] kids).f = .nil) :
    (proc cfg ctx loc (.doc f h kids next)).f = (proc cfg ctx loc next).f := by
  simp [proc, hh, aggOut, hk]

/-- Template errors around an include fail the load: in the include role's own fields (name,
    `include:` expression, variables, constraints, channels), an `include:` that names no document,
    and ANY error inside the included tree. -/
theorem C15_include_error_propagates (ctx : Ctx) (loc : Env) (h : Hdr) (inc : Field) (docs next : Tmpl) :
    (procHdr ctx loc h [inc] = .error → (proc cfg ctx loc (.incl h inc docs next)).err = true) ∧
    (∀ i c' ex, procHdr ctx loc h [inc] = .ok i c' ex → hasDoc (ex.headD "") docs = false →
      (proc cfg ctx loc (.incl h inc docs next)).err = true) ∧
    (∀ i cw ex, inclHdr cfg ctx loc h inc docs = .ok i cw ex → (proc cfg cw [] docs).err = true →
      (proc cfg ctx loc (.incl h inc docs next)).err = true) := by
  refine ⟨?_, ?_, ?_⟩
  · intro hh; simp [proc, inclHdr, inclHdrP, hh]
  · intro i c' ex hh hd
    have : inclHdr cfg ctx loc h inc docs = .error := by
      simp only [inclHdr, inclHdrP, hh]; rw [hd]; simp
    simp [proc, this]
  · intro i cw ex hh he; simp [proc, hh, he]

/-- …also in its `enabled` (the code as it is). -/
theorem C15_include_enabled_error_code (ctx : Ctx) (loc : Env) (h : Hdr)
    (he : evalField (ctx.look loc) h.enabled = none) (inc : Field) (docs next : Tmpl) :
    (proc codeCfg ctx loc (.incl h inc docs next)).err = true := by
  simp [proc, inclHdr, inclHdrP, procHdr_masked he, maskedOut, codeCfg]

/-- ITERATED INCLUDE, the code as it is: the role generated for element `v` reads the documents in a
    stack in which the iteration variable IS `v` — for the included root's `enabled` and defaults
    (stage 0/1 view, `look []`) and for whatever a role or a nested iterator below resolves
    (`lookRange`) — unless a user variable of that name overrides it. -/
theorem C15_iterated_include_binds_code (ctx : Ctx) (var v : String) (h : Hdr) (inc : Field) (docs : Tmpl)
    (i : Info) (cw : Ctx) (ex : List String)
    (hh : inclHdr codeCfg ctx [(var, v)] h inc docs = .ok i cw ex) (hu : lookup (h.uvars ++ ctx.U) var = none) :
    cw.binds var v ∧ cw.lookRange var = some v ∧ cw.look [] var = some v := by
  have hb := inclHdrP_binds (show inclHdrP true ctx [(var, v)] h inc docs = .ok i cw ex from hh) var v (lookup_loc var v []) hu
  have hnil : lookup ([] : Env) var = none := rfl
  refine ⟨hb, ?_, ?_⟩ <;> simp [Ctx.lookRange, Ctx.look, lookupChain, hb.1, hb.2, hnil]

/-- EVERY DEPTH, every configuration: below a stack that binds `var := v`, every role the load
    keeps — through aggregators, iterators, include roles and the documents they load, to any
    depth — reads `v` under that name in its consolidated variable stack, as long as no role in
    between gives the name a nearer value (`noRebind`: no `vars` / user variable of that name, no
    iterator over that name). -/
theorem C15_iteration_var_every_depth (var v : String) (t : Tmpl) (ctx : Ctx) (loc : Env)
    (hn : noRebind var t = true) (hb : ctx.binds var v) (hl : lookup loc var = none ∨ lookup loc var = some v) :
    ∀ i ∈ (proc cfg ctx loc t).f.allInfos, lookup i.stack var = some v :=
  proc_keeps var v t ctx loc hn hb hl

/-- …hence, for THE CODE AS IT IS: every role of the sub-workflow an iterated include role loads for
    element `v` — the loaded root itself, its tasks, calls, aggregators, the roles nested iterators
    and further includes generate, at every depth — sees the iteration variable bound to `v`. -/
theorem C15_iterated_include_var_every_depth_code (ctx : Ctx) (var v : String) (h : Hdr) (inc : Field) (docs : Tmpl)
    (hu : lookup (h.uvars ++ ctx.U) var = none) (hn : noRebind var docs = true) :
    ∀ j ∈ (proc codeCfg ctx [(var, v)] (.incl h inc docs .nil)).f.allInfos, lookup j.stack var = some v := by
  intro j hj
  simp only [proc, Out.seq_empty] at hj
  cases hh : inclHdr codeCfg ctx [(var, v)] h inc docs with
  | ok i cw ex =>
    rw [hh] at hj
    exact proc_keeps var v docs cw [] hn (C15_iterated_include_binds_code ctx var v h inc docs i cw ex hh hu).1 (Or.inl rfl) j hj
  | error => rw [hh] at hj; simp [Tree.allInfos] at hj
  | masked => rw [hh] at hj; simp [maskedOut, codeCfg, Tree.allInfos] at hj
  | disabled => rw [hh] at hj; simp [Out.empty, Tree.allInfos] at hj

/-- An include role no iterator generated has no Locals: WHEN they are published is immaterial
    (every configuration computes the header the property describes). -/
theorem C15_include_order_immaterial_without_locals (ctx : Ctx) (h : Hdr) (inc : Field) (docs : Tmpl) :
    inclHdr cfg ctx [] h inc docs = inclHdrP true ctx [] h inc docs := by
  unfold inclHdr
  cases cfg.inclPublishLate
  · rfl
  · exact inclHdrP_nolocals ctx h inc docs

/-- Includes under every schedule and every setting of the three switches (they are templates). -/
theorem C15_include_deterministic (sw sw' : Switches) (sched sched' : List Step) (root : Hdr) (rng : RangeT) (var : String)
    (h : Hdr) (inc : Field) (docs more : Tmpl) :
    loadWith cfg sw sched (.agg root (.iter rng var (.incl h inc docs .nil) more) .nil) =
      loadWith cfg sw' sched' (.agg root (.iter rng var (.incl h inc docs .nil) more) .nil) :=
  C15_deterministic sw sw' sched sched' _

/-! ## findings, machine-checked on witnesses -/

namespace Load.Witness

def hdr (name : String) (enabled : Field) (vars : List (String × Field) := []) : Hdr :=
  { name := [.text name], enabled := enabled, defaults := [], vars := vars, uvars := [], cons := [], binds := [], connects := [] }

def lit (s : String) : Field := [.text s]

def taskX : List Field := [lit "readout", lit "0s", [], []]

/-- root → iterator (i in 1..2) over task `t-{{ i }}` with `enabled: "{{ e == 'on' }}"`, e = on -/
def iterExpr : Tmpl :=
  .agg (hdr "wf" (lit "true") [("e", lit "on")])
    (.iter (.fromTo (lit "1") (lit "2")) "i"
      (.task { hdr "t" [.bool (.eq (.var "e") (.lit "on"))] with name := [.text "t-", .str (.var "i")] } taskX true .nil) .nil) .nil

/-- root → [task a, aggregator g → iterator over an empty range] -/
def hollow : Tmpl :=
  .agg (hdr "wf" (lit "true"))
    (.task (hdr "a" (lit "true")) taskX true
      (.agg (hdr "g" (lit "true"))
        (.iter (.fromTo (lit "1") (lit "0")) "i" (.task (hdr "t" (lit "true")) taskX true .nil) .nil) .nil)) .nil

/-- root → [task a, task b with `enabled: "{{ typo == 'true' }}"`] -/
def masked : Tmpl :=
  .agg (hdr "wf" (lit "true"))
    (.task (hdr "a" (lit "true")) taskX true
      (.task (hdr "b" [.bool (.eq (.var "typo") (.lit "true"))]) taskX true .nil)) .nil

/-- root → for i in 1..3: aggregator `o-{{ i }}` with `vars: {n: "{{ i }}"}` → for j in 1..{{ n }}:
    aggregator `p-{{ j }}` → task `t-{{ i }}-{{ j }}`  (the inner range differs per outer child) -/
def nestLevels : List Level := [
  ⟨.fromTo (lit "1") (lit "3"), "i", { hdr "o" (lit "true") [("n", [.str (.var "i")])] with name := [.text "o-", .str (.var "i")] }⟩,
  ⟨.fromTo (lit "1") [.str (.var "n")], "j", { hdr "p" (lit "true") with name := [.text "p-", .str (.var "j")] }⟩]

def nested : Tmpl :=
  .agg (hdr "wf" (lit "true"))
    (nest nestLevels
      (.task { hdr "t" (lit "true") with name := [.text "t-", .str (.var "i"), .text "-", .str (.var "j")] } taskX true .nil)) .nil

/-- the document `readout`: root with `vars: {tag: "cfg-{{ det }}"}` → task `reader-{{ det }}`, aggregator `proc` →
    for n in 1..2: task `w{{ n }}-{{ det }}` -/
def readout : Tmpl :=
  .doc "readout" (hdr "readout" (lit "true") [("tag", [.text "cfg-", .str (.var "det")])])
    (.task { hdr "r" (lit "true") with name := [.text "reader-", .str (.var "det")] } taskX true
      (.agg (hdr "proc" (lit "true"))
        (.iter (.fromTo (lit "1") (lit "2")) "n"
          (.task { hdr "w" (lit "true") with name := [.text "w", .str (.var "n"), .text "-", .str (.var "det")] } taskX true .nil)
          .nil) .nil)) .nil

/-- root (`defaults: {det: NONE}` iff `shadowed`) → for det in ["TPC","ITS"]: include role `sub-{{ det }}`, `include: readout` -/
def iterIncl (shadowed : Bool) : Tmpl :=
  .agg { hdr "root" (lit "true") with defaults := if shadowed then [("det", lit "NONE")] else [] }
    (.iter (.list (lit "[\"TPC\",\"ITS\"]")) "det"
      (.incl { hdr "sub" (lit "true") with name := [.text "sub-", .str (.var "det")] } (lit "readout") readout .nil) .nil) .nil

end Load.Witness

/-- Finding `iterator_enabled_expr` (the code AS IT WAS, repaired by C15.fix-1): an iterator whose
    template carries `enabled: "{{ e == 'on' }}"` (true for every element) contributed NO role: the
    parent aggregator asks `iteratorRole.IsEnabled()`, which looked at the template's unprocessed text. -/
theorem C15_finding_iterator_enabled_expr : ¬ C15_iterator_full legacyCfg := by
  intro h
  have := h Load.Witness.iterExpr (by decide) (by decide)
  revert this; decide

/-- Finding `hollow_iterator` (the code AS IT WAS, repaired by C15.fix-1): an aggregator whose only
    child is an iterator over an empty range stayed in the tree, enabled, with no roles. -/
theorem C15_finding_hollow_iterator : ¬ C15_empty_agg_gone_full legacyCfg := by
  intro h
  have := h Load.Witness.hollow
  revert this; decide

/-- Finding `enabled_error_masked` (the code AS IT WAS, repaired by C15.fix-2): an unknown variable
    in an `enabled` expression did not fail the load; the role was silently dropped. -/
theorem C15_finding_enabled_error_masked : ¬ C15_error_full legacyCfg := by
  intro h
  have := h Load.Witness.masked (by decide)
  revert this; decide

/-- The three former witnesses under the code as it is: the iterator with a templated `enabled`
    yields its two tasks, the aggregator over an empty iterator is gone, the typo in `enabled`
    fails the load. -/
example :
    (match load codeCfg Load.Witness.iterExpr with | .tree tr => tr.leaves.map (·.name) | _ => []) = ["t-1", "t-2"] ∧
    (match load codeCfg Load.Witness.hollow with | .tree (.agg _ k _) => k.infos.map (·.name) | _ => []) = ["a"] ∧
    load codeCfg Load.Witness.masked = .error ∧
    load legacyCfg Load.Witness.iterExpr = .none ∧
    (match load legacyCfg Load.Witness.hollow with | .tree (.agg _ k _) => k.infos.map (·.name) | _ => []) = ["a", "g"] ∧
    (match load legacyCfg Load.Witness.masked with | .tree (.agg _ k _) => k.infos.map (·.name) | _ => []) = ["a"] := by decide

/-- Non-vacuity: a realistic template (variables across levels, an iterator over a list held
    in a variable, a disabled role, a role enabled by an expression) triggers none of the three
    behaviours, loads to a tree, and that tree has three roles under the root — for the code as
    it is and, identically, for the code as it was. -/
example :
    let t : Tmpl :=
      .agg { Load.Witness.hdr "wf" (Load.Witness.lit "true") [("hosts", Load.Witness.lit "[\"h1\",\"h2\"]"), ("qc", Load.Witness.lit "false")]
             with uvars := [("run", "7")] }
        (.iter (.list [.str (.var "hosts")]) "it"
          (.agg { Load.Witness.hdr "x" (Load.Witness.lit "true") with name := [.text "host-", .str (.var "it")] }
            (.task (Load.Witness.hdr "readout" (Load.Witness.lit " TRUE ")) Load.Witness.taskX true
              (.task (Load.Witness.hdr "qc" [.bool (.eq (.var "qc") (.lit "true"))]) Load.Witness.taskX false .nil)) .nil)
          (.call (Load.Witness.hdr "cfg" [.bool (.ne (.var "run") (.lit "0"))]) [Load.Witness.lit "f()", [], Load.Witness.lit "0s", [], []] true .nil)) .nil
    (proc codeCfg {} [] t).ev.none = true ∧ (proc codeCfg {} [] t).err = false ∧
      (match load codeCfg t with | .tree (.agg _ k _) => k.len | _ => 0) = 3 ∧
      (proc legacyCfg {} [] t).ev.none = true ∧ load legacyCfg t = load codeCfg t := by decide

/-- Non-vacuity for the nested-iterator theorems: a depth-2 nest whose inner range is
    `1..{{ n }}` with `n` set by each generated child from the outer iteration variable loads
    without any of the three recorded behaviours; outer child i gets exactly i grandchildren, in
    order; `nestCtxs` has the 1 + 2 + 3 = 6 stacks, the last of which binds i = 3, j = 3. -/
example :
    nestEnabled Load.Witness.nestLevels = true ∧
    (proc codeCfg {} [] Load.Witness.nested).ev.none = true ∧ (proc codeCfg {} [] Load.Witness.nested).err = false ∧
    (proc legacyCfg {} [] Load.Witness.nested).ev.none = true ∧
    (match load codeCfg Load.Witness.nested with | .tree tr => tr.leaves.map (·.name) | _ => []) =
      ["t-1-1", "t-2-1", "t-2-2", "t-3-1", "t-3-2", "t-3-3"] ∧
    (nestCtxs {} Load.Witness.nestLevels).map (fun c => (c.lookRange "i", c.lookRange "j")) =
      [(some "1", some "1"), (some "2", some "1"), (some "2", some "2"),
       (some "3", some "1"), (some "3", some "2"), (some "3", some "3")] := by decide

/-- WHY the include role publishes its Locals BEFORE it replaces its composed aggregatorRole (the
    order `C15_include_steps_is_code` pins): with the loop after the replacement (`lateInclCfg`,
    not the code) the iteration variable never reaches the included sub-workflow. On the witness
    `for det in [TPC, ITS]: include readout` the code builds reader-TPC, w1-TPC, w2-TPC, reader-ITS,
    … with `tag = cfg-TPC / cfg-ITS`; the late order builds every copy with the value of a `det`
    defined further up (reader-NONE twice) and, when there is none, fails to load a valid workflow
    — in both cases not what the property demands (`Spec`). -/
theorem C15_include_must_publish_before_swap :
    (match load codeCfg (Load.Witness.iterIncl true) with | .tree tr => tr.leaves.map (·.name) | _ => []) =
      ["reader-TPC", "w1-TPC", "w2-TPC", "reader-ITS", "w1-ITS", "w2-ITS"] ∧
    (match load lateInclCfg (Load.Witness.iterIncl true) with | .tree tr => tr.leaves.map (·.name) | _ => []) =
      ["reader-NONE", "w1-NONE", "w2-NONE", "reader-NONE", "w1-NONE", "w2-NONE"] ∧
    load codeCfg (Load.Witness.iterIncl false) ≠ .error ∧ load lateInclCfg (Load.Witness.iterIncl false) = .error ∧
    ¬ (∀ t : Tmpl, Spec t (load lateInclCfg t) = true) := by
  refine ⟨by decide, by decide, by decide, by decide, ?_⟩
  intro h
  have := h (Load.Witness.iterIncl false)
  revert this; decide

/-- Non-vacuity for the include theorems: the witness loads, under the code as it is, to a root with
    two include roles named after their element, each the loaded root of `readout` (its own var `tag`
    derived from the iteration variable) over a task and an aggregator; every role below the
    include sees `det` of ITS iteration; the hypotheses of `C15_iterated_include_var_every_depth_code`
    hold for it; a disabled include role and one naming an unknown document behave as stated. -/
example :
    (match load codeCfg (Load.Witness.iterIncl true) with
     | .tree (.agg _ k _) => k.infos.map (fun i => (i.name, lookup i.ownV "tag", lookup i.stack "det"))
     | _ => []) = [("sub-TPC", some "cfg-TPC", some "TPC"), ("sub-ITS", some "cfg-ITS", some "ITS")] ∧
    (match load codeCfg (Load.Witness.iterIncl true) with
     | .tree tr => tr.allInfos.map (fun i => lookup i.stack "det") | _ => []) =
      [some "NONE", some "TPC", some "TPC", some "TPC", some "TPC", some "TPC", some "ITS", some "ITS", some "ITS", some "ITS", some "ITS"] ∧
    noRebind "det" Load.Witness.readout = true ∧
    load codeCfg (.agg (Load.Witness.hdr "root" (Load.Witness.lit "true"))
      (.task (Load.Witness.hdr "a" (Load.Witness.lit "true")) Load.Witness.taskX true
        (.incl (Load.Witness.hdr "off" (Load.Witness.lit "false")) (Load.Witness.lit "nowhere") Load.Witness.readout .nil)) .nil) =
      load codeCfg (.agg (Load.Witness.hdr "root" (Load.Witness.lit "true"))
        (.task (Load.Witness.hdr "a" (Load.Witness.lit "true")) Load.Witness.taskX true .nil) .nil) ∧
    load codeCfg (.agg (Load.Witness.hdr "root" (Load.Witness.lit "true"))
      (.incl (Load.Witness.hdr "on" (Load.Witness.lit "true")) (Load.Witness.lit "nowhere") Load.Witness.readout .nil) .nil) = .error := by
  decide
